(** * Queues / farm: queue hygiene, totality of the end-blocker, exactly-once closing *)
From Irismod Require Import Queues.Farm.

(** The invariant between two operations of a block (entries of the current height are still
    queued: the end-blocker of this block will drain them). *)
Record QInv (s : state) : Prop := {
  f_nodup : NoDup (fq s);
  f_entry : forall h id, In (h, id) (fq s) ->
      exists p, get id (pools s) = Some p /\ p_end p = h /\ p_closed p = POpen;
  f_open : forall id p, get id (pools s) = Some p -> p_closed p = POpen -> In (p_end p, id) (fq s);
  f_future : forall h id, In (h, id) (fq s) -> height s <= h;
  f_seq : forall id p, get id (pools s) = Some p -> id <= seq s;
  f_closed : forall id p, get id (pools s) = Some p -> p_closed p <> POpen -> p_end p <= height s;
  f_log : forall id h, In (id, h) (refunds s) ->
      exists p, get id (pools s) = Some p /\ p_closed p = PRefunded /\ p_end p = h;
  f_log_nodup : NoDup (map fst (refunds s));
  f_refunded : forall id p, get id (pools s) = Some p -> p_closed p = PRefunded -> In (id, p_end p) (refunds s);
  f_keys : NoDup (keys (pools s))
}.

Lemma QInv_init h0 : QInv (init h0).
Proof. constructor; simpl; try (intros; contradiction); try constructor; try discriminate. Qed.

Ltac case_id id' id := destruct (eq_dec id' id) as [->|?].

(** a pool that [Expired] does not report as expired is still in the queue *)
Lemma not_expired_open s id p :
  QInv s -> get id (pools s) = Some p -> expired s id p = false -> p_closed p = POpen.
Proof.
  intros Q Hg He. destruct (eq_dec (p_closed p) POpen) as [Hc|Hc]; [exact Hc|exfalso].
  pose proof (f_closed s Q id p Hg Hc) as Hle.
  unfold expired in He. apply orb_false_iff in He. destruct He as [He1 He2].
  apply Z.ltb_ge in He1. assert (p_end p = height s) as Heq by lia.
  rewrite Heq, Z.eqb_refl in He2. simpl in He2. apply negb_false_iff in He2.
  apply ememb_In in He2. destruct (f_entry s Q _ _ He2) as (p' & Hg' & _ & Hc').
  rewrite Hg in Hg'. inversion Hg'; subst. contradiction.
Qed.

Lemma create_inv s st sp ed c r : QInv s -> QInv (fst (create s st sp ed c r)).
Proof.
  intros Q. unfold create.
  destruct (st <? height s) eqn:E1; [exact Q|]. destruct (sp <? 1) eqn:E2; [exact Q|].
  destruct r; try exact Q. simpl.
  apply Z.ltb_ge in E1. apply Z.ltb_ge in E2.
  destruct Q as [Qn Qe Qo Qf Qs Qc Ql Qln Qr Qk].
  assert (get (seq s + 1) (pools s) = None) as Hnone.
  { destruct (get (seq s + 1) (pools s)) as [p|] eqn:Hg; [|reflexivity]. specialize (Qs _ _ Hg). lia. }
  set (id := seq s + 1) in *.
  constructor; simpl.
  - apply NoDup_enq; assumption.
  - intros h id' Hin. apply In_enq in Hin. rewrite get_set_cases. destruct Hin as [Heq|Hin].
    + inversion Heq; subst. destruct (eq_dec id id); [|congruence]. eexists; repeat split.
    + destruct (Qe _ _ Hin) as (p & Hg & He & Hc). case_id id' id; [congruence|]. exists p; auto.
  - intros id' p. rewrite get_set_cases. case_id id' id.
    + intros Hp _. inversion Hp; subst; simpl. apply In_enq. left. reflexivity.
    + intros Hg Hc. apply In_enq. right. apply Qo; assumption.
  - intros h id' Hin. apply In_enq in Hin. destruct Hin as [Heq|Hin]; [inversion Heq; lia|eauto].
  - intros id' p. rewrite get_set_cases. case_id id' id; [intros _; lia|].
    intros Hg. specialize (Qs _ _ Hg). unfold id. lia.
  - intros id' p. rewrite get_set_cases. case_id id' id; [|apply Qc].
    intros Hp Hc. inversion Hp; subst; simpl in Hc. congruence.
  - intros id' h Hin. destruct (Ql _ _ Hin) as (p & Hg & Hrest). rewrite get_set_cases.
    case_id id' id; [congruence|]. exists p; auto.
  - exact Qln.
  - intros id' p. rewrite get_set_cases. case_id id' id; [|apply Qr].
    intros Hp Hc. inversion Hp; subst; simpl in Hc. discriminate.
  - apply keys_set_NoDup. exact Qk.
Qed.

Lemma adjust_inv s id sd av r : 0 <= av -> QInv s -> QInv (fst (adjust s id sd av r)).
Proof.
  intros Hav Q. unfold adjust. destruct (get id (pools s)) as [p|] eqn:Hg; [|exact Q].
  destruct (negb (p_editable p)); [exact Q|]. destruct (negb (sd =? p_creator p)); [exact Q|].
  destruct (expired s id p) eqn:Hex; [exact Q|]. destruct r; try exact Q.
  set (st := if p_start p <=? height s then height s else p_start p).
  assert (height s <= st) as Hst.
  { unfold st. destruct (p_start p <=? height s) eqn:E; [lia|]. apply Z.leb_gt in E. lia. }
  destruct (st + av =? p_end p) eqn:Ee; [exact Q|]. simpl.
  pose proof (not_expired_open s id p Q Hg Hex) as Hopen.
  destruct Q as [Qn Qe Qo Qf Qs Qc Ql Qln Qr Qk].
  constructor; simpl.
  - apply NoDup_enq. apply NoDup_deq. exact Qn.
  - intros h id' Hin. apply In_enq in Hin. rewrite get_set_cases. destruct Hin as [Heq|Hin].
    + inversion Heq; subst. destruct (eq_dec id id); [|congruence]. eexists; repeat split. exact Hopen.
    + apply In_deq in Hin. destruct Hin as [Hne Hin].
      destruct (Qe _ _ Hin) as (p' & Hg' & He' & Hc'). case_id id' id.
      * exfalso. apply Hne. congruence.
      * exists p'; auto.
  - intros id' p'. rewrite get_set_cases. case_id id' id.
    + intros Hp _. inversion Hp; subst; simpl. apply In_enq. left. reflexivity.
    + intros Hg' Hc'. apply In_enq. right. apply In_deq. split; [congruence|]. apply Qo; assumption.
  - intros h id' Hin. apply In_enq in Hin. destruct Hin as [Heq|Hin]; [inversion Heq; lia|].
    apply In_deq in Hin. destruct Hin as [_ Hin]. eauto.
  - intros id' p'. rewrite get_set_cases. case_id id' id; [intros _; eapply Qs; eauto|apply Qs].
  - intros id' p'. rewrite get_set_cases. case_id id' id; [|apply Qc].
    intros Hp Hc. inversion Hp; subst; simpl in Hc. contradiction.
  - intros id' h Hin. destruct (Ql _ _ Hin) as (p' & Hg' & Hc' & He'). rewrite get_set_cases.
    case_id id' id; [congruence|]. exists p'; auto.
  - exact Qln.
  - intros id' p'. rewrite get_set_cases. case_id id' id; [|apply Qr].
    intros Hp Hc. inversion Hp; subst; simpl in Hc. congruence.
  - apply keys_set_NoDup. exact Qk.
Qed.

(** [Refund] of a queued pool *)
Lemma close_pool_inv s id p how :
  QInv s -> get id (pools s) = Some p -> p_closed p = POpen -> how <> POpen ->
  (how = PStuck -> p_end p = height s) ->
  QInv (close_pool s id p how) /\ height (close_pool s id p how) = height s
  /\ fq (close_pool s id p how) = deq (p_end p, id) (fq s).
Proof.
  intros Q Hg Hopen Hhow Hstuck. split; [|split; reflexivity].
  pose proof (f_future s Q _ _ (f_open s Q _ _ Hg Hopen)) as Hge.
  destruct Q as [Qn Qe Qo Qf Qs Qc Ql Qln Qr Qk].
  assert (~ In id (map fst (refunds s))) as Hnolog.
  { intros Hi. apply in_map_iff in Hi. destruct Hi as ([i h] & Hf & Hi). simpl in Hf. subst i.
    destruct (Ql _ _ Hi) as (p' & Hg' & Hc' & _). congruence. }
  unfold close_pool. constructor; simpl.
  - apply NoDup_deq. exact Qn.
  - intros h id' Hin. apply In_deq in Hin. destruct Hin as [Hne Hin].
    destruct (Qe _ _ Hin) as (p' & Hg' & He' & Hc'). rewrite get_set_cases. case_id id' id.
    + exfalso. apply Hne. congruence.
    + exists p'; auto.
  - intros id' p'. rewrite get_set_cases. case_id id' id.
    + intros Hp Hc. inversion Hp; subst. destruct how; simpl in Hc; congruence.
    + intros Hg' Hc'. apply In_deq. split; [congruence|]. apply Qo; assumption.
  - intros h id' Hin. apply In_deq in Hin. destruct Hin as [_ Hin]. eauto.
  - intros id' p'. rewrite get_set_cases. case_id id' id; [intros _; eapply Qs; eauto|apply Qs].
  - intros id' p'. rewrite get_set_cases. case_id id' id; [|apply Qc].
    intros Hp _. inversion Hp; subst. destruct how; simpl; try lia. rewrite Hstuck; [lia|reflexivity].
  - intros id' h Hin. rewrite get_set_cases.
    assert (In (id', h) (refunds s) \/ (how = PRefunded /\ id' = id /\ h = height s)) as Hcases.
    { destruct how; auto. apply in_app_iff in Hin. destruct Hin as [Hin|[Heq|[]]]; [auto|].
      inversion Heq; subst. auto. }
    destruct Hcases as [Hin'|(-> & -> & ->)].
    + destruct (Ql _ _ Hin') as (p' & Hg' & Hc' & He'). case_id id' id; [congruence|]. exists p'; auto.
    + destruct (eq_dec id id); [|congruence]. eexists; repeat split.
  - destruct how; try exact Qln. rewrite map_app. simpl. apply NoDup_app_one; assumption.
  - intros id' p'. rewrite get_set_cases. case_id id' id.
    + intros Hp Hc. inversion Hp; subst. destruct how; simpl in Hc; try discriminate.
      simpl. apply in_app_iff. right. left. reflexivity.
    + intros Hg' Hc'. specialize (Qr _ _ Hg' Hc'). destruct how; try exact Qr.
      apply in_app_iff. left. exact Qr.
  - apply keys_set_NoDup. exact Qk.
Qed.

Lemma destroy_inv s id sd r : QInv s -> QInv (fst (destroy s id sd r)).
Proof.
  intros Q. unfold destroy. destruct (get id (pools s)) as [p|] eqn:Hg; [|exact Q].
  destruct (negb (sd =? p_creator p)); [exact Q|]. destruct (negb (p_editable p)); [exact Q|].
  destruct (expired s id p) eqn:Hex; [exact Q|]. destruct r; try exact Q. simpl.
  apply close_pool_inv; auto; [eapply not_expired_open; eauto|discriminate|discriminate].
Qed.

Lemma stake_inv s id r : QInv s -> QInv (fst (stake s id r)).
Proof.
  intros Q. unfold stake. destruct (get id (pools s)) as [p|]; [|exact Q].
  destruct (height s <? p_start p); [exact Q|]. destruct (expired s id p); exact Q.
Qed.

(** ** The drain loop of the end-blocker *)
Lemma expire_one_spec f1 f2 s id :
  QInv s -> In (height s, id) (fq s) ->
  QInv (expire_one f1 f2 s id) /\ height (expire_one f1 f2 s id) = height s
  /\ fq (expire_one f1 f2 s id) = deq (height s, id) (fq s).
Proof.
  intros Q Hin. destruct (f_entry s Q _ _ Hin) as (p & Hg & He & Hc).
  unfold expire_one. rewrite Hg.
  set (how := if existsb (Z.eqb id) f1 then PStuck else if existsb (Z.eqb id) f2 then PEmpty else PRefunded).
  assert (how <> POpen) as Hhow.
  { unfold how. destruct (existsb (Z.eqb id) f1); [discriminate|]. destruct (existsb (Z.eqb id) f2); discriminate. }
  destruct (close_pool_inv s id p how Q Hg Hc Hhow (fun _ => He)) as (Q1 & H1 & H2).
  split; [exact Q1|]. split; [exact H1|]. rewrite H2, He. reflexivity.
Qed.

Lemma expire_all_spec f1 f2 : forall ids s,
  QInv s -> NoDup ids -> (forall id, In id ids -> In (height s, id) (fq s)) ->
  let s' := fold_left (expire_one f1 f2) ids s in
  QInv s' /\ height s' = height s
  /\ (forall e, In e (fq s') <-> In e (fq s) /\ ~ (fst e = height s /\ In (snd e) ids)).
Proof.
  induction ids as [|id ids IH]; intros s Q Hnd Hin; simpl.
  - split; [exact Q|]. split; [reflexivity|]. intros e. tauto.
  - inversion Hnd as [|? ? Hnotin Hnd']; subst.
    destruct (expire_one_spec f1 f2 s id Q (Hin id (or_introl eq_refl))) as (Q1 & Hh1 & Hq1).
    destruct (IH (expire_one f1 f2 s id) Q1 Hnd') as (Q' & Hh' & Hq').
    + intros i Hi. rewrite Hh1, Hq1. apply In_deq. split; [|apply Hin; right; exact Hi].
      intros Heq. inversion Heq; subst. contradiction.
    + split; [exact Q'|]. split; [congruence|].
      intros e. rewrite Hq', Hh1, Hq1, In_deq. destruct e as [h i]; simpl. split.
      * intros ((Hne & Hi) & Hn). split; [exact Hi|]. intros (-> & [->|Hi']); [congruence|].
        apply Hn. auto.
      * intros (Hi & Hn). split; [split; [|exact Hi]|].
        { intros Heq. inversion Heq; subst. apply Hn. auto. }
        { intros (-> & Hi'). apply Hn. auto. }
Qed.

Lemma end_block_inv s f1 f2 : QInv s -> QInv (end_block s f1 f2) /\ height (end_block s f1 f2) = height s + 1.
Proof.
  intros Q. split; [|reflexivity]. unfold end_block.
  destruct (expire_all_spec f1 f2 (map snd (due (height s) (fq s))) s Q) as (Q' & Hh & Hq).
  - apply NoDup_due_ids. exact (f_nodup s Q).
  - intros id Hin. apply in_map_iff in Hin. destruct Hin as ([h i] & Hf & Hin). simpl in Hf. subst i.
    apply In_due in Hin. simpl in *. destruct Hin as [-> Hin]. exact Hin.
  - set (s' := fold_left (expire_one f1 f2) (map snd (due (height s) (fq s))) s) in *.
    destruct Q' as [Qn Qe Qo Qf Qs Qc Ql Qln Qr Qk].
    constructor; simpl; auto.
    + intros h id Hin. pose proof (Qf _ _ Hin) as Hle. rewrite Hh in Hle.
      assert (h <> height s); [|lia]. intros ->.
      apply Hq in Hin. destruct Hin as [Hin Hn]. apply Hn. simpl. split; [reflexivity|].
      apply in_map_iff. exists (height s, id). split; [reflexivity|]. apply In_due. auto.
    + intros id p Hg Hc. specialize (Qc _ _ Hg Hc). lia.
Qed.

(** ** Histories *)
(** the duration computed by AdjustPool is not negative (reward arithmetic: C09/C10) *)
Definition op_wf (o : op) : Prop := match o with Adjust _ _ av _ => 0 <= av | _ => True end.
(** ... and no refund of the end-blocker fails in updatePool *)
Definition op_clean (o : op) : Prop :=
  match o with Adjust _ _ av _ => 0 <= av | EndBlock f1 _ => f1 = [] | _ => True end.

Lemma op_clean_wf o : op_clean o -> op_wf o.
Proof. destruct o; simpl; auto. Qed.

Lemma step_inv s o : QInv s -> op_wf o -> QInv (fst (step s o)).
Proof.
  intros Q Hw. destruct o as [st sp ed c r|id sd av r|id sd r|id r|f1 f2]; simpl.
  - apply create_inv; exact Q.
  - apply adjust_inv; [exact Hw|exact Q].
  - apply destroy_inv; exact Q.
  - apply stake_inv; exact Q.
  - apply end_block_inv; exact Q.
Qed.

Lemma run_inv : forall ops s, QInv s -> Forall op_wf ops -> QInv (run s ops).
Proof.
  induction ops as [|o ops IH]; simpl; intros s Q Hc; [exact Q|].
  inversion Hc; subst. apply IH; [apply step_inv; assumption|assumption].
Qed.

Theorem QInv_reachable h0 ops : Forall op_wf ops -> QInv (run (init h0) ops).
Proof. intros Hc. apply run_inv; [apply QInv_init|exact Hc]. Qed.

(** the end-blocker has no aborting path at all: every error is logged and dropped *)
Theorem blocks_total_farm s f1 f2 : snd (step s (EndBlock f1 f2)) <> Abort.
Proof. simpl. discriminate. Qed.

(** ** no pool is dequeued without being refunded, unless a refund fails in updatePool *)
Definition NoStuck (s : state) : Prop := forall id p, get id (pools s) = Some p -> p_closed p <> PStuck.

Lemma close_pool_nostuck s id p how : NoStuck s -> how <> PStuck -> NoStuck (close_pool s id p how).
Proof.
  intros N Hh id' p'. unfold close_pool. simpl. rewrite get_set_cases. case_id id' id; [|apply N].
  intros Hp. inversion Hp; subst. destruct how; simpl; congruence.
Qed.

Lemma expire_all_nostuck f2 : forall ids s, NoStuck s -> NoStuck (fold_left (expire_one [] f2) ids s).
Proof.
  induction ids as [|id ids IH]; simpl; intros s N; [exact N|]. apply IH.
  unfold expire_one. destruct (get id (pools s)) as [p|] eqn:Hg; [|exact N].
  apply close_pool_nostuck; [exact N|]. simpl. destruct (existsb (Z.eqb id) f2); discriminate.
Qed.

Lemma step_nostuck s o : QInv s -> NoStuck s -> op_clean o -> NoStuck (fst (step s o)).
Proof.
  intros Q N Hc. destruct o as [st sp ed c r|id sd av r|id sd r|id r|f1 f2]; simpl.
  - unfold create. destruct (st <? height s); [exact N|]. destruct (sp <? 1); [exact N|].
    destruct r; try exact N. simpl. intros id' p'. simpl. rewrite get_set_cases.
    destruct (eq_dec id' (seq s + 1)); [|apply N]. intros Hp. inversion Hp; subst; simpl. discriminate.
  - unfold adjust. destruct (get id (pools s)) as [p|] eqn:Hg; [|exact N].
    destruct (negb (p_editable p)); [exact N|]. destruct (negb (sd =? p_creator p)); [exact N|].
    destruct (expired s id p); [exact N|]. destruct r; try exact N.
    destruct (_ =? p_end p); [exact N|]. simpl. intros id' p'. simpl. rewrite get_set_cases.
    case_id id' id; [|apply N]. intros Hp. inversion Hp; subst; simpl. eapply N; eauto.
  - unfold destroy. destruct (get id (pools s)) as [p|] eqn:Hg; [|exact N].
    destruct (negb (sd =? p_creator p)); [exact N|]. destruct (negb (p_editable p)); [exact N|].
    destruct (expired s id p); [exact N|]. destruct r; try exact N. simpl.
    apply close_pool_nostuck; [exact N|discriminate].
  - unfold stake. destruct (get id (pools s)) as [p|]; [|exact N].
    destruct (height s <? p_start p); [exact N|]. destruct (expired s id p); exact N.
  - simpl in Hc. subst f1. unfold end_block. intros id p. simpl. apply expire_all_nostuck. exact N.
Qed.

Lemma run_nostuck : forall ops s, QInv s -> NoStuck s -> Forall op_clean ops -> NoStuck (run s ops).
Proof.
  induction ops as [|o ops IH]; simpl; intros s Q N Hc; [exact N|].
  inversion Hc; subst. apply IH; [apply step_inv; [exact Q|apply op_clean_wf; assumption]|apply step_nostuck; assumption|assumption].
Qed.

(** every refund is logged with the height of the block that performed it; on every reachable
    state: a pool is refunded at most once, the logged height is its (final) end height; a
    pool still in the queue has not passed its end height and has exactly its entry; a pool
    out of the queue has been refunded or had nothing left to refund, at a height already
    reached, and has no entry. *)
Theorem processed_exactly_once_farm h0 ops :
  Forall op_clean ops ->
  let s := run (init h0) ops in
  NoDup (map fst (refunds s))
  /\ (forall id h, In (id, h) (refunds s) ->
        exists p, get id (pools s) = Some p /\ p_closed p = PRefunded /\ p_end p = h /\ h <= height s)
  /\ (forall id p, get id (pools s) = Some p -> p_closed p = PRefunded -> In (id, p_end p) (refunds s))
  /\ (forall id p, get id (pools s) = Some p -> p_closed p = POpen ->
        height s <= p_end p /\ In (p_end p, id) (fq s) /\ forall h, In (h, id) (fq s) -> h = p_end p)
  /\ (forall id p, get id (pools s) = Some p -> p_closed p <> POpen ->
        (p_closed p = PRefunded \/ p_closed p = PEmpty) /\ p_end p <= height s /\ forall h, ~ In (h, id) (fq s)).
Proof.
  intros Hc s.
  assert (Forall op_wf ops) as Hw by (eapply Forall_impl; [|exact Hc]; apply op_clean_wf).
  pose proof (QInv_reachable h0 ops Hw) as Q. fold s in Q.
  assert (NoStuck s) as N.
  { apply run_nostuck; [apply QInv_init| |exact Hc]. intros id p Hg. simpl in Hg. discriminate. }
  split; [exact (f_log_nodup s Q)|]. split; [|split; [exact (f_refunded s Q)|split]].
  - intros id h Hin. destruct (f_log s Q _ _ Hin) as (p & Hg & Hcl & He). exists p. repeat split; auto.
    subst h. apply (f_closed s Q _ _ Hg). congruence.
  - intros id p Hg Ho. pose proof (f_open s Q _ _ Hg Ho) as Hin. split; [exact (f_future s Q _ _ Hin)|].
    split; [exact Hin|]. intros h Hin'. destruct (f_entry s Q _ _ Hin') as (p' & Hg' & He' & _). congruence.
  - intros id p Hg Hno. split; [|split; [exact (f_closed s Q _ _ Hg Hno)|]].
    + specialize (N _ _ Hg). destruct (p_closed p); auto; congruence.
    + intros h Hin. destruct (f_entry s Q _ _ Hin) as (p' & Hg' & _ & Ho'). congruence.
Qed.

(** the hypothesis on the end-blocker is necessary: Refund dequeues first and its error is
    dropped, so a refund failing in updatePool leaves a pool out of the queue, never refunded *)
Theorem failing_refund_loses_pool :
  exists ops s p, s = run (init 1) ops /\ get 1 (pools s) = Some p /\ p_closed p = PStuck
                  /\ (forall h, ~ In (h, 1) (fq s)) /\ ~ In 1 (map fst (refunds s)).
Proof.
  exists [Create 1 2 true 0 Ok; EndBlock [] []; EndBlock [] []; EndBlock [1] []].
  eexists. eexists. split; [reflexivity|]. vm_compute. split; [reflexivity|]. split; [reflexivity|].
  split; intros; tauto.
Qed.
