(** * Queues / random: queue hygiene, totality of the begin-blocker, exactly-once draining *)
From Irismod Require Import Queues.Random.

Record QInv (s : state) : Prop := {
  r_nodup : NoDup (keys (rq s));
  (** an entry of destination height [d] is drained by block [d + 1]: never behind *)
  r_future : forall k v, get k (rq s) = Some v -> height s <= fst k;
  r_entry_made : forall k v, get k (rq s) = Some v -> In k (made s);
  (** no accepted request is lost: it is pending or has been drained *)
  r_made : forall k, In k (made s) -> (exists v, get k (rq s) = Some v) \/ In (k, fst k + 1) (done s);
  r_done : forall k p, In (k, p) (done s) -> p = fst k + 1 /\ p <= height s;
  r_done_nodup : NoDup (map fst (done s))
}.

Lemma QInv_init h0 : QInv (init h0).
Proof. constructor; simpl; try constructor; try discriminate; intros; contradiction. Qed.

Lemma request_inv s c i orc ctx ok : QInv s -> QInv (fst (request s c i orc ctx ok)).
Proof.
  intros Q. unfold request.
  destruct (negb ((0 <=? i) && (i <? two64))); [exact Q|].
  destruct (wrap64 (height s + wrap64 i) <? height s) eqn:Ed; [exact Q|].
  destruct (orc && negb ok); [exact Q|]. simpl.
  apply Z.ltb_ge in Ed. set (d := wrap64 (height s + wrap64 i)) in *.
  set (k := (d, (height s, c))). set (v := (orc, if orc then ctx else 0)).
  destruct Q as [Qn Qf Qe Qm Qd Qdn].
  assert (forall x, In x (made s) -> In x (if existsb (fun x0 => eqb x0 k) (made s) then made s else made s ++ [k])) as Hsub.
  { intros x Hx. destruct (existsb (fun x0 => eqb x0 k) (made s)); [exact Hx|apply in_app_iff; left; exact Hx]. }
  assert (In k (if existsb (fun x0 => eqb x0 k) (made s) then made s else made s ++ [k])) as Hk.
  { destruct (existsb (fun x0 => eqb x0 k) (made s)) eqn:E.
    - apply existsb_exists in E. destruct E as (x & Hx & Hxe). apply (proj1 (eqb_true_iff _ _)) in Hxe. subst. exact Hx.
    - apply in_app_iff. right. left. reflexivity. }
  constructor; simpl.
  - apply keys_set_NoDup. exact Qn.
  - intros k' v'. rewrite get_set_cases. destruct (eq_dec k' k) as [->|]; [|apply Qf]. intros _. exact Ed.
  - intros k' v'. rewrite get_set_cases. destruct (eq_dec k' k) as [->|]; [intros _; exact Hk|].
    intros Hg. apply Hsub. eapply Qe; eauto.
  - intros k' Hin. rewrite get_set_cases. destruct (eq_dec k' k) as [->|Hne]; [left; eauto|].
    assert (In k' (made s)) as Hin'.
    { destruct (existsb (fun x0 => eqb x0 k) (made s)); [exact Hin|].
      apply in_app_iff in Hin. destruct Hin as [H|[H|[]]]; [exact H|congruence]. }
    exact (Qm _ Hin').
  - exact Qd.
  - exact Qdn.
Qed.

Lemma begin_block_inv s t fails s' : QInv s -> begin_block s t fails = Some s' -> QInv s' /\ height s' = height s + 1.
Proof.
  intros Q. unfold begin_block.
  replace (height s + 1 - 1) with (height s) by lia.
  destruct (negb _ && (t =? 0)); [discriminate|]. intros E. inversion E; subst; clear E. split; [|reflexivity].
  destruct Q as [Qn Qf Qe Qm Qd Qdn].
  set (pk := fun k : rkey => negb (fst k =? height s)).
  assert (forall m : amap rkey rval, filter (fun kv => negb (is_due (height s) kv)) m = filter (fun kv => pk (fst kv)) m) as Hf
    by (intros m; apply filter_ext; intros [k v]; reflexivity).
  constructor; simpl.
  - unfold keys. apply NoDup_keys_filter. exact Qn.
  - intros k v. rewrite Hf, get_filter_key. unfold pk. destruct (fst k =? height s) eqn:Ek; simpl; [discriminate|].
    intros Hg. apply Z.eqb_neq in Ek. specialize (Qf _ _ Hg). lia.
  - intros k v. rewrite Hf, get_filter_key. destruct (pk k); [apply Qe|discriminate].
  - intros k Hin. rewrite Hf, get_filter_key. unfold pk.
    destruct (Qm _ Hin) as [(v & Hg)|Hd].
    + destruct (fst k =? height s) eqn:Ek; simpl; [|left; eauto].
      right. apply in_app_iff. right. apply in_map_iff. exists (k, v). apply Z.eqb_eq in Ek. split; [simpl; congruence|].
      apply filter_In. split; [apply get_In; exact Hg|]. unfold is_due. simpl. apply Z.eqb_eq. exact Ek.
    + right. apply in_app_iff. left. exact Hd.
  - intros k p Hin. apply in_app_iff in Hin. destruct Hin as [Hin|Hin].
    + destruct (Qd _ _ Hin). split; lia.
    + apply in_map_iff in Hin. destruct Hin as ([k0 v0] & Heq & Hin). inversion Heq; subst.
      apply filter_In in Hin. destruct Hin as [_ Hdue]. unfold is_due in Hdue. simpl in *. apply Z.eqb_eq in Hdue. lia.
  - rewrite map_app. apply NoDup_app_disj.
    + exact Qdn.
    + rewrite map_map. simpl. apply NoDup_keys_filter. exact Qn.
    + intros k Hin Hin2. apply in_map_iff in Hin. destruct Hin as ([k1 p1] & Hk1 & Hin). simpl in Hk1. subst k1.
      destruct (Qd _ _ Hin) as [Hp Hle].
      rewrite map_map in Hin2. simpl in Hin2. apply in_map_iff in Hin2. destruct Hin2 as ([k2 v2] & Hk2 & Hin2). simpl in Hk2. subst k2.
      apply filter_In in Hin2. destruct Hin2 as [_ Hdue]. unfold is_due in Hdue. simpl in Hdue. apply Z.eqb_eq in Hdue. lia.
Qed.

Lemma step_inv s o : QInv s -> QInv (fst (step s o)).
Proof.
  intros Q. destruct o as [c i orc ctx ok|t fails|ctxs]; simpl.
  - apply request_inv. exact Q.
  - destruct (begin_block s t fails) as [s'|] eqn:E; simpl; [|exact Q].
    exact (proj1 (begin_block_inv s t fails s' Q E)).
  - destruct Q as [Qn Qf Qe Qm Qd Qdn]. constructor; simpl; assumption.
Qed.

Lemma run_inv : forall ops s, QInv s -> QInv (run s ops).
Proof. induction ops as [|o ops IH]; simpl; intros s Q; [exact Q|]. apply IH. apply step_inv. exact Q. Qed.

Theorem QInv_reachable h0 ops : QInv (run (init h0) ops).
Proof. apply run_inv. apply QInv_init. Qed.

(** the begin-blocker cannot abort unless the block's unix time is exactly 0 *)
Theorem blocks_total_random s t fails : t <> 0 -> snd (step s (BeginBlock t fails)) <> Abort.
Proof.
  intros Ht. simpl. unfold begin_block. apply Z.eqb_neq in Ht. rewrite Ht, andb_false_r. simpl. discriminate.
Qed.

Theorem blocks_abort_random_at_time_zero :
  exists s, snd (step s (BeginBlock 0 [])) = Abort.
Proof. exists (fst (step (init 5) (Request 1 0 false 0 true))). vm_compute. reflexivity. Qed.

(** an entry is drained by exactly one block, the one after its destination height; every
    accepted request is either still queued for a height not yet passed or has been drained *)
Theorem processed_exactly_once_random h0 ops :
  let s := run (init h0) ops in
  NoDup (map fst (done s))
  /\ (forall k p, In (k, p) (done s) -> p = fst k + 1 /\ p <= height s)
  /\ (forall k, In k (made s) ->
        (exists v, get k (rq s) = Some v /\ height s <= fst k) \/ In (k, fst k + 1) (done s))
  /\ (forall k v, get k (rq s) = Some v -> In k (made s) /\ height s <= fst k).
Proof.
  intros s. pose proof (QInv_reachable h0 ops) as Q. fold s in Q. destruct Q as [Qn Qf Qe Qm Qd Qdn].
  split; [exact Qdn|]. split; [exact Qd|]. split.
  - intros k Hin. destruct (Qm _ Hin) as [(v & Hg)|Hd]; [left; exists v; split; [exact Hg|eapply Qf; eauto]|right; exact Hd].
  - intros k v Hg. split; [eapply Qe; eauto|eapply Qf; eauto].
Qed.

(** every oracle request drained by a block whose start did not fail is registered under its
    service context id (handed over to the service module) *)
Lemma In_add_all xs : forall l x, In x xs \/ In x l -> In x (add_all xs l).
Proof.
  induction xs as [|y xs IH]; simpl; intros l x H; [tauto|].
  apply IH. destruct H as [[->|H]|H]; [right|left; exact H|right].
  - destruct (existsb (Z.eqb x) l) eqn:E; [|apply in_app_iff; right; left; reflexivity].
    apply existsb_exists in E. destruct E as (z & Hz & Hze). apply Z.eqb_eq in Hze. subst. exact Hz.
  - destruct (existsb (Z.eqb y) l); [exact H|apply in_app_iff; left; exact H].
Qed.

Theorem oracle_requests_handed_over s t s' k ctx :
  begin_block s t [] = Some s' -> get k (rq s) = Some (true, ctx) -> fst k = height s -> In ctx (oreqs s').
Proof.
  unfold begin_block. replace (height s + 1 - 1) with (height s) by lia.
  destruct (negb _ && (t =? 0)); [discriminate|]. intros E Hg Hk. inversion E; subst; clear E. simpl.
  apply In_add_all. left. apply filter_In. split; [|reflexivity].
  apply in_map_iff. exists (k, (true, ctx)). split; [reflexivity|].
  apply filter_In. split; [|reflexivity]. apply filter_In. split; [apply get_In; exact Hg|].
  unfold is_due. simpl. apply Z.eqb_eq. exact Hk.
Qed.

(** a drained plain request has its random number, stamped with the destination height *)
Lemma get_set_all ids v : forall m i, In i ids \/ get i m = Some v -> get i (set_all ids v m) = Some v.
Proof.
  induction ids as [|j ids IH]; simpl; intros m i H; [destruct H as [[]|H]; exact H|].
  apply IH. destruct H as [[->|H]|H]; [right; apply get_set_same|left; exact H|right].
  rewrite get_set_cases. destruct (eq_dec i j); [reflexivity|exact H].
Qed.

Theorem plain_requests_fulfilled s t fails s' k c :
  begin_block s t fails = Some s' -> get k (rq s) = Some (false, c) -> fst k = height s ->
  get (snd k) (randoms s') = Some (height s).
Proof.
  unfold begin_block. replace (height s + 1 - 1) with (height s) by lia.
  destruct (negb _ && (t =? 0)); [discriminate|]. intros E Hg Hk. inversion E; subst; clear E. simpl.
  apply get_set_all. left. apply in_map_iff. exists (k, (false, c)). split; [reflexivity|].
  apply filter_In. split; [|reflexivity]. apply filter_In. split; [apply get_In; exact Hg|].
  unfold is_due. simpl. apply Z.eqb_eq. exact Hk.
Qed.
