(** * Queues / farm: the hygiene clause of the check predicate is a consequence of [QInv] —
    on the projection of any reachable model state clause 32 evaluates to [true]
    (the check cannot raise that alarm on an implementation that corresponds to the model). *)
From Irismod Require Import Queues.CheckFarm Queues.ProofsFarm.

Definition obs_of (s : state) : fobs := mkFObs 0 (height s) (proj_model s) (fq s).

Lemma get_proj id s :
  get id (proj_model s) = option_map (fun p => (p_start p, p_end p, is_paid (p_closed p))) (get id (pools s)).
Proof.
  unfold proj_model. rewrite <- (get_map_val (fun p => (p_start p, p_end p, is_paid (p_closed p)))).
  f_equal. apply map_ext. intros [i p]. reflexivity.
Qed.

Theorem hygiene_clause_holds_on_QInv s : QInv s -> fhyg (obs_of s) = true.
Proof.
  intros Q. unfold fhyg, obs_of. simpl.
  apply andb_true_iff. split; [apply andb_true_iff; split|].
  - apply nodupb_NoDup. exact (f_nodup s Q).
  - apply forallb_forall. intros [eh id] Hin.
    destruct (f_entry s Q _ _ Hin) as (p & Hg & He & _). rewrite get_proj, Hg. simpl.
    apply andb_true_iff. split; [apply Z.leb_le; exact (f_future s Q _ _ Hin)|apply Z.eqb_eq; exact He].
  - apply forallb_forall. intros [id [[st e] z]] Hin.
    unfold proj_model in Hin. apply in_map_iff in Hin. destruct Hin as ([i p] & Heq & Hin). inversion Heq; subst.
    pose proof (In_get _ _ _ (f_keys s Q) Hin) as Hg.
    destruct (height s <? p_end p) eqn:Hlt; simpl; [|reflexivity]. apply Z.ltb_lt in Hlt.
    apply ememb_In. apply (f_open s Q _ _ Hg).
    destruct (eq_dec (p_closed p) POpen) as [Ho|Hn]; [exact Ho|]. pose proof (f_closed s Q _ _ Hg Hn). lia.
Qed.

Corollary hygiene_clause_holds_on_every_history h0 ops :
  Forall op_wf ops -> fhyg (obs_of (run (init h0) ops)) = true.
Proof. intros Hw. apply hygiene_clause_holds_on_QInv. apply QInv_reachable. exact Hw. Qed.
