(** * Queues / random: correspondence and the C13 predicate on the implementation's observations *)
From Irismod Require Export Queues.Random.

Record robs := mkRObs {
  ro_code : Z;
  ro_height : Z;
  ro_queue : list (rkey * rval);          (* raw keys of prefix 0x02 with the decoded request *)
  ro_randoms : list (rid * Z);            (* prefix 0x01: id -> Random.Height *)
  ro_oreqs : list Z;                      (* prefix 0x03: service context ids *)
  ro_handed : list (Z * bool)             (* oracle requests drained by this block: context id,
                                             context RUNNING with a new-batch entry at this height *)
}.

Definition rcase := (Z * list (op * robs))%type.

Definition rcorr (s' : state) (oc : outcome) (o : robs) : bool :=
  (ro_code o =? outcome_code oc) && (ro_height o =? height s')
  && seteqb (ro_queue o) (rq s') && seteqb (ro_randoms o) (randoms s') && seteqb (ro_oreqs o) (oreqs s').

(** C13 on the observations ([prevq] = queue observed before the step):
    21 the begin-blocker aborted although the block time is not 0;
    22 hygiene: duplicate key, an entry whose destination height is already behind the current
       height (it can never be drained), an entry that vanished or appeared outside its block;
    23 a drained plain request without its random number of that height, or an oracle request
       not handed to the service module. *)
(** the static part of clause 22 *)
Definition rhyg (o : robs) : bool :=
  nodupb (map fst (ro_queue o)) && forallb (fun kv => ro_height o <=? fst (fst kv)) (ro_queue o).

Definition rprop (prevq : list (rkey * rval)) (op_ : op) (o : robs) : Z :=
  let h := ro_height o in
  first_bad [
    (21, match op_ with BeginBlock t _ => (t =? 0) || negb (ro_code o =? 2) | _ => true end);
    (22, rhyg o
         && match op_ with
            | BeginBlock _ _ =>
                (ro_code o =? 2)
                || (forallb (fun kv => if fst (fst kv) =? h - 1 then negb (existsb (fun x => eqb (fst x) (fst kv)) (ro_queue o))
                                       else existsb (fun x => eqb x kv) (ro_queue o)) prevq
                    && subsetb (ro_queue o) prevq)
            | Request _ _ _ _ _ =>
                subsetb (map fst prevq) (map fst (ro_queue o))
                && (if ro_code o =? 0 then Z.of_nat (length (ro_queue o)) <=? Z.of_nat (length prevq) + 1
                    else seteqb (ro_queue o) prevq)
            | Dropped _ => seteqb (ro_queue o) prevq
            end);
    (23, match op_ with
         | BeginBlock _ _ =>
             (ro_code o =? 2)
             || (forallb (fun kv => negb (fst (fst kv) =? h - 1) || fst (snd kv)
                                    || match get (snd (fst kv)) (ro_randoms o) with Some hh => hh =? h - 1 | None => false end) prevq
                 && forallb (fun x => snd x) (ro_handed o))
         | _ => true
         end)
  ].

Fixpoint rcheck_from (s : state) (prevq : list (rkey * rval)) (c : list (op * robs)) (i corr prop code : Z) : Z * Z * Z :=
  match c with
  | [] => (corr, prop, code)
  | (op_, o) :: rest =>
      let '(s', oc) := step s op_ in
      let corr' := if (corr <? 0) && negb (rcorr s' oc o) then i else corr in
      let p := rprop prevq op_ o in
      let '(prop', code') := if (prop <? 0) && negb (p =? 0) then (i, p) else (prop, code) in
      rcheck_from s' (ro_queue o) rest (i + 1) corr' prop' code'
  end.

Definition check_random (c : rcase) : Z * Z * Z :=
  let '(h0, steps) := c in rcheck_from (init h0) [] steps 0 (-1) (-1) 0.
