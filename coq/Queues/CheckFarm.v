(** * Queues / farm: correspondence and the C13 predicate on the implementation's observations *)
From Irismod Require Export Queues.Farm.

Record fobs := mkFObs {
  fo_code : Z;
  fo_height : Z;                           (* height of the current block (after EndBlock: the new one) *)
  fo_pools : list (Z * (Z * Z * bool));    (* id -> (StartHeight, EndHeight, every RemainingReward is 0) *)
  fo_queue : list (Z * Z)                  (* raw keys of prefix 0x04: (height, id) *)
}.

Definition fcase := (Z * list (op * fobs))%type.

Definition has_entry (id : Z) (q : list (Z * Z)) : bool := existsb (fun e => snd e =? id) q.

Definition is_paid (c : pclosed) : bool := match c with PRefunded | PEmpty => true | _ => false end.

Definition proj_model (s : state) : list (Z * (Z * Z * bool)) :=
  map (fun '(id, p) => (id, (p_start p, p_end p, is_paid (p_closed p)))) (pools s).

(** the remaining-reward flag is only meaningful (and only predicted) for pools out of the queue *)
Definition proj_impl (o : fobs) : list (Z * (Z * Z * bool)) :=
  map (fun '(id, (st, e, z)) => (id, (st, e, z && negb (has_entry id (fo_queue o))))) (fo_pools o).

Definition fcorr (s' : state) (oc : outcome) (o : fobs) : bool :=
  (fo_code o =? outcome_code oc) && (fo_height o =? height s')
  && seteqb (proj_impl o) (proj_model s') && seteqb (fo_queue o) (fq s').

(** C13 on the observations ([prev] = observation before the step):
    31 the end-blocker aborted;
    32 hygiene: duplicate entry, an entry behind the current height (never drained), an entry
       without a pool ending at the entry's height, or a pool ending in the future without its entry;
    33 exactly once / at the due height: a pool that had left the queue is back in it or its end
       height changed; the end-blocker of block [h] left an entry of height [h], touched another
       entry, or drained a pool without closing it at [h] with nothing left to refund. *)
(** clause 32 *)
Definition fhyg (o : fobs) : bool :=
  let h := fo_height o in
  nodupb (fo_queue o)
  && forallb (fun '(eh, id) =>
       (h <=? eh) && match get id (fo_pools o) with Some (_, e, _) => e =? eh | None => false end)
     (fo_queue o)
  && forallb (fun '(id, (_, e, _)) => negb (h <? e) || ememb (e, id) (fo_queue o)) (fo_pools o).

Definition fprop (prev : fobs) (op_ : op) (o : fobs) : Z :=
  let h := fo_height o in
  first_bad [
    (31, match op_ with EndBlock _ _ => negb (fo_code o =? 2) | _ => true end);
    (32, fhyg o);
    (33, forallb (fun '(id, (_, e, _)) =>
              has_entry id (fo_queue prev)
              || (negb (has_entry id (fo_queue o))
                  && match get id (fo_pools o) with Some (_, e', _) => e' =? e | None => false end))
            (fo_pools prev)
         && match op_ with
            | EndBlock _ _ =>
                (fo_code o =? 2)
                || (seteqb (fo_queue o) (filter (fun e => negb (fst e =? h - 1)) (fo_queue prev))
                    && forallb (fun '(eh, id) =>
                         negb (eh =? h - 1)
                         || match get id (fo_pools o) with Some (_, e, z) => (e =? h - 1) && z | None => false end)
                       (fo_queue prev))
            | _ => true
            end)
  ].

Fixpoint fcheck_from (s : state) (prev : fobs) (c : list (op * fobs)) (i corr prop code : Z) : Z * Z * Z :=
  match c with
  | [] => (corr, prop, code)
  | (op_, o) :: rest =>
      let '(s', oc) := step s op_ in
      let corr' := if (corr <? 0) && negb (fcorr s' oc o) then i else corr in
      let p := fprop prev op_ o in
      let '(prop', code') := if (prop <? 0) && negb (p =? 0) then (i, p) else (prop, code) in
      fcheck_from s' o rest (i + 1) corr' prop' code'
  end.

Definition check_farm (c : fcase) : Z * Z * Z :=
  let '(h0, steps) := c in fcheck_from (init h0) (mkFObs 0 h0 [] []) steps 0 (-1) (-1) 0.
