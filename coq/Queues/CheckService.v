(** * Queues / service: correspondence and the C13 predicate on the implementation's observations *)
From Irismod Require Export Queues.Service.

(** per context: (state, batch completed, batch counter), (timeout, frequency, total), (requests, responses),
    (owning module, number of providers, response threshold, batch response threshold, outputs of the batch) *)
Definition cobs := ((Z * bool * Z) * (Z * Z * Z) * (Z * Z) * (Z * Z * Z * Z * Z))%type.

Record sobs := mkSObs {
  so_code : Z;
  so_height : Z;                       (* height of the current block (after EndBlock: the new one) *)
  so_ctxs : list (Z * cobs);
  so_nq : list (Z * Z);                (* raw keys of the new-batch queue: (height, id) *)
  so_xq : list (Z * Z);                (* raw keys of the expiration queue *)
  so_nmark : list (Z * Z);             (* id -> NewRequestBatchHeight *)
  so_xmark : list (Z * Z)              (* id -> ExpiredRequestBatchHeight *)
}.

Definition scase := (Z * list (op * sobs))%type.

Definition proj_ctxs (s : state) : list (Z * cobs) :=
  map (fun '(id, c) => (id, ((cstate_code (c_state c), c_done c, c_counter c),
                             (c_timeout c, c_freq c, c_total c), (c_reqs c, c_resps c),
                             (c_module c, c_nprov c, c_thr c, c_bthr c, c_outs c)))) (ctxs s).

Definition scorr (s' : state) (oc : outcome) (o : sobs) : bool :=
  (so_code o =? outcome_code oc) && (so_height o =? height s')
  && seteqb (so_ctxs o) (proj_ctxs s')
  && seteqb (so_nq o) (nq s') && seteqb (so_xq o) (xq s')
  && seteqb (so_nmark o) (nmark s') && seteqb (so_xmark o) (xmark s').

Definition queue_ok (h : Z) (q marks : list (Z * Z)) (cs : list (Z * cobs)) : bool :=
  nodupb q
  && forallb (fun '(eh, id) => (h <=? eh) && has id cs && eqb (get id marks) (Some eh)) q
  && forallb (fun '(id, eh) => ememb (eh, id) q) marks.

(** clause 42 *)
Definition shyg (o : sobs) : bool :=
  let h := so_height o in
  queue_ok h (so_nq o) (so_nmark o) (so_ctxs o)
  && queue_ok h (so_xq o) (so_xmark o) (so_ctxs o)
  && forallb (fun '(id, _) => negb (has id (so_xmark o))) (so_nmark o)
  && forallb (fun '(id, ((st, _, _), _, _, _)) => negb (st =? 0) || has id (so_nmark o) || has id (so_xmark o)) (so_ctxs o).

(** C13 on the observations ([prev] = observation before the step):
    41 the end-blocker aborted (a module callback dereferenced a nil error, or anything else);
    42 hygiene: duplicate entry, an entry behind the current height (never handled), an entry
       without its context or marker, a marker without its entry, a context in both queues, or
       a running context in neither queue;
    43 exactly once / at the due height: an entry vanished outside the end-blocker of its
       height; the end-blocker handled a running context's new batch without starting (or
       skipping) it and scheduling its expiration, or handled an expiration without completing
       the batch. *)
Definition sprop (prev : sobs) (op_ : op) (o : sobs) : Z :=
  let h := so_height o in
  first_bad [
    (41, match op_ with EndBlock _ => negb (so_code o =? 2) | _ => true end);
    (42, shyg o);
    (43, match op_ with
         | EndBlock _ =>
             (so_code o =? 2)
             || (forallb (fun e => (fst e =? h - 1) || ememb e (so_nq o)) (so_nq prev)
                 && forallb (fun e => (fst e =? h - 1) || ememb e (so_xq o)) (so_xq prev)
                 && forallb (fun '(eh, id) =>
                      negb (eh =? h - 1)
                      || match get id (so_ctxs prev) with
                         | Some ((0, _, cnt), (tmo, _, _), _, _) =>
                             match get id (so_ctxs o) with
                             | Some ((st', done', cnt'), _, _, _) =>
                                 ((st' =? 1) && done') || ((cnt' =? cnt + 1) && ememb (h - 1 + tmo, id) (so_xq o))
                             | None => false
                             end
                         | _ => true
                         end) (so_nq prev)
                 && forallb (fun '(eh, id) =>
                      negb (eh =? h - 1)
                      || match get id (so_ctxs prev), get id (so_ctxs o) with
                         | Some ((_, _, cnt), _, _, _), Some ((_, done', cnt'), _, _, _) => done' || (cnt <? cnt')
                         | _, _ => true
                         end) (so_xq prev))
         | _ => subsetb (so_nq prev) (so_nq o) && subsetb (so_xq prev) (so_xq o)
         end)
  ].

Fixpoint scheck_from (s : state) (prev : sobs) (c : list (op * sobs)) (i corr prop code : Z) : Z * Z * Z :=
  match c with
  | [] => (corr, prop, code)
  | (op_, o) :: rest =>
      let '(s', oc) := step s op_ in
      let corr' := if (corr <? 0) && negb (scorr s' oc o) then i else corr in
      let p := sprop prev op_ o in
      let '(prop', code') := if (prop <? 0) && negb (p =? 0) then (i, p) else (prop, code) in
      scheck_from s' o rest (i + 1) corr' prop' code'
  end.

Definition check_service (c : scase) : Z * Z * Z :=
  let '(h0, steps) := c in scheck_from (init h0) (mkSObs 0 h0 [] [] [] [] []) steps 0 (-1) (-1) 0.
