(** * Queues / farm: the queue sub-model is an abstraction of the full farm model
    ([Farm/Model.v], the model of C05/C06), and its two hypotheses are facts of that model.

    [R fs qs] relates a state of the full model with a state of the queue model: same height,
    same pool id sequence, the same queue entries, the same pools with the same start / end
    height, editable flag and creator; and a pool that the queue model has closed has no
    budget left in the full model.  Every step of the full model from a state satisfying its
    invariant [inv] is matched by one operation of the queue model that is [op_clean]
    ([sim_step]): the duration AdjustPool computes is not negative, and no Refund of the end
    blocker fails in updatePool — both consequences of [inv] (the farm group's
    [end_height_sound] / [budget_never_short]).  Hence every history of the full model is
    mirrored by a clean history of the queue model ([farm_link_simulation]) and the theorems
    of [ProofsFarm] hold of it without hypotheses. *)
From Irismod Require Import Queues.Common.
From Irismod Require Queues.Farm Queues.ProofsFarm.
From Irismod Require Import Farm.Refund Farm.Proofs Farm.Budget.

Module Q := Irismod.Queues.Farm.
Module QP := Irismod.Queues.ProofsFarm.

Definition core_eq (p : pool) (q : Q.pool) : Prop :=
  Q.p_start q = p_start p /\ Q.p_end q = p_end p /\ Q.p_editable q = p_edit p /\ Q.p_creator q = p_creator p.

Definition pool_rel (p : pool) (q : Q.pool) : Prop :=
  core_eq p q /\ (Q.p_closed q <> Q.POpen -> Forall (fun r => r_rem r = 0) (p_rules p)).

Definition pools_rel (ps : amap Z pool) (qs : amap Z Q.pool) : Prop :=
  forall id, match get id ps, get id qs with
             | Some p, Some q => pool_rel p q
             | None, None => True
             | _, _ => False
             end.

Record R (fs : state) (qs : Q.state) : Prop := {
  r_height : Q.height qs = height fs;
  r_seq : Q.seq qs = seq fs;
  r_queue : forall x, In x (Q.fq qs) <-> In x (queue fs);
  r_pools : pools_rel (pools fs) (Q.pools qs)
}.

Lemma R_init b h : R (init b h) (Q.init h).
Proof. constructor; simpl; [reflexivity|reflexivity|tauto|]. intros id. simpl. exact I. Qed.

(** ** small facts *)
Lemma rel_get fs qs id p : R fs qs -> get id (pools fs) = Some p ->
  exists q, get id (Q.pools qs) = Some q /\ pool_rel p q.
Proof.
  intros Rr Hg. pose proof (r_pools _ _ Rr id) as H. rewrite Hg in H.
  destruct (get id (Q.pools qs)) as [q|]; [eauto|contradiction].
Qed.

Lemma ememb_in_queue fs qs e : R fs qs -> ememb e (Q.fq qs) = in_queue (queue fs) e.
Proof.
  intros Rr. destruct (in_queue (queue fs) e) eqn:E.
  - apply ememb_In. apply (r_queue _ _ Rr). apply in_queue_true. exact E.
  - destruct (ememb e (Q.fq qs)) eqn:E2; [|reflexivity]. apply ememb_In in E2. apply (r_queue _ _ Rr) in E2.
    apply in_queue_true in E2. congruence.
Qed.

Lemma expired_agree fs qs id p q : R fs qs -> core_eq p q -> Q.expired qs id q = expired fs id p.
Proof.
  intros Rr (_ & He & _ & _). unfold Q.expired, expired. rewrite He, (r_height _ _ Rr), (ememb_in_queue fs qs _ Rr).
  rewrite (Z.eqb_sym (p_end p) (height fs)). destruct (p_end p <? height fs); [reflexivity|].
  destruct (height fs =? p_end p); reflexivity.
Qed.

(** a pool the queue model still has queued is queued in the full model, and conversely *)
Lemma queued_open fs qs id p q : R fs qs -> QP.QInv qs -> get id (Q.pools qs) = Some q -> core_eq p q ->
  in_queue (queue fs) (p_end p, id) = true -> Q.p_closed q = Q.POpen.
Proof.
  intros Rr QI Hq (_ & He & _ & _) Hin. apply in_queue_true in Hin. apply (r_queue _ _ Rr) in Hin.
  destruct (QP.f_entry _ QI _ _ Hin) as (q' & Hq' & _ & Hc). congruence.
Qed.

Lemma closed_unqueued fs qs id p q : R fs qs -> QP.QInv qs -> get id (Q.pools qs) = Some q -> core_eq p q ->
  Q.p_closed q <> Q.POpen -> unqueued fs id.
Proof.
  intros Rr QI Hq Hc Hcl e. destruct (in_queue (queue fs) (e, id)) eqn:E; [|reflexivity]. exfalso.
  apply in_queue_true in E. apply (r_queue _ _ Rr) in E.
  destruct (QP.f_entry _ QI _ _ E) as (q' & Hq' & _ & Ho). congruence.
Qed.

(** ** an operation of the queue model that does nothing *)
Definition noop (qs : Q.state) : Q.op := Q.Create (Q.height qs - 1) 1 false 0 Rej.

Lemma noop_step qs : fst (Q.step qs (noop qs)) = qs.
Proof. simpl. unfold Q.create. assert (Q.height qs - 1 <? Q.height qs = true) as -> by (apply Z.ltb_lt; lia). reflexivity. Qed.

Lemma noop_clean qs : QP.op_clean (noop qs).
Proof. exact I. Qed.

(** a step of the full model that keeps queue, height, sequence and every pool's scheduling
    data, and the rules of every unqueued pool, is matched by [noop] *)
Lemma R_same_sched fs fs' qs :
  R fs qs -> QP.QInv qs ->
  height fs' = height fs -> seq fs' = seq fs -> (forall x, In x (queue fs') <-> In x (queue fs)) ->
  (forall id, match get id (pools fs), get id (pools fs') with
              | Some p, Some p' => p_start p' = p_start p /\ p_end p' = p_end p /\ p_edit p' = p_edit p
                                   /\ p_creator p' = p_creator p
                                   /\ (p_rules p' = p_rules p \/ in_queue (queue fs) (p_end p, id) = true)
              | None, None => True
              | _, _ => False
              end) ->
  R fs' qs.
Proof.
  intros Rr QI Hh Hs Hq Hp. constructor.
  - rewrite Hh. exact (r_height _ _ Rr).
  - rewrite Hs. exact (r_seq _ _ Rr).
  - intros x. rewrite Hq. exact (r_queue _ _ Rr x).
  - intros id. specialize (Hp id). pose proof (r_pools _ _ Rr id) as Hr.
    destruct (get id (pools fs)) as [p|] eqn:Eg, (get id (pools fs')) as [p'|]; try contradiction.
    + destruct (get id (Q.pools qs)) as [q|] eqn:Eq; [|contradiction].
      destruct Hp as (H1 & H2 & H3 & H4 & H5). destruct Hr as [(C1 & C2 & C3 & C4) Hz].
      split; [unfold core_eq; rewrite H1, H2, H3, H4; auto|].
      intros Hcl. destruct H5 as [-> |Hin]; [exact (Hz Hcl)|].
      exfalso. apply Hcl. eapply queued_open; eauto. unfold core_eq; auto.
    + exact Hr.
Qed.

(** ** the messages that do not touch the schedule *)
Lemma corep_update h b p amt p1 b1 : update_pool h b p amt false = (p1, b1, true) ->
  p_start p1 = p_start p /\ p_end p1 = p_end p /\ p_edit p1 = p_edit p /\ p_creator p1 = p_creator p.
Proof. intros Hu. destruct (end_after _ _ _ _ _ _ Hu) as (H1 & _ & _ & _ & H2 & _ & H3 & H4 & _). auto. Qed.

Lemma replaced_pool fs pid p x b :
  get pid (pools fs) = Some p ->
  p_start x = p_start p /\ p_end x = p_end p /\ p_edit x = p_edit p /\ p_creator x = p_creator p ->
  p_rules x = p_rules p \/ in_queue (queue fs) (p_end p, pid) = true ->
  forall id, match get id (pools fs), get id (pools (with_bank (with_pools fs (set pid x (pools fs))) b)) with
             | Some p0, Some p' => p_start p' = p_start p0 /\ p_end p' = p_end p0 /\ p_edit p' = p_edit p0
                                   /\ p_creator p' = p_creator p0
                                   /\ (p_rules p' = p_rules p0 \/ in_queue (queue fs) (p_end p0, id) = true)
             | None, None => True
             | _, _ => False
             end.
Proof.
  intros Hg (H1 & H2 & H3 & H4) H5 id. simpl. destruct (Z.eq_dec id pid) as [->|Hne].
  - rewrite Hg, get_set_same. auto.
  - rewrite get_set_other by exact Hne. destruct (get id (pools fs)); auto. repeat split; auto.
Qed.

Lemma sim_quiet_msg fs qs m fs' rw :
  inv fs -> R fs qs -> QP.QInv qs ->
  match m with Stake _ _ _ _ | Unstake _ _ _ _ | Harvest _ _ => True | _ => False end ->
  exec_msg fs m = Done fs' rw -> R fs' qs.
Proof.
  intros I Rr QI Hm E. destruct m as [| who pid d amt | who pid d amt | who pid | | |]; try contradiction; simpl in E.
  - destruct (stake_Done _ _ _ _ _ _ _ E) as (p & b1 & p1 & b2 & rw0 & db & b3 & Hs). cbv zeta in Hs.
    destruct Hs as (_ & _ & Hg & _ & Hex & _ & _ & Hu & _ & _ & _ & ->).
    apply (R_same_sched fs _ qs Rr QI); try reflexivity; try (intros x; tauto).
    apply (replaced_pool fs pid p); [exact Hg|exact (corep_update _ _ _ _ _ _ Hu)|].
    right. exact (not_expired_in_queue _ _ _ I Hg Hex).
  - destruct (unstake_Done _ _ _ _ _ _ _ E) as (p & fi & p1 & b1 & b2 & rw0 & db & b3 & Hs).
    destruct Hs as (_ & _ & Hg & _ & _ & _ & _ & Hupd & _ & _ & _ & _ & ->).
    apply (R_same_sched fs _ qs Rr QI); try reflexivity; try (intros x; tauto).
    unfold unstake_upd in Hupd. destruct (expired fs pid p) eqn:Hex.
    + inversion Hupd; subst. apply (replaced_pool fs pid p); [exact Hg|simpl; auto|left; reflexivity].
    + apply (replaced_pool fs pid p); [exact Hg|exact (corep_update _ _ _ _ _ _ Hupd)|].
      right. exact (not_expired_in_queue _ _ _ I Hg Hex).
  - destruct (harvest_Done _ _ _ _ _ E) as (p & fi & p1 & b1 & rw0 & db & b2 & Hs).
    destruct Hs as (Hg & Hex & _ & Hu & _ & _ & _ & ->).
    apply (R_same_sched fs _ qs Rr QI); try reflexivity; try (intros x; tauto).
    apply (replaced_pool fs pid p); [exact Hg|exact (corep_update _ _ _ _ _ _ Hu)|].
    right. exact (not_expired_in_queue _ _ _ I Hg Hex).
Qed.

(** ** CreatePool *)
Lemma sim_create fs qs who lpt start ed rules fs' rw :
  R fs qs -> create_pool fs who lpt start ed rules = Done fs' rw ->
  exists o, QP.op_clean o /\ R fs' (fst (Q.step qs o)).
Proof.
  intros Rr E.
  destruct (create_end_height_lemma _ _ _ _ _ _ _ _ E) as (iv' & p' & Hmin' & _ & _ & _ & _ & Hex).
  destruct (create_Done _ _ _ _ _ _ _ _ E) as (b1 & b2 & iv & _ & Hrules & _ & Hh & _ & _ & Hmin & _ & ->).
  rewrite Hmin in Hmin'. inversion Hmin'; subst iv'. clear Hmin'.
  assert (1 <= iv) as Hiv.
  { apply Exists_exists in Hex. destruct Hex as ([[d t] pb] & Hin & Hlt). rewrite Forall_forall in Hrules.
    specialize (Hrules _ Hin). simpl in Hrules. nia. }
  exists (Q.Create start iv ed who Ok). split; [simpl; trivial|]. simpl. unfold Q.create.
  assert (start <? Q.height qs = false) as -> by (apply Z.ltb_ge; rewrite (r_height _ _ Rr); exact Hh).
  assert (iv <? 1 = false) as -> by (apply Z.ltb_ge; lia). simpl.
  destruct Rr as [Rh Rs Rq Rp]. constructor; simpl.
  - exact Rh.
  - rewrite Rs. reflexivity.
  - intros x. rewrite In_enq, in_enqueue, Rq, Rs. tauto.
  - intros id. rewrite Rs, !get_set_cases. destruct (eq_dec id (seq fs + 1)) as [->|Hne].
    + split; [repeat split|]. simpl. intros H. congruence.
    + exact (Rp id).
Qed.

(** ** AdjustPool: the duration it computes is not negative *)
Lemma adjust_iv_nonneg s pid add rpb p p1 b1 iv :
  inv s -> Forall (fun c => 0 < snd c) add -> Forall (fun c => 0 < snd c) rpb ->
  get pid (pools s) = Some p -> expired s pid p = false ->
  update_pool (height s) (bank s) p 0 false = (p1, b1, true) ->
  min_interval (map (fun r => (adj_avail (p_start p <=? height s)
                                          (p_end p1 - (if p_start p <=? height s then height s else p_start p)) add r,
                               r_pb (adj_pb rpb r)))
                    (map (adj_topup add) (p_rules p1))) = Some iv ->
  0 <= iv.
Proof.
  intros I Hadd Hrpb Hg Hex Hu Hmin.
  pose proof (get_pool_inv _ _ _ I Hg) as PI. pose proof (not_expired_in_queue _ _ _ I Hg Hex) as Hq.
  destruct (i_sched _ I _ _ Hg Hq) as [Hhe Hcov0].
  destruct (end_after _ _ _ _ _ _ Hu) as (Hend & Hfs & Hlpt & Hlk & Hst & Hla & Hcr & _ & Hden).
  destruct (update_pool_true _ _ _ _ _ _ _ Hu) as (Hlast & _ & _ & Hp1 & _).
  pose proof (rules_ok_after _ _ _ _ _ _ PI Hu) as Hok1.
  eapply (min_interval_ge 0); [|exact Hmin]. rewrite !Forall_map. apply Forall_forall. intros r Hin. cbn [fst snd].
  rewrite Forall_forall in Hok1. destruct (Hok1 r Hin) as (Hrem & Hpb & _).
  pose proof (amount_of_nonneg add (r_denom r) ltac:(eapply Forall_impl; [|exact Hadd]; simpl; intros; lia)) as Ha.
  pose proof (amount_of_nonneg rpb (r_denom r) ltac:(eapply Forall_impl; [|exact Hrpb]; simpl; intros; lia)) as Hr.
  apply Z.quot_pos.
  - unfold adj_avail. simpl. rewrite Hend. destruct (Z.leb_spec (p_start p) (height s)) as [Hs'|Hs'].
    + nia.
    + assert (Forall (fun r => r_rem r = r_total r) (p_rules p1)) as Hfr.
      { rewrite Hp1. simpl. destruct (upd_iv_cases _ _ Hlast) as [Hz|(_ & HL & _)].
        - rewrite Hz, collect1_zero. exact (pi_fresh _ _ PI Hs').
        - pose proof (pi_started _ _ PI HL). lia. }
      rewrite Forall_forall in Hfr. specialize (Hfr r Hin). lia.
  - simpl. destruct (Z.ltb_spec 0 (amount_of rpb (r_denom r))); lia.
Qed.

Lemma sim_adjust fs qs who pid add rpb fs' rw :
  inv fs -> R fs qs -> QP.QInv qs -> adjust fs who pid add rpb = Done fs' rw ->
  exists o, QP.op_clean o /\ R fs' (fst (Q.step qs o)).
Proof.
  intros I Rr QI E. destruct (adjust_Done _ _ _ _ _ _ _ E) as (p & p1 & b1 & b2 & iv & Hs). cbv zeta in Hs.
  destruct Hs as (_ & Hadd & Hrpb & Hg & Hed & Hwho & Hex & _ & Hu & _ & Hmin & _ & ->).
  pose proof (adjust_iv_nonneg _ _ _ _ _ _ _ _ I Hadd Hrpb Hg Hex Hu Hmin) as Hiv.
  destruct (rel_get _ _ _ _ Rr Hg) as (q & Hq & Hrel). destruct Hrel as [Hc Hz]. pose proof Hc as (C1 & C2 & C3 & C4).
  destruct (corep_update _ _ _ _ _ _ Hu) as (U1 & U2 & U3 & U4).
  pose proof (not_expired_in_queue _ _ _ I Hg Hex) as Hqd.
  pose proof (queued_open _ _ _ _ _ Rr QI Hq Hc Hqd) as Hopen.
  exists (Q.Adjust pid who iv Ok). split; [exact Hiv|]. simpl. unfold Q.adjust. rewrite Hq, C3, Hed, C4, Hwho, Z.eqb_refl. simpl.
  rewrite (expired_agree _ _ _ _ _ Rr Hc), Hex, C1, C2, (r_height _ _ Rr), <- U2.
  set (e := (if p_start p <=? height fs then height fs else p_start p) + iv).
  destruct Rr as [Rh Rs Rq Rp].
  assert (forall x b, pools_rel (set pid x (pools fs)) b ->
            forall id, id <> pid -> True) as _ by auto.
  destruct (e =? p_end p1) eqn:Ee; simpl.
  - constructor; simpl; [exact Rh|exact Rs|exact Rq|].
    intros id. rewrite get_set_cases. destruct (eq_dec id pid) as [->|Hne]; [|exact (Rp id)].
    rewrite Hq. apply Z.eqb_eq in Ee. split.
    + unfold core_eq. simpl. repeat split; congruence.
    + intros Hcl. congruence.
  - constructor; simpl; [first [exact Rh|reflexivity]|exact Rs| |].
    + intros x. rewrite In_enq, In_deq, in_enqueue, in_dequeue, Rq. tauto.
    + intros id. rewrite !get_set_cases. destruct (eq_dec id pid) as [->|Hne]; [|exact (Rp id)].
      split.
      * unfold core_eq. simpl. repeat split; congruence.
      * simpl. intros Hcl. congruence.
Qed.

(** ** DestroyPool / the refund of the end blocker *)
Lemma refund_fields s pid p s' ok :
  inv s -> get pid (pools s) = Some p -> in_queue (queue s) (p_end p, pid) = true -> refund s pid p = (s', ok) ->
  height s' = height s /\ seq s' = seq s /\ queue s' = dequeue (queue s) (p_end p, pid)
  /\ (forall id, id <> pid -> get id (pools s') = get id (pools s))
  /\ exists p', get pid (pools s') = Some p' /\ p_start p' = Z.min (height s) (p_start p) /\ p_end p' = height s
                /\ p_edit p' = p_edit p /\ p_creator p' = p_creator p /\ Forall (fun r => r_rem r = 0) (p_rules p').
Proof.
  intros I Hg Hq H.
  destruct (update_succeeds s pid p (bank s) 0 true I Hg Hq ltac:(intros; lia)) as (p1' & b1' & Hok).
  destruct (refund_cases _ _ _ _ _ H) as [(p1 & b1 & Hu & _)|(p1 & b1 & b' & Hu & -> & _)]; [congruence|]. simpl.
  split; [reflexivity|]. split; [reflexivity|]. split; [reflexivity|]. split.
  - intros id Hne. apply get_set_other. exact Hne.
  - rewrite get_set_same. eexists. split; [reflexivity|].
    destruct (update_pool_true _ _ _ _ _ _ _ Hu) as (_ & _ & _ & -> & _).
    unfold zero_rules, finish_update. simpl.
    split; [destruct (Z.ltb_spec (height s) (p_start p)); lia|].
    split; [reflexivity|]. split; [reflexivity|]. split; [reflexivity|].
    rewrite Forall_map. apply Forall_forall. intros r _. reflexivity.
Qed.

Lemma sim_destroy fs qs who pid fs' rw :
  inv fs -> R fs qs -> QP.QInv qs -> destroy fs who pid = Done fs' rw ->
  exists o, QP.op_clean o /\ R fs' (fst (Q.step qs o)).
Proof.
  intros I Rr QI E. destruct (destroy_Done _ _ _ _ _ E) as (p & Hg & Hwho & Hed & Hex & Href & _).
  pose proof (not_expired_in_queue _ _ _ I Hg Hex) as Hqd.
  destruct (refund_fields _ _ _ _ _ I Hg Hqd Href) as (Fh & Fs & Fq & Fo & p' & Fg & F1 & F2 & F3 & F4 & F5).
  destruct (rel_get _ _ _ _ Rr Hg) as (q & Hq & Hrel). destruct Hrel as [Hc Hz]. pose proof Hc as (C1 & C2 & C3 & C4).
  exists (Q.Destroy pid who Ok). split; [simpl; trivial|]. simpl. unfold Q.destroy.
  rewrite Hq, C3, Hed, C4, Hwho, Z.eqb_refl. simpl. rewrite (expired_agree _ _ _ _ _ Rr Hc), Hex.
  destruct Rr as [Rh Rs Rq Rp]. unfold Q.close_pool. constructor; simpl.
  - rewrite Fh. exact Rh.
  - rewrite Fs. exact Rs.
  - intros x. rewrite Fq, In_deq, in_dequeue, Rq, C2. tauto.
  - intros id. rewrite get_set_cases. destruct (eq_dec id pid) as [->|Hne].
    + rewrite Fg. split.
      * unfold core_eq. simpl. rewrite F1, F2, F3, F4, C1, C3, C4, Rh. repeat split; try reflexivity. apply Z.min_comm.
      * intros _. exact F5.
    + rewrite (Fo id Hne). exact (Rp id).
Qed.

(** ** the end blocker *)
Lemma end_block_one_seq s pid : seq (end_block_one s pid) = seq s.
Proof.
  unfold end_block_one. destruct (get pid (pools s)) as [p|]; [|reflexivity].
  destruct (refund s pid p) as [s' ok] eqn:Er. simpl.
  destruct (refund_cases _ _ _ _ _ Er) as [(p1 & b1 & _ & _ & ->)|(p1 & b1 & b' & _ & -> & _)]; reflexivity.
Qed.

Definition closed_at (h : Z) (p p' : pool) : Prop :=
  p_start p' = Z.min h (p_start p) /\ p_end p' = h /\ p_edit p' = p_edit p /\ p_creator p' = p_creator p
  /\ Forall (fun r => r_rem r = 0) (p_rules p').

Lemma full_end_fold l : forall s, inv s -> NoDup l -> (forall pid, In pid l -> In (height s, pid) (queue s)) ->
  let s' := fold_left end_block_one l s in
  seq s' = seq s
  /\ forall id, match get id (pools s), get id (pools s') with
                | Some p, Some p' => if in_dec Z.eq_dec id l then closed_at (height s) p p' else p' = p
                | None, None => True
                | _, _ => False
                end.
Proof.
  induction l as [|pid l IH]; simpl; intros s I Hnd Hdue.
  - split; [reflexivity|]. intros id. destruct (get id (pools s)); auto.
  - inversion Hnd as [|? ? Hni Hnd']; subst.
    pose proof (Hdue pid (or_introl eq_refl)) as Hin.
    destruct (end_block_one_inv s pid I Hin) as (I1 & Hh1 & Hq1).
    assert (forall pid', In pid' l -> In (height (end_block_one s pid), pid') (queue (end_block_one s pid))) as Hdue'.
    { intros pid' Hin'. rewrite Hh1, Hq1. apply in_dequeue. split; [apply Hdue; right; exact Hin'|].
      intros Heq. inversion Heq; subst. contradiction. }
    destruct (IH (end_block_one s pid) I1 Hnd' Hdue') as (Hs2 & Hp2).
    split; [rewrite Hs2; apply end_block_one_seq|].
    intros id. specialize (Hp2 id). rewrite Hh1 in Hp2.
    destruct (Z.eq_dec pid id) as [->|Hne].
    + (* the pool closed by this iteration *)
      apply in_queue_true in Hin. destruct (i_qwf _ I _ _ Hin) as (p & Hg & He).
      rewrite Hg. destruct (refund s id p) as [s1 ok] eqn:Er. rewrite <- He in Hin.
      assert (end_block_one s id = s1) as Es1 by (unfold end_block_one; rewrite Hg, Er; reflexivity).
      rewrite Es1 in Hp2 |- *.
      destruct (refund_fields _ _ _ _ _ I Hg Hin Er) as (_ & _ & _ & _ & p' & Fg & F).
      rewrite Fg in Hp2.
      destruct (get id (pools (fold_left end_block_one l s1))) as [p''|]; [|contradiction].
      destruct (in_dec Z.eq_dec id l) as [Hil|_]; [contradiction|]. subst p''. exact F.
    + rewrite (end_block_one_other s pid id Hne) in Hp2.
      destruct (get id (pools s)) as [p|]; [|exact Hp2].
      destruct (get id (pools (fold_left end_block_one l (end_block_one s pid)))) as [p''|]; [|contradiction].
      destruct (in_dec Z.eq_dec id l) as [Hil|Hnl]; exact Hp2.
Qed.

(** the same loop in the queue model, with no failing refund *)
Definition closeq (h : Z) (q : Q.pool) : Q.pool :=
  Q.mkP (Z.min (Q.p_start q) h) h (Q.p_editable q) (Q.p_creator q) Q.PRefunded.

Lemma q_expire_one_get s a id :
  Q.height (Q.expire_one [] [] s a) = Q.height s /\ Q.seq (Q.expire_one [] [] s a) = Q.seq s
  /\ get id (Q.pools (Q.expire_one [] [] s a))
     = if Z.eq_dec id a then option_map (closeq (Q.height s)) (get a (Q.pools s)) else get id (Q.pools s).
Proof.
  unfold Q.expire_one. destruct (get a (Q.pools s)) as [q|] eqn:Eg; simpl.
  - split; [reflexivity|]. split; [reflexivity|]. rewrite get_set_cases. unfold eq_dec, EqDec_Z.
    destruct (Z.eq_dec id a) as [->|]; reflexivity.
  - split; [reflexivity|]. split; [reflexivity|]. destruct (Z.eq_dec id a) as [->|]; [rewrite Eg|]; reflexivity.
Qed.

Lemma q_expire_all_get : forall l s, NoDup l ->
  let s' := fold_left (Q.expire_one [] []) l s in
  Q.height s' = Q.height s /\ Q.seq s' = Q.seq s
  /\ forall id, get id (Q.pools s')
                = if in_dec Z.eq_dec id l then option_map (closeq (Q.height s)) (get id (Q.pools s)) else get id (Q.pools s).
Proof.
  induction l as [|a l IH]; simpl; intros s Hnd; [auto|].
  inversion Hnd as [|? ? Hni Hnd']; subst.
  destruct (IH (Q.expire_one [] [] s a) Hnd') as (Hh & Hs & Hp).
  destruct (q_expire_one_get s a a) as (Hh1 & Hs1 & _).
  split; [congruence|]. split; [congruence|]. intros id. rewrite Hp, Hh1.
  destruct (q_expire_one_get s a id) as (_ & _ & Hg1). rewrite Hg1.
  destruct (Z.eq_dec a id) as [->|Hne].
  - destruct (Z.eq_dec id id) as [_|]; [|congruence]. destruct (in_dec Z.eq_dec id l); [contradiction|reflexivity].
  - destruct (Z.eq_dec id a) as [->|_]; [congruence|]. destruct (in_dec Z.eq_dec id l); reflexivity.
Qed.

Lemma sim_next_block fs qs :
  inv fs -> R fs qs -> QP.QInv qs ->
  R (step_state fs NextBlock) (fst (Q.step qs (Q.EndBlock [] []))).
Proof.
  intros I Rr QI. unfold step_state, exec_step. simpl. unfold Q.end_block. fold (end_block fs). unfold end_block.
  destruct (end_block_fold (due fs) fs I (NoDup_due _ (i_qnd _ I))) as (_ & Fh & Fq).
  { intros pid Hin. apply in_due. exact Hin. }
  destruct (full_end_fold (due fs) fs I (NoDup_due _ (i_qnd _ I))) as (Fs & Fp).
  { intros pid Hin. apply in_due. exact Hin. }
  set (ids := map snd (Common.due (Q.height qs) (Q.fq qs))).
  assert (NoDup ids) as Hnd by (apply NoDup_due_ids; exact (QP.f_nodup _ QI)).
  assert (forall id, In id ids <-> In (Q.height qs, id) (Q.fq qs)) as Hids.
  { intros id. unfold ids. split.
    - intros Hin. apply in_map_iff in Hin. destruct Hin as ([h i] & Hf & Hin). simpl in Hf. subst i.
      apply In_due in Hin. simpl in Hin. destruct Hin as [-> Hin]. exact Hin.
    - intros Hin. apply in_map_iff. exists (Q.height qs, id). split; [reflexivity|]. apply In_due. auto. }
  destruct (QP.expire_all_spec [] [] ids qs QI Hnd) as (_ & _ & Qq).
  { intros id Hin. apply Hids. exact Hin. }
  destruct (q_expire_all_get ids qs Hnd) as (Qh & Qs & Qp).
  destruct Rr as [Rh Rs Rq Rp]. constructor; simpl.
  - rewrite Fh, Rh. reflexivity.
  - rewrite Qs, Fs. exact Rs.
  - intros [h i]. rewrite Qq, Fq, Rq, Rh. simpl. rewrite Hids, in_due, Rq, Rh. split.
    + intros [Hin Hno]. split; [exact Hin|]. intros [-> Hin']. apply Hno. auto.
    + intros [Hin Hno]. split; [exact Hin|]. intros [-> Hin']. apply Hno. auto.
  - intros id. rewrite Qp. specialize (Fp id). specialize (Rp id).
    assert ((if in_dec Z.eq_dec id ids then true else false) = (if in_dec Z.eq_dec id (due fs) then true else false)) as Hsame.
    { destruct (in_dec Z.eq_dec id ids) as [H1|H1], (in_dec Z.eq_dec id (due fs)) as [H2|H2]; try reflexivity; exfalso.
      - apply H2. apply in_due. rewrite <- Rh. apply Rq. apply Hids. exact H1.
      - apply H1. apply Hids. apply Rq. rewrite Rh. apply in_due. exact H2. }
    destruct (get id (pools fs)) as [p|], (get id (pools (fold_left end_block_one (due fs) fs))) as [p'|]; try contradiction.
    + destruct (get id (Q.pools qs)) as [q|]; [|contradiction].
      destruct (in_dec Z.eq_dec id ids) as [H1|H1], (in_dec Z.eq_dec id (due fs)) as [H2|H2]; try discriminate; simpl.
      * destruct Fp as (F1 & F2 & F3 & F4 & F5). destruct Rp as [(C1 & C2 & C3 & C4) _]. split.
        -- unfold core_eq. simpl. rewrite F1, F2, F3, F4, C1, C3, C4, Rh. repeat split; try reflexivity. apply Z.min_comm.
        -- intros _. exact F5.
      * subst p'. exact Rp.
    + destruct (get id (Q.pools qs)) as [q|]; [contradiction|].
      destruct (in_dec Z.eq_dec id ids); simpl; exact Logic.I.
Qed.

(** ** one step, and whole histories *)
Theorem sim_step fs qs st :
  inv fs -> valid_step st -> R fs qs -> QP.QInv qs ->
  exists o, QP.op_clean o /\ R (step_state fs st) (fst (Q.step qs o)).
Proof.
  intros I Hv Rr QI. destruct st as [m|].
  - unfold step_state, exec_step. destruct (exec_msg fs m) as [fs' rw|o] eqn:E; simpl.
    + destruct m as [who lpt start ed rules|who pid d amt|who pid d amt|who pid|who pid add rpb|who pid|who cf tr].
      * exact (sim_create _ _ _ _ _ _ _ _ _ Rr E).
      * exists (noop qs). split; [simpl; trivial|]. rewrite noop_step. refine (sim_quiet_msg fs qs _ fs' rw I Rr QI _ E); exact Logic.I.
      * exists (noop qs). split; [simpl; trivial|]. rewrite noop_step. refine (sim_quiet_msg fs qs _ fs' rw I Rr QI _ E); exact Logic.I.
      * exists (noop qs). split; [simpl; trivial|]. rewrite noop_step. refine (sim_quiet_msg fs qs _ fs' rw I Rr QI _ E); exact Logic.I.
      * exact (sim_adjust _ _ _ _ _ _ _ _ I Rr QI E).
      * exact (sim_destroy _ _ _ _ _ _ I Rr QI E).
      * (* MsgUpdateParams changes the two parameters only: no operation of the queue model *)
        exists (noop qs). split; [simpl; trivial|]. rewrite noop_step.
        simpl in E. unfold update_params in E.
        destruct (negb (who =? AUTH)); [discriminate|]. destruct (_ || _); [discriminate|].
        inversion E; subst. destruct Rr as [Rh Rs Rq Rp]. constructor; simpl; assumption.
    + exists (noop qs). split; [simpl; trivial|]. rewrite noop_step. exact Rr.
  - exists (Q.EndBlock [] []). split; [reflexivity|]. exact (sim_next_block _ _ I Rr QI).
Qed.

Lemma sim_run : forall steps fs qs,
  inv fs -> R fs qs -> QP.QInv qs -> Forall valid_step steps ->
  exists ops, Forall QP.op_clean ops /\ R (run fs steps) (Q.run qs ops).
Proof.
  induction steps as [|st steps IH]; simpl; intros fs qs I Rr QI Hv.
  - exists []. split; [constructor|exact Rr].
  - inversion Hv as [|? ? Hv1 Hv2]; subst.
    destruct (sim_step fs qs st I Hv1 Rr QI) as (o & Hc & Rr').
    destruct (IH (step_state fs st) (fst (Q.step qs o)) (step_inv _ _ I Hv1) Rr'
                 (QP.step_inv _ _ QI (QP.op_clean_wf _ Hc)) Hv2) as (ops & Hcs & Rr'').
    exists (o :: ops). split; [constructor; assumption|exact Rr''].
Qed.

(** Every history of the full farm model (from a genesis state, with actors as senders) is
    mirrored by a history of the queue model all of whose operations are [op_clean]. *)
Theorem farm_link_simulation b h steps :
  genesis_ok b h -> Forall valid_step steps ->
  exists ops, Forall QP.op_clean ops /\ R (run (init b h) steps) (Q.run (Q.init h) ops).
Proof.
  intros Hg Hv. apply sim_run; [apply inv_init; exact Hg|apply R_init|apply QP.QInv_init|exact Hv].
Qed.

(** ... so the queue model's theorems hold of the full model with no hypothesis on the history:
    in every reachable state of the full model the abstract state satisfies [QInv] and has no
    stuck pool; concretely, a pool without queue entry has ended at a height already reached
    and has no budget left (its Refund ran to the end), and a queued pool has exactly the entry
    of its end height, which is not behind the current height. *)
Theorem farm_full_model_exactly_once s :
  reachable s ->
  exists qs, R s qs /\ QP.QInv qs /\ QP.NoStuck qs
  /\ (forall pid p, get pid (pools s) = Some p -> in_queue (queue s) (p_end p, pid) = false ->
        p_end p <= height s /\ Forall (fun r => r_rem r = 0) (p_rules p) /\ forall e, in_queue (queue s) (e, pid) = false)
  /\ (forall pid p, get pid (pools s) = Some p -> in_queue (queue s) (p_end p, pid) = true ->
        height s <= p_end p /\ forall e, in_queue (queue s) (e, pid) = true -> e = p_end p).
Proof.
  intros (b & h & steps & Hg & Hv & ->).
  destruct (farm_link_simulation b h steps Hg Hv) as (ops & Hc & Rr).
  assert (Forall QP.op_wf ops) as Hw by (eapply Forall_impl; [|exact Hc]; apply QP.op_clean_wf).
  pose proof (QP.QInv_reachable h ops Hw) as QI.
  assert (QP.NoStuck (Q.run (Q.init h) ops)) as NS.
  { apply QP.run_nostuck; [apply QP.QInv_init| |exact Hc]. intros id p Hgp. simpl in Hgp. discriminate. }
  exists (Q.run (Q.init h) ops). split; [exact Rr|]. split; [exact QI|]. split; [exact NS|].
  set (fs := run (init b h) steps) in *. set (qs := Q.run (Q.init h) ops) in *. split.
  - intros pid p Hgp Hnq. destruct (rel_get _ _ _ _ Rr Hgp) as (q & Hq & [Hcq Hz]). pose proof Hcq as (C1 & C2 & C3 & C4).
    assert (Q.p_closed q <> Q.POpen) as Hcl.
    { intros Ho. pose proof (QP.f_open _ QI _ _ Hq Ho) as Hin. apply (r_queue _ _ Rr) in Hin. rewrite C2 in Hin.
      apply in_queue_true in Hin. congruence. }
    split; [|split; [exact (Hz Hcl)|exact (closed_unqueued _ _ _ _ _ Rr QI Hq Hcq Hcl)]].
    pose proof (QP.f_closed _ QI _ _ Hq Hcl) as Hle. rewrite C2, (r_height _ _ Rr) in Hle. exact Hle.
  - intros pid p Hgp Hqd. destruct (rel_get _ _ _ _ Rr Hgp) as (q & Hq & [Hcq Hz]). pose proof Hcq as (C1 & C2 & C3 & C4).
    apply in_queue_true in Hqd. apply (r_queue _ _ Rr) in Hqd. split.
    + pose proof (QP.f_future _ QI _ _ Hqd) as Hle. rewrite (r_height _ _ Rr) in Hle. exact Hle.
    + intros e He. apply in_queue_true in He. apply (r_queue _ _ Rr) in He.
      destruct (QP.f_entry _ QI _ _ He) as (q' & Hq' & Hee & _). congruence.
Qed.
