(** * Queues / service: the model passes its own check ([model_passes_check]).
    For EVERY history of the queue model (no hypothesis), the checker [check_service], fed the
    observations the MODEL itself produces, returns (-1,-1,0): no divergence and no clause of
    the C13 predicate (41 abort, 42 hygiene, 43 handled exactly once at the due height) fires. *)
From Irismod Require Import Queues.CheckService Queues.ProofsService Queues.SoundService.

(** ** set comparison *)
Lemma subsetb_incl {A} `{EqDec A} (a b : list A) : (forall x, In x a -> In x b) -> subsetb a b = true.
Proof.
  intros Hi. unfold subsetb. apply forallb_forall. intros x Hx. apply existsb_exists. exists x. split; [auto|apply eqb_refl].
Qed.

Lemma seteqb_refl {A} `{EqDec A} (a : list A) : seteqb a a = true.
Proof. unfold seteqb. rewrite !subsetb_incl by auto. rewrite Z.eqb_refl. reflexivity. Qed.

(** ** what the model shows after a step *)
Definition obsm (s : state) (oc : outcome) : sobs :=
  mkSObs (outcome_code oc) (height s) (proj_ctxs s) (nq s) (xq s) (nmark s) (xmark s).

Fixpoint mtrace (s : state) (ops : list op) : list (op * sobs) :=
  match ops with
  | [] => []
  | o :: rest => (o, obsm (fst (step s o)) (snd (step s o))) :: mtrace (fst (step s o)) rest
  end.

Lemma scorr_model s oc : scorr s oc (obsm s oc) = true.
Proof. unfold scorr, obsm. simpl. rewrite !Z.eqb_refl, !seteqb_refl. reflexivity. Qed.

(** ** messages only add queue entries *)
Lemma nonblock_grow s o :
  (match o with EndBlock _ => False | _ => True end) ->
  (forall k, In k (nq s) -> In k (nq (fst (step s o)))) /\ (forall k, In k (xq s) -> In k (xq (fst (step s o)))).
Proof.
  intros Ho. destruct o; simpl; try contradiction; unfold_ops; destr; split; auto; intros k Hk; apply In_enq; auto.
Qed.

(** ** the handlers touch only their own context *)
Lemma expire_one_other s a id : id <> a -> get id (ctxs (expire_one s a)) = get id (ctxs s).
Proof.
  intros Hne. unfold expire_one. destruct (c_state _); simpl.
  - destruct (c_repeated _ && _); simpl; [apply get_set_other|apply get_del_other]; exact Hne.
  - apply get_set_other. exact Hne.
  - apply get_del_other. exact Hne.
Qed.

Lemma newbatch_one_other res s a id : id <> a -> get id (ctxs (newbatch_one res s a)) = get id (ctxs s).
Proof.
  intros Hne. unfold newbatch_one. destruct (c_state _); simpl; try reflexivity.
  destruct (lookup_res a res); simpl; apply get_set_other; exact Hne.
Qed.

Lemma expire_all_other : forall ids s id, ~ In id ids -> get id (ctxs (fold_left expire_one ids s)) = get id (ctxs s).
Proof.
  induction ids as [|a ids IH]; simpl; intros s id Hn; [reflexivity|].
  rewrite IH by tauto. apply expire_one_other. intros ->. apply Hn. auto.
Qed.

Lemma newbatch_all_other res : forall ids s id, ~ In id ids ->
  get id (ctxs (fold_left (newbatch_one res) ids s)) = get id (ctxs s).
Proof.
  induction ids as [|a ids IH]; simpl; intros s id Hn; [reflexivity|].
  rewrite IH by tauto. apply newbatch_one_other. intros ->. apply Hn. auto.
Qed.

Lemma newbatch_one_xq_grows res s a e : In e (xq s) -> In e (xq (newbatch_one res s a)).
Proof.
  intros He. unfold newbatch_one. destruct (c_state _); simpl; try exact He.
  destruct (lookup_res a res); simpl; [apply In_enq; auto|exact He].
Qed.

Lemma newbatch_all_xq_grows res : forall ids s e, In e (xq s) -> In e (xq (fold_left (newbatch_one res) ids s)).
Proof.
  induction ids as [|a ids IH]; simpl; intros s e He; [exact He|]. apply IH. apply newbatch_one_xq_grows. exact He.
Qed.

Lemma newbatch_one_height res s a : height (newbatch_one res s a) = height s.
Proof. unfold newbatch_one. destruct (c_state _); simpl; try reflexivity. destruct (lookup_res a res); reflexivity. Qed.

(** a due new-batch entry of a running context: the batch is started (or skipped) and its
    expiration scheduled, or the context is paused for lack of funds *)
Definition started (h : Z) (id : Z) (c : rctx) (s' : state) : Prop :=
  exists c', get id (ctxs s') = Some c'
    /\ ((c_state c' = CPaused /\ c_done c' = true)
        \/ (c_counter c' = c_counter c + 1 /\ In (h + c_timeout c, id) (xq s'))).

Lemma newbatch_all_self res : forall ids s id c, NoDup ids -> In id ids ->
  get id (ctxs s) = Some c -> c_state c = CRunning ->
  started (height s) id c (fold_left (newbatch_one res) ids s).
Proof.
  induction ids as [|a ids IH]; simpl; intros s id c Hnd Hin Hg Hr; [contradiction|].
  inversion Hnd as [|? ? Hni Hnd']; subst.
  destruct (Z.eq_dec a id) as [->|Hne].
  - (* this iteration handles it; the later ones leave it alone *)
    assert (started (height s) id c (newbatch_one res s id)) as (c' & Hg' & Hc').
    { unfold started, newbatch_one, get_ctx. rewrite Hg, Hr. destruct (lookup_res id res) as [n|]; simpl.
      - eexists. rewrite get_set_same. split; [reflexivity|]. right. simpl. split; [reflexivity|]. apply In_enq. auto.
      - eexists. rewrite get_set_same. split; [reflexivity|]. left. simpl. auto. }
    exists c'. rewrite newbatch_all_other by exact Hni. split; [exact Hg'|].
    destruct Hc' as [Hp|[Hcn Hx]]; [left; exact Hp|right; split; [exact Hcn|]]. apply newbatch_all_xq_grows. exact Hx.
  - destruct Hin as [Heq|Hin]; [congruence|].
    rewrite <- (newbatch_one_height res s a).
    apply IH; auto. rewrite newbatch_one_other by (intros Heq; apply Hne; auto). exact Hg.
Qed.

(** an expiration: the context is gone, or its batch is completed with the same counter *)
Lemma expire_all_self : forall ids s id c, NoDup ids -> In id ids -> get id (ctxs s) = Some c ->
  get id (ctxs (fold_left expire_one ids s)) = None
  \/ exists c1, get id (ctxs (fold_left expire_one ids s)) = Some c1 /\ c_done c1 = true /\ c_counter c1 = c_counter c.
Proof.
  induction ids as [|a ids IH]; simpl; intros s id c Hnd Hin Hg; [contradiction|].
  inversion Hnd as [|? ? Hni Hnd']; subst.
  destruct (Z.eq_dec a id) as [->|Hne].
  - rewrite expire_all_other by exact Hni. unfold expire_one, get_ctx. rewrite Hg. simpl c_state.
    destruct (c_state c); simpl.
    + destruct (c_repeated _ && _); simpl.
      * right. eexists. rewrite get_set_same. split; [reflexivity|]. auto.
      * left. apply get_del_same.
    + right. eexists. rewrite get_set_same. split; [reflexivity|]. auto.
    + left. apply get_del_same.
  - destruct Hin as [Heq|Hin]; [congruence|]. apply IH; auto.
    rewrite expire_one_other by (intros Heq; apply Hne; auto). exact Hg.
Qed.

(** ... and the new-batch loop after it keeps "completed, or a later batch" *)
Lemma newbatch_all_after res : forall ids s id c1 k, NoDup ids ->
  get id (ctxs s) = Some c1 -> (c_done c1 = true \/ k < c_counter c1) -> k <= c_counter c1 ->
  exists c2, get id (ctxs (fold_left (newbatch_one res) ids s)) = Some c2 /\ (c_done c2 = true \/ k < c_counter c2).
Proof.
  induction ids as [|a ids IH]; simpl; intros s id c1 k Hnd Hg Hd Hk; [eauto|].
  inversion Hnd as [|? ? Hni Hnd']; subst.
  destruct (Z.eq_dec a id) as [->|Hne].
  - rewrite newbatch_all_other by exact Hni. unfold newbatch_one, get_ctx. rewrite Hg.
    destruct (c_state c1) eqn:Hst.
    + destruct (lookup_res id res); simpl; eexists; (split; [apply get_set_same|]); simpl; [right; lia|left; reflexivity].
    + simpl. exists c1. split; [exact Hg|exact Hd].
    + simpl. exists c1. split; [exact Hg|exact Hd].
  - apply (IH (newbatch_one res s a) id c1 k Hnd'); auto.
    rewrite newbatch_one_other by (intros Heq; apply Hne; auto). exact Hg.
Qed.

Lemma due_ids_in' h q id : In id (map snd (due h q)) <-> In (h, id) q.
Proof. apply due_ids_in. Qed.

(** ** one step of the check on the model's own observations *)
Local Opaque ememb.
Lemma sprop_model s o oc0 : QInv s -> sprop (obsm s oc0) o (obsm (fst (step s o)) (snd (step s o))) = 0.
Proof.
  intros Q. pose proof (step_inv s o Q) as Q'.
  assert (shyg (obsm (fst (step s o)) (snd (step s o))) = true) as H42
    by exact (hygiene_clause_holds_on_QInv (fst (step s o)) Q').
  unfold sprop. cbv zeta. rewrite H42.
  destruct o as [id c t r f n np rest|id c m t r f n thr np rest|id sd rest|id sd rest|id sd thr np t f rest
                 |id sd rest|id sd rest|id sd rest|id sd t f n rest|id good seedok rest|res].
  11: {
    (* the end blocker *)
    pose proof (blocks_total_service s res Q) as Hna. simpl in Hna.
    simpl step. destruct (blocker_aborts s) eqn:Eb; [simpl in Hna; congruence|]. clear Hna. simpl fst. simpl snd.
    unfold end_block.
    destruct (expire_all_spec (map snd (due (height s) (xq s))) s Q) as (Q1 & Hh1 & Hx1 & Hn1 & Hn1').
    { apply NoDup_due_ids. exact (qk_nodup _ _ _ (s_exp s Q)). }
    { intros id Hin. apply due_ids_in. exact Hin. }
    set (s1 := fold_left expire_one (map snd (due (height s) (xq s))) s) in *.
    destruct (newbatch_all_spec res (map snd (due (height s1) (nq s1))) s1 Q1) as (Q2 & Hh2 & Hn2 & Hx2 & Hx2').
    { apply NoDup_due_ids. exact (qk_nodup _ _ _ (s_new s1 Q1)). }
    { intros id Hin. apply due_ids_in. exact Hin. }
    set (s2 := fold_left (newbatch_one res) (map snd (due (height s1) (nq s1))) s1) in *.
    simpl so_code. simpl so_height. simpl so_nq. simpl so_xq. simpl so_ctxs.
    replace (height s + 1 - 1) with (height s) by lia.
    assert (NoDup (map snd (due (height s) (xq s)))) as Ndx by (apply NoDup_due_ids; exact (qk_nodup _ _ _ (s_exp s Q))).
    assert (NoDup (map snd (due (height s1) (nq s1)))) as Ndn by (apply NoDup_due_ids; exact (qk_nodup _ _ _ (s_new s1 Q1))).
    (* A1 / A2: entries of other heights stay *)
    assert (forallb (fun e => (fst e =? height s) || ememb e (nq s2)) (nq s) = true) as A1.
    { apply forallb_forall. intros [h i] Hin. simpl. destruct (h =? height s) eqn:E; [reflexivity|]. simpl.
      apply Z.eqb_neq in E. apply ememb_In. apply Hn2. split; [apply Hn1; exact Hin|]. simpl. rewrite Hh1. intros [Heq _]. congruence. }
    assert (forallb (fun e => (fst e =? height s) || ememb e (xq s2)) (xq s) = true) as A2.
    { apply forallb_forall. intros [h i] Hin. simpl. destruct (h =? height s) eqn:E; [reflexivity|]. simpl.
      apply Z.eqb_neq in E. apply ememb_In. apply Hx2'. apply Hx1. split; [exact Hin|]. simpl. intros [Heq _]. congruence. }
    (* A3: the due new batches of running contexts *)
    assert (forallb (fun '(eh, id) =>
              negb (eh =? height s)
              || match get id (proj_ctxs s) with
                 | Some ((0, _, cnt), (tmo, _, _), _, _) =>
                     match get id (proj_ctxs (mkS (height s + 1) (ctxs s2) (nq s2) (xq s2) (nmark s2) (xmark s2) (ndone s2) (xdone s2))) with
                     | Some ((st', done', cnt'), _, _, _) =>
                         ((st' =? 1) && done') || ((cnt' =? cnt + 1) && ememb (height s + tmo, id) (xq s2))
                     | None => false
                     end
                 | _ => true
                 end) (nq s) = true) as A3.
    { apply forallb_forall. intros [eh id] Hin. destruct (eh =? height s) eqn:E; [|reflexivity]. simpl negb. simpl orb.
      apply Z.eqb_eq in E. subst eh. rewrite !get_proj. simpl ctxs.
      destruct (get id (ctxs s)) as [c|] eqn:Hg; [|reflexivity]. simpl option_map. unfold cproj at 1.
      destruct (c_state c) eqn:Hst; simpl cstate_code; try reflexivity.
      (* running: not among the expirations, so untouched by the first loop, and handled by the second *)
      pose proof (proj1 (qk_mark _ _ _ (s_new s Q) _ _) Hin) as Hnm.
      assert (~ In id (map snd (due (height s) (xq s)))) as Hnx.
      { intros Hi. apply due_ids_in in Hi. apply (qk_mark _ _ _ (s_exp s Q)) in Hi. rewrite (s_excl s Q _ _ Hnm) in Hi. discriminate. }
      assert (get id (ctxs s1) = Some c) as Hg1 by (unfold s1; rewrite expire_all_other by exact Hnx; exact Hg).
      assert (In id (map snd (due (height s1) (nq s1)))) as Hi2.
      { apply due_ids_in. rewrite Hh1. apply Hn1. exact Hin. }
      destruct (newbatch_all_self res _ s1 id c Ndn Hi2 Hg1 Hst) as (c' & Hg' & Hc'). fold s2 in Hg'. rewrite Hg'. simpl.
      destruct Hc' as [[Hp Hd]|[Hcn Hx]].
      - rewrite Hp, Hd. reflexivity.
      - fold s2 in Hx. rewrite Hh1 in Hx. apply ememb_In in Hx. rewrite Hcn, Z.eqb_refl, Hx. apply orb_true_r. }
    (* A4: the due expirations *)
    assert (forallb (fun '(eh, id) =>
              negb (eh =? height s)
              || match get id (proj_ctxs s),
                       get id (proj_ctxs (mkS (height s + 1) (ctxs s2) (nq s2) (xq s2) (nmark s2) (xmark s2) (ndone s2) (xdone s2))) with
                 | Some ((_, _, cnt), _, _, _), Some ((_, done', cnt'), _, _, _) => done' || (cnt <? cnt')
                 | _, _ => true
                 end) (xq s) = true) as A4.
    { apply forallb_forall. intros [eh id] Hin. destruct (eh =? height s) eqn:E; [|reflexivity]. simpl negb. simpl orb.
      apply Z.eqb_eq in E. subst eh. rewrite !get_proj. simpl ctxs.
      destruct (get id (ctxs s)) as [c|] eqn:Hg; [|reflexivity]. simpl option_map. unfold cproj at 1.
      assert (In id (map snd (due (height s) (xq s)))) as Hi1 by (apply due_ids_in; exact Hin).
      destruct (expire_all_self _ s id c Ndx Hi1 Hg) as [Hnone|(c1 & Hg1 & Hd1 & Hk1)]; fold s1 in Hnone || fold s1 in Hg1.
      - (* deleted: it has no entry any more, so the second loop does not bring it back *)
        assert (~ In id (map snd (due (height s1) (nq s1)))) as Hn.
        { intros Hi. apply due_ids_in in Hi. apply (qk_mark _ _ _ (s_new s1 Q1)) in Hi.
          apply (s_ctx s1 Q1 id); [left; congruence|exact Hnone]. }
        unfold s2. rewrite newbatch_all_other by exact Hn. rewrite Hnone. reflexivity.
      - destruct (newbatch_all_after res _ s1 id c1 (c_counter c) Ndn Hg1 (or_introl Hd1) ltac:(lia)) as (c2 & Hg2 & Hc2).
        fold s2 in Hg2. rewrite Hg2. simpl. destruct Hc2 as [->|Hlt]; [reflexivity|].
        apply orb_true_iff. right. apply Z.ltb_lt. exact Hlt. }
    replace (outcome_code Ok =? 2) with false by reflexivity. simpl negb. simpl orb.
    match goal with |- first_bad [_; _; (43, ?a && ?b && ?c && ?d)] = 0 =>
      assert (a = true) as -> by exact A1; assert (b = true) as -> by exact A2;
      assert (c = true) as -> by exact A3; assert (d = true) as -> by exact A4 end.
    reflexivity.
  }
  all: match goal with |- context [step ?s ?o] =>
         destruct (nonblock_grow s o Logic.I) as [Gn Gx] end;
       simpl so_nq; simpl so_xq;
       rewrite (subsetb_incl _ _ Gn), (subsetb_incl _ _ Gx); reflexivity.
Qed.

Local Transparent ememb.

(** ** the whole check *)
Lemma scheck_model : forall ops s oc0 i,
  QInv s -> scheck_from s (obsm s oc0) (mtrace s ops) i (-1) (-1) 0 = (-1, -1, 0).
Proof.
  induction ops as [|o ops IH]; simpl; intros s oc0 i Q; [reflexivity|].
  destruct (step s o) as [s' oc] eqn:E. simpl.
  assert (s' = fst (step s o)) as Es by (rewrite E; reflexivity).
  assert (oc = snd (step s o)) as Eo by (rewrite E; reflexivity).
  pose proof (step_inv s o Q) as Q'. rewrite <- Es in Q'.
  rewrite (scorr_model s' oc). simpl.
  pose proof (sprop_model s o oc0 Q) as Hp. rewrite <- Es, <- Eo in Hp. rewrite Hp. simpl.
  apply IH. exact Q'.
Qed.

Theorem model_passes_check_service h0 ops : check_service (h0, mtrace (init h0) ops) = (-1, -1, 0).
Proof. unfold check_service. exact (scheck_model ops (init h0) Ok 0 (QInv_init h0)). Qed.
