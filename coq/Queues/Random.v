(** * Queues / random: the request queue (modules/random/abci.go, keeper/keeper.go,
    keeper/service.go, types/rng.go).

    A request made at height [h] by consumer [c] has id [SHA256(be64 h ‖ c)] — modelled as
    its pre-image [(h, c)] (the harness checks the real id is the hash of exactly that).  The
    queue (prefix 0x02) maps [(destination height, id)] to the request; the begin-blocker of
    block [H] drains the entries of height [H - 1].  Plain requests get a random number
    (division by the block's unix timestamp: panics when that is 0); oracle requests are
    handed to the service module ([StartRequestContext], error swallowed) and remembered
    under the service context id until the response or the state callback removes them. *)
From Irismod Require Export Queues.Common.

Definition rid := (Z * Z)%type.                   (* request height, consumer *)
Definition rkey := (Z * rid)%type.                (* destination height, id *)
Definition rval := (bool * Z)%type.               (* oracle?, service context id (0 if none) *)

Record state := mkS {
  height : Z;
  rq : amap rkey rval;                            (* prefix 0x02 *)
  randoms : amap rid Z;                           (* prefix 0x01: id -> Random.Height *)
  oreqs : list Z;                                 (* prefix 0x03: service context ids *)
  made : list rkey;                               (* ghost: every request ever accepted *)
  done : list (rkey * Z)                          (* ghost: (entry, height of the block that drained it) *)
}.

Definition init (h0 : Z) : state := mkS h0 [] [] [] [] [].

Definition two63 : Z := 9223372036854775808.
Definition two64 : Z := 18446744073709551616.
(** Go's [int64(x)] of a [uint64] and wrapping [int64] addition *)
Definition wrap64 (z : Z) : Z := (z + two63) mod two64 - two63.

Inductive op :=
| Request (consumer interval : Z) (oracle : bool) (ctx : Z) (rest_ok : bool)
| BeginBlock (time : Z) (start_fails : list Z)    (* unix time of the new block; contexts whose start fails *)
| Dropped (ctxs : list Z).                        (* oracle requests removed by the service callbacks *)

(** Keeper.RequestRandom.  [interval] is a [uint64]; the destination height must not lie
    before the current height (guard added by the fix of this property: without it a huge
    interval wraps to a height that is never drained). *)
Definition request (s : state) (c interval : Z) (oracle : bool) (ctx : Z) (rest_ok : bool) : state * outcome :=
  let dest := wrap64 (height s + wrap64 interval) in
  if negb ((0 <=? interval) && (interval <? two64)) then (s, Rej)
  else if dest <? height s then (s, Rej)
  else if oracle && negb rest_ok then (s, Rej)                     (* RequestService: bindings, fee cap *)
  else
    let k := (dest, (height s, c)) in
    (mkS (height s) (set k (oracle, if oracle then ctx else 0) (rq s)) (randoms s) (oreqs s)
         (if existsb (fun x => eqb x k) (made s) then made s else made s ++ [k]) (done s), Ok).

Definition is_due (h : Z) (kv : rkey * rval) : bool := fst (fst kv) =? h.
Definition is_plain (kv : rkey * rval) : bool := negb (fst (snd kv)).

Fixpoint set_all (ids : list rid) (v : Z) (m : amap rid Z) : amap rid Z :=
  match ids with [] => m | i :: rest => set_all rest v (set i v m) end.

Fixpoint add_all (xs : list Z) (l : list Z) : list Z :=
  match xs with [] => l | x :: rest => add_all rest (if existsb (Z.eqb x) l then l else l ++ [x]) end.

(** BeginBlocker of the next block.  The iterations of the Go loop touch disjoint keys, so
    the loop is written as one bulk update; [None] = panic. *)
Definition begin_block (s : state) (time : Z) (start_fails : list Z) : option state :=
  let h := height s + 1 in
  let last := h - 1 in
  let dues := filter (is_due last) (rq s) in
  let plain := filter is_plain dues in
  let oracle := filter (fun kv => negb (is_plain kv)) dues in
  if negb (match plain with [] => true | _ => false end) && (time =? 0) then None   (* big.Int.Div by zero *)
  else
    let started := filter (fun c => negb (existsb (Z.eqb c) start_fails)) (map (fun kv => snd (snd kv)) oracle) in
    Some (mkS h (filter (fun kv => negb (is_due last kv)) (rq s))
              (set_all (map (fun kv => snd (fst kv)) plain) last (randoms s))
              (add_all started (oreqs s))
              (made s)
              (done s ++ map (fun kv => (fst kv, h)) dues)).

Definition step (s : state) (o : op) : state * outcome :=
  match o with
  | Request c i orc ctx ok => request s c i orc ctx ok
  | BeginBlock t fails => match begin_block s t fails with Some s' => (s', Ok) | None => (s, Abort) end
  | Dropped ctxs => (mkS (height s) (rq s) (randoms s) (filter (fun c => negb (existsb (Z.eqb c) ctxs)) (oreqs s)) (made s) (done s), Ok)
  end.

Fixpoint run (s : state) (ops : list op) : state :=
  match ops with [] => s | o :: rest => run (fst (step s o)) rest end.
