(** * Queues / random: the model passes its own check ([model_passes_check]).
    For EVERY history of the queue model, [check_random], fed the observations the model itself
    produces, returns (-1,-1,0). *)
From Irismod Require Import Queues.CheckRandom Queues.ProofsRandom Queues.SoundRandom.

Lemma subsetb_incl {A} `{EqDec A} (a b : list A) : (forall x, In x a -> In x b) -> subsetb a b = true.
Proof.
  intros Hi. unfold subsetb. apply forallb_forall. intros x Hx. apply existsb_exists. exists x. split; [auto|apply eqb_refl].
Qed.

Lemma seteqb_refl {A} `{EqDec A} (a : list A) : seteqb a a = true.
Proof. unfold seteqb. rewrite !subsetb_incl by auto. rewrite Z.eqb_refl. reflexivity. Qed.

Definition obsm (s : state) (oc : outcome) : robs :=
  mkRObs (outcome_code oc) (height s) (rq s) (randoms s) (oreqs s) [].

Fixpoint mtrace (s : state) (ops : list op) : list (op * robs) :=
  match ops with
  | [] => []
  | o :: rest => (o, obsm (fst (step s o)) (snd (step s o))) :: mtrace (fst (step s o)) rest
  end.

Lemma rcorr_model s oc : rcorr s oc (obsm s oc) = true.
Proof. unfold rcorr, obsm. simpl. rewrite !Z.eqb_refl, !seteqb_refl. reflexivity. Qed.

Lemma keys_set_sup {K V} `{EqDec K} (k k' : K) (v : V) (m : amap K V) : In k' (keys m) -> In k' (keys (set k v m)).
Proof.
  unfold keys. induction m as [|[k0 v0] m IH]; simpl; [tauto|].
  destruct (eq_dec k k0) as [->|Hne]; simpl; [tauto|]. intros [H1|H1]; [auto|right; auto].
Qed.

Lemma length_set_le {K V} `{EqDec K} (k : K) (v : V) (m : amap K V) : (length (set k v m) <= length m + 1)%nat.
Proof.
  induction m as [|[k0 v0] m IH]; simpl; [lia|]. destruct (eq_dec k k0); simpl; lia.
Qed.

Lemma of_nat_le_succ (a b : nat) : (a <= b + 1)%nat -> Z.of_nat a <= Z.of_nat b + 1.
Proof. lia. Qed.

Lemma rprop_model s o : QInv s -> rprop (rq s) o (obsm (fst (step s o)) (snd (step s o))) = 0.
Proof.
  intros Q. pose proof (step_inv s o Q) as Q'.
  assert (rhyg (obsm (fst (step s o)) (snd (step s o))) = true) as Hh
    by exact (hygiene_clause_holds_on_QInv (fst (step s o)) Q').
  unfold rprop. cbv zeta. rewrite Hh.
  destruct o as [c iv orc ctx ok|t fails|ctxs].
  - (* Request *)
    simpl step. unfold request.
    destruct (negb ((0 <=? iv) && (iv <? two64))); [simpl; rewrite subsetb_incl, seteqb_refl by auto; reflexivity|].
    destruct (wrap64 (height s + wrap64 iv) <? height s); [simpl; rewrite subsetb_incl, seteqb_refl by auto; reflexivity|].
    destruct (orc && negb ok); [simpl; rewrite subsetb_incl, seteqb_refl by auto; reflexivity|].
    simpl. rewrite subsetb_incl by (intros x Hx; apply keys_set_sup; exact Hx).
    simpl andb. destruct (Z.of_nat _ <=? _) eqn:El; [reflexivity|]. exfalso. apply Z.leb_gt in El.
    apply Z.lt_nge in El. apply El. apply of_nat_le_succ. apply length_set_le.
  - (* BeginBlock *)
    simpl step. destruct (begin_block s t fails) as [s'|] eqn:E.
    + simpl fst. simpl snd. unfold begin_block in E. replace (height s + 1 - 1) with (height s) in E by lia.
      match type of E with context [if ?b then _ else _] => destruct b eqn:Eab end; [discriminate|]. inversion E; subst s'; clear E.
      simpl ro_code. simpl ro_height. simpl ro_queue. simpl ro_randoms. simpl ro_handed.
      replace (height s + 1 - 1) with (height s) by lia.
      replace (outcome_code Ok =? 2) with false by reflexivity. simpl negb. rewrite orb_true_r. simpl orb.
      set (q' := filter (fun kv => negb (is_due (height s) kv)) (rq s)).
      assert (forall x, In x q' <-> In x (rq s) /\ fst (fst x) <> height s) as Hq'.
      { intros x. unfold q'. rewrite filter_In. unfold is_due. rewrite negb_true_iff, Z.eqb_neq. tauto. }
      assert (forallb (fun kv => if fst (fst kv) =? height s
                                 then negb (existsb (fun x => eqb (fst x) (fst kv)) q')
                                 else existsb (fun x => eqb x kv) q') (rq s) = true) as B1.
      { apply forallb_forall. intros kv Hin. destruct (fst (fst kv) =? height s) eqn:Ed.
        - apply negb_true_iff. destruct (existsb (fun x => eqb (fst x) (fst kv)) q') eqn:Ex; [|reflexivity]. exfalso.
          apply existsb_exists in Ex. destruct Ex as (x & Hx & Hk). apply (proj1 (eqb_true_iff _ _)) in Hk.
          apply Hq' in Hx. destruct Hx as [_ Hne]. apply Hne. apply Z.eqb_eq in Ed.
          transitivity (fst (fst kv)); [f_equal; exact Hk|exact Ed].
        - apply existsb_exists. exists kv. split; [|apply eqb_refl]. apply Hq'. apply Z.eqb_neq in Ed. auto. }
      assert (subsetb q' (rq s) = true) as B2 by (apply subsetb_incl; intros x Hx; apply Hq' in Hx; tauto).
      assert (forallb (fun kv => negb (fst (fst kv) =? height s) || fst (snd kv)
                                 || match get (snd (fst kv))
                                              (set_all (map (fun kv0 => snd (fst kv0)) (filter is_plain (filter (is_due (height s)) (rq s))))
                                                       (height s) (randoms s)) with
                                    | Some hh => hh =? height s | None => false end) (rq s) = true) as B3.
      { apply forallb_forall. intros [k [orc c]] Hin. simpl.
        destruct (fst k =? height s) eqn:Ed; [|reflexivity]. simpl. destruct orc; [reflexivity|]. simpl.
        rewrite get_set_all; [apply Z.eqb_refl|]. left. apply in_map_iff. exists (k, (false, c)). split; [reflexivity|].
        apply filter_In. split; [|reflexivity]. apply filter_In. split; [exact Hin|]. unfold is_due. simpl. exact Ed. }
      match goal with |- first_bad [_; (22, true && (?a && ?b)); (23, ?c && true)] = 0 =>
        assert (a = true) as -> by exact B1; assert (b = true) as -> by exact B2; assert (c = true) as -> by exact B3 end.
      reflexivity.
    + (* the blocker aborted: only at block time 0 *)
      simpl fst. simpl snd. unfold begin_block in E. match type of E with context [if ?b then _ else _] => destruct b eqn:Eab end; [|discriminate].
      apply andb_true_iff in Eab. destruct Eab as [_ Et]. rewrite Et. simpl. reflexivity.
  - (* Dropped *)
    simpl. rewrite seteqb_refl. reflexivity.
Qed.

Lemma rcheck_model : forall ops s i,
  QInv s -> rcheck_from s (rq s) (mtrace s ops) i (-1) (-1) 0 = (-1, -1, 0).
Proof.
  induction ops as [|o ops IH]; simpl; intros s i Q; [reflexivity|].
  destruct (step s o) as [s' oc] eqn:E. simpl.
  assert (s' = fst (step s o)) as Es by (rewrite E; reflexivity).
  assert (oc = snd (step s o)) as Eo by (rewrite E; reflexivity).
  pose proof (step_inv s o Q) as Q'. rewrite <- Es in Q'.
  rewrite (rcorr_model s' oc). simpl.
  pose proof (rprop_model s o Q) as Hp. rewrite <- Es, <- Eo in Hp. rewrite Hp. simpl.
  apply IH. exact Q'.
Qed.

Theorem model_passes_check_random h0 ops : check_random (h0, mtrace (init h0) ops) = (-1, -1, 0).
Proof. unfold check_random. exact (rcheck_model ops (init h0) 0 (QInv_init h0)). Qed.
