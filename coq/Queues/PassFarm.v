(** * Queues / farm: the model passes its own check ([model_passes_check]).
    For every history without a failing updatePool in an end-blocker refund and with
    non-negative AdjustPool durations (both facts of the full farm model: [LinkFarm]), the
    checker [check_farm], fed the observations the MODEL itself produces, returns (-1,-1,0): no
    divergence (trivially) and — the point — no clause of the C13 predicate fires.  So the
    predicate evaluated on implementation traces demands nothing the theorems do not give, and
    an implementation that agrees with the model can never trip the check. *)
From Irismod Require Import Queues.CheckFarm Queues.ProofsFarm Queues.SoundFarm.

(** ** set comparison *)
Lemma subsetb_incl {A} `{EqDec A} (a b : list A) : (forall x, In x a -> In x b) -> subsetb a b = true.
Proof.
  intros Hi. unfold subsetb. apply forallb_forall. intros x Hx. apply existsb_exists. exists x. split; [auto|apply eqb_refl].
Qed.

Lemma seteqb_refl {A} `{EqDec A} (a : list A) : seteqb a a = true.
Proof. unfold seteqb. rewrite !subsetb_incl by auto. rewrite Z.eqb_refl. reflexivity. Qed.

Lemma seteqb_NoDup {A} `{EqDec A} (a b : list A) :
  NoDup a -> NoDup b -> (forall x, In x a <-> In x b) -> seteqb a b = true.
Proof.
  intros Na Nb Hab. unfold seteqb. rewrite !subsetb_incl by (intros x; apply Hab). simpl. apply Z.eqb_eq. f_equal.
  apply Nat.le_antisymm; apply NoDup_incl_length; auto; intros x; apply Hab.
Qed.

(** ** what the model shows after a step *)
Definition obsm (s : state) (oc : outcome) : fobs := mkFObs (outcome_code oc) (height s) (proj_model s) (fq s).

Fixpoint mtrace (s : state) (ops : list op) : list (op * fobs) :=
  match ops with
  | [] => []
  | o :: rest => (o, obsm (fst (step s o)) (snd (step s o))) :: mtrace (fst (step s o)) rest
  end.

Lemma has_entry_In id q : has_entry id q = true <-> exists h, In (h, id) q.
Proof.
  unfold has_entry. rewrite existsb_exists. split.
  - intros ([h i] & Hin & He). simpl in He. apply Z.eqb_eq in He. subst. eauto.
  - intros (h & Hin). exists (h, id). split; [exact Hin|apply Z.eqb_refl].
Qed.

Lemma closed_no_entry s id p : QInv s -> get id (pools s) = Some p -> p_closed p <> POpen -> has_entry id (fq s) = false.
Proof.
  intros Q Hg Hc. destruct (has_entry id (fq s)) eqn:E; [|reflexivity]. exfalso.
  apply has_entry_In in E. destruct E as (h & Hin). destruct (f_entry s Q _ _ Hin) as (p' & Hg' & _ & Ho). congruence.
Qed.

Lemma proj_impl_model s oc : QInv s -> proj_impl (obsm s oc) = proj_model s.
Proof.
  intros Q. unfold proj_impl, obsm, proj_model. simpl. rewrite map_map. apply map_ext_in. intros [id p] Hin. simpl. f_equal. f_equal.
  pose proof (In_get _ _ _ (f_keys s Q) Hin) as Hg.
  destruct (is_paid (p_closed p)) eqn:Ep; [|reflexivity]. simpl.
  rewrite (closed_no_entry s id p Q Hg); [reflexivity|]. intros Ho. rewrite Ho in Ep. discriminate.
Qed.

Lemma fcorr_model s oc : QInv s -> fcorr s oc (obsm s oc) = true.
Proof.
  intros Q. unfold fcorr. rewrite (proj_impl_model s oc Q). simpl. rewrite !Z.eqb_refl, !seteqb_refl. reflexivity.
Qed.

(** ** a pool out of the queue is never touched again *)
Lemma expire_one_other f1 f2 s a id : id <> a -> get id (pools (expire_one f1 f2 s a)) = get id (pools s).
Proof.
  intros Hne. unfold expire_one. destruct (get a (pools s)) as [p|]; [|reflexivity]. simpl. apply get_set_other. exact Hne.
Qed.

Lemma expire_all_other f1 f2 : forall ids s id, ~ In id ids ->
  get id (pools (fold_left (expire_one f1 f2) ids s)) = get id (pools s).
Proof.
  induction ids as [|a ids IH]; simpl; intros s id Hn; [reflexivity|].
  rewrite IH by tauto. apply expire_one_other. intros ->. apply Hn. auto.
Qed.

Lemma due_ids_in h q id : In id (map snd (due h q)) <-> In (h, id) q.
Proof.
  split.
  - intros Hin. apply in_map_iff in Hin. destruct Hin as ([e i] & Hf & Hin). simpl in Hf. subst i.
    apply In_due in Hin. simpl in Hin. destruct Hin as [-> Hin]. exact Hin.
  - intros Hin. apply in_map_iff. exists (h, id). split; [reflexivity|]. apply In_due. auto.
Qed.

Lemma closed_stable s o id p :
  QInv s -> get id (pools s) = Some p -> p_closed p <> POpen -> get id (pools (fst (step s o))) = Some p.
Proof.
  intros Q Hg Hc.
  assert (forall q, get id (pools s) = Some q -> expired s id q = true) as Hexp.
  { intros q Hq. destruct (expired s id q) eqn:E; [reflexivity|]. exfalso. apply Hc.
    rewrite Hg in Hq. inversion Hq; subst q. exact (not_expired_open s id p Q Hg E). }
  destruct o as [st sp ed c r|id' sd av r|id' sd r|id' r|f1 f2]; simpl.
  - unfold create. destruct (st <? height s); [exact Hg|]. destruct (sp <? 1); [exact Hg|]. destruct r; try exact Hg. simpl.
    rewrite get_set_other; [exact Hg|]. pose proof (f_seq s Q _ _ Hg). lia.
  - unfold adjust. destruct (get id' (pools s)) as [q|] eqn:Hq; [|exact Hg].
    destruct (negb (p_editable q)); [exact Hg|]. destruct (negb (sd =? p_creator q)); [exact Hg|].
    destruct (expired s id' q) eqn:Ex; [exact Hg|]. destruct r; try exact Hg.
    destruct (_ =? p_end q); [exact Hg|]. simpl. rewrite get_set_other; [exact Hg|].
    intros ->. rewrite (Hexp _ Hq) in Ex. discriminate.
  - unfold destroy. destruct (get id' (pools s)) as [q|] eqn:Hq; [|exact Hg].
    destruct (negb (sd =? p_creator q)); [exact Hg|]. destruct (negb (p_editable q)); [exact Hg|].
    destruct (expired s id' q) eqn:Ex; [exact Hg|]. destruct r; try exact Hg. simpl.
    rewrite get_set_other; [exact Hg|]. intros ->. rewrite (Hexp _ Hq) in Ex. discriminate.
  - unfold stake. destruct (get id' (pools s)) as [q|]; [|exact Hg].
    destruct (height s <? p_start q); [exact Hg|]. destruct (expired s id' q); exact Hg.
  - unfold end_block. simpl. rewrite expire_all_other; [exact Hg|].
    intros Hin. apply due_ids_in in Hin. destruct (f_entry s Q _ _ Hin) as (p' & Hg' & _ & Ho). congruence.
Qed.

(** ** the end blocker closes every due pool, paid out *)
Lemma expire_all_due f2 : forall ids s id p, NoDup ids -> In id ids -> get id (pools s) = Some p ->
  exists p', get id (pools (fold_left (expire_one [] f2) ids s)) = Some p'
             /\ p_end p' = height s /\ is_paid (p_closed p') = true.
Proof.
  induction ids as [|a ids IH]; simpl; intros s id p Hnd Hin Hg; [contradiction|].
  inversion Hnd as [|? ? Hni Hnd']; subst.
  assert (height (expire_one [] f2 s a) = height s) as Hh.
  { unfold expire_one. destruct (get a (pools s)); reflexivity. }
  destruct (Z.eq_dec a id) as [->|Hne].
  - rewrite expire_all_other by exact Hni. unfold expire_one. rewrite Hg. simpl.
    rewrite get_set_same. eexists. split; [reflexivity|]. destruct (existsb (Z.eqb id) f2); simpl; auto.
  - destruct Hin as [Heq|Hin]; [congruence|].
    destruct (IH (expire_one [] f2 s a) id p Hnd' Hin) as (p' & Hg' & He & Hp).
    + rewrite expire_one_other by (intros Heq; apply Hne; auto). exact Hg.
    + exists p'. rewrite Hh in He. auto.
Qed.

(** ** one step of the check on the model's own observations *)
Lemma fprop_model s o :
  QInv s -> op_clean o ->
  forall oc0, fprop (obsm s oc0) o (obsm (fst (step s o)) (snd (step s o))) = 0.
Proof.
  intros Q Hc oc0. pose proof (step_inv s o Q (op_clean_wf _ Hc)) as Q'.
  set (s' := fst (step s o)) in *. set (oc := snd (step s o)).
  assert (match o with EndBlock _ _ => negb (fo_code (obsm s' oc) =? 2) | _ => true end = true) as H31.
  { destruct o; reflexivity. }
  assert (fhyg (obsm s' oc) = true) as H32 by exact (hygiene_clause_holds_on_QInv s' Q').
  assert (forallb (fun '(id, (_, e, _)) =>
            has_entry id (fo_queue (obsm s oc0))
            || (negb (has_entry id (fo_queue (obsm s' oc)))
                && match get id (fo_pools (obsm s' oc)) with Some (_, e', _) => e' =? e | None => false end))
          (fo_pools (obsm s oc0)) = true) as H33a.
  { apply forallb_forall. intros [id [[st e] z]] Hin. simpl in *.
    unfold proj_model in Hin. apply in_map_iff in Hin. destruct Hin as ([i p] & Heq & Hin). inversion Heq; subst. clear Heq.
    pose proof (In_get _ _ _ (f_keys s Q) Hin) as Hg.
    destruct (has_entry id (fq s)) eqn:He; [reflexivity|]. simpl.
    assert (p_closed p <> POpen) as Hcl.
    { intros Ho. pose proof (f_open s Q _ _ Hg Ho) as Hi. assert (has_entry id (fq s) = true) by (apply has_entry_In; eauto). congruence. }
    pose proof (closed_stable s o id p Q Hg Hcl) as Hg'. fold s' in Hg'.
    rewrite (closed_no_entry s' id p Q' Hg' Hcl). simpl. rewrite get_proj, Hg'. simpl. apply Z.eqb_refl. }
  unfold fprop. cbv zeta. rewrite H32, H33a. simpl first_bad.
  clear H31. destruct o as [st sp ed c r|id sd av r|id sd r|id r|f1 f2]; try reflexivity.
  simpl in Hc. subst f1.
  (* the end blocker *)
  assert (s' = end_block s [] f2) as Es by reflexivity.
  assert (height s' = height s + 1) as Hh by (rewrite Es; reflexivity).
  destruct (expire_all_spec [] f2 (map snd (due (height s) (fq s))) s Q) as (_ & _ & Hq).
  { apply NoDup_due_ids. exact (f_nodup s Q). }
  { intros id Hin. apply due_ids_in. exact Hin. }
  assert (forall e, In e (fq s') <-> In e (fq s) /\ fst e <> height s) as Hq'.
  { intros [h i]. rewrite Es. unfold end_block. simpl. rewrite Hq. simpl. rewrite due_ids_in. split.
    - intros [Hin Hno]. split; [exact Hin|]. intros ->. apply Hno. auto.
    - intros [Hin Hne]. split; [exact Hin|]. intros [-> _]. congruence. }
  simpl fo_code. simpl fo_height. simpl fo_queue. simpl fo_pools.
  replace (outcome_code oc =? 2) with false by reflexivity. simpl orb.
  assert (seteqb (fq s') (filter (fun e => negb (fst e =? height s' - 1)) (fq s)) = true) as HB1.
  { apply seteqb_NoDup; [exact (f_nodup s' Q')|apply NoDup_filter; exact (f_nodup s Q)|].
    intros e. rewrite Hq', filter_In, Hh. replace (height s + 1 - 1) with (height s) by lia.
    rewrite negb_true_iff, Z.eqb_neq. tauto. }
  assert (forallb (fun '(eh, id) =>
            negb (eh =? height s' - 1)
            || match get id (proj_model s') with Some (_, e, z) => (e =? height s' - 1) && z | None => false end) (fq s) = true) as HB2.
  { apply forallb_forall. intros [eh id] Hin. rewrite Hh. replace (height s + 1 - 1) with (height s) by lia.
    destruct (eh =? height s) eqn:Ee; [|reflexivity]. simpl. apply Z.eqb_eq in Ee. subst eh.
    destruct (f_entry s Q _ _ Hin) as (p & Hg & _ & _).
    destruct (expire_all_due f2 (map snd (due (height s) (fq s))) s id p) as (p' & Hg' & He & Hp).
    { apply NoDup_due_ids. exact (f_nodup s Q). }
    { apply due_ids_in. exact Hin. }
    { exact Hg. }
    rewrite get_proj. rewrite Es. unfold end_block. simpl. rewrite Hg'. simpl. rewrite He, Z.eqb_refl, Hp. reflexivity. }
  simpl negb. cbv iota.
  match goal with |- (if ?a && ?b then 0 else 33) = 0 =>
    assert (a = true) as -> by exact HB1; assert (b = true) as -> by exact HB2 end.
  reflexivity.
Qed.

(** ** the whole check *)
Lemma fcheck_model : forall ops s oc0 i,
  QInv s -> Forall op_clean ops ->
  fcheck_from s (obsm s oc0) (mtrace s ops) i (-1) (-1) 0 = (-1, -1, 0).
Proof.
  induction ops as [|o ops IH]; simpl; intros s oc0 i Q Hc; [reflexivity|].
  inversion Hc as [|? ? Ho Hops]; subst.
  destruct (step s o) as [s' oc] eqn:E. simpl.
  assert (s' = fst (step s o)) as Es by (rewrite E; reflexivity).
  assert (oc = snd (step s o)) as Eo by (rewrite E; reflexivity).
  pose proof (step_inv s o Q (op_clean_wf _ Ho)) as Q'. rewrite <- Es in Q'.
  rewrite (fcorr_model s' oc Q'). simpl.
  pose proof (fprop_model s o Q Ho oc0) as Hp. rewrite <- Es, <- Eo in Hp. rewrite Hp. simpl.
  apply IH; assumption.
Qed.

Theorem model_passes_check_farm h0 ops :
  Forall op_clean ops -> check_farm (h0, mtrace (init h0) ops) = (-1, -1, 0).
Proof.
  intros Hc. unfold check_farm. exact (fcheck_model ops (init h0) Ok 0 (QInv_init h0) Hc).
Qed.
