(** * Queues / HTLC: the model passes its own check ([model_passes_check]).
    For every history in which no refund returns an error (a fact of the full HTLC model:
    [LinkHtlc]), [check_htlc], fed the observations the model itself produces, returns (-1,-1,0). *)
From Irismod Require Import Queues.CheckHtlc Queues.ProofsHtlc Queues.SoundHtlc.

Lemma subsetb_incl {A} `{EqDec A} (a b : list A) : (forall x, In x a -> In x b) -> subsetb a b = true.
Proof.
  intros Hi. unfold subsetb. apply forallb_forall. intros x Hx. apply existsb_exists. exists x. split; [auto|apply eqb_refl].
Qed.

Lemma seteqb_refl {A} `{EqDec A} (a : list A) : seteqb a a = true.
Proof. unfold seteqb. rewrite !subsetb_incl by auto. rewrite Z.eqb_refl. reflexivity. Qed.

Definition obsm (s : state) (oc : outcome) : hobs := mkHObs (outcome_code oc) (height s) (proj_objs s) (hq s).

Fixpoint mtrace (s : state) (ops : list op) : list (op * hobs) :=
  match ops with
  | [] => []
  | o :: rest => (o, obsm (fst (step s o)) (snd (step s o))) :: mtrace (fst (step s o)) rest
  end.

Lemma hcorr_model s oc : hcorr s oc (obsm s oc) = true.
Proof. unfold hcorr, obsm. simpl. rewrite !Z.eqb_refl, !seteqb_refl. reflexivity. Qed.

(** ** the drain loop, object by object *)
Definition refd (h : Z) (o : hobj) : hobj := mkH HRefunded (h_expire o) h (h_transfer o) (h_ncoins o).

Lemma refund_all_get : forall ids s,
  (forall id o, get id (objs s) = Some o -> h_transfer o = true -> h_ncoins o = 1) -> NoDup ids ->
  exists s', refund_all [] s ids = Some s' /\ height s' = height s
    /\ forall n, get n (objs s')
                 = if in_dec Z.eq_dec n ids then option_map (refd (height s)) (get n (objs s)) else get n (objs s).
Proof.
  induction ids as [|a l IH]; simpl; intros s Hc Hnd.
  - exists s. auto.
  - inversion Hnd as [|? ? Hni Hnd']; subst. unfold refund_one. destruct (get a (objs s)) as [o|] eqn:Eg.
    + assert (h_transfer o && (h_ncoins o <? 1) = false) as ->.
      { destruct (h_transfer o) eqn:Etr; [|reflexivity]. rewrite (Hc _ _ Eg Etr). reflexivity. }
      simpl.
      match goal with |- exists s', refund_all [] ?s1 l = _ /\ _ => destruct (IH s1) as (s' & E & Hh & Hg) end.
      * simpl. intros id o'. rewrite get_set_cases. destruct (eq_dec id a) as [->|]; [|apply Hc].
        intros Ho' Htr. inversion Ho'; subst o'. simpl in *. eapply Hc; eauto.
      * exact Hnd'.
      * exists s'. split; [exact E|]. split; [exact Hh|]. intros n. rewrite Hg. simpl.
        rewrite get_set_cases.
        destruct (Z.eq_dec a n) as [->|Hne].
        -- destruct (in_dec Z.eq_dec n l); [contradiction|]. destruct (eq_dec n n); [|congruence]. rewrite Eg. reflexivity.
        -- destruct (eq_dec n a) as [->|_]; [congruence|]. destruct (in_dec Z.eq_dec n l); reflexivity.
    + match goal with |- exists s', refund_all [] ?s1 l = _ /\ _ => destruct (IH s1) as (s' & E & Hh & Hg) end.
      * simpl. exact Hc.
      * exact Hnd'.
      * exists s'. split; [exact E|]. split; [exact Hh|]. intros n. rewrite Hg. simpl.
        destruct (Z.eq_dec a n) as [->|Hne].
        -- destruct (in_dec Z.eq_dec n l); [contradiction|]. rewrite Eg. reflexivity.
        -- destruct (in_dec Z.eq_dec n l); reflexivity.
Qed.

(** an object is never deleted, its expiration height never changes, and once closed it never changes *)
Lemma obj_stable s o id x : QInv s -> op_clean o -> get id (objs s) = Some x ->
  exists x', get id (objs (fst (step s o))) = Some x' /\ h_expire x' = h_expire x /\ (h_status x = HOpen \/ x' = x).
Proof.
  intros [W N] Hc Hg. destruct o as [id' tl tr n ok|id' ok|fails]; simpl.
  - unfold create. destruct (negb _); [eauto|]. destruct (has id' (objs s)) eqn:Eh; [eauto|].
    destruct (tr && _); [eauto|]. destruct (negb ok); [eauto|]. simpl. exists x. rewrite get_set_other; [auto|].
    intros ->. unfold has in Eh. rewrite Hg in Eh. discriminate.
  - unfold claim. destruct (get id' (objs s)) as [y|] eqn:Hy; [|eauto]. destruct (h_status y) eqn:Hs; [|eauto|eauto].
    destruct (negb ok); [eauto|]. simpl. destruct (Z.eq_dec id id') as [->|Hne].
    + rewrite Hg in Hy. inversion Hy; subst y. rewrite get_set_same. eexists. split; [reflexivity|]. split; [reflexivity|left; exact Hs].
    + exists x. rewrite get_set_other by exact Hne. auto.
  - simpl in Hc. subst fails. unfold begin_block.
    destruct (refund_all_get (map snd (due (height s + 1) (hq s))) (mkS (height s + 1) (objs s) (hq s) (refunds s)))
      as (s' & E & _ & Hget).
    { exact (qi_coins s W). }
    { apply NoDup_due_ids. exact (qi_nodup s W). }
    rewrite E. simpl. rewrite Hget. simpl. rewrite Hg.
    destruct (in_dec Z.eq_dec id (map snd (due (height s + 1) (hq s)))) as [Hin|Hni].
    + simpl. eexists. split; [reflexivity|]. split; [reflexivity|]. left.
      apply in_map_iff in Hin. destruct Hin as ([h i] & Hf & Hin). simpl in Hf. subst i. apply In_due in Hin. destruct Hin as [_ Hin].
      destruct (qi_entry s W _ _ Hin) as (y & Hy & Ho & _). congruence.
    + exists x. auto.
Qed.

Lemma hprop_model s o : QInv s -> op_clean o ->
  hprop (proj_objs s) o (obsm (fst (step s o)) (snd (step s o))) = 0.
Proof.
  intros Q Hc. pose proof (step_inv s o Q Hc) as Q'.
  assert (hhyg (obsm (fst (step s o)) (snd (step s o))) = true) as H12
    by exact (hygiene_clause_holds_on_QInv (fst (step s o)) Q').
  assert (match o with BeginBlock _ => negb (ho_code (obsm (fst (step s o)) (snd (step s o))) =? 2) | _ => true end = true) as H11.
  { destruct o as [| |fails]; try reflexivity. pose proof (blocks_total_htlc s fails Q) as Hna.
    unfold obsm. cbn [ho_code]. destruct (snd (step s (BeginBlock fails))) eqn:Es; [reflexivity|reflexivity|exfalso; apply Hna; reflexivity]. }
  destruct Q' as [W' N'].
  assert (forallb (fun '(id, (st, e, c)) => negb (st =? 2) || (c =? e)) (proj_objs (fst (step s o))) = true) as H13a.
  { apply forallb_forall. intros [id [[st e] c]] Hin. unfold proj_objs in Hin. apply in_map_iff in Hin.
    destruct Hin as ([i x] & Heq & Hin). inversion Heq; subst. clear Heq.
    pose proof (In_get _ _ _ (qi_keys _ W') Hin) as Hg.
    destruct (h_status x) eqn:Hs; simpl; try reflexivity.
    pose proof (qi_refunded _ W' _ _ Hg Hs) as Hl. destruct (qi_log _ W' _ _ Hl) as (y & Hy & _ & _ & Hcl).
    rewrite Hg in Hy. inversion Hy; subst y. apply Z.eqb_eq. exact Hcl. }
  assert (forallb (fun '(id, (st, e, c)) =>
            match get id (proj_objs (fst (step s o))) with
            | Some (st', e', c') => (e' =? e) && ((st =? 0) || ((st' =? st) && (c' =? c)))
            | None => false
            end) (proj_objs s) = true) as H13b.
  { apply forallb_forall. intros [id [[st e] c]] Hin. unfold proj_objs in Hin. apply in_map_iff in Hin.
    destruct Hin as ([i x] & Heq & Hin). inversion Heq; subst. clear Heq.
    pose proof (In_get _ _ _ (qi_keys _ (proj1 Q)) Hin) as Hg.
    destruct (obj_stable s o id x Q Hc Hg) as (x' & Hg' & He & Hor).
    rewrite get_proj, Hg'. simpl. rewrite He, Z.eqb_refl. simpl.
    destruct Hor as [Ho| ->]; [rewrite Ho; reflexivity|]. rewrite !Z.eqb_refl. apply orb_true_r. }
  unfold hprop. rewrite H11, H12. simpl ho_objs. rewrite H13a, H13b. reflexivity.
Qed.

Lemma hcheck_model : forall ops s i,
  QInv s -> Forall op_clean ops -> hcheck_from s (proj_objs s) (mtrace s ops) i (-1) (-1) 0 = (-1, -1, 0).
Proof.
  induction ops as [|o ops IH]; simpl; intros s i Q Hc; [reflexivity|].
  inversion Hc as [|? ? Ho Hops]; subst.
  destruct (step s o) as [s' oc] eqn:E. simpl.
  assert (s' = fst (step s o)) as Es by (rewrite E; reflexivity).
  assert (oc = snd (step s o)) as Eo by (rewrite E; reflexivity).
  pose proof (step_inv s o Q Ho) as Q'. rewrite <- Es in Q'.
  rewrite (hcorr_model s' oc). simpl.
  pose proof (hprop_model s o Q Ho) as Hp. rewrite <- Es, <- Eo in Hp. rewrite Hp. simpl.
  apply IH; assumption.
Qed.

Theorem model_passes_check_htlc h0 ops :
  Forall op_clean ops -> check_htlc (h0, mtrace (init h0) ops) = (-1, -1, 0).
Proof. intros Hc. unfold check_htlc. exact (hcheck_model ops (init h0) 0 (QInv_init h0) Hc). Qed.
