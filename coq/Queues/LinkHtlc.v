(** * Queues / HTLC: the expiry-queue sub-model is an abstraction of the full HTLC model
    ([Htlc/Model.v], the model of C03/C04), and its hypothesis "no refund of the begin blocker
    returns an error" is a fact of that model.

    [R fs qs tbl]: [tbl] interns the contract ids of the full model (hash lock, sender,
    receiver, amount) as the numbers the queue model uses; related contracts have the same
    state, expiration height, closing block, transfer flag and number of coins; the heights
    agree.  (Both queues are determined by the contracts through the two invariants, so they
    need not be related separately.)  Every operation of the full model from a state
    satisfying its invariant is matched by operations of the queue model that are [op_clean]
    ([BeginBlock []]: every due refund succeeds — the HTLC group's [refund_at_expiry], which
    rests on the escrow identity of C04). *)
From Irismod Require Import Queues.Common.
From Irismod Require Queues.Htlc Queues.ProofsHtlc.
From Irismod Require Import Htlc.Model Htlc.Proofs.

Module Q := Irismod.Queues.Htlc.
Module QP := Irismod.Queues.ProofsHtlc.

Definition st_rel (c : cstate) (h : Q.hstatus) : Prop :=
  match c, h with
  | Open, Q.HOpen | Completed, Q.HCompleted | Refunded, Q.HRefunded => True
  | _, _ => False
  end.

Definition obj_rel (c : contract) (o : Q.hobj) : Prop :=
  st_rel (c_state c) (Q.h_status o) /\ Q.h_expire o = c_exp c /\ Q.h_closed o = c_closed c
  /\ Q.h_transfer o = c_transfer c /\ Q.h_ncoins o = Z.of_nat (length (c_amount c)).

Record R (fs : state) (qs : Q.state) (tbl : amap cid Z) : Prop := {
  r_height : Q.height qs = st_height fs;
  r_fwd : forall id c, get id (st_contracts fs) = Some c ->
      exists n o, get id tbl = Some n /\ get n (Q.objs qs) = Some o /\ obj_rel c o;
  r_bwd : forall n o, get n (Q.objs qs) = Some o ->
      exists id, get id tbl = Some n /\ get id (st_contracts fs) <> None;
  r_inj : forall id id' n, get id tbl = Some n -> get id' tbl = Some n -> id = id';
  r_vals : forall id n, get id tbl = Some n -> get n (Q.objs qs) <> None
}.

Lemma R_init P b t0 : R (init P b t0) (Q.init 1) [].
Proof. constructor; simpl; try reflexivity; intros; discriminate. Qed.

(** a number not yet used by the queue model *)
Definition fresh {V} (m : amap Z V) : Z := 1 + fold_right Z.max 0 (keys m).

Lemma fresh_above {V} (m : amap Z V) k : In k (keys m) -> k < fresh m.
Proof.
  unfold fresh, keys. intros Hin. assert (k <= fold_right Z.max 0 (map fst m)); [|lia].
  induction m as [|[k0 v0] m IH]; [contradiction|]. cbn [map fst fold_right]. destruct Hin as [Hk|Hin].
  - cbn [fst] in Hk. subst. apply Z.le_max_l.
  - specialize (IH Hin). etransitivity; [exact IH|apply Z.le_max_r].
Qed.

Lemma fresh_none {V} (m : amap Z V) : get (fresh m) m = None.
Proof.
  destruct (get (fresh m) m) as [v|] eqn:E; [|reflexivity]. exfalso.
  assert (In (fresh m) (keys m)) as Hin.
  { apply get_In in E. unfold keys. apply in_map_iff. exists (fresh m, v). auto. }
  pose proof (fresh_above m _ Hin). lia.
Qed.

(** the operation of the queue model that does nothing *)
Definition noop : Q.op := Q.Claim 0 false.
Lemma noop_step qs : fst (Q.step qs noop) = qs.
Proof.
  simpl. unfold Q.claim. destruct (get 0 (Q.objs qs)) as [o|]; [|reflexivity]. destruct (Q.h_status o); reflexivity.
Qed.

(** ** CreateHTLC *)
Lemma create_facts s m s' : create s m = Some s' ->
  50 <= m_lock m <= 34560 /\ 1 <= Z.of_nat (length (m_amount m))
  /\ (m_transfer m = true -> Z.of_nat (length (m_amount m)) = 1).
Proof.
  unfold create. destruct (negb (create_basic m)) eqn:Hb; [discriminate|]. intros _.
  apply negb_false_iff in Hb. unfold create_basic in Hb.
  apply andb_true_iff in Hb. destruct Hb as [Hb H6]. apply andb_true_iff in Hb. destruct Hb as [Hb H5].
  apply andb_true_iff in Hb. destruct Hb as [Hb H4]. apply andb_true_iff in Hb. destruct Hb as [_ H3].
  unfold MinTimeLock in H5. unfold MaxTimeLock in H6. apply Z.leb_le in H5. apply Z.leb_le in H6.
  split; [lia|]. split.
  - unfold coins_valid in H4. destruct (m_amount m); [discriminate|]. simpl length. lia.
  - intros Ht. rewrite Ht in H3. destruct (m_amount m) as [|x [|y l]]; try discriminate. reflexivity.
Qed.

Lemma sim_create fs qs tbl m fs' :
  Inv fs -> wf_op fs (Create m) -> R fs qs tbl -> create fs m = Some fs' ->
  exists o tbl', QP.op_clean o /\ R fs' (fst (Q.step qs o)) tbl'.
Proof.
  intros I W Rr E. destruct (create_facts _ _ _ E) as (Hl & Hn & Ht).
  destruct (create_open_rel _ _ _ I W E) as (dr & OR).
  set (n := fresh (Q.objs qs)). pose proof (fresh_none (Q.objs qs)) as Hfr. fold n in Hfr.
  exists (Q.Create n (m_lock m) (m_transfer m) (Z.of_nat (length (m_amount m))) true), (set (id_of m) n tbl).
  split; [exact Logic.I|]. simpl. unfold Q.create, Q.min_time_lock, Q.max_time_lock.
  assert ((50 <=? m_lock m) && (m_lock m <=? 34560) && (1 <=? Z.of_nat (length (m_amount m))) = true) as ->.
  { rewrite !andb_true_iff. repeat split; apply Z.leb_le; lia. }
  unfold has. rewrite Hfr. simpl.
  assert (m_transfer m && negb (Z.of_nat (length (m_amount m)) =? 1) = false) as ->.
  { destruct (m_transfer m) eqn:Etr; [|reflexivity]. rewrite (Ht eq_refl). reflexivity. }
  simpl. destruct Rr as [Rh Rf Rb Ri Rv]. constructor; simpl.
  - rewrite (or_height _ _ _ _ OR). exact Rh.
  - intros id c. rewrite (or_contracts _ _ _ _ OR), get_set_cases. destruct (eq_dec id (id_of m)) as [->|Hne].
    + intros Hc. inversion Hc; subst c. exists n. eexists. rewrite !get_set_same. split; [reflexivity|]. split; [reflexivity|].
      unfold obj_rel, new_contract. simpl. rewrite Rh. repeat split; reflexivity.
    + intros Hg. destruct (Rf _ _ Hg) as (n' & o & Ht' & Ho & Hrel). exists n', o.
      rewrite get_set_other by exact Hne. split; [exact Ht'|]. split; [|exact Hrel].
      rewrite get_set_other; [exact Ho|]. intros ->. congruence.
  - intros n' o. rewrite get_set_cases. destruct (eq_dec n' n) as [->|Hne].
    + intros _. exists (id_of m). rewrite (or_contracts _ _ _ _ OR), !get_set_same. split; [reflexivity|discriminate].
    + intros Ho. destruct (Rb _ _ Ho) as (id & Ht' & Hc). exists id.
      assert (id <> id_of m) as Hid by (intros ->; apply Hc; exact (or_fresh _ _ _ _ OR)).
      rewrite (or_contracts _ _ _ _ OR), !get_set_other by exact Hid. auto.
  - intros id id' n'. rewrite !get_set_cases.
    destruct (eq_dec id (id_of m)) as [->|H1], (eq_dec id' (id_of m)) as [->|H2]; intros A B.
    + reflexivity.
    + inversion A; subst n'. exfalso. exact (Rv _ _ B Hfr).
    + inversion B; subst n'. exfalso. exact (Rv _ _ A Hfr).
    + exact (Ri _ _ _ A B).
  - intros id n'. rewrite !get_set_cases. destruct (eq_dec id (id_of m)) as [->|H1].
    + intros A. inversion A; subst n'. destruct (eq_dec n n); [discriminate|congruence].
    + intros A. destruct (eq_dec n' n); [discriminate|exact (Rv _ _ A)].
Qed.

(** ** ClaimHTLC *)
Lemma sim_claim fs qs tbl who id secret fs' :
  Inv fs -> R fs qs tbl -> claim fs who id secret = Some fs' ->
  exists o, QP.op_clean o /\ R fs' (fst (Q.step qs o)) tbl.
Proof.
  intros I Rr E. pose proof (claim_spec fs who id secret I) as Hs. rewrite E in Hs.
  destruct Hs as (_ & c & Hg & Ho & _ & CR).
  destruct Rr as [Rh Rf Rb Ri Rv]. destruct (Rf _ _ Hg) as (n & o & Ht & Hn & Hrel).
  destruct Hrel as (Hst & He & Hcl & Htr & Hnc). rewrite Ho in Hst.
  exists (Q.Claim n true). split; [exact Logic.I|]. simpl. unfold Q.claim. rewrite Hn.
  destruct (Q.h_status o) eqn:Hso; simpl in Hst; try contradiction. simpl.
  constructor; simpl.
  - rewrite (cr_height _ _ _ _ _ CR). exact Rh.
  - intros id' c'. rewrite (cr_contracts _ _ _ _ _ CR), get_set_cases. destruct (eq_dec id' id) as [->|Hne].
    + intros Hc. inversion Hc; subst c'. exists n. eexists. split; [exact Ht|]. rewrite get_set_same. split; [reflexivity|].
      unfold obj_rel, close. simpl. rewrite Rh. repeat split; auto.
    + intros Hg'. destruct (Rf _ _ Hg') as (n' & o' & Ht' & Ho' & Hrel'). exists n', o'. split; [exact Ht'|]. split; [|exact Hrel'].
      rewrite get_set_other; [exact Ho'|]. intros ->. apply Hne. exact (Ri _ _ _ Ht' Ht).
  - intros n' o'. rewrite get_set_cases. destruct (eq_dec n' n) as [->|Hne].
    + intros _. exists id. split; [exact Ht|]. rewrite (cr_contracts _ _ _ _ _ CR), get_set_same. discriminate.
    + intros Ho'. destruct (Rb _ _ Ho') as (id' & Ht' & Hc'). exists id'. split; [exact Ht'|].
      rewrite (cr_contracts _ _ _ _ _ CR), get_set_cases. destruct (eq_dec id' id); [discriminate|exact Hc'].
  - exact Ri.
  - intros id' n' A. rewrite get_set_cases. destruct (eq_dec n' n); [discriminate|exact (Rv _ _ A)].
Qed.

(** ** one block boundary *)
Definition refd (h : Z) (o : Q.hobj) : Q.hobj := Q.mkH Q.HRefunded (Q.h_expire o) h (Q.h_transfer o) (Q.h_ncoins o).

Lemma q_refund_all_get : forall ids s,
  (forall id o, get id (Q.objs s) = Some o -> Q.h_transfer o = true -> Q.h_ncoins o = 1) -> NoDup ids ->
  exists s', Q.refund_all [] s ids = Some s' /\ Q.height s' = Q.height s
    /\ forall n, get n (Q.objs s')
                 = if in_dec Z.eq_dec n ids then option_map (refd (Q.height s)) (get n (Q.objs s)) else get n (Q.objs s).
Proof.
  induction ids as [|a l IH]; simpl; intros s Hc Hnd.
  - exists s. auto.
  - inversion Hnd as [|? ? Hni Hnd']; subst. unfold Q.refund_one. destruct (get a (Q.objs s)) as [o|] eqn:Eg.
    + assert (Q.h_transfer o && (Q.h_ncoins o <? 1) = false) as ->.
      { destruct (Q.h_transfer o) eqn:Etr; [|reflexivity]. rewrite (Hc _ _ Eg Etr). reflexivity. }
      simpl.
      match goal with |- exists s', Q.refund_all [] ?s1 l = _ /\ _ => destruct (IH s1) as (s' & E & Hh & Hg) end.
      * simpl. intros id o'. rewrite get_set_cases. destruct (eq_dec id a) as [->|]; [|apply Hc].
        intros Ho' Htr. inversion Ho'; subst o'. simpl in *. eapply Hc; eauto.
      * exact Hnd'.
      * exists s'. split; [exact E|]. split; [exact Hh|]. intros n. rewrite Hg. simpl.
        rewrite get_set_cases.
        destruct (Z.eq_dec a n) as [->|Hne].
        -- destruct (in_dec Z.eq_dec n l); [contradiction|]. destruct (eq_dec n n); [|congruence]. rewrite Eg. reflexivity.
        -- destruct (eq_dec n a) as [->|_]; [congruence|]. destruct (in_dec Z.eq_dec n l); reflexivity.
    + match goal with |- exists s', Q.refund_all [] ?s1 l = _ /\ _ => destruct (IH s1) as (s' & E & Hh & Hg) end.
      * simpl. exact Hc.
      * exact Hnd'.
      * exists s'. split; [exact E|]. split; [exact Hh|]. intros n. rewrite Hg. simpl.
        destruct (Z.eq_dec a n) as [->|Hne].
        -- destruct (in_dec Z.eq_dec n l); [contradiction|]. rewrite Eg. reflexivity.
        -- destruct (in_dec Z.eq_dec n l); reflexivity.
Qed.

Lemma sim_block fs qs tbl dt :
  Inv fs -> Strict fs -> R fs qs tbl -> QP.QInv qs ->
  R (begin_block fs dt) (fst (Q.step qs (Q.BeginBlock []))) tbl.
Proof.
  intros I S Rr QI. destruct (begin_block_spec fs dt I S) as (_ & _ & Hh & _ & Hc).
  destruct QI as [W N]. simpl. unfold Q.begin_block.
  set (s0 := Q.mkS (Q.height qs + 1) (Q.objs qs) (Q.hq qs) (Q.refunds qs)).
  set (ids := map snd (Common.due (Q.height qs + 1) (Q.hq qs))).
  destruct (q_refund_all_get ids s0) as (s' & E & Hh' & Hg').
  { exact (QP.qi_coins _ W). }
  { apply NoDup_due_ids. exact (QP.qi_nodup _ W). }
  rewrite E. simpl.
  assert (forall n, In n ids <-> In (Q.height qs + 1, n) (Q.hq qs)) as Hids.
  { intros n. unfold ids. split.
    - intros Hin. apply in_map_iff in Hin. destruct Hin as ([h i] & Hf & Hin). simpl in Hf. subst i.
      apply In_due in Hin. simpl in Hin. destruct Hin as [-> Hin]. exact Hin.
    - intros Hin. apply in_map_iff. exists (Q.height qs + 1, n). split; [reflexivity|]. apply In_due. auto. }
  destruct Rr as [Rh Rf Rb Ri Rv].
  (* a related pair is refunded on both sides or on neither *)
  assert (forall c n o, obj_rel c o -> get n (Q.objs qs) = Some o ->
            (if in_dec Z.eq_dec n ids then true else false) = openb c && (c_exp c =? st_height fs + 1)) as Hsame.
  { intros c n o (Hst & He & _) Ho. destruct (in_dec Z.eq_dec n ids) as [Hin|Hni].
    - apply Hids in Hin. destruct (QP.qi_entry _ W _ _ Hin) as (o' & Ho' & Hop & Hex). rewrite Ho in Ho'. inversion Ho'; subst o'.
      rewrite Hop in Hst. unfold openb. destruct (c_state c); simpl in Hst; try contradiction. simpl. symmetry. apply Z.eqb_eq. lia.
    - destruct (openb c && (c_exp c =? st_height fs + 1)) eqn:Eb; [|reflexivity]. exfalso. apply Hni. apply Hids.
      apply andb_true_iff in Eb. destruct Eb as [Eo Ee]. apply Z.eqb_eq in Ee. unfold openb in Eo.
      destruct (c_state c) eqn:Ec; try discriminate. destruct (Q.h_status o) eqn:Eho; simpl in Hst; try contradiction.
      pose proof (QP.qi_open _ W _ _ Ho Eho) as Hin. rewrite He, Ee, <- Rh in Hin. exact Hin. }
  constructor; simpl.
  - rewrite Hh', Hh. simpl. rewrite Rh. reflexivity.
  - intros id c'. rewrite Hc. destruct (get id (st_contracts fs)) as [c|] eqn:Hg; [|discriminate]. simpl.
    intros Hc'. inversion Hc'; subst c'. destruct (Rf _ _ Hg) as (n & o & Ht & Ho & Hrel).
    exists n. rewrite Hg'. simpl. rewrite Ho. pose proof (Hsame _ _ _ Hrel Ho) as Hs. unfold block_effect.
    destruct (in_dec Z.eq_dec n ids); rewrite <- Hs; simpl; eexists; (split; [exact Ht|split; [reflexivity|]]).
    + destruct Hrel as (Hst & He & Hcl & Htr & Hnc). unfold obj_rel, refd, close. simpl. rewrite Rh. repeat split; auto.
    + exact Hrel.
  - intros n o'. rewrite Hg'. simpl. intros Ho'.
    assert (get n (Q.objs qs) <> None) as Hn.
    { destruct (in_dec Z.eq_dec n ids); destruct (get n (Q.objs qs)); simpl in Ho'; congruence. }
    destruct (get n (Q.objs qs)) as [o|] eqn:Ho; [|congruence].
    destruct (Rb _ _ Ho) as (id & Ht & Hcn). exists id. split; [exact Ht|]. rewrite Hc.
    destruct (get id (st_contracts fs)); [discriminate|congruence].
  - exact Ri.
  - intros id n A. rewrite Hg'. simpl. pose proof (Rv _ _ A) as Hn.
    destruct (in_dec Z.eq_dec n ids); destruct (get n (Q.objs qs)); simpl; congruence.
Qed.

(** ** one operation of the full model, and whole histories *)
Lemma sim_adv : forall dts fs qs tbl,
  Inv fs -> Strict fs -> R fs qs tbl -> QP.QInv qs ->
  exists qops, Forall QP.op_clean qops /\ R (fold_left begin_block dts fs) (Q.run qs qops) tbl
               /\ QP.QInv (Q.run qs qops).
Proof.
  induction dts as [|dt dts IH]; simpl; intros fs qs tbl I S Rr QI.
  - exists []. split; [constructor|]. split; [exact Rr|exact QI].
  - destruct (begin_block_spec fs dt I S) as (I1 & S1 & _).
    pose proof (sim_block fs qs tbl dt I S Rr QI) as Rr1.
    assert (QP.op_clean (Q.BeginBlock [])) as Hcl by reflexivity.
    pose proof (QP.step_inv qs _ QI Hcl) as QI1.
    destruct (IH _ _ _ I1 S1 Rr1 QI1) as (qops & Hc & Rr2 & QI2).
    exists (Q.BeginBlock [] :: qops). split; [constructor; assumption|]. split; [exact Rr2|exact QI2].
Qed.

Theorem sim_step fs qs tbl o :
  Inv fs -> Strict fs -> wf_op fs o -> R fs qs tbl -> QP.QInv qs ->
  exists qops tbl', Forall QP.op_clean qops /\ R (step fs o) (Q.run qs qops) tbl' /\ QP.QInv (Q.run qs qops).
Proof.
  intros I S W Rr QI. unfold step. destruct o as [m|who id secret|dts|gw gP]; simpl.
  - destruct (create fs m) as [fs'|] eqn:E.
    + destruct (sim_create _ _ _ _ _ I W Rr E) as (qo & tbl' & Hc & Rr').
      exists [qo], tbl'. split; [constructor; [exact Hc|constructor]|]. split; [exact Rr'|]. simpl. apply QP.step_inv; assumption.
    + exists [], tbl. split; [constructor|]. split; [exact Rr|exact QI].
  - destruct (claim fs who id secret) as [fs'|] eqn:E.
    + destruct (sim_claim _ _ _ _ _ _ _ I Rr E) as (qo & Hc & Rr').
      exists [qo], tbl. split; [constructor; [exact Hc|constructor]|]. split; [exact Rr'|]. simpl. apply QP.step_inv; assumption.
    + exists [], tbl. split; [constructor|]. split; [exact Rr|exact QI].
  - destruct (sim_adv dts fs qs tbl I S Rr QI) as (qops & Hc & Rr' & QI'). exists qops, tbl. auto.
  - (* MsgUpdateParams touches neither the contracts nor the height: no operation of the queue model *)
    exists [], tbl. split; [constructor|]. split; [|exact QI].
    destruct ((gw =? GOV) && params_valid gP); [|exact Rr].
    destruct Rr as [Rh Rf Rb Ri Rv]. constructor; simpl; assumption.
Qed.

Lemma q_run_app : forall a b s, Q.run s (a ++ b) = Q.run (Q.run s a) b.
Proof. induction a as [|o a IH]; simpl; intros b s; [reflexivity|apply IH]. Qed.

Lemma sim_run : forall ops fs qs tbl,
  Inv fs -> Strict fs -> wf_run fs ops -> R fs qs tbl -> QP.QInv qs ->
  exists qops tbl', Forall QP.op_clean qops /\ R (run fs ops) (Q.run qs qops) tbl'.
Proof.
  unfold run. induction ops as [|o ops IH]; simpl; intros fs qs tbl I S W Rr QI.
  - exists [], tbl. split; [constructor|exact Rr].
  - destruct W as [Wo Wops]. fold (step fs o) in Wops.
    destruct (sim_step fs qs tbl o I S Wo Rr QI) as (q1 & tbl1 & Hc1 & Rr1 & QI1).
    destruct (step_inv fs o I S Wo) as (I1 & S1 & _).
    destruct (IH _ _ _ I1 S1 Wops Rr1 QI1) as (q2 & tbl2 & Hc2 & Rr2).
    exists (q1 ++ q2), tbl2. split; [apply Forall_app; auto|]. rewrite q_run_app. exact Rr2.
Qed.

(** Every history of the full HTLC model (valid parameters, empty escrow at genesis, senders
    and receivers that are not module accounts) is mirrored by a history of the queue model
    all of whose block operations are [BeginBlock []]: no refund of a begin blocker fails. *)
Theorem htlc_link_simulation P b t0 ops :
  params_ok P -> escrow_empty b -> wf_run (init P b t0) ops ->
  exists qops tbl, Forall QP.op_clean qops /\ R (reachable P b t0 ops) (Q.run (Q.init 1) qops) tbl.
Proof.
  intros HP HE W. destruct (init_inv P b t0 HP HE) as [I S].
  exact (sim_run ops _ _ [] I S W (R_init P b t0) (QP.QInv_init 1)).
Qed.
