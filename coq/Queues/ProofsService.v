(** * Queues / service: hygiene of the two batch queues, totality of the end-blocker, every
    entry handled exactly once at its height *)
From Irismod Require Import Queues.Service.

(** ** one queue with its per-context height marker *)
Record QOK (h : Z) (q : queue) (m : amap Z Z) : Prop := {
  qk_nodup : NoDup q;
  qk_mark : forall e id, In (e, id) q <-> get id m = Some e;
  qk_future : forall e id, In (e, id) q -> h <= e
}.

Lemma QOK_enq h q m e id : QOK h q m -> get id m = None -> h <= e -> QOK h (enq (e, id) q) (set id e m).
Proof.
  intros [Qn Qm Qf] Hnone Hle. constructor.
  - apply NoDup_enq. exact Qn.
  - intros e' id'. rewrite In_enq, get_set_cases. destruct (eq_dec id' id) as [->|Hne].
    + split.
      * intros [Heq|Hin]; [inversion Heq; reflexivity|]. apply Qm in Hin. congruence.
      * intros Heq. inversion Heq. left. reflexivity.
    + rewrite <- Qm. split; [intros [Heq|Hin]; [inversion Heq; congruence|exact Hin]|auto].
  - intros e' id' Hin. apply In_enq in Hin. destruct Hin as [Heq|Hin]; [inversion Heq; lia|eauto].
Qed.

Lemma QOK_deq h q m e id : QOK h q m -> get id m = Some e -> QOK h (deq (e, id) q) (del id m).
Proof.
  intros [Qn Qm Qf] Hs. constructor.
  - apply NoDup_deq. exact Qn.
  - intros e' id'. rewrite In_deq, get_del_cases. destruct (eq_dec id' id) as [->|Hne].
    + split; [|discriminate]. intros [Hn Hin]. apply Qm in Hin. exfalso. apply Hn. congruence.
    + rewrite <- Qm. split; [tauto|]. intros Hin. split; [congruence|exact Hin].
  - intros e' id' Hin. apply In_deq in Hin. destruct Hin as [_ Hin]. eauto.
Qed.

(** what keeps the module callbacks from aborting inside the end-blocker: a context owned by a
    module has a positive (batch) response threshold; a context of the random module has at most
    one request per batch, so that a batch still running has no output yet *)
Definition wfm (c : rctx) : Prop :=
  0 <= c_resps c
  /\ (c_module c <> 0 -> 1 <= c_bthr c /\ 1 <= c_thr c)
  /\ (c_module c = 2 -> c_reqs c <= 1 /\ (c_done c = false -> c_outs c = 0)).

Definition wf (c : rctx) : Prop :=
  (1 <= c_timeout c /\ (c_repeated c = true -> c_timeout c <= c_freq c)) /\ wfm c.

(** ** The invariant *)
Record QInv (s : state) : Prop := {
  s_new : QOK (height s) (nq s) (nmark s);
  s_exp : QOK (height s) (xq s) (xmark s);
  (** a context is never in both queues *)
  s_excl : forall id e, get id (nmark s) = Some e -> get id (xmark s) = None;
  (** every entry refers to an existing context *)
  s_ctx : forall id, get id (nmark s) <> None \/ get id (xmark s) <> None -> get id (ctxs s) <> None;
  (** a running context is awaiting its next batch or the expiration of the current one *)
  s_run : forall id c, get id (ctxs s) = Some c -> c_state c = CRunning ->
      get id (nmark s) <> None \/ get id (xmark s) <> None;
  s_wf : forall id c, get id (ctxs s) = Some c -> wf c;
  s_kc : NoDup (keys (ctxs s));
  s_kn : NoDup (keys (nmark s));
  s_kx : NoDup (keys (xmark s))
}.

#[local] Hint Resolve keys_set_NoDup keys_del_NoDup : core.

Lemma QInv_init h0 : QInv (init h0).
Proof.
  constructor; simpl; try discriminate; try (intros ? [H|H]; congruence); try apply NoDup_nil.
  - constructor; [constructor| |intros ? ? []]. intros e id. simpl. split; [intros []|discriminate].
  - constructor; [constructor| |intros ? ? []]. intros e id. simpl. split; [intros []|discriminate].
Qed.

Lemma excl' s : QInv s -> forall id e, get id (xmark s) = Some e -> get id (nmark s) = None.
Proof.
  intros Q id e Hx. destruct (get id (nmark s)) as [e'|] eqn:Hn; [|reflexivity].
  rewrite (s_excl s Q _ _ Hn) in Hx. discriminate.
Qed.

Ltac case_id id' id := destruct (eq_dec id' id) as [->|?].

(** A. a context rewritten in place *)
Lemma upd_set_inv s id c' :
  QInv s -> (c_state c' = CRunning -> get id (nmark s) <> None \/ get id (xmark s) <> None) -> wf c' ->
  QInv (upd s (set id c' (ctxs s))).
Proof.
  intros [Qn Qx Qe Qc Qr Qw Kc Kn Kx] Hrun Hwf. constructor; simpl; auto.
  - intros id' H. rewrite get_set_cases. case_id id' id; [discriminate|auto].
  - intros id' c. rewrite get_set_cases. case_id id' id; [|apply Qr]. intros Hc. inversion Hc; subst. exact Hrun.
  - intros id' c. rewrite get_set_cases. case_id id' id; [|apply Qw]. intros Hc. inversion Hc; subst. exact Hwf.
Qed.

(** B. a context (new or restarted) enters the new-batch queue *)
Lemma enter_new_inv s id c' h :
  QInv s -> get id (nmark s) = None -> get id (xmark s) = None -> wf c' -> height s <= h ->
  QInv (add_new (upd s (set id c' (ctxs s))) id h).
Proof.
  intros [Qn Qx Qe Qc Qr Qw Kc Kn Kx] Hn Hx Hwf Hle. constructor; simpl.
  - apply QOK_enq; assumption.
  - exact Qx.
  - intros id' e. rewrite get_set_cases. case_id id' id; [intros _; exact Hx|apply Qe].
  - intros id'. rewrite !get_set_cases. case_id id' id; [discriminate|apply Qc].
  - intros id' c. rewrite !get_set_cases. case_id id' id; [intros _ _; left; discriminate|apply Qr].
  - intros id' c. rewrite get_set_cases. case_id id' id; [|apply Qw]. intros Hc. inversion Hc; subst. exact Hwf.
  - auto.
  - auto.
  - auto.
Qed.

(** C. the new batch is started (or skipped): from the new-batch queue to the expiration queue *)
Lemma move_new_to_exp_inv s id h h' :
  QInv s -> get id (nmark s) = Some h -> height s <= h' -> QInv (del_new (add_exp s id h') id h).
Proof.
  intros Q Hn Hle. pose proof (s_excl s Q _ _ Hn) as Hx. destruct Q as [Qn Qx Qe Qc Qr Qw Kc Kn Kx].
  constructor; simpl.
  - apply QOK_deq; assumption.
  - apply QOK_enq; assumption.
  - intros id' e. rewrite get_del_cases, get_set_cases. case_id id' id; [discriminate|apply Qe].
  - intros id'. rewrite get_del_cases, get_set_cases. case_id id' id; [|apply Qc].
    intros _. apply Qc. left. congruence.
  - intros id' c. rewrite get_del_cases, get_set_cases. case_id id' id; [intros _ _; right; discriminate|apply Qr].
  - exact Qw.
  - auto.
  - auto.
  - auto.
Qed.

(** D. a new-batch entry of a context that is not running is dropped *)
Lemma del_new_inv s id h :
  QInv s -> get id (nmark s) = Some h -> (forall c, get id (ctxs s) = Some c -> c_state c <> CRunning) ->
  QInv (del_new s id h).
Proof.
  intros Q Hn Hnr. destruct Q as [Qn Qx Qe Qc Qr Qw Kc Kn Kx]. constructor; simpl; auto.
  - apply QOK_deq; assumption.
  - intros id' e. rewrite get_del_cases. case_id id' id; [discriminate|apply Qe].
  - intros id'. rewrite get_del_cases. case_id id' id; [|apply Qc]. intros [H|H]; [congruence|]. apply Qc. right. exact H.
  - intros id' c. rewrite get_del_cases. case_id id' id; [|apply Qr]. intros Hc Hrun. exfalso. exact (Hnr _ Hc Hrun).
Qed.

(** E. an expired batch of a repeated running context schedules the next batch *)
Lemma move_exp_to_new_inv s id h h' :
  QInv s -> get id (xmark s) = Some h -> height s <= h' -> QInv (add_new (del_exp s id h) id h').
Proof.
  intros Q Hx Hle. pose proof (excl' s Q _ _ Hx) as Hn. destruct Q as [Qn Qx Qe Qc Qr Qw Kc Kn Kx].
  constructor; simpl.
  - apply QOK_enq; assumption.
  - apply QOK_deq; assumption.
  - intros id' e. rewrite get_del_cases, get_set_cases. case_id id' id; [reflexivity|apply Qe].
  - intros id'. rewrite get_del_cases, get_set_cases. case_id id' id; [|apply Qc].
    intros _. apply Qc. right. congruence.
  - intros id' c. rewrite get_del_cases, get_set_cases. case_id id' id; [intros _ _; left; discriminate|apply Qr].
  - exact Qw.
  - auto.
  - auto.
  - auto.
Qed.

(** F. an expired batch of a context that is not running *)
Lemma del_exp_inv s id h :
  QInv s -> get id (xmark s) = Some h -> (forall c, get id (ctxs s) = Some c -> c_state c <> CRunning) ->
  QInv (del_exp s id h).
Proof.
  intros Q Hx Hnr. destruct Q as [Qn Qx Qe Qc Qr Qw Kc Kn Kx]. constructor; simpl; auto.
  - apply QOK_deq; assumption.
  - intros id' e Hn. rewrite get_del_cases. case_id id' id; [reflexivity|eapply Qe; eauto].
  - intros id'. rewrite get_del_cases. case_id id' id; [|apply Qc]. intros [H|H]; [|congruence]. apply Qc. left. exact H.
  - intros id' c. rewrite get_del_cases. case_id id' id; [|apply Qr]. intros Hc Hrun. exfalso. exact (Hnr _ Hc Hrun).
Qed.

(** G. the last batch has expired: entry and context go together *)
Lemma del_exp_ctx_inv s id h :
  QInv s -> get id (xmark s) = Some h -> QInv (upd (del_exp s id h) (del id (ctxs s))).
Proof.
  intros Q Hx. pose proof (excl' s Q _ _ Hx) as Hn. destruct Q as [Qn Qx Qe Qc Qr Qw Kc Kn Kx].
  constructor; simpl; auto.
  - apply QOK_deq; assumption.
  - intros id' e Hn'. rewrite get_del_cases. case_id id' id; [reflexivity|eapply Qe; eauto].
  - intros id'. rewrite !get_del_cases. case_id id' id; [intros [H|H]; congruence|apply Qc].
  - intros id' c. rewrite !get_del_cases. case_id id' id; [discriminate|apply Qr].
  - intros id' c. rewrite get_del_cases. case_id id' id; [discriminate|apply Qw].
Qed.

(** ** Messages *)
Lemma call_inv s id cons t r f n np rest : QInv s -> QInv (fst (call s id cons t r f n np rest)).
Proof.
  intros Q. unfold call.
  destruct ((t <=? 0) || (max_timeout <? t) || (f <? 0)) eqn:E1; [exact Q|].
  destruct (r && (((0 <? f) && (f <? t)) || (n <? -1) || (n =? 0))) eqn:E2; [exact Q|].
  destruct (has id (ctxs s)) eqn:E3; [exact Q|]. destruct rest; try exact Q. simpl.
  assert (get id (ctxs s) = None) as Hnone by (unfold has in E3; destruct (get id (ctxs s)); [discriminate|reflexivity]).
  apply orb_false_iff in E1. destruct E1 as [E1 E1f]. apply Z.ltb_ge in E1f.
  apply orb_false_iff in E1. destruct E1 as [E1 _]. apply Z.leb_gt in E1.
  apply enter_new_inv; auto.
  - destruct (get id (nmark s)) eqn:Hn; [|reflexivity]. exfalso. apply (s_ctx s Q id); [left; congruence|exact Hnone].
  - destruct (get id (xmark s)) eqn:Hx; [|reflexivity]. exfalso. apply (s_ctx s Q id); [right; congruence|exact Hnone].
  - split; [|unfold wfm; simpl; repeat split; try lia; intros H; congruence].
    split; simpl; [lia|]. intros ->. simpl in E2. destruct (f =? 0) eqn:Ef; [lia|].
    apply Z.eqb_neq in Ef. apply orb_false_iff in E2. destruct E2 as [E2 _]. apply orb_false_iff in E2. destruct E2 as [E2 _].
    apply andb_false_iff in E2. destruct E2 as [E2|E2]; [apply Z.ltb_ge in E2|apply Z.ltb_ge in E2]; lia.
  - lia.
Qed.

Lemma callm_inv s id cons m t r f n thr np rest : QInv s -> QInv (fst (callm s id cons m t r f n thr np rest)).
Proof.
  intros Q. unfold callm.
  destruct ((m <? 1) || (2 <? m) || ((m =? 2) && negb (np =? 1))) eqn:E0; [exact Q|].
  destruct ((t <=? 0) || (max_timeout <? t) || (f <? 0)) eqn:E1; [exact Q|].
  destruct (r && (((0 <? f) && (f <? t)) || (n <? -1) || (n =? 0))) eqn:E2; [exact Q|].
  destruct ((thr <? 1) || (np <? thr)) eqn:E4; [exact Q|].
  destruct (has id (ctxs s)) eqn:E3; [exact Q|]. destruct rest; try exact Q. simpl.
  apply orb_false_iff in E1. destruct E1 as [E1 E1f]. apply Z.ltb_ge in E1f.
  apply orb_false_iff in E1. destruct E1 as [E1 _]. apply Z.leb_gt in E1.
  apply orb_false_iff in E4. destruct E4 as [E4 _]. apply Z.ltb_ge in E4.
  apply upd_set_inv; [exact Q|simpl; discriminate|].
  split; [|unfold wfm; simpl; repeat split; try lia; intros H; discriminate].
  split; simpl; [lia|]. intros ->. simpl in E2. destruct (f =? 0) eqn:Ef; [lia|].
  apply Z.eqb_neq in Ef. apply orb_false_iff in E2. destruct E2 as [E2 _]. apply orb_false_iff in E2. destruct E2 as [E2 _].
  apply andb_false_iff in E2. destruct E2 as [E2|E2]; [apply Z.ltb_ge in E2|apply Z.ltb_ge in E2]; lia.
Qed.

Lemma set_state_wf c st : wf c -> wf (set_state c st).
Proof. intros H; exact H. Qed.

Lemma pause_inv bym s id sd rest : QInv s -> QInv (fst (pause_k bym s id sd rest)).
Proof.
  intros Q. unfold pause_k. destruct (get id (ctxs s)) as [c|] eqn:Hg; [|exact Q].
  destruct (negb (authorized bym sd c)); [exact Q|]. destruct (negb (c_repeated c)); [exact Q|].
  destruct (negb (eqb (c_state c) CRunning)); [exact Q|]. destruct rest; try exact Q. simpl.
  apply upd_set_inv; [exact Q|simpl; discriminate|apply set_state_wf; eapply s_wf; eauto].
Qed.

Lemma kill_inv s id sd rest : QInv s -> QInv (fst (kill s id sd rest)).
Proof.
  intros Q. unfold kill. destruct (get id (ctxs s)) as [c|] eqn:Hg; [|exact Q].
  destruct (negb (authorized false sd c)); [exact Q|]. destruct (negb (c_repeated c)); [exact Q|].
  destruct rest; try exact Q. simpl.
  apply upd_set_inv; [exact Q|simpl; discriminate|apply set_state_wf; eapply s_wf; eauto].
Qed.

Lemma start_inv bym s id sd rest : QInv s -> QInv (fst (start_k bym s id sd rest)).
Proof.
  intros Q. unfold start_k. destruct (get id (ctxs s)) as [c|] eqn:Hg; [|exact Q].
  destruct (negb (authorized bym sd c)); [exact Q|]. destruct (negb (eqb (c_state c) CPaused)); [exact Q|].
  destruct rest; try exact Q. simpl.
  pose proof (s_wf s Q _ _ Hg) as Hwf.
  unfold has. destruct (get id (xmark s)) as [e|] eqn:Hx; simpl.
  - apply upd_set_inv; [exact Q|intros _; right; congruence|exact Hwf].
  - destruct (get id (nmark s)) as [e|] eqn:Hn; simpl.
    + apply upd_set_inv; [exact Q|intros _; left; congruence|exact Hwf].
    + apply enter_new_inv; auto. lia.
Qed.

Lemma update_inv bym s id sd thr np t f n rest : QInv s -> QInv (fst (update_k bym s id sd thr np t f n rest)).
Proof.
  intros Q. unfold update_k. destruct (get id (ctxs s)) as [c|] eqn:Hg; [|exact Q].
  destruct (negb (authorized bym sd c)); [exact Q|]. destruct (bym && negb (c_module c =? 1)); [exact Q|].
  destruct (eqb (c_state c) CCompleted); [exact Q|].
  destruct ((t <? 0) || (n <? -1) || (max_timeout <? t) || (thr <? 0) || (np <? 0)) eqn:E1; [exact Q|].
  set (t' := if t =? 0 then c_timeout c else t). set (f' := if f =? 0 then c_freq c else f).
  set (th := if thr =? 0 then c_thr c else thr). set (np' := if np =? 0 then c_nprov c else np).
  destruct (bym && (np' <? th)); [exact Q|].
  destruct (f' <? t') eqn:E2; [exact Q|]. destruct ((1 <=? n) && (n <? c_counter c)); [exact Q|].
  destruct rest; try exact Q. simpl.
  destruct (s_wf s Q _ _ Hg) as [[Hw1 Hw2] (Hm1 & Hm2 & Hm3)]. apply Z.ltb_ge in E2.
  apply orb_false_iff in E1. destruct E1 as [E1 _]. apply orb_false_iff in E1. destruct E1 as [E1 E1t]. apply Z.ltb_ge in E1t.
  apply orb_false_iff in E1. destruct E1 as [E1 _]. apply orb_false_iff in E1. destruct E1 as [E1 _]. apply Z.ltb_ge in E1.
  assert (1 <= t') as Ht. { unfold t'. destruct (t =? 0) eqn:Et; [exact Hw1|]. apply Z.eqb_neq in Et. lia. }
  apply upd_set_inv; [exact Q|simpl; intros Hr; eapply s_run; eauto|].
  split; [split; simpl|].
  - destruct (0 <? t') eqn:E; [exact Ht|exact Hw1].
  - intros _. assert (0 <? t' = true) as -> by (apply Z.ltb_lt; lia).
    assert (0 <? f' = true) as -> by (apply Z.ltb_lt; lia). exact E2.
  - unfold wfm. simpl. split; [exact Hm1|]. split; [|exact Hm3].
    intros Hmod. destruct (Hm2 Hmod) as [Hb Hthr]. split; [exact Hb|].
    destruct bym; [|exact Hthr]. unfold th. destruct (thr =? 0) eqn:Eth; [exact Hthr|]. apply Z.eqb_neq in Eth. lia.
Qed.

Lemma respond_inv s id good seedok rest : QInv s -> QInv (fst (respond s id good seedok rest)).
Proof.
  intros Q. unfold respond. destruct rest; try exact Q. destruct (get id (ctxs s)) as [c|] eqn:Hg; [|exact Q].
  destruct (c_reqs c <=? c_resps c) eqn:Ea; [exact Q|]. simpl. apply Z.leb_gt in Ea.
  destruct (s_wf s Q _ _ Hg) as [Hw (Hm1 & Hm2 & Hm3)].
  apply upd_set_inv; [exact Q|simpl; intros Hr; eapply s_run; eauto|].
  split; [exact Hw|]. unfold wfm. simpl. split; [lia|]. split; [exact Hm2|].
  intros Hmod. destruct (Hm3 Hmod) as [Hr1 Hr2]. split; [exact Hr1|].
  assert (c_resps c + 1 = c_reqs c) as He by lia. rewrite He, Z.eqb_refl. discriminate.
Qed.

(** ** The two handlers of the end-blocker *)
Lemma upd_add_new s cs id h : add_new (upd s cs) id h = upd (add_new s id h) cs.
Proof. reflexivity. Qed.

Lemma expire_one_spec s id :
  QInv s -> In (height s, id) (xq s) ->
  QInv (expire_one s id) /\ height (expire_one s id) = height s
  /\ xq (expire_one s id) = deq (height s, id) (xq s)
  /\ (forall e, In e (nq s) -> In e (nq (expire_one s id)))
  /\ (forall e, In e (nq (expire_one s id)) -> In e (nq s) \/ height s <= fst e).
Proof.
  intros Q Hin. pose proof (proj1 (qk_mark _ _ _ (s_exp s Q) _ _) Hin) as Hx.
  assert (exists c, get id (ctxs s) = Some c) as (c & Hg).
  { destruct (get id (ctxs s)) as [c|] eqn:Hg; [eauto|]. exfalso. apply (s_ctx s Q id); [right; congruence|exact Hg]. }
  destruct (s_wf s Q _ _ Hg) as [[Hw1 Hw2] (Hm1 & Hm2 & Hm3)].
  assert (forall st, wf (mkC st true (c_counter c) (c_timeout c) (c_repeated c) (c_freq c) (c_total c) (c_consumer c)
                            (c_reqs c) (c_resps c) (c_module c) (c_nprov c) (c_thr c) (c_bthr c) 0 false)) as Hwfd.
  { intros st. split; [split; simpl; auto|]. unfold wfm. simpl. split; [exact Hm1|]. split; [exact Hm2|].
    intros Hmod. destruct (Hm3 Hmod) as [Hr1 _]. split; [exact Hr1|discriminate]. }
  unfold expire_one, get_ctx. rewrite Hg. simpl c_state.
  destruct (c_state c) eqn:Hst.
  - (* running *)
    simpl c_repeated. simpl c_total. simpl c_counter. simpl c_timeout. simpl c_freq.
    destruct (c_repeated c && ((c_total c <? 0) || (c_counter c <? c_total c))) eqn:Erep.
    + rewrite upd_add_new. apply andb_prop in Erep. destruct Erep as [Erep _]. specialize (Hw2 Erep).
      split; [|split; [reflexivity|split; [reflexivity|split]]].
      * apply (upd_set_inv (add_new (del_exp s id (height s)) id (height s - c_timeout c + c_freq c)) id).
        -- apply move_exp_to_new_inv; [exact Q|exact Hx|lia].
        -- intros _. left. simpl. rewrite get_set_same. discriminate.
        -- rewrite <- Hst. apply Hwfd.
      * intros e He. simpl. apply In_enq. right. exact He.
      * intros e He. simpl in He. apply In_enq in He. destruct He as [->|He]; [right; simpl; lia|left; exact He].
    + split; [exact (del_exp_ctx_inv s id (height s) Q Hx)|]. split; [reflexivity|]. split; [reflexivity|]. simpl. split; auto.
  - (* paused *)
    split; [|split; [reflexivity|split; [reflexivity|simpl; split; auto]]].
    apply (upd_set_inv (del_exp s id (height s)) id).
    + apply del_exp_inv; [exact Q|exact Hx|]. intros c' Hc'. rewrite Hg in Hc'. inversion Hc'; subst. congruence.
    + simpl. discriminate.
    + rewrite <- Hst. apply Hwfd.
  - (* completed *)
    split; [exact (del_exp_ctx_inv s id (height s) Q Hx)|]. split; [reflexivity|]. split; [reflexivity|]. simpl. split; auto.
Qed.

Lemma del_new_add_exp s id h h' : del_new (add_exp s id h') id h = add_exp (del_new s id h) id h'.
Proof. reflexivity. Qed.

Lemma newbatch_one_spec res s id :
  QInv s -> In (height s, id) (nq s) ->
  QInv (newbatch_one res s id) /\ height (newbatch_one res s id) = height s
  /\ nq (newbatch_one res s id) = deq (height s, id) (nq s)
  /\ (forall e, In e (xq (newbatch_one res s id)) -> In e (xq s) \/ height s < fst e)
  /\ (forall e, In e (xq s) -> In e (xq (newbatch_one res s id))).
Proof.
  intros Q Hin. pose proof (proj1 (qk_mark _ _ _ (s_new s Q) _ _) Hin) as Hn.
  assert (exists c, get id (ctxs s) = Some c) as (c & Hg).
  { destruct (get id (ctxs s)) as [c|] eqn:Hg; [eauto|]. exfalso. apply (s_ctx s Q id); [left; congruence|exact Hg]. }
  destruct (s_wf s Q _ _ Hg) as [[Hw1 Hw2] (Hm1 & Hm2 & Hm3)].
  unfold newbatch_one, get_ctx. rewrite Hg.
  destruct (c_state c) eqn:Hst.
  - destruct (lookup_res id res) as [n|].
    + split; [|split; [reflexivity|split; [reflexivity|split]]].
      * apply move_new_to_exp_inv; [|exact Hn|simpl; lia].
        apply upd_set_inv; [exact Q|intros _; left; congruence|].
        split; [split; simpl; auto|]. unfold wfm. simpl. split; [lia|]. split.
        { intros Hmod. destruct (Hm2 Hmod). auto. }
        { intros Hmod. rewrite Hmod. simpl. split; [lia|reflexivity]. }
      * intros e He. simpl in He. apply In_enq in He. destruct He as [->|He]; [right; simpl; lia|left; exact He].
      * intros e He. simpl. apply In_enq. right. exact He.
    + split; [|split; [reflexivity|split; [reflexivity|simpl; split; auto]]].
      apply del_new_inv; [|exact Hn|].
      * apply upd_set_inv; [exact Q|simpl; discriminate|].
        split; [split; simpl; auto|]. unfold wfm. simpl. split; [exact Hm1|]. split; [exact Hm2|].
        intros Hmod. destruct (Hm3 Hmod) as [Hr1 _]. split; [exact Hr1|discriminate].
      * simpl. intros c'. rewrite get_set_same. intros Hc'. inversion Hc'; subst. simpl. discriminate.
  - split; [|split; [reflexivity|split; [reflexivity|simpl; split; auto]]].
    apply del_new_inv; [exact Q|exact Hn|]. intros c' Hc'. rewrite Hg in Hc'. inversion Hc'; subst. congruence.
  - split; [|split; [reflexivity|split; [reflexivity|simpl; split; auto]]].
    apply del_new_inv; [exact Q|exact Hn|]. intros c' Hc'. rewrite Hg in Hc'. inversion Hc'; subst. congruence.
Qed.

Lemma expire_all_spec : forall ids s,
  QInv s -> NoDup ids -> (forall id, In id ids -> In (height s, id) (xq s)) ->
  let s' := fold_left expire_one ids s in
  QInv s' /\ height s' = height s
  /\ (forall e, In e (xq s') <-> In e (xq s) /\ ~ (fst e = height s /\ In (snd e) ids))
  /\ (forall e, In e (nq s) -> In e (nq s'))
  /\ (forall e, In e (nq s') -> In e (nq s) \/ height s <= fst e).
Proof.
  induction ids as [|id ids IH]; intros s Q Hnd Hin; simpl.
  - split; [exact Q|]. split; [reflexivity|]. split; [intros e; tauto|]. split; auto.
  - inversion Hnd as [|? ? Hnotin Hnd']; subst.
    destruct (expire_one_spec s id Q (Hin id (or_introl eq_refl))) as (Q1 & Hh1 & Hq1 & Hn1 & Hn1').
    destruct (IH (expire_one s id) Q1 Hnd') as (Q' & Hh' & Hq' & Hn' & Hn'').
    + intros i Hi. rewrite Hh1, Hq1. apply In_deq. split; [|apply Hin; right; exact Hi].
      intros Heq. inversion Heq; subst. contradiction.
    + split; [exact Q'|]. split; [congruence|]. split; [|split].
      * intros e. rewrite Hq', Hh1, Hq1, In_deq. destruct e as [h i]; simpl. split.
        -- intros ((Hne & Hi) & Hn). split; [exact Hi|]. intros (-> & [->|Hi']); [congruence|]. apply Hn. auto.
        -- intros (Hi & Hn). split; [split; [|exact Hi]|].
           { intros Heq. inversion Heq; subst. apply Hn. auto. }
           { intros (-> & Hi'). apply Hn. auto. }
      * intros e He. apply Hn'. apply Hn1. exact He.
      * intros e He. destruct (Hn'' e He) as [H|H]; [apply Hn1' in H; exact H|right; lia].
Qed.

Lemma newbatch_all_spec res : forall ids s,
  QInv s -> NoDup ids -> (forall id, In id ids -> In (height s, id) (nq s)) ->
  let s' := fold_left (newbatch_one res) ids s in
  QInv s' /\ height s' = height s
  /\ (forall e, In e (nq s') <-> In e (nq s) /\ ~ (fst e = height s /\ In (snd e) ids))
  /\ (forall e, In e (xq s') -> In e (xq s) \/ height s < fst e)
  /\ (forall e, In e (xq s) -> In e (xq s')).
Proof.
  induction ids as [|id ids IH]; intros s Q Hnd Hin; simpl.
  - split; [exact Q|]. split; [reflexivity|]. split; [intros e; tauto|]. split; auto.
  - inversion Hnd as [|? ? Hnotin Hnd']; subst.
    destruct (newbatch_one_spec res s id Q (Hin id (or_introl eq_refl))) as (Q1 & Hh1 & Hq1 & Hx1 & Hx1').
    destruct (IH (newbatch_one res s id) Q1 Hnd') as (Q' & Hh' & Hq' & Hx' & Hx'').
    + intros i Hi. rewrite Hh1, Hq1. apply In_deq. split; [|apply Hin; right; exact Hi].
      intros Heq. inversion Heq; subst. contradiction.
    + split; [exact Q'|]. split; [congruence|]. split; [|split].
      * intros e. rewrite Hq', Hh1, Hq1, In_deq. destruct e as [h i]; simpl. split.
        -- intros ((Hne & Hi) & Hn). split; [exact Hi|]. intros (-> & [->|Hi']); [congruence|]. apply Hn. auto.
        -- intros (Hi & Hn). split; [split; [|exact Hi]|].
           { intros Heq. inversion Heq; subst. apply Hn. auto. }
           { intros (-> & Hi'). apply Hn. auto. }
      * intros e He. destruct (Hx' e He) as [H|H]; [apply Hx1 in H; exact H|right; lia].
      * intros e He. apply Hx''. apply Hx1'. exact He.
Qed.

Lemma due_ids_in h q id : In id (map snd (due h q)) <-> In (h, id) q.
Proof.
  split.
  - intros Hin. apply in_map_iff in Hin. destruct Hin as ([e i] & Hf & Hin). simpl in Hf. subst i.
    apply In_due in Hin. simpl in Hin. destruct Hin as [-> Hin]. exact Hin.
  - intros Hin. apply in_map_iff. exists (h, id). split; [reflexivity|]. apply In_due. auto.
Qed.

Lemma end_block_inv s res : QInv s -> QInv (end_block s res) /\ height (end_block s res) = height s + 1.
Proof.
  intros Q. split; [|reflexivity]. unfold end_block.
  destruct (expire_all_spec (map snd (due (height s) (xq s))) s Q) as (Q1 & Hh1 & Hx1 & Hn1 & Hn1').
  { apply NoDup_due_ids. exact (qk_nodup _ _ _ (s_exp s Q)). }
  { intros id Hin. apply due_ids_in. exact Hin. }
  set (s1 := fold_left expire_one (map snd (due (height s) (xq s))) s) in *.
  destruct (newbatch_all_spec res (map snd (due (height s1) (nq s1))) s1 Q1) as (Q2 & Hh2 & Hn2 & Hx2 & Hx2').
  { apply NoDup_due_ids. exact (qk_nodup _ _ _ (s_new s1 Q1)). }
  { intros id Hin. apply due_ids_in. exact Hin. }
  set (s2 := fold_left (newbatch_one res) (map snd (due (height s1) (nq s1))) s1) in *.
  destruct Q2 as [[Nn Nm Nf] [Xn Xm Xf] Qe Qc Qr Qw Kc Kn Kx].
  constructor; simpl; auto.
  - constructor; [exact Nn|exact Nm|]. intros e id Hin. pose proof (Nf _ _ Hin) as Hle. rewrite Hh2, Hh1 in Hle.
    assert (e <> height s); [|lia]. intros ->. apply Hn2 in Hin. destruct Hin as [Hin Hno]. apply Hno. simpl.
    split; [congruence|]. apply due_ids_in. rewrite Hh1. exact Hin.
  - constructor; [exact Xn|exact Xm|]. intros e id Hin. pose proof (Xf _ _ Hin) as Hle. rewrite Hh2, Hh1 in Hle.
    assert (e <> height s); [|lia]. intros ->. apply Hx2 in Hin. rewrite Hh1 in Hin. simpl in Hin.
    destruct Hin as [Hin|Hlt]; [|lia]. apply Hx1 in Hin. destruct Hin as [Hin Hno]. apply Hno. simpl.
    split; [reflexivity|]. apply due_ids_in. exact Hin.
Qed.

(** ** Histories *)
Lemma step_inv s o : QInv s -> QInv (fst (step s o)).
Proof.
  intros Q. destruct o; simpl.
  - apply call_inv; exact Q.
  - apply callm_inv; exact Q.
  - apply start_inv; exact Q.
  - apply pause_inv; exact Q.
  - apply update_inv; exact Q.
  - apply pause_inv; exact Q.
  - apply start_inv; exact Q.
  - apply kill_inv; exact Q.
  - apply update_inv; exact Q.
  - apply respond_inv; exact Q.
  - destruct (blocker_aborts s); [exact Q|]. apply end_block_inv; exact Q.
Qed.

Lemma run_inv : forall ops s, QInv s -> QInv (run s ops).
Proof. induction ops as [|o ops IH]; simpl; intros s Q; [exact Q|]. apply IH. apply step_inv. exact Q. Qed.

Theorem QInv_reachable h0 ops : QInv (run (init h0) ops).
Proof. apply run_inv. apply QInv_init. Qed.

(** the module callback of a well-formed context whose batch is still running cannot abort:
    its batch response threshold is positive, so a nil error comes with at least one output; and
    a random context has a single request, so a batch with an output is no longer running *)
Lemma cb_safe c : wf c -> negb (c_done c) && cb_aborts c = false.
Proof.
  intros [_ (Hm1 & Hm2 & Hm3)]. destruct (c_done c) eqn:Ed; [reflexivity|]. simpl. unfold cb_aborts.
  destruct (c_module c =? 0) eqn:Em; [reflexivity|]. apply Z.eqb_neq in Em. simpl.
  destruct (Hm2 Em) as [Hb _]. destruct (c_bthr c <=? c_outs c) eqn:Eb; [|reflexivity]. apply Z.leb_le in Eb. simpl.
  assert (c_outs c =? 0 = false) as -> by (apply Z.eqb_neq; lia). simpl.
  destruct (c_module c =? 2) eqn:E2; [|reflexivity]. apply Z.eqb_eq in E2. destruct (Hm3 E2) as [_ Ho]. assert (c_outs c = 0) by (apply Ho; first [exact Ed|reflexivity]). lia.
Qed.

(** the end-blocker never aborts on a state satisfying the invariant — including the callbacks
    of the oracle and random modules invoked by the expiration handler *)
Theorem blocks_total_service s res : QInv s -> snd (step s (EndBlock res)) <> Abort.
Proof.
  intros Q. simpl. assert (blocker_aborts s = false) as ->; [|discriminate].
  unfold blocker_aborts. destruct (existsb _ _) eqn:E; [|reflexivity]. exfalso.
  apply existsb_exists in E. destruct E as (id & _ & Hb). unfold get_ctx in Hb.
  destruct (get id (ctxs s)) as [c|] eqn:Hg.
  - rewrite (cb_safe c (s_wf s Q _ _ Hg)) in Hb. discriminate.
  - simpl in Hb. discriminate.
Qed.

(** the nil-error dereference itself is there: on a context owned by a module with batch
    threshold 0 and no output the callback aborts (such a context is not reachable) *)
Theorem callback_aborts_without_threshold :
  exists c, c_module c <> 0 /\ c_done c = false /\ cb_aborts c = true /\ ~ wf c.
Proof.
  exists (mkC CRunning false 1 2 true 2 (-1) 0 1 0 1 1 0 0 0 false). split; [discriminate|]. split; [reflexivity|].
  split; [reflexivity|]. intros [_ (_ & H & _)]. destruct (H ltac:(discriminate)) as [Hb _]. simpl in Hb. lia.
Qed.

(** "exactly one entry": a running context is in exactly one of the two queues, with one entry *)
Theorem one_entry_per_running_context s : QInv s ->
  forall id c, get id (ctxs s) = Some c -> c_state c = CRunning ->
    (exists h, In (h, id) (nq s) /\ (forall h', In (h', id) (nq s) -> h' = h) /\ forall h', ~ In (h', id) (xq s))
    \/ (exists h, In (h, id) (xq s) /\ (forall h', In (h', id) (xq s) -> h' = h) /\ forall h', ~ In (h', id) (nq s)).
Proof.
  intros Q id c Hg Hr. destruct (s_run s Q _ _ Hg Hr) as [Hn|Hx].
  - left. destruct (get id (nmark s)) as [h|] eqn:Hm; [|congruence]. exists h.
    split; [apply (qk_mark _ _ _ (s_new s Q)); exact Hm|]. split.
    + intros h' Hin. apply (qk_mark _ _ _ (s_new s Q)) in Hin. congruence.
    + intros h' Hin. apply (qk_mark _ _ _ (s_exp s Q)) in Hin. rewrite (s_excl s Q _ _ Hm) in Hin. discriminate.
  - right. destruct (get id (xmark s)) as [h|] eqn:Hm; [|congruence]. exists h.
    split; [apply (qk_mark _ _ _ (s_exp s Q)); exact Hm|]. split.
    + intros h' Hin. apply (qk_mark _ _ _ (s_exp s Q)) in Hin. congruence.
    + intros h' Hin. apply (qk_mark _ _ _ (s_new s Q)) in Hin. rewrite (excl' s Q _ _ Hm) in Hin. discriminate.
Qed.

(** ** The handling logs: every entry handled exactly once, by the end-blocker of its height *)
Lemma expire_one_logs s id :
  ndone (expire_one s id) = ndone s /\ xdone (expire_one s id) = xdone s ++ [((height s, id), height s)]
  /\ height (expire_one s id) = height s.
Proof.
  unfold expire_one. destruct (c_state _); simpl; auto.
  destruct (c_repeated _ && _); simpl; auto.
Qed.

Lemma newbatch_one_logs res s id :
  xdone (newbatch_one res s id) = xdone s /\ ndone (newbatch_one res s id) = ndone s ++ [((height s, id), height s)]
  /\ height (newbatch_one res s id) = height s.
Proof.
  unfold newbatch_one. destruct (c_state _); simpl; auto. destruct (lookup_res id res); simpl; auto.
Qed.

Definition logged (h : Z) (ids : list Z) : list (entry * Z) := map (fun id => ((h, id), h)) ids.

Lemma expire_all_logs : forall ids s,
  ndone (fold_left expire_one ids s) = ndone s
  /\ xdone (fold_left expire_one ids s) = xdone s ++ logged (height s) ids
  /\ height (fold_left expire_one ids s) = height s.
Proof.
  induction ids as [|id ids IH]; intros s; simpl; [rewrite app_nil_r; auto|].
  destruct (expire_one_logs s id) as (H1 & H2 & H3). destruct (IH (expire_one s id)) as (I1 & I2 & I3).
  rewrite I1, I2, I3, H1, H2, H3, <- app_assoc. auto.
Qed.

Lemma newbatch_all_logs res : forall ids s,
  xdone (fold_left (newbatch_one res) ids s) = xdone s
  /\ ndone (fold_left (newbatch_one res) ids s) = ndone s ++ logged (height s) ids
  /\ height (fold_left (newbatch_one res) ids s) = height s.
Proof.
  induction ids as [|id ids IH]; intros s; simpl; [rewrite app_nil_r; auto|].
  destruct (newbatch_one_logs res s id) as (H1 & H2 & H3). destruct (IH (newbatch_one res s id)) as (I1 & I2 & I3).
  rewrite I1, I2, I3, H1, H2, H3, <- app_assoc. auto.
Qed.

Definition LogOK (h : Z) (l : list (entry * Z)) : Prop :=
  NoDup (map fst l) /\ forall k p, In (k, p) l -> p = fst k /\ p < h.

Lemma LogOK_app h l ids : LogOK h l -> NoDup ids -> LogOK (h + 1) (l ++ logged h ids).
Proof.
  intros [Hn Hp] Hnd. split.
  - rewrite map_app. apply NoDup_app_disj; [exact Hn| |].
    + unfold logged. rewrite map_map. simpl. apply NoDup_map_on; [exact Hnd|]. intros x y _ _ H. congruence.
    + intros k Hin Hin2. apply in_map_iff in Hin. destruct Hin as ([k1 p1] & Hk1 & Hin). simpl in Hk1. subst k1.
      destruct (Hp _ _ Hin) as [Hp1 Hlt]. unfold logged in Hin2. rewrite map_map in Hin2. simpl in Hin2.
      apply in_map_iff in Hin2. destruct Hin2 as (i & Hk & _). subst k. simpl in *. lia.
  - intros k p Hin. apply in_app_iff in Hin. destruct Hin as [Hin|Hin].
    + destruct (Hp _ _ Hin). split; [assumption|lia].
    + unfold logged in Hin. apply in_map_iff in Hin. destruct Hin as (i & Heq & _). inversion Heq; subst. simpl. split; lia.
Qed.

Definition LInv (s : state) : Prop := LogOK (height s) (ndone s) /\ LogOK (height s) (xdone s).

Ltac destr :=
  repeat (match goal with |- context [match ?x with _ => _ end] => destruct x end; simpl).
Ltac unfold_ops := unfold call, callm, pause_k, start_k, kill, update_k, respond.

Lemma step_logs_unchanged s o :
  (match o with EndBlock _ => False | _ => True end) ->
  ndone (fst (step s o)) = ndone s /\ xdone (fst (step s o)) = xdone s /\ height (fst (step s o)) = height s.
Proof.
  intros Ho. destruct o; simpl; try contradiction; unfold_ops; destr; auto.
Qed.

Lemma end_block_linv s res : QInv s -> LInv s -> LInv (end_block s res).
Proof.
  intros Q [Ln Lx]. unfold end_block.
  destruct (expire_all_logs (map snd (due (height s) (xq s))) s) as (E1 & E2 & E3).
  destruct (expire_all_spec (map snd (due (height s) (xq s))) s Q) as (Q1 & _).
  { apply NoDup_due_ids. exact (qk_nodup _ _ _ (s_exp s Q)). }
  { intros id Hin. apply due_ids_in. exact Hin. }
  set (s1 := fold_left expire_one (map snd (due (height s) (xq s))) s) in *.
  destruct (newbatch_all_logs res (map snd (due (height s1) (nq s1))) s1) as (N1 & N2 & N3).
  split; simpl.
  - rewrite N2, E1, E3. apply LogOK_app; [exact Ln|]. apply NoDup_due_ids. exact (qk_nodup _ _ _ (s_new s1 Q1)).
  - rewrite N1, E2. apply LogOK_app; [exact Lx|]. apply NoDup_due_ids. exact (qk_nodup _ _ _ (s_exp s Q)).
Qed.

Lemma step_linv s o : QInv s -> LInv s -> LInv (fst (step s o)).
Proof.
  intros Q L. destruct o.
  11: { simpl. destruct (blocker_aborts s); [exact L|]. apply end_block_linv; assumption. }
  all: match goal with |- LInv (fst (step ?s ?o)) =>
         destruct (step_logs_unchanged s o I) as (H1 & H2 & H3); destruct L as [Ln Lx]; unfold LInv; rewrite H1, H2, H3; split; assumption end.
Qed.

Lemma run_linv : forall ops s, QInv s -> LInv s -> LInv (run s ops).
Proof.
  induction ops as [|o ops IH]; simpl; intros s Q L; [exact L|].
  apply IH; [apply step_inv; exact Q|apply step_linv; assumption].
Qed.

(** an entry is never lost: it stays queued until the end-blocker of its height logs it *)
Lemma end_block_keeps_or_logs s res : QInv s ->
  (forall k, In k (nq s) -> In k (nq (end_block s res)) \/ In (k, fst k) (ndone (end_block s res)))
  /\ (forall k, In k (xq s) -> In k (xq (end_block s res)) \/ In (k, fst k) (xdone (end_block s res))).
Proof.
  intros Q. unfold end_block.
  destruct (expire_all_logs (map snd (due (height s) (xq s))) s) as (E1 & E2 & E3).
  destruct (expire_all_spec (map snd (due (height s) (xq s))) s Q) as (Q1 & Hh1 & Hx1 & Hn1 & _).
  { apply NoDup_due_ids. exact (qk_nodup _ _ _ (s_exp s Q)). }
  { intros id Hin. apply due_ids_in. exact Hin. }
  set (s1 := fold_left expire_one (map snd (due (height s) (xq s))) s) in *.
  destruct (newbatch_all_logs res (map snd (due (height s1) (nq s1))) s1) as (N1 & N2 & N3).
  destruct (newbatch_all_spec res (map snd (due (height s1) (nq s1))) s1 Q1) as (Q2 & Hh2 & Hn2 & _ & Hx2').
  { apply NoDup_due_ids. exact (qk_nodup _ _ _ (s_new s1 Q1)). }
  { intros id Hin. apply due_ids_in. exact Hin. }
  simpl. split.
  - intros [h i] Hk. apply Hn1 in Hk. destruct (Z.eq_dec h (height s1)) as [->|Hne].
    + right. rewrite N2. apply in_app_iff. right. unfold logged. apply in_map_iff. exists i. simpl.
      split; [reflexivity|]. apply due_ids_in. exact Hk.
    + left. apply Hn2. split; [exact Hk|]. simpl. intros [Heq _]. contradiction.
  - intros [h i] Hk. destruct (Z.eq_dec h (height s)) as [->|Hne].
    + right. rewrite N1, E2. apply in_app_iff. right. unfold logged. apply in_map_iff. exists i. simpl.
      split; [reflexivity|]. apply due_ids_in. exact Hk.
    + left. apply Hx2'. apply Hx1. split; [exact Hk|]. simpl. intros [Heq _]. contradiction.
Qed.

Lemma step_keeps_or_logs s o : QInv s ->
  (forall k, In k (nq s) -> In k (nq (fst (step s o))) \/ In (k, fst k) (ndone (fst (step s o))))
  /\ (forall k, In k (xq s) -> In k (xq (fst (step s o))) \/ In (k, fst k) (xdone (fst (step s o)))).
Proof.
  intros Q. destruct o.
  11: { simpl. destruct (blocker_aborts s); [split; auto|]. apply end_block_keeps_or_logs. exact Q. }
  all: simpl; unfold_ops; destr; split; auto; intros k Hk; left; apply In_enq; auto.
Qed.

(** the logs only grow *)
Lemma step_logs_mono s o :
  (forall x, In x (ndone s) -> In x (ndone (fst (step s o)))) /\ (forall x, In x (xdone s) -> In x (xdone (fst (step s o)))).
Proof.
  destruct o.
  11: {
    simpl. destruct (blocker_aborts s); [split; auto|]. unfold end_block.
    destruct (expire_all_logs (map snd (due (height s) (xq s))) s) as (E1 & E2 & E3).
    set (s1 := fold_left expire_one (map snd (due (height s) (xq s))) s) in *.
    destruct (newbatch_all_logs res (map snd (due (height s1) (nq s1))) s1) as (N1 & N2 & N3).
    simpl. rewrite N1, N2, E1, E2. split; intros x Hx; apply in_app_iff; left; exact Hx.
  }
  all: match goal with |- context [step ?s ?o] =>
         destruct (step_logs_unchanged s o I) as (H1 & H2 & _); rewrite H1, H2; split; auto end.
Qed.

Lemma run_keeps_or_logs : forall ops s, QInv s ->
  (forall k, In k (nq s) -> In k (nq (run s ops)) \/ In (k, fst k) (ndone (run s ops)))
  /\ (forall k, In k (xq s) -> In k (xq (run s ops)) \/ In (k, fst k) (xdone (run s ops))).
Proof.
  induction ops as [|o ops IH]; simpl; intros s Q; [split; auto|].
  destruct (step_keeps_or_logs s o Q) as [Kn Kx]. pose proof (step_inv s o Q) as Q'.
  destruct (IH _ Q') as [In_ Ix].
  assert (forall x, In x (ndone (fst (step s o))) -> In x (ndone (run (fst (step s o)) ops))) as Mn.
  { clear. revert s o. intros s o. generalize (fst (step s o)). induction ops as [|o' ops IH]; simpl; intros s' x Hx; [exact Hx|].
    apply IH. apply (proj1 (step_logs_mono s' o')). exact Hx. }
  assert (forall x, In x (xdone (fst (step s o))) -> In x (xdone (run (fst (step s o)) ops))) as Mx.
  { clear. revert s o. intros s o. generalize (fst (step s o)). induction ops as [|o' ops IH]; simpl; intros s' x Hx; [exact Hx|].
    apply IH. apply (proj2 (step_logs_mono s' o')). exact Hx. }
  split.
  - intros k Hk. destruct (Kn k Hk) as [H|H]; [apply In_; exact H|right; apply Mn; exact H].
  - intros k Hk. destruct (Kx k Hk) as [H|H]; [apply Ix; exact H|right; apply Mx; exact H].
Qed.

(** History level: on every reachable state both logs are duplicate-free, every logged entry was
    handled by the end-blocker of exactly its own height (already past), and no entry still
    queued lies behind the current height. *)
Theorem processed_exactly_once_service h0 ops :
  let s := run (init h0) ops in
  NoDup (map fst (ndone s)) /\ NoDup (map fst (xdone s))
  /\ (forall k p, In (k, p) (ndone s) \/ In (k, p) (xdone s) -> p = fst k /\ p < height s)
  /\ (forall k, In k (nq s) \/ In k (xq s) -> height s <= fst k).
Proof.
  intros s. pose proof (QInv_reachable h0 ops) as Q. fold s in Q.
  assert (LInv s) as [[Nn Np] [Xn Xp]].
  { apply run_linv; [apply QInv_init|]. split; (split; [constructor|intros ? ? []]). }
  split; [exact Nn|]. split; [exact Xn|]. split.
  - intros k p [H|H]; eauto.
  - intros [h i] [H|H]; simpl; [exact (qk_future _ _ _ (s_new s Q) _ _ H)|exact (qk_future _ _ _ (s_exp s Q) _ _ H)].
Qed.

(** ... and an entry present at some point of a history is, at any later point, still queued or
    in the log with the block of its own height. *)
Theorem entries_never_lost h0 ops1 ops2 :
  let s1 := run (init h0) ops1 in let s2 := run s1 ops2 in
  (forall k, In k (nq s1) -> In k (nq s2) \/ In (k, fst k) (ndone s2))
  /\ (forall k, In k (xq s1) -> In k (xq s2) \/ In (k, fst k) (xdone s2)).
Proof. intros s1 s2. apply run_keeps_or_logs. apply QInv_reachable. Qed.

(** ** The handler before the fix: a failing provider filter returned before dequeuing *)
Definition newbatch_one_old (ferr : list Z) (res : list (Z * nbres)) (s : state) (id : Z) : state :=
  match c_state (get_ctx s id) with
  | CRunning => if existsb (Z.eqb id) ferr then s else newbatch_one res s id
  | _ => newbatch_one res s id
  end.

Definition end_block_old (ferr : list Z) (s : state) (res : list (Z * nbres)) : state :=
  let s1 := fold_left expire_one (map snd (due (height s) (xq s))) s in
  let s2 := fold_left (newbatch_one_old ferr res) (map snd (due (height s1) (nq s1))) s1 in
  mkS (height s + 1) (ctxs s2) (nq s2) (xq s2) (nmark s2) (xmark s2) (ndone s2) (xdone s2).

Theorem old_handler_leaves_stale_entry :
  exists s, QInv s /\ ~ QInv (end_block_old [1] s []) /\ end_block_old [] s [] = end_block s [].
Proof.
  exists (fst (step (init 1) (Call 1 0 2 false 0 0 1 Ok))). split; [apply step_inv; apply QInv_init|]. split; [|reflexivity].
  intros Q. pose proof (qk_future _ _ _ (s_new _ Q) 1 1) as H. vm_compute in H.
  apply H; [left; reflexivity|reflexivity].
Qed.
