(** * Queues / service: the hygiene clause of the check predicate is a consequence of [QInv] —
    on the projection of any reachable model state clause 42 evaluates to [true]. *)
From Irismod Require Import Queues.CheckService Queues.ProofsService.

Definition obs_of (s : state) : sobs :=
  mkSObs 0 (height s) (proj_ctxs s) (nq s) (xq s) (nmark s) (xmark s).

Definition cproj (c : rctx) : cobs :=
  ((cstate_code (c_state c), c_done c, c_counter c), (c_timeout c, c_freq c, c_total c), (c_reqs c, c_resps c),
   (c_module c, c_nprov c, c_thr c, c_bthr c, c_outs c)).

Lemma get_proj id s : get id (proj_ctxs s) = option_map cproj (get id (ctxs s)).
Proof.
  unfold proj_ctxs. rewrite <- (get_map_val cproj). f_equal. apply map_ext. intros [i c]. reflexivity.
Qed.

Lemma queue_ok_sound h q m s :
  QOK h q m -> NoDup (keys m) -> (forall id e, get id m = Some e -> get id (ctxs s) <> None) ->
  queue_ok h q m (proj_ctxs s) = true.
Proof.
  intros [Qn Qm Qf] Hk Hc. unfold queue_ok.
  apply andb_true_iff. split; [apply andb_true_iff; split|].
  - apply nodupb_NoDup. exact Qn.
  - apply forallb_forall. intros [eh id] Hin. pose proof (proj1 (Qm _ _) Hin) as Hg.
    apply andb_true_iff. split; [apply andb_true_iff; split|].
    + apply Z.leb_le. eauto.
    + unfold has. rewrite get_proj. destruct (get id (ctxs s)) eqn:E; [reflexivity|]. exfalso. exact (Hc _ _ Hg E).
    + rewrite Hg. apply eqb_refl.
  - apply forallb_forall. intros [id eh] Hin. apply ememb_In. apply Qm. apply In_get; assumption.
Qed.

Theorem hygiene_clause_holds_on_QInv s : QInv s -> shyg (obs_of s) = true.
Proof.
  intros Q. unfold shyg, obs_of. simpl.
  apply andb_true_iff. split; [apply andb_true_iff; split; [apply andb_true_iff; split|]|].
  - apply queue_ok_sound; [exact (s_new s Q)|exact (s_kn s Q)|].
    intros id e Hg. apply (s_ctx s Q). left. congruence.
  - apply queue_ok_sound; [exact (s_exp s Q)|exact (s_kx s Q)|].
    intros id e Hg. apply (s_ctx s Q). right. congruence.
  - apply forallb_forall. intros [id e] Hin. pose proof (In_get _ _ _ (s_kn s Q) Hin) as Hg.
    unfold has. rewrite (s_excl s Q _ _ Hg). reflexivity.
  - apply forallb_forall. intros [id [[[[[st d] cnt] [[t f] n]] [rq rs]] mm]] Hin.
    unfold proj_ctxs in Hin. apply in_map_iff in Hin. destruct Hin as ([i c] & Heq & Hin). inversion Heq; subst.
    pose proof (In_get _ _ _ (s_kc s Q) Hin) as Hg.
    destruct (c_state c) eqn:Hst; simpl; try reflexivity.
    unfold has. destruct (s_run s Q _ _ Hg Hst) as [H|H].
    + destruct (get id (nmark s)); [reflexivity|congruence].
    + destruct (get id (xmark s)); [apply orb_true_r|congruence].
Qed.

Corollary hygiene_clause_holds_on_every_history h0 ops : shyg (obs_of (run (init h0) ops)) = true.
Proof. apply hygiene_clause_holds_on_QInv. apply QInv_reachable. Qed.
