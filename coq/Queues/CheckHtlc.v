(** * Queues / HTLC: correspondence with the real keeper and the C13 predicate on the
    implementation's own observations (evaluated by [vm_compute]). *)
From Irismod Require Export Queues.Htlc.

(** what the implementation showed after a step *)
Record hobs := mkHObs {
  ho_code : Z;                              (* 0 ok, 1 rejected, 2 abort *)
  ho_height : Z;                            (* height of the current block *)
  ho_objs : list (Z * (Z * Z * Z));         (* id -> (state, expiration height, closed block) *)
  ho_queue : list (Z * Z)                   (* raw keys of prefix 0x02: (height, id) *)
}.

Definition hcase := (Z * list (op * hobs))%type.   (* height of the first block, steps *)

Definition proj_objs (s : state) : list (Z * (Z * Z * Z)) :=
  map (fun '(id, o) => (id, (hstatus_code (h_status o), h_expire o, h_closed o))) (objs s).

Definition hcorr (s' : state) (oc : outcome) (o : hobs) : bool :=
  (ho_code o =? outcome_code oc) && (ho_height o =? height s')
  && seteqb (ho_objs o) (proj_objs s') && seteqb (ho_queue o) (hq s').

(** C13 on the observations:
    11 the begin-blocker aborted;
    12 queue hygiene: an entry without an open contract expiring at the entry's height, an entry
       not in the future, a duplicate entry, or an open contract without its entry;
    13 exactly once / at the due height: a refunded contract not closed in the block of its
       expiration height, or a closed contract that changed again or disappeared. *)
(** clause 12 *)
Definition hhyg (o : hobs) : bool :=
  nodupb (ho_queue o)
  && forallb (fun '(h, id) =>
       (ho_height o <? h)
       && match get id (ho_objs o) with Some (st, e, _) => (st =? 0) && (e =? h) | None => false end)
     (ho_queue o)
  && forallb (fun '(id, (st, e, _)) => negb (st =? 0) || ememb (e, id) (ho_queue o)) (ho_objs o).

Definition hprop (prev : list (Z * (Z * Z * Z))) (op_ : op) (o : hobs) : Z :=
  first_bad [
    (11, match op_ with BeginBlock _ => negb (ho_code o =? 2) | _ => true end);
    (12, hhyg o);
    (13, forallb (fun '(id, (st, e, c)) => negb (st =? 2) || (c =? e)) (ho_objs o)
         && forallb (fun '(id, (st, e, c)) =>
              match get id (ho_objs o) with
              | Some (st', e', c') => (e' =? e) && ((st =? 0) || ((st' =? st) && (c' =? c)))
              | None => false
              end) prev)
  ].

Fixpoint hcheck_from (s : state) (prev : list (Z * (Z * Z * Z))) (c : list (op * hobs)) (i corr prop code : Z)
  : Z * Z * Z :=
  match c with
  | [] => (corr, prop, code)
  | (op_, o) :: rest =>
      let '(s', oc) := step s op_ in
      let corr' := if (corr <? 0) && negb (hcorr s' oc o) then i else corr in
      let p := hprop prev op_ o in
      let '(prop', code') := if (prop <? 0) && negb (p =? 0) then (i, p) else (prop, code) in
      hcheck_from s' (ho_objs o) rest (i + 1) corr' prop' code'
  end.

Definition check_htlc (c : hcase) : Z * Z * Z :=
  let '(h0, steps) := c in hcheck_from (init h0) [] steps 0 (-1) (-1) 0.
