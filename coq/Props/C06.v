(** * C06 — Farm: rewards conserved and paid pro rata.

    Statements only; proofs in [Farm/Rewards.v] (on top of the invariant of [Farm/Proofs.v]).
    [reachable s] as in C05: any history from any genesis with an empty farm account. *)
From Irismod Require Import Farm.Model Farm.Check Farm.Proofs Farm.Rewards Farm.Refund Farm.Budget Farm.Sound Farm.History Farm.Sound6 Farm.ProRata Farm.SoundTrace Farm.FairFold Farm.FairModel Farm.FairRef Farm.Params.
From Coq Require Import QArith.
Close Scope Q_scope.
Open Scope Z_scope.

(** RELEASE.  Every successful updatePool (each of stake, unstake, harvest, adjust, destroy and the
    end blocker goes through it), at any height, on any pool and ledger: the reward released for a
    rule is its reward per block times the blocks since the last distribution if somebody was staked
    at the last distribution, and zero otherwise; exactly that amount leaves the remaining budget,
    leaves the farm account and arrives at the reward collector; nothing else moves; totals and
    per-block amounts are unchanged. *)
Theorem release_only_while_staked :
  forall (h : Z) (b : ledger) (p : pool) (amt : Z) (dz : bool) (p1 : pool) (b1 : ledger),
    update_pool h b p amt dz = (p1, b1, true) ->
    map (fun r => (r_denom r, r_total r, r_pb r)) (p_rules p1) = map (fun r => (r_denom r, r_total r, r_pb r)) (p_rules p)
    /\ map r_rem (p_rules p1) = map (fun r => r_rem r - r_pb r * release_iv h p) (p_rules p)
    /\ Forall (fun r => r_pb r * release_iv h p <= r_rem r \/ release_iv h p = 0) (p_rules p)
    /\ (forall d, bal b1 COLL d - bal b COLL d = rule_sum (fun r => r_pb r * release_iv h p) (p_rules p) d)
    /\ (forall d, bal b1 FARM d - bal b FARM d = - rule_sum (fun r => r_pb r * release_iv h p) (p_rules p) d)
    /\ (forall a d, a <> FARM -> a <> COLL -> bal b1 a d = bal b a d)
    /\ p_last p1 = h /\ p_locked p1 = p_locked p + amt.
Proof. exact release_lemma. Qed.
Print Assumptions release_only_while_staked.

(** The per-share value of a rule grows by released * 10^18 / total stake, truncated: the stake-weighted
    sum of the growth is at most the released amount and misses it by less than the total stake
    (in units of 10^-18) — the "18-decimal truncation of the per-share accumulator". *)
Theorem per_share_growth :
  forall (h : Z) (b : ledger) (p : pool) (amt : Z) (dz : bool) (p1 : pool) (b1 : ledger),
    update_pool h b p amt dz = (p1, b1, true) -> 0 < release_iv h p -> Forall (fun r => 0 <= r_pb r) (p_rules p) ->
    Forall2 (fun r r1 => let c := r_pb r * release_iv h p in
                         r_rps r <= r_rps r1
                         /\ p_locked p * (r_rps r1 - r_rps r) <= c * P18 < p_locked p * (r_rps r1 - r_rps r) + p_locked p)
            (p_rules p) (p_rules p1).
Proof. exact per_share_lemma. Qed.
Print Assumptions per_share_growth.

(** END HEIGHT at creation: end = start + min_i floor(total_i / per_block_i); every budget covers
    the whole schedule and at least one would not cover one more block. *)
Theorem end_height_at_creation :
  forall (s : state) (who : acct) (lpt : denom) (start : Z) (editable : bool) (rules : list (denom * Z * Z))
         (s' : state) (rw : list (denom * Z)),
    create_pool s who lpt start editable rules = Done s' rw ->
    exists iv p', min_interval (map (fun '(_, t, pb) => (t, pb)) rules) = Some iv
      /\ get (seq s + 1) (pools s') = Some p' /\ p_start p' = start /\ p_end p' = start + iv
      /\ Forall (fun '(_, t, pb) => pb * iv <= t) rules
      /\ Exists (fun '(_, t, pb) => t < pb * (iv + 1)) rules.
Proof. exact create_end_height_lemma. Qed.
Print Assumptions end_height_at_creation.

(** END HEIGHT in every reachable state (after any top-ups and per-block changes): a pool that is still
    queued has not passed its end height, and the remaining budget of each rule covers the reward per
    block for all blocks up to the end height ... *)
Theorem end_height_sound :
  forall (s : state) (pid : Z) (p : pool),
    reachable s -> get pid (pools s) = Some p -> in_queue (queue s) (p_end p, pid) = true ->
    height s <= p_end p
    /\ Forall (fun r => r_pb r * (p_end p - Z.max (p_start p) (p_last p)) <= r_rem r) (p_rules p).
Proof. exact schedule_covered_lemma. Qed.
Print Assumptions end_height_sound.

(** ... so that updatePool's error "remaining reward is not enough" is unreachable for a pool that
    has not expired, whatever the caller adds to the stake: released never exceeds the budget. *)
Theorem budget_never_short :
  forall (s : state) (pid : Z) (p : pool) (amt : Z) (dz : bool),
    reachable s -> get pid (pools s) = Some p -> expired s pid p = false ->
    exists p1 b1, update_pool (height s) (bank s) p amt dz = (p1, b1, true).
Proof. exact budget_never_short_lemma. Qed.
Print Assumptions budget_never_short.

Theorem remaining_budget_never_negative :
  forall (s : state) (pid : Z) (p : pool),
    reachable s -> get pid (pools s) = Some p -> Forall (fun r => 0 <= r_rem r /\ 0 < r_pb r) (p_rules p).
Proof. exact rem_nonneg_lemma. Qed.
Print Assumptions remaining_budget_never_negative.

(** REFUND.  In a reachable state, the refund of a queued pool (run by the end blocker at the end height
    and by DestroyPool) first releases what is due up to now, then pays the creator exactly what remains
    of every budget, from the farm account; afterwards nothing remains, the pool has ended at this height
    and has no queue entry at all.  The function reports success iff something was paid. *)
Theorem refund_pays_exactly_the_remaining_budget :
  forall (s : state) (pid : Z) (p : pool) (s' : state) (ok : bool),
    reachable s -> get pid (pools s) = Some p -> in_queue (queue s) (p_end p, pid) = true ->
    refund s pid p = (s', ok) ->
    let rel d := rule_sum (fun r => r_pb r * release_iv (height s) p) (p_rules p) d in
    (forall d, bal (bank s') (p_creator p) d - bal (bank s) (p_creator p) d = rule_sum r_rem (p_rules p) d - rel d)
    /\ (forall d, bal (bank s') FARM d - bal (bank s) FARM d = - rule_sum r_rem (p_rules p) d)
    /\ (forall d, bal (bank s') COLL d - bal (bank s) COLL d = rel d)
    /\ (forall a d, a <> FARM -> a <> COLL -> a <> p_creator p -> bal (bank s') a d = bal (bank s) a d)
    /\ (exists p', get pid (pools s') = Some p' /\ Forall (fun r => r_rem r = 0) (p_rules p')
                   /\ p_end p' = height s /\ p_locked p' = p_locked p /\ p_farmers p' = p_farmers p
                   /\ map (fun r => (r_denom r, r_total r)) (p_rules p') = map (fun r => (r_denom r, r_total r)) (p_rules p))
    /\ (forall e, in_queue (queue s') (e, pid) = false)
    /\ height s' = height s
    /\ (ok = true <-> exists d, 0 < rule_sum r_rem (p_rules p) d - rel d).
Proof. intros s pid p s' ok R. exact (refund_effect s pid p s' ok (reachable_inv _ R)). Qed.
Print Assumptions refund_pays_exactly_the_remaining_budget.

(** A refund needs a queued pool: DestroyPool succeeds only on a pool that is still queued (and the end
    blocker works through the queue entries of the current height) ... *)
Theorem destroy_refunds_a_queued_pool :
  forall (s : state) (who : acct) (pid : Z) (s' : state) (rw : list (denom * Z)),
    reachable s -> destroy s who pid = Done s' rw ->
    exists p, get pid (pools s) = Some p /\ in_queue (queue s) (p_end p, pid) = true /\ refund s pid p = (s', true).
Proof. intros s who pid s' rw R. exact (destroy_needs_queued s who pid s' rw (reachable_inv _ R)). Qed.
Print Assumptions destroy_refunds_a_queued_pool.

(** ... and a pool without queue entry never gets one again, whatever happens afterwards, and its
    rules (remaining budgets zero after the refund) and end height never change: exactly one refund. *)
Theorem refund_exactly_once :
  forall (steps : list step) (s : state) (pid : Z) (p : pool),
    reachable s -> Forall valid_step steps -> get pid (pools s) = Some p ->
    (forall e, in_queue (queue s) (e, pid) = false) ->
    (exists p', get pid (pools (run s steps)) = Some p' /\ p_rules p' = p_rules p /\ p_end p' = p_end p)
    /\ (forall e, in_queue (queue (run s steps)) (e, pid) = false).
Proof. intros steps s pid p R. exact (refunded_forever steps s pid p (reachable_inv _ R)). Qed.
Print Assumptions refund_exactly_once.

(** BUDGET IDENTITY, step by step.  For every pool of a reachable state and every step of any history: per
    denomination, funded' = funded + top-up and remaining' = remaining - released + top-up, or 0 when the
    step refunds the pool; released = per-block * iv with iv = 0 or the blocks since the last distribution while
    staked ([release_iv]); a top-up happens only in a successful AdjustPool of this pool by its creator; the
    refund only for a queued pool, in the end blocker at its end height or in its creator's DestroyPool.
    (Summed over a history: funded = remaining + released until the refund.) *)
Theorem budget_identity_step :
  forall (s : state) (st : step) (pid : Z) (p : pool),
    reachable s -> valid_step st -> get pid (pools s) = Some p ->
    exists (p' : pool) (iv : Z) (tp : denom -> Z) (z : bool),
      get pid (pools (step_state s st)) = Some p'
      /\ (iv = 0 \/ iv = release_iv (height s) p)
      /\ ((forall d, rule_sum r_total (p_rules p') d = rule_sum r_total (p_rules p) d + rule_sum (fun r => tp (r_denom r)) (p_rules p) d)
          /\ (forall d, rule_sum r_rem (p_rules p') d =
                        if z then 0
                        else rule_sum r_rem (p_rules p) d - rule_sum (fun r => r_pb r * iv) (p_rules p) d
                             + rule_sum (fun r => tp (r_denom r)) (p_rules p) d))
      /\ ((forall d, tp d = 0) \/ exists who add rpb, st = Msg (Adjust who pid add rpb) /\ who = p_creator p /\ tp = amount_of add)
      /\ (z = true -> in_queue (queue s) (p_end p, pid) = true
                      /\ (st = NextBlock /\ p_end p = height s \/ exists who, st = Msg (Destroy who pid) /\ who = p_creator p)).
Proof. intros s st pid p R. exact (budget_step_lemma s st pid p (reachable_inv _ R)). Qed.
Print Assumptions budget_identity_step.

(** BUDGET IDENTITY over whole histories, with the ghost "released so far".  [released_so_far] adds up, step by
    step, per-block * (blocks since the last distribution while staked) ([Check.released], the checker's own
    function, applied to the pool before and after the step); [refunded_so_far] adds up what remains at a refund
    event ([Check.refund_event]).  Neither looks at the remaining budget after the step, so the identity is not
    true by construction.  For every pool and denomination, over ANY history from a reachable state: *)
Theorem budget_identity :
  forall (steps : list step) (s : state) (pid : Z) (d : denom),
    reachable s -> Forall valid_step steps ->
    funded (pools (run s steps)) pid d
    = remaining (pools (run s steps)) pid d
      + (funded (pools s) pid d - remaining (pools s) pid d)
      + released_so_far s steps pid d + refunded_so_far s steps pid d.
Proof. intros steps s pid d R. exact (budget_identity_lemma steps s pid d (reachable_inv _ R)). Qed.
Print Assumptions budget_identity.

(** ... in particular from genesis: total funded = remaining + released + refunded, always. *)
Corollary budget_identity_from_genesis :
  forall (b : ledger) (h : Z) (steps : list step) (pid : Z) (d : denom),
    genesis_ok b h -> Forall valid_step steps ->
    funded (pools (run (init b h) steps)) pid d
    = remaining (pools (run (init b h) steps)) pid d
      + released_so_far (init b h) steps pid d + refunded_so_far (init b h) steps pid d.
Proof.
  intros b h steps pid d G Hv. rewrite (budget_identity_lemma steps (init b h) pid d (inv_init b h G) Hv).
  unfold funded, remaining. simpl. lia.
Qed.
Print Assumptions budget_identity_from_genesis.

(** ... and every term is non-negative: released never exceeds funded, nor does refunded or remaining. *)
Corollary released_never_exceeds_funded :
  forall (b : ledger) (h : Z) (steps : list step) (pid : Z) (d : denom),
    genesis_ok b h -> Forall valid_step steps ->
    0 <= released_so_far (init b h) steps pid d <= funded (pools (run (init b h) steps)) pid d
    /\ 0 <= refunded_so_far (init b h) steps pid d <= funded (pools (run (init b h) steps)) pid d
    /\ 0 <= remaining (pools (run (init b h) steps)) pid d <= funded (pools (run (init b h) steps)) pid d.
Proof. exact released_le_funded. Qed.
Print Assumptions released_never_exceeds_funded.

(** REFUND over whole histories.  [refund_count] counts the steps of a history that are a refund event for the pool
    (the end blocker with the pool's entry due, or a successful DestroyPool).  Never both, never twice: *)
Theorem refund_never_twice :
  forall (steps : list step) (s : state) (pid : Z),
    reachable s -> Forall valid_step steps -> 0 <= refund_count s steps pid <= 1.
Proof. intros steps s pid R. exact (refund_at_most_once steps s pid (reachable_inv _ R)). Qed.
Print Assumptions refund_never_twice.

(** ... and exactly one: a queued pool (every pool is queued when created) either is still queued and has had no
    refund event, or has left the queue and has had exactly one. *)
Theorem refund_exactly_once_over_histories :
  forall (steps : list step) (s : state) (pid : Z),
    reachable s -> Forall valid_step steps -> queued s pid ->
    (refund_count s steps pid = 0 /\ queued (run s steps) pid)
    \/ (refund_count s steps pid = 1 /\ unqueued (run s steps) pid).
Proof. intros steps s pid R. exact (refund_exactly_once_hist steps s pid (reachable_inv _ R)). Qed.
Print Assumptions refund_exactly_once_over_histories.

(** non-vacuity of [queued] and of the ghosts: a pool of budget 1000 (1 per block), one farmer; two blocks are
    released, the creator destroys the pool and is refunded 998: one refund event, 1000 = 0 + 2 + 998. *)
Example c06_history_nonvacuous :
  let bk : ledger := fold_left (fun l a => fold_left (fun l' d => credit l' a d 1000000) [0; 1; 2; 3] l) [0; 1; 2] [] in
  let s1 := run (init bk 2) [Msg (CreatePool 0 0 2 true [(3, 1000, 1)]); NextBlock; Msg (Stake 1 1 0 2)] in
  let steps := [NextBlock; NextBlock; Msg (Harvest 1 1); Msg (Destroy 0 1); NextBlock; Msg (Unstake 1 1 0 2)] in
  queued s1 1 /\ Forall valid_step steps
  /\ (refund_count s1 steps 1, released_so_far s1 steps 1 3, refunded_so_far s1 steps 1 3,
      funded (pools (run s1 steps)) 1 3, remaining (pools (run s1 steps)) 1 3) = (1, 2, 998, 1000, 0).
Proof.
  cbv zeta. split; [|split].
  - eexists. split; vm_compute; reflexivity.
  - repeat constructor; discriminate.
  - vm_compute. reflexivity.
Qed.

(** The decidable C06 step predicate the check evaluates on the IMPLEMENTATION's observations ([c06_step]: clauses
    10-14 budgets rule by rule, 11 new pools, 15 every observed actor's balance, 16 the reward collector, 17 the
    schedule) returns 0 on the MODEL's own observations at every step of every history. *)
Theorem c06_checker_predicate_holds_on_the_model :
  forall (s : state) (st : step) (oc0 : outcome) (rw0 : list (denom * Z)),
    reachable s -> valid_step st -> actor_step st ->
    c06_step (height s) (cfee s) (obs_of s oc0 rw0) st (obs_after s st) = 0.
Proof. intros s st oc0 rw0 R. exact (model_passes_c06 s st oc0 rw0 (reachable_inv _ R)). Qed.
Print Assumptions c06_checker_predicate_holds_on_the_model.

(** MODEL PASSES CHECK for C06: on the trace the model itself produces for any history, [check_case_C06] answers
    exactly (-1, -1, 0): no divergence, none of the clauses 10-17, and the exact-rational fair-share fold of clause 18
    ([fair_step] / [fair_close] / [fair_ok] over [Q]) is satisfied.  ([FairFold.v]: what the checker's nested folds do
    to one key; [FairModel.v]: every key of the checker's map follows the pro-rata abstraction of that farmer and rule
    ([ProRata.sim_step]) with [fair / 10^18 <= sh_fair <= (fair + eps) / 10^18], and the bounds of [finv] give [share_ok].) *)
Theorem model_passes_check_C06 :
  forall (h0 : Z) (bl : list (acct * list Z)) (steps : list step),
    genesis_ok (ledger_of bl) h0 -> bals_of (ledger_of bl) = bl ->
    Forall valid_step steps -> Forall actor_step steps ->
    check_case_C06 (model_case h0 bl steps []) = (-1, -1, 0).
Proof. exact model_passes_check_C06_exact_lemma. Qed.
Print Assumptions model_passes_check_C06.

(** the fold of clause 18 alone, for any state of the checker's loop that satisfies the per-key invariant *)
Theorem fair_share_fold_holds_on_the_model :
  forall (s : state) (last : obs) (m : shares),
    inv s -> (forall k, key_ok s m k) -> nd m -> o_pools last = pools s -> fair_ok (fair_close last m) = true.
Proof. exact fair_ok_model. Qed.
Print Assumptions fair_share_fold_holds_on_the_model.

(** BLOCK-BY-BLOCK REFERENCE (clause 19).  [ref_hist]: at the start of every block each running, staked pool hands the
    block's reward to the recorded farmers in proportion to the stakes they hold at that moment (the harness'
    independent [accrueBlock]); [model_shares]: the share map the checker folds ([fair_step]), as a function of the model
    history; [pending]: what a recorded farmer has earned since the pool's last settlement.  Because the model settles a
    pool before every change of its stakes, over one step "credited at settlement moments + pending" grows by exactly the
    reference of that step, for every key and every share value the fold may hold. *)
Theorem reference_step :
  forall (s : state) (st : step) (oc0 : outcome) (rw0 : list (denom * Z)) (k : key) (sh : share),
    inv s -> valid_step st ->
    (sh_fair (step_spec (obs_of s oc0 rw0) st (obs_after s st) k sh) + pending (step_state s st) k
     == sh_fair sh + pending s k + ref_step s st k)%Q.
Proof. exact ref_step_lemma. Qed.
Print Assumptions reference_step.

(** the checker's map on a model trace is [model_shares] of the history *)
Theorem checker_share_map_is_model_shares :
  forall (steps : list step) (s : state) (a : obs) (i : Z) (x : acc),
    a_sh (fst (check_from s a (model_trace s steps) i x)) = model_shares s a steps (a_sh x).
Proof. exact check_from_shares. Qed.
Print Assumptions checker_share_map_is_model_shares.

(** over every history from genesis the block-by-block reference IS the share credited at the settlement moments
    plus what is still pending; the latter is 0 for a farmer who has withdrawn, for a pool settled at the current
    height, and for a pool that has stopped ([pending_absent], [pending_settled], [pending_stopped]) *)
Theorem block_by_block_reference_is_settlement_share :
  forall (b : ledger) (h : Z) (steps : list step) (k : key),
    genesis_ok b h -> Forall valid_step steps ->
    (ref_hist (init b h) steps k
     == sh_fair (sh_get (model_shares (init b h) (obs_of (init b h) Ok []) steps []) k) + pending (run (init b h) steps) k)%Q.
Proof. exact reference_is_settlement_share_lemma. Qed.
Print Assumptions block_by_block_reference_is_settlement_share.

Theorem nothing_pending_after_withdrawal :
  forall (s : state) (w pid d : Z) (p : pool),
    get pid (pools s) = Some p -> get w (p_farmers p) = None -> pending s (w, pid, d) = 0%Q.
Proof. exact pending_absent. Qed.
Print Assumptions nothing_pending_after_withdrawal.

(** MODEL PASSES CHECK for C06 with the reference rows: if every row of [c_fair] carries the block-by-block reference of
    its key and nothing is pending for it at the end (the harness ends with a full withdrawal), [check_case_C06] answers
    exactly (-1, -1, 0): the rows agree with the folded shares ([fair_ref_ok], no divergence) and clause 19
    ([fair_ref_share_ok]: payouts within the bound of the REFERENCE share) holds as well as clauses 10-18. *)
Theorem model_passes_check_C06_with_reference :
  forall (h0 : Z) (bl : list (acct * list Z)) (steps : list step) (ref : list (Z * Z * Z * Z * Z)),
    genesis_ok (ledger_of bl) h0 -> bals_of (ledger_of bl) = bl ->
    Forall valid_step steps -> Forall actor_step steps ->
    Forall (ref_row_ok (init (ledger_of bl) h0) steps) ref ->
    check_case_C06 (model_case h0 bl steps ref) = (-1, -1, 0).
Proof. exact model_passes_check_C06_ref_lemma. Qed.
Print Assumptions model_passes_check_C06_with_reference.

(** non-vacuity: farmer 1 stakes 2, farmer 2 joins with 1 for two blocks, harvests and leaves: the references are 10/3
    and 2/3, the rows satisfy [ref_row_ok], the case passes; a wrong reference row is reported (divergence and clause 19) *)
Example c06_reference_nonvacuous :
  let bl := [(0, [1000000; 1000000; 1000000; 1000000]); (1, [1000; 1000; 1000; 1000]); (2, [5; 0; 7; 1000]); (3, [0; 0; 0; 0]);
             (FARM, [0; 0; 0; 0]); (COLL, [0; 0; 0; 0]); (FEEC, [0; 0; 0; 9]); (BURN, [0; 0; 0; 0])] in
  let hist := [Msg (CreatePool 0 0 2 true [(3, 1000, 1)]); NextBlock; Msg (Stake 1 1 0 2); NextBlock; Msg (Stake 2 1 0 1);
               NextBlock; Msg (Harvest 2 1); NextBlock; Msg (Unstake 2 1 0 1); NextBlock; Msg (Unstake 1 1 0 2)] in
  let ref := [(1, 1, 3, 10, 3); (2, 1, 3, 2, 3)] in
  genesis_ok (ledger_of bl) 2 /\ bals_of (ledger_of bl) = bl /\ Forall valid_step hist /\ Forall actor_step hist
  /\ Forall (ref_row_ok (init (ledger_of bl) 2) hist) ref
  /\ Qred (ref_hist (init (ledger_of bl) 2) hist (2, 1, 3)) = Qmake 2 3
  /\ check_case_C06 (model_case 2 bl hist ref) = (-1, -1, 0)
  /\ check_case_C06 (model_case 2 bl hist [(2, 1, 3, 5, 1)]) = (11, 11, 19).
Proof.
  cbv zeta. split; [apply genesis_ok_by_entries; [lia|vm_compute; reflexivity]|]. split; [vm_compute; reflexivity|].
  split; [repeat constructor; discriminate|]. split; [repeat (apply Forall_cons; [simpl; tauto|]); apply Forall_nil|].
  split; [repeat (apply Forall_cons; [split; vm_compute; reflexivity|]); apply Forall_nil|].
  split; [vm_compute; reflexivity|]. split; vm_compute; reflexivity.
Qed.

(** PARAMETER CHANGES (MsgUpdateParams) are a step of the model: the state carries the creation fee and the tax rate
    ([cfee], [trate]; genesis: 5000 and 0.4).  A change is accepted only from the authority and only with valid
    parameters (fee a valid coin amount of at most 255 bits, 0 < tax < 1) and touches nothing but the two parameters;
    every other step leaves them alone ([params_after]); all theorems of C05/C06 above are proved with this step in the
    histories.  The parameters enter only the fee split of CreatePool. *)
Theorem parameter_change_touches_only_the_parameters :
  forall (s : state) (who : acct) (cf : Z) (tr : dec) (s' : state) (rw : list (denom * Z)),
    update_params s who cf tr = Done s' rw ->
    who = AUTH /\ 0 <= cf < 2 ^ 255 /\ 0 < tr < P18 /\ rw = []
    /\ s' = mkSt (height s) (pools s) (queue s) (seq s) (bank s) cf tr.
Proof. exact update_params_Done. Qed.
Print Assumptions parameter_change_touches_only_the_parameters.

Theorem parameter_change_only_by_the_authority :
  forall (s : state) (who : acct) (cf : Z) (tr : dec), who <> AUTH -> update_params s who cf tr = Fail Rej.
Proof. exact params_only_by_authority. Qed.
Print Assumptions parameter_change_only_by_the_authority.

Theorem parameters_change_only_by_a_parameter_change :
  forall (s : state) (st : step), inv s -> (cfee (step_state s st), trate (step_state s st)) = params_after s st.
Proof. exact step_params. Qed.
Print Assumptions parameters_change_only_by_a_parameter_change.

(** the fee split: the creator pays the fee in force, the fee collector receives fee x tax rate (truncated, between 0
    and the fee), the rest is burned, the farm account and everybody else are unchanged *)
Theorem creation_fee_split :
  forall (cf : Z) (tr : dec) (b : ledger) (who : acct) (b1 : ledger),
    deduct_fee cf tr b who = Some b1 -> who <> FARM -> who <> FEEC -> who <> BURN ->
    let tax := dec_truncate_int (dec_mul (dec_of_int cf) tr) in
    0 <= tax <= cf
    /\ forall d, bal b1 who d = bal b who d - (if d =? STAKE then cf else 0)
              /\ bal b1 FEEC d = bal b FEEC d + (if d =? STAKE then tax else 0)
              /\ bal b1 BURN d = bal b BURN d + (if d =? STAKE then cf - tax else 0)
              /\ bal b1 FARM d = bal b FARM d
              /\ forall x, x <> who -> x <> FARM -> x <> FEEC -> x <> BURN -> bal b1 x d = bal b x d.
Proof. exact deduct_fee_split. Qed.
Print Assumptions creation_fee_split.

Theorem create_pool_charges_the_parameters_in_force :
  forall (s : state) (who : acct) (lpt : denom) (start : Z) (ed : bool) (rules : list (denom * Z * Z)) (s' : state) (rw : list (denom * Z)),
    create_pool s who lpt start ed rules = Done s' rw ->
    exists b1 b2, deduct_fee (cfee s) (trate s) (bank s) who = Some b1
                  /\ send_many b1 who FARM (map (fun '(d, t, _) => (d, t)) rules) = Some b2 /\ bank s' = b2
                  /\ cfee s' = cfee s /\ trate s' = trate s.
Proof. exact create_uses_current_params. Qed.
Print Assumptions create_pool_charges_the_parameters_in_force.

(** non-vacuity: the authority sets fee 7 and tax 1/3; the next pool costs its creator 7 (2 to the fee collector,
    5 burned); a farmer's attempt and an invalid tax rate are rejected and change nothing *)
Example c06_params_nonvacuous :
  let bk : ledger := fold_left (fun l a => fold_left (fun l' d => credit l' a d 1000000) [0; 1; 2; 3] l) [0; 1; 2] [] in
  let s0 := init bk 2 in
  let s1 := run s0 [Msg (UpdateParams 1 9 500000000000000000); Msg (UpdateParams AUTH 9 P18); Msg (UpdateParams AUTH 7 333333333333333333)] in
  let s2 := step_state s1 (Msg (CreatePool 0 0 2 true [(3, 1000, 1)])) in
  (cfee s0, trate s0, cfee s1, trate s1) = (5000, 400000000000000000, 7, 333333333333333333)
  /\ (bal (bank s1) 0 STAKE - bal (bank s2) 0 STAKE, bal (bank s2) FEEC STAKE, bal (bank s2) BURN STAKE, seq s2) = (1007, 2, 5, 1).
Proof. cbv zeta. split; vm_compute; reflexivity. Qed.

(** The duration AdjustPool computes (availableHeight) is never negative (imported by the queues group). *)
Theorem adjust_duration_is_nonnegative :
  forall (s : state) (who : acct) (pid : Z) (add rpb : list (denom * Z)) (s' : state) (rw : list (denom * Z)),
    reachable s -> adjust s who pid add rpb = Done s' rw ->
    exists p p1 b1 iv,
      let started := p_start p <=? height s in
      let start_h := if started then height s else p_start p in
      get pid (pools s) = Some p /\ update_pool (height s) (bank s) p 0 false = (p1, b1, true)
      /\ min_interval (map (fun r => (adj_avail started (p_end p1 - start_h) add r, r_pb (adj_pb rpb r)))
                           (map (adj_topup add) (p_rules p1))) = Some iv
      /\ 0 <= iv
      /\ exists p', get pid (pools s') = Some p' /\ p_end p' = start_h + iv.
Proof. intros s who pid add rpb s' rw R. exact (adjust_duration_nonneg s who pid add rpb s' rw (reachable_inv _ R)). Qed.
Print Assumptions adjust_duration_is_nonnegative.

(** PRO RATA.  One farmer and one rule, over ANY list of events: [Accrue dr] (the per-share value
    grows by dr >= 0; the farmer's exact share, in units of 10^-18, grows by dr * stake) and
    [Act delta] (a stake / harvest / unstake of his: he is paid [pay_of], his debt becomes [new_debt] —
    the formulas of CaclRewards — and his stake changes by delta, staying >= 0).  He is never paid more
    than his exact share, and once his stake is fully withdrawn he has been paid less than one unit
    per interaction below it.  How often anyone harvests only enters through that count. *)
Theorem payout_close_to_fair_share :
  forall es : list fev,
    fvalid 0 es ->
    let x := fold_left fstep es fzero in
    a_paid x * P18 <= a_fair x
    /\ (a_l x = 0 -> a_fair x - a_paid x * P18 <= a_n x * (P18 - 1)).
Proof. exact payout_lemma. Qed.
Print Assumptions payout_close_to_fair_share.

(** Harvest frequency: two histories of a farmer with the same exact share (e.g. differing only in extra
    harvests), both ending fully withdrawn, pay amounts that differ by less than the number of interactions. *)
Corollary harvest_frequency_independent :
  forall es1 es2 : list fev,
    fvalid 0 es1 -> fvalid 0 es2 ->
    let x1 := fold_left fstep es1 fzero in
    let x2 := fold_left fstep es2 fzero in
    a_l x1 = 0 -> a_l x2 = 0 -> a_fair x1 = a_fair x2 ->
    - (a_n x1 * (P18 - 1)) <= (a_paid x1 - a_paid x2) * P18 <= a_n x2 * (P18 - 1).
Proof. exact harvest_frequency_lemma. Qed.
Print Assumptions harvest_frequency_independent.

(** ... and an [Act] is exactly what the model's CaclRewards (hence stake / harvest / unstake) does for the
    rule at any position [i] of a pool: payment [pay_of], new debt [new_debt] (a missing debt counts as 0). *)
Theorem cacl_rewards_is_act :
  forall (rs : list rule) (l : Z) (ds : list Z) (delta : Z) (rw : list (denom * Z)) (db : list Z) (i : nat) (r0 : rule),
    cacl rs l ds delta = Some (rw, db) -> (i < length rs)%nat ->
    let r := nth i rs r0 in
    nth i rw (0, 0) = (r_denom r, pay_of (r_rps r) l (nth i ds 0))
    /\ nth i db 0 = new_debt (r_rps r) l (nth i ds 0) delta.
Proof. exact cacl_is_act. Qed.
Print Assumptions cacl_rewards_is_act.

(** PRO RATA on histories of the model.  [paid_in], [fair_in], [acts_in] are read off the history itself: the reward
    coin of the rule's denomination in the responses of the farmer's successful stake / harvest / unstake on the pool;
    (growth of the rule's per-share value in the step) * (the stake he held before it); the number of those
    interactions.  ([ProRata.sim_run] shows that the history, projected by [ProRata.events], drives the event
    abstraction above step for step.)  From any reachable state in which the pool exists, the rule is its j-th and the
    farmer holds no stake in it, over ANY further history: *)
Theorem payout_close_to_fair_share_on_histories :
  forall (w pid : Z) (j : nat) (steps : list step) (s : state) (r : rule),
    reachable s -> Forall valid_step steps -> rule_j pid j s = Some r -> rec_of w pid s = None ->
    hist_sum (paid_in w pid j) s steps * P18 <= hist_sum (fair_in w pid j) s steps
    /\ (rec_of w pid (run s steps) = None ->
        hist_sum (fair_in w pid j) s steps - hist_sum (paid_in w pid j) s steps * P18
        <= hist_sum (acts_in w pid) s steps * (P18 - 1)).
Proof. intros w pid j steps s r R. exact (payout_model_lemma w pid j steps s r (reachable_inv _ R)). Qed.
Print Assumptions payout_close_to_fair_share_on_histories.

(** ... and the same without assuming that the pool or the rule exists at the start: from every reachable state in
    which the farmer holds no stake in pool [pid] — in particular from genesis — for every pool id and rule position. *)
Theorem payout_close_to_fair_share_from_genesis :
  forall (w pid : Z) (j : nat) (b : ledger) (h : Z) (steps : list step),
    genesis_ok b h -> Forall valid_step steps ->
    hist_sum (paid_in w pid j) (init b h) steps * P18 <= hist_sum (fair_in w pid j) (init b h) steps
    /\ (rec_of w pid (run (init b h) steps) = None ->
        hist_sum (fair_in w pid j) (init b h) steps - hist_sum (paid_in w pid j) (init b h) steps * P18
        <= hist_sum (acts_in w pid) (init b h) steps * (P18 - 1)).
Proof.
  intros w pid j b h steps G Hv. exact (payout_general_lemma w pid j steps (init b h) (inv_init b h G) Hv eq_refl).
Qed.
Print Assumptions payout_close_to_fair_share_from_genesis.

Theorem harvest_frequency_independent_on_histories :
  forall (w pid : Z) (j : nat) (steps1 : list step) (s1 : state) (r1 : rule) (steps2 : list step) (s2 : state) (r2 : rule),
    reachable s1 -> Forall valid_step steps1 -> rule_j pid j s1 = Some r1 -> rec_of w pid s1 = None ->
    reachable s2 -> Forall valid_step steps2 -> rule_j pid j s2 = Some r2 -> rec_of w pid s2 = None ->
    rec_of w pid (run s1 steps1) = None -> rec_of w pid (run s2 steps2) = None ->
    hist_sum (fair_in w pid j) s1 steps1 = hist_sum (fair_in w pid j) s2 steps2 ->
    - (hist_sum (acts_in w pid) s1 steps1 * (P18 - 1))
    <= (hist_sum (paid_in w pid j) s1 steps1 - hist_sum (paid_in w pid j) s2 steps2) * P18
    <= hist_sum (acts_in w pid) s2 steps2 * (P18 - 1).
Proof.
  intros w pid j steps1 s1 r1 steps2 s2 r2 R1 V1 J1 N1 R2. 
  exact (harvest_frequency_model_lemma w pid j steps1 s1 r1 steps2 s2 r2 (reachable_inv _ R1) V1 J1 N1 (reachable_inv _ R2)).
Qed.
Print Assumptions harvest_frequency_independent_on_histories.

(** non-vacuity: farmer 2 joins farmer 1 (stake 1 next to 2) in a pool paying 1 per block, harvests once and leaves:
    exact share 2.33..., paid 1, three interactions; the hypotheses hold of the state the history starts from. *)
Example c06_prorata_nonvacuous :
  let bk : ledger := fold_left (fun l a => fold_left (fun l' d => credit l' a d 1000000) [0; 1; 2; 3] l) [0; 1; 2] [] in
  let s1 := run (init bk 2) [Msg (CreatePool 0 0 2 true [(3, 1000, 1)]); NextBlock; Msg (Stake 1 1 0 2)] in
  let steps := [NextBlock; Msg (Stake 2 1 0 1); NextBlock; NextBlock; NextBlock; NextBlock; Msg (Harvest 2 1);
                NextBlock; NextBlock; NextBlock; Msg (Unstake 2 1 0 1); NextBlock] in
  (exists r, rule_j 1 0 s1 = Some r) /\ rec_of 2 1 s1 = None /\ rec_of 2 1 (run s1 steps) = None
  /\ (hist_sum (paid_in 2 1 0) s1 steps, hist_sum (fair_in 2 1 0) s1 steps, hist_sum (acts_in 2 1) s1 steps)
     = (1, 2333333333333333333, 3).
Proof.
  cbv zeta. split; [eexists; vm_compute; reflexivity|]. split; [vm_compute; reflexivity|]. split; vm_compute; reflexivity.
Qed.

(** non-vacuity: a valid event list with fractional per-share values; the farmer leaves having been
    paid 6 of an exact share of 6.66..., after 4 interactions *)
Example c06_nonvacuous :
  let es := [Act 2; Accrue 333333333333333333; Act 1; Accrue 1999999999999999999; Act 0; Accrue 7; Act (-3)] in
  fvalid 0 es
  /\ (let x := fold_left fstep es fzero in (a_l x, a_paid x, a_fair x, a_n x)) = (0, 6, 6666666666666666684, 4).
Proof. split; [simpl; lia|vm_compute; reflexivity]. Qed.
