(** * C06 (placeholder, theorems follow) *)
From Irismod Require Import Farm.Model.
Theorem placeholder_c06 : True. Proof. exact I. Qed.
Print Assumptions placeholder_c06.
