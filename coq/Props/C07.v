(** * C07 — Service: deposits and fees are conserved across escrow, providers and consumers.

    Only statements, each closed by [exact] of a lemma of [Service/Proofs*.v], with
    [Print Assumptions] beneath.  The model ([Service/Model.v]) follows the code AFTER the
    three [fix:] commits recorded in known-findings.txt (discounted charge, complete rewrite of
    the owner tally, all-or-nothing deduction); on the unchanged code
    [consumer_charged_sum_of_request_fees] is false (corpus/C07/discount-overcharge.jsonl).

    [request_escrow_eq_liabilities] needs one hypothesis on the history, [fresh_history]: no
    context id (tx hash, per-block index) is issued while a context with that id is still
    stored.  It follows from "the context-creating transactions of the history have pairwise
    distinct hashes" ([fresh_history_from_distinct_hashes], Props/C08.v). *)
From Irismod Require Import Service.Check.
From Irismod Require Import Service.Model Service.Proofs Service.ProofsHist Service.ProofsEscrow
  Service.ProofsSched Service.ProofsBatch Service.ProofsLiab Service.ProofsTally Service.ProofsLive Service.ProofsModule Service.ProofsFresh
  Service.ProofsCallback Service.ProofsSchedule Service.ProofsModuleHist Service.ProofsCheck Service.ProofsTrack Service.ProofsBal Service.ProofsSlash.

(** Over EVERY history (any list of steps: messages of any kind and content, valid or not, block
    ends with expiry, slashing, refunds and new batches, rate changes, transfers, module
    calls), for every parameter set, from any initial height, time and ledger in which the
    deposit escrow is empty: the balance of the deposit escrow account equals the sum of the
    deposits recorded on all bindings. *)
Theorem deposit_escrow_eq_bindings :
  forall c steps h0 t0 l0,
    bal l0 DEP BASE = 0 ->
    let s := run c (init h0 t0 l0) steps in
    bal (led s) DEP BASE = dep_sum (binds s).
Proof. exact deposit_escrow_eq_bindings_lemma. Qed.
Print Assumptions deposit_escrow_eq_bindings.

(** When the end blocker issues a batch for context [id] (running, enough providers pass the
    filter, the consumer can pay), then in EVERY denom the consumer's balance falls by exactly
    the sum of the fees recorded on the requests created for the batch, the request escrow
    rises by the same amount, and no other account moves. *)
Theorem consumer_charged_sum_of_request_fees :
  forall s id x ps l d,
    get id (ctxs s) = Some x -> x_state x = 0 -> filter_provs s x (x_provs x) = Some ps ->
    ((0 <? Z.of_nat (length ps)) && (x_thr x <=? Z.of_nat (length ps))) = true ->
    debit_all (led s) (x_cons x) (total_fees s x ps) = Some l ->
    x_cons x <> REQ ->
    let s' := new_batch_handler s id in
    let created := mk_requests s x id (x_batch x + 1) 0 ps in
    bal (led s') (x_cons x) d = bal (led s) (x_cons x) d - fees_in d created
    /\ bal (led s') REQ d = bal (led s) REQ d + fees_in d created
    /\ (forall a, a <> x_cons x -> a <> REQ -> bal (led s') a d = bal (led s) a d).
Proof. exact consumer_charged_sum_of_request_fees_lemma. Qed.
Print Assumptions consumer_charged_sum_of_request_fees.

(** the amount charged, whatever the providers, pricing and discounts: sum of the recorded fees *)
Theorem total_charge_is_sum_of_recorded_fees :
  forall s x id batch d ps i,
    amt d (total_fees s x ps) = fees_in d (mk_requests s x id batch i ps).
Proof. exact (fun s x id batch d ps i => total_fees_eq_request_fees s x id batch d ps i). Qed.
Print Assumptions total_charge_is_sum_of_recorded_fees.

(** A successful response: the request was active and addressed to the responder; its fee
    leaves the escrow as tax = floor(fee * tax rate) to the tax account, the remainder is
    credited to the provider's earned fees; nothing else moves; the request is now inactive and
    logged as answered. *)
Theorem fee_destination_answered :
  forall c s rid prov kind s',
    respond c s rid prov kind = Okk s' ->
    exists q, get rid (reqs s) = Some q /\ q_prov q = prov /\ q_active q = true
      /\ (exists q', get rid (reqs s') = Some q' /\ q_active q' = false /\ q_resp q' <> 0
                     /\ q_prov q' = prov /\ q_fee q' = q_fee q /\ q_fd q' = q_fd q)
      /\ (forall rid', rid' <> rid -> get rid' (reqs s') = get rid' (reqs s))
      /\ let tax := tax_of c (q_fee q) in
         0 <= tax <= q_fee q
         /\ send (led s) REQ TAX (q_fd q) tax = Some (led s')
         /\ getz (prov, q_fd q) (earned s') = getz (prov, q_fd q) (earned s) + (q_fee q - tax)
         /\ (forall k, k <> (prov, q_fd q) -> getz k (earned s') = getz k (earned s))
         /\ g_out s' = g_out s ++ [(rid, 1)].
Proof. exact respond_ok_lemma. Qed.
Print Assumptions fee_destination_answered.

Theorem tax_is_floor :
  forall c fee, 0 <= fee -> 0 <= c_tax c -> tax_of c fee = (fee * c_tax c) / P18.
Proof. exact tax_of_floor. Qed.
Print Assumptions tax_is_floor.

(** An expiring request: its whole fee goes from the request escrow back to the consumer of
    its context (after the provider's binding was slashed); it is deactivated without a
    response and logged as expired; earned fees are untouched. *)
Theorem fee_destination_expired :
  forall c x s rid q,
    let s1 := slash c s (x_svc x) (q_prov q) in
    let s' := expire_request c x s (rid, q) in
    0 <= q_fee q <= bal (led s1) REQ (q_fd q) -> x_cons x <> REQ ->
    bal (led s') (x_cons x) (q_fd q) = bal (led s1) (x_cons x) (q_fd q) + q_fee q
    /\ bal (led s') REQ (q_fd q) = bal (led s1) REQ (q_fd q) - q_fee q
    /\ (forall a d, (a, d) <> (REQ, q_fd q) -> (a, d) <> (x_cons x, q_fd q) -> bal (led s') a d = bal (led s1) a d)
    /\ get rid (reqs s') = Some (rq_active q false)
    /\ (forall rid', rid' <> rid -> get rid' (reqs s') = get rid' (reqs s))
    /\ g_out s' = g_out s ++ [(rid, 2)]
    /\ earned s' = earned s.
Proof. exact expire_request_lemma. Qed.
Print Assumptions fee_destination_expired.

(** Slashing moves exactly floor(deposit * slash fraction) from the deposit escrow to the tax
    account and lowers the binding's recorded deposit by the same amount. *)
Theorem slash_amount :
  forall c s svc prov b,
    get (svc, prov) (binds s) = Some b ->
    0 <= b_dep b -> 0 <= c_slash c <= P18 ->
    b_dep b <= bal (led s) DEP BASE ->
    let amount := (b_dep b * c_slash c) / P18 in
    let s' := slash c s svc prov in
    0 <= amount <= b_dep b
    /\ bal (led s') DEP BASE = bal (led s) DEP BASE - amount
    /\ bal (led s') TAX BASE = bal (led s) TAX BASE + amount
    /\ (forall a d, (a, d) <> (DEP, BASE) -> (a, d) <> (TAX, BASE) -> bal (led s') a d = bal (led s) a d)
    /\ (exists b', get (svc, prov) (binds s') = Some b' /\ b_dep b' = b_dep b - amount /\ b_owner b' = b_owner b)
    /\ (forall k, k <> (svc, prov) -> get k (binds s') = get k (binds s)).
Proof. exact slash_amount_lemma. Qed.
Print Assumptions slash_amount.

(** Over EVERY history whose context-creating transactions have pairwise distinct hashes
    ([create_txhs]; context ids are then fresh, ProofsFresh.v), for every parameter set — WITH or
    without a module-served service —, from any initial height, time and ledger with empty escrows: in every denom the
    balance of the request escrow equals the fees of the requests still awaiting a response
    plus the earned fees not yet withdrawn ([liab d s]).  The proof carries the scheduling
    invariant (a batch is only started when the previous one is closed, CleanBatch only ever
    removes inactive requests, a running batch never has more active requests than responses
    outstanding, queue entries and height markers agree) through both end-block handlers. *)
Theorem request_escrow_eq_liabilities :
  forall c steps h0 t0 l0,
    (forall d, bal l0 REQ d = 0) -> bal l0 DEP BASE = 0 ->
    NoDup (create_txhs steps) ->
    let s := run c (init h0 t0 l0) steps in
    forall d, bal (led s) REQ d = liab d s.
Proof. exact request_escrow_eq_liabilities_m_lemma. Qed.
Print Assumptions request_escrow_eq_liabilities.

(** Over EVERY history (no hypothesis at all), for every owner [o] and denom [d]: the owner-side
    earned-fee tally equals the sum of the provider-side tallies of the providers that [o] owns
    ([osum]).  FALSE on the unfixed code (corpus/C07/stale-owner-tally.jsonl): the proof of the
    withdrawal case uses that the owner tally is rewritten completely. *)
Theorem provider_owner_tallies_agree :
  forall c steps h0 t0 l0 o d,
    let s := run c (init h0 t0 l0) steps in
    getz (o, d) (oearned s) = osum s o d.
Proof. exact provider_owner_tallies_agree_lemma. Qed.
Print Assumptions provider_owner_tallies_agree.

(** A call to a service that a MODULE serves itself (msgServer.CallService, second branch;
    Keeper.RequestModuleService — [c_msvc c >= 0]).  If the call succeeds from a state in which
    the escrow equation holds (and the context id is fresh), then: the equation holds afterwards;
    the consumer falls by exactly the fee recorded on the ONE request created for the module's
    provider (price with discounts), in its denom; the request escrow rises by fee - tax; that
    request is stored answered, inactive, addressed to the module's provider.  FALSE on the code
    before the fix "service module-service request charges the consumer the fee its request
    records" (the undiscounted price, or nothing at all, was deducted).
    The history theorems ([request_escrow_eq_liabilities], [deposit_escrow_eq_bindings],
    [provider_owner_tallies_agree]) hold on chains with a module-served service as well: every
    other step behaves as on the chain without one ([apply_no_msvc]) and the module-served call
    preserves the invariants (ProofsModuleHist.v). *)
Theorem module_call_charged_the_recorded_fee :
  forall c s txh svc provs cons inok capd capa timeout rep freq total s',
    call_module c s txh svc provs cons inok capd capa timeout rep freq total = Okk s' ->
    DepInv s -> BatchInv s -> ctx_at s (txh, iidx s) = None -> EscEq s ->
    EscEq s'
    /\ exists fd fee tax,
         0 <= tax <= fee
         /\ (forall d, bal (led s') cons d = bal (led s) cons d - (if fd =? d then fee else 0))
         /\ (forall d, bal (led s') REQ d = bal (led s) REQ d + (if fd =? d then fee - tax else 0))
         /\ (exists q, get ((txh, iidx s), 1, height s, 0) (reqs s') = Some q
                       /\ q_fee q = fee /\ q_fd q = fd /\ q_prov q = c_mprov c /\ q_active q = false /\ q_resp q <> 0).
Proof. exact module_call_lemma. Qed.
Print Assumptions module_call_charged_the_recorded_fee.

(** Writing [liab d s] for (fees of the active requests in denom d) + (earned fees in denom d):
    if the request escrow equals the liabilities in every denom, it still does after ANY step
    other than a block end — any message of any content (responses, withdrawals, bindings,
    calls, controls; accepted or rejected), rate change, transfer or module call.
    [DepInv] holds in every reachable state ([reachable_states_satisfy_DepInv]). *)
Theorem request_escrow_preserved_by_transactions :
  forall c s st,
    c_msvc c < 0 ->
    (match st with EndBlock _ => False | _ => True end) ->
    DepInv s -> EscEq s -> EscEq (apply c s st).
Proof. exact escrow_preserved_by_messages_lemma. Qed.
Print Assumptions request_escrow_preserved_by_transactions.

Theorem reachable_states_satisfy_DepInv :
  forall c steps h0 t0 l0, bal l0 DEP BASE = 0 -> DepInv (run c (init h0 t0 l0) steps).
Proof. exact DepInv_reachable. Qed.
Print Assumptions reachable_states_satisfy_DepInv.

(** The model passes its own check, clauses 1 and 2 of [holds_C07] (Service/Check.v).
    [obs_of univ code newctx cb s] is what the driver would observe of the model state [s]
    (balances of the accounts/denoms in [univ], bindings, contexts, requests as the same tuples,
    tallies, queues, markers).  For EVERY history (distinct hashes on context-creating
    transactions, escrows empty at the start), whatever the previous observation [p] and the step
    [st]: evaluated on the observation of the state reached, [holds_C07] never answers 1 (deposit
    escrow <> sum of binding deposits) nor 2 (request escrow <> active fees + earned fees) — the
    boolean clauses the checker evaluates are re-proved over the observation lists from [DepInv]
    and [EscInv].  Clause 3 and clause 5: next theorems.  PARTIAL: clauses 4 and 6 (balance movements
    and slashing over an end-block) are not covered. *)
Theorem model_passes_C07_clauses_1_2 :
  forall c steps h0 t0 l0 univ p st code nc cb,
    clean l0 -> NoDup (create_txhs steps) ->
    In (DEP, BASE) univ -> (forall d, In d (denoms c) -> In (REQ, d) univ) ->
    let s := run c (init h0 t0 l0) steps in
    let k := holds_C07 c p st (obs_of univ code nc cb s) in
    k <> 1 /\ k <> 2.
Proof. exact model_passes_C07_clauses_1_2_lemma. Qed.
Print Assumptions model_passes_C07_clauses_1_2.

(** clause 3, over EVERY history without any hypothesis: every owner-side tally entry equals the
    sum of the provider-side tallies of the providers whose BINDINGS name that owner, and the
    owner entry of every earning provider's owner equals that sum — the checker reads the owner of
    a provider off the observed bindings; that this is the owner the keeper credits is the
    invariant [WInv] of Service/ProofsCheck.v (every binding of a provider records the provider's
    owner; only bound providers have an owner) *)
Theorem model_passes_C07_clause_3 :
  forall c steps h0 t0 l0 univ p st code nc cb,
    let s := run c (init h0 t0 l0) steps in
    holds_C07 c p st (obs_of univ code nc cb s) <> 3.
Proof. exact model_passes_C07_clause_3_lemma. Qed.
Print Assumptions model_passes_C07_clause_3.

(** clause 5 (one model step from any state): a successful response moves tax = floor(fee * rate)
    from the request escrow to the tax account in the fee denom, credits fee - tax to the
    provider's tally, and changes no actor's balance.  Hypotheses: a non-negative tax rate, the
    stored requests' fees are non-negative (invariant [EscInv] of reachable states) and the observed
    universe covers the escrow and tax accounts in their fee denoms. *)
Theorem model_passes_C07_clause_5 :
  forall c s st univ pcode pnc pcb,
    0 <= c_tax c ->
    (forall rid q, get rid (reqs s) = Some q -> 0 <= q_fee q /\ In (TAX, q_fd q) univ /\ In (REQ, q_fd q) univ) ->
    holds_C07 c (obs_of univ pcode pnc pcb s) st (obs_step univ c s st) <> 5.
Proof. exact model_passes_C07_clause_5_lemma. Qed.
Print Assumptions model_passes_C07_clause_5.

(** clause 4 — "fees are conserved across escrow and consumers", per account: over an end-block
    (and over a call message) every actor's balance, in every denom, moves by exactly the fees of
    its requests that expired in the step minus the fees of its requests created in the step —
    the checker's sums over the observed request lists.  Along the model's own trace of any history
    (no module-served service, escrows empty at the start, distinct hashes, no end-block with a
    negative time increment; the observed universe is a product accounts x denoms).  Model side
    ([end_block_bal], Service/ProofsBal.v): two potentials are invariant under the two kinds of
    handler — balance + fees still owed to the account by requests expiring at this height
    (refund: REQ escrow -> consumer, which cannot fail because the escrow equation holds), and
    balance + fees charged to the account for requests created at this height (all-or-nothing
    deduction of exactly the recorded fees) — and the consumer of a context never changes. *)
Theorem model_passes_C07_clause_4 :
  forall c steps h0 t0 l0 univ,
    c_msvc c < 0 -> clean l0 -> NoDup (create_txhs steps) -> Forall good_step steps ->
    (forall a d, (exists d', In (a, d') univ) -> In d (denoms c) -> In (a, d) univ) ->
    forall pre st post, steps = pre ++ st :: post ->
    forall pc pn pb,
      let s := run c (init h0 t0 l0) pre in
      holds_C07 c (obs_of univ pc pn pb s) st (obs_step univ c s st) <> 4.
Proof. exact model_passes_C07_clause_4_lemma. Qed.
Print Assumptions model_passes_C07_clause_4.

(** [model_passes_check] for [check_case_C07], the earlier PARTIAL form (clauses 1-5; the complete
    one is [model_passes_check_C07] below).  [model_case univ c h0 t0 l0 steps]
    is the case the driver would print for the MODEL: its own observation after every step of ANY
    history.  Whatever the checker ([check_case_C07] = correspondence, first violating step, clause)
    answers on it, there is no divergence (first component -1) and the clause is never 1, 2, 3, 4 or 5
    (so it is 0 or 6): every boolean entry of those clauses of
    [holds_C07] is re-proved over the observation lists from the invariants.  NOT covered: clause 6
    (slashing iterated per expired request); the correspondence component is [model_corresponds_to_itself] below.  Hypotheses: no module-served service,
    a non-negative tax rate, escrows empty at the start, distinct hashes, no end-block with a
    negative time increment, the observed universe [univ] contains the escrow accounts in the
    configured denoms and the escrow / tax accounts in the fee denoms of the stored requests
    (decidable: [fdsb_ok]), and the initial ledger is the one the checker rebuilds from the first
    observation. *)
Theorem model_passes_clauses_C07 :
  forall c steps h0 t0 l0 univ,
    c_msvc c < 0 -> 0 <= c_tax c -> clean l0 -> NoDup (create_txhs steps) -> Forall good_step steps ->
    In (DEP, BASE) univ -> (forall d, In d (denoms c) -> In (REQ, d) univ) ->
    (forall pre st post, steps = pre ++ st :: post -> forall rid q, get rid (reqs (run c (init h0 t0 l0) pre)) = Some q ->
       In (TAX, q_fd q) univ /\ In (REQ, q_fd q) univ) ->
    (forall a d, (exists d', In (a, d') univ) -> In d (denoms c) -> In (a, d) univ) ->
    ledger_of (obs_of univ 0 None [] (init h0 t0 l0)) = l0 ->
    forall corr p k, check_case_C07 (model_case univ c h0 t0 l0 steps) = (corr, p, k) ->
      corr = -1 /\ k <> 1 /\ k <> 2 /\ k <> 3 /\ k <> 4 /\ k <> 5.
Proof. exact model_passes_clauses_C07_4_lemma. Qed.
Print Assumptions model_passes_clauses_C07.

(** The correspondence component, for BOTH properties, over EVERY history with distinct hashes
    (module-served services included): on the case the driver would print for the model, the
    checker never sees the model diverge from its own observation — the first component of
    [check_case_C07] and of [check_case_C08] is -1.  (That [obs_of] is a faithful projection needs
    every map of the state to have distinct keys: invariants [KInv], [kc], [BatchInv], [TInv].)
    With [model_passes_clauses_C07] / [model_passes_clauses_C08]: the checker answers
    (-1, p, k) with k outside the clauses listed there. *)
Theorem model_corresponds_to_itself :
  forall c steps h0 t0 l0 univ,
    NoDup (create_txhs steps) ->
    ledger_of (obs_of univ 0 None [] (init h0 t0 l0)) = l0 ->
    let cs := model_case univ c h0 t0 l0 steps in
    (forall corr p k, check_case_C07 cs = (corr, p, k) -> corr = -1)
    /\ (forall corr p k, check_case_C08 cs = (corr, p, k) -> corr = -1).
Proof. exact model_corresponds_to_itself_lemma. Qed.
Print Assumptions model_corresponds_to_itself.

(** [model_passes_check] for C07, COMPLETE: on the case the driver would print for the MODEL —
    its own observation after every step of any history — the checker answers (-1, -1, 0): no
    divergence, no step violating any of the six clauses of [holds_C07].  Clause 6 (new in
    Service/ProofsSlash.v): over an end-block every binding's deposit is the old one slashed
    floor(deposit * fraction) once per request of its (service, provider) that expired in the step
    ([end_block_slash]: "deposit after the remaining slashes" is an invariant of the expiry handler;
    needs deposits >= 0, [reach_DN], and the deposit escrow equation, so that no slash can fail),
    the tax account gains in the base denom exactly what the deposit escrow loses, and nothing
    else touches it ([end_block_TD]).  Hypotheses: no module-served service; tax rate >= 0 and
    0 <= slash fraction <= 1; escrows empty at the start; distinct hashes; no end-block with a
    negative time increment; the observed universe is a product accounts x denoms containing the
    three module accounts in the base denom, the request escrow in the configured denoms and the
    escrow / tax accounts in the fee denoms of the stored requests; the initial ledger is the one
    the checker rebuilds from the first observation. *)
Theorem model_passes_check_C07 :
  forall c steps h0 t0 l0 univ,
    c_msvc c < 0 -> 0 <= c_tax c -> 0 <= c_slash c <= P18 -> clean l0 -> NoDup (create_txhs steps) -> Forall good_step steps ->
    In (DEP, BASE) univ -> In (TAX, BASE) univ -> (forall d, In d (denoms c) -> In (REQ, d) univ) ->
    (forall pre st post, steps = pre ++ st :: post -> forall rid q, get rid (reqs (run c (init h0 t0 l0) pre)) = Some q ->
       In (TAX, q_fd q) univ /\ In (REQ, q_fd q) univ) ->
    (forall a d, (exists d', In (a, d') univ) -> In d (denoms c) -> In (a, d) univ) ->
    ledger_of (obs_of univ 0 None [] (init h0 t0 l0)) = l0 ->
    check_case_C07 (model_case univ c h0 t0 l0 steps) = (-1, -1, 0).
Proof. exact model_passes_check_C07_lemma. Qed.
Print Assumptions model_passes_check_C07.

(** ** the hypotheses are satisfiable, the conclusions are not vacuous: a history with a
    time-discounted binding (price 100, half price until t = 2000), a second flat binding
    (60), one call to both, one response, one expiry with slashing *)
Definition ex_cfg := mkCfg 50000000000000000 300000000000000000 6 2 100 4 false 2 (-1) 4.
Definition ex_l0 : ledger := [((0, 0), 1000000); ((5, 0), 1000000)].
Definition ex_hist : list step :=
  [ Tx 11 (MDefine 0 0 true);
    Tx 12 (MBind 0 2 0 1000 (0, 100, [(0, 2000, 500000000000000000)], []) 1 true 0);
    Tx 13 (MBind 0 3 0 1000 (0, 60, [], []) 1 true 0);
    Tx 14 (MCall 0 [2; 3] 5 true 0 100000 2 false 0 0);
    EndBlock 5;
    Tx 15 (MRespond ((14, 0), 1, 1, 0) 2 1);
    EndBlock 5; EndBlock 5 ].

Example c07_history_nonvacuous :
  let s := run ex_cfg (init 1 1000 ex_l0) ex_hist in
  bal ex_l0 DEP BASE = 0
  /\ bal (led s) DEP BASE = 1700 /\ dep_sum (binds s) = 1700          (* 1000 + (1000 - 300 slashed) *)
  /\ bal (led s) (5) BASE = 1000000 - 50                               (* charged 50 + 60, refunded 60 *)
  /\ bal (led s) REQ BASE = 48 /\ liab BASE s = 48                     (* 50 - tax 2 *)
  /\ bal (led s) TAX BASE = 302
  /\ g_out s = [((14, 0, 1, 1, 0), 1); ((14, 0, 1, 1, 1), 2)].
Proof. vm_compute. repeat split; reflexivity. Qed.

Example c07_charge_hypotheses_satisfiable :
  let s := run ex_cfg (init 1 1000 ex_l0) (firstn 4 ex_hist) in
  let x := mkCtx 0 [2; 3] 5 100000 2 false 0 0 0 0 0 0 false 0 0 false in
  get (14, 0) (ctxs s) = Some x /\ x_state x = 0 /\ filter_provs s x (x_provs x) = Some [2; 3]
  /\ (exists l, debit_all (led s) (x_cons x) (total_fees s x [2; 3]) = Some l) /\ x_cons x <> REQ
  /\ fees_in BASE (mk_requests s x (14, 0) (x_batch x + 1) 0 [2; 3]) = 110.   (* 50 discounted + 60 *)
Proof.
  cbv zeta. split; [vm_compute; reflexivity|]. split; [reflexivity|]. split; [vm_compute; reflexivity|].
  split; [eexists; vm_compute; reflexivity|]. split; [discriminate|vm_compute; reflexivity].
Qed.

Example c07_escrow_nonvacuous :
  let s := run ex_cfg (init 1 1000 ex_l0) (firstn 5 ex_hist) in
  liab BASE s = 110 /\ bal (led s) REQ BASE = 110 /\ bal ex_l0 REQ BASE = 0.
Proof. vm_compute. repeat split; reflexivity. Qed.

Example c07_tallies_nonvacuous :
  let s := run ex_cfg (init 1 1000 ex_l0) ex_hist in
  getz (0, BASE) (oearned s) = 48 /\ osum s 0 BASE = 48 /\ getz (2, BASE) (earned s) = 48.
Proof. vm_compute. repeat split; reflexivity. Qed.



(** a module-served service ("2", provider 4, price 100 at half price until t = 2000, bound by the
    module itself): the call charges 50, the provider earns 50 - tax 2 at once *)
Definition ex_cfg_m := mkCfg 50000000000000000 300000000000000000 6 2 100 4 false 2 2 4.
Definition ex_hist_m : list step :=
  [ Tx 11 (MDefine 0 2 true);
    ModBind 2 4 0 1000 (0, 100, [(0, 2000, 500000000000000000)], []) 1 0;
    Tx 12 (MBind 2 4 0 1000 (0, 100, [], []) 1 true 0);
    Tx 14 (MCall 2 [4] 5 true 0 100000 2 false 0 0);
    EndBlock 5 ].

Example c07_module_call_nonvacuous :
  let s := run ex_cfg_m (init 1 1000 ex_l0) ex_hist_m in
  c_msvc ex_cfg < 0 /\ 0 <= c_msvc ex_cfg_m
  /\ exec_step ex_cfg_m (run ex_cfg_m (init 1 1000 ex_l0) (firstn 2 ex_hist_m)) (Tx 12 (MBind 2 4 0 1000 (0, 100, [], []) 1 true 0)) = Rejj
  /\ bal (led s) 5 BASE = 1000000 - 50 /\ bal (led s) REQ BASE = 48 /\ liab BASE s = 48
  /\ getz (4, BASE) (earned s) = 48 /\ bal (led s) DEP BASE = 1000 /\ dep_sum (binds s) = 1000.
Proof. vm_compute. repeat split; try reflexivity; discriminate. Qed.

Example c07_fresh_history_satisfiable :
  fresh_history ex_cfg (init 1 1000 ex_l0) ex_hist /\ NoDup (create_txhs ex_hist) /\ NoDup (create_txhs ex_hist_m).
Proof. split; [apply fresh_historyb_ok; vm_compute; reflexivity|]. split; vm_compute; repeat constructor; simpl; tauto. Qed.

(** the whole checker ([check_all]: correspondence, C07, C08) run on the model's OWN observations
    of the two example histories answers "no divergence, no violation" *)
Definition ex_univ : list (Z * Z) := flat_map (fun a => [(a, 0); (a, 1)]) [DEP; REQ; TAX; 0; 1; 2; 3; 4; 5; 6; 7].
Example c07_model_passes_check_on_examples :
  clean ex_l0 /\ In (DEP, BASE) ex_univ /\ (forall d, In d (denoms ex_cfg) -> In (REQ, d) ex_univ)
  /\ check_all (model_case ex_univ ex_cfg 1 1000 ex_l0 ex_hist) = (-1, -1, 0, -1, 0)
  /\ check_all (model_case ex_univ ex_cfg_m 1 1000 ex_l0 ex_hist_m) = (-1, -1, 0, -1, 0).
Proof.
  split; [split; [intros d|]; reflexivity|]. split; [vm_compute; tauto|].
  split; [intros d Hd; vm_compute in Hd; destruct Hd as [<-|[<-|[]]]; vm_compute; tauto|].
  split; vm_compute; reflexivity.
Qed.

(** the hypotheses of [model_passes_clauses_C07] hold of the first example history *)
Example c07_model_passes_clauses_hypotheses_satisfiable :
  c_msvc ex_cfg < 0 /\ 0 <= c_tax ex_cfg /\ NoDup (create_txhs ex_hist) /\ Forall good_step ex_hist
  /\ (forall pre st post, ex_hist = pre ++ st :: post -> forall rid q, get rid (reqs (run ex_cfg (init 1 1000 ex_l0) pre)) = Some q ->
        In (TAX, q_fd q) ex_univ /\ In (REQ, q_fd q) ex_univ)
  /\ ledger_of (obs_of ex_univ 0 None [] (init 1 1000 ex_l0)) = ledger_of (obs_of ex_univ 0 None [] (init 1 1000 (ledger_of (obs_of ex_univ 0 None [] (init 1 1000 ex_l0)))))
  /\ check_case_C07 (model_case ex_univ ex_cfg 1 1000 (ledger_of (obs_of ex_univ 0 None [] (init 1 1000 ex_l0))) ex_hist) = (-1, -1, 0).
Proof.
  split; [vm_compute; reflexivity|]. split; [vm_compute; discriminate|].
  split; [vm_compute; repeat constructor; simpl; tauto|].
  split; [repeat constructor; vm_compute; discriminate|].
  split; [apply fdsb_ok; vm_compute; reflexivity|]. split; vm_compute; reflexivity.
Qed.

Example c07_universe_is_a_product :
  forall a d, (exists d', In (a, d') ex_univ) -> In d (denoms ex_cfg) -> In (a, d) ex_univ.
Proof.
  intros a d (d' & Hin) Hd. vm_compute in Hd. vm_compute in Hin.
  repeat (destruct Hin as [Hin|Hin]; [injection Hin as <- <-; destruct Hd as [<-|[<-|[]]]; vm_compute; tauto|]). contradiction.
Qed.

Example c07_slash_fraction_in_range : 0 <= c_slash ex_cfg <= P18 /\ In (TAX, BASE) ex_univ.
Proof. split; [vm_compute; split; discriminate|vm_compute; tauto]. Qed.
