(** * C19 — Record: a stored record is immutable and its id is unique and permanent.

    Only statements, each closed by [exact] of a lemma of [Record/Proofs.v], with
    [Print Assumptions] beneath.  Histories are arbitrary lists of transactions (each an
    arbitrary list of create-record messages, executed atomically) and block boundaries. *)
From Irismod Require Import Record.Model Record.Proofs Record.Check Record.Sound.

(** Whatever state the chain starts from (provided its store maps ids to the records they
    were derived from, which holds initially and is preserved), if the step [st] executed
    after the history [pre] creates a record [r] and returns id [id], then after ANY further
    history [post] the query by [id] returns exactly [r]. *)
Theorem read_back_forever :
  forall (s0 : state) (pre : list step) (st : step) (post : list step) (id : rid) (r : rec),
    StoreInv s0 ->
    In (id, r) (snd (exec_step (run s0 pre) st)) ->
    query (run s0 (pre ++ st :: post)) id = Some r.
Proof. exact read_back_forever_lemma. Qed.
Print Assumptions read_back_forever.

Theorem initial_state_ok : StoreInv init.
Proof. exact StoreInv_init. Qed.
Print Assumptions initial_state_ok.

(** ... and [r] is exactly what was submitted: the transaction's hash, the message's
    contents and its creator, message by message, in order. *)
Theorem record_is_what_was_submitted :
  forall (ms : list msg) (s : state) (txh : Z) (s' : state) (cs : list (rid * rec)),
    exec_msgs s txh ms = Some (s', cs) ->
    map snd cs = map (fun m : msg => (txh, snd m, fst m)) ms
    /\ Forall (fun c : rid * rec => fst (fst c) = snd c) cs.
Proof. exact exec_msgs_contents. Qed.
Print Assumptions record_is_what_was_submitted.

(** Two creations never receive the same id: over every history in which distinct
    transactions have distinct hashes and no single transaction holds more than 2^32
    records, the ids returned are pairwise distinct (the 32-bit counter may wrap). *)
Theorem ids_pairwise_distinct :
  forall (steps : list step) (s : state),
    0 <= counter s < two32 -> NoDup (tx_hashes steps) -> small_txs steps ->
    NoDup (map fst (created s steps)).
Proof. exact ids_pairwise_distinct_lemma. Qed.
Print Assumptions ids_pairwise_distinct.

(** The other direction, with NO hypothesis on transaction hashes: however the creations are
    spread over transactions - all in one, or all OUTSIDE any transaction (messages executed by a
    passed proposal share the hash of the empty tx bytes), or loaded by InitGenesis - as long as the
    whole history creates at most 2^32 records, the counter alone keeps their ids pairwise distinct.
    (This is the situation of the streams `notx`, `bulk` and `genesis`.) *)
Theorem ids_distinct_by_counter :
  forall (steps : list step) (s : state),
    0 <= counter s < two32 ->
    Z.of_nat (length (created s steps)) <= two32 ->
    NoDup (map fst (created s steps)).
Proof. exact ids_distinct_by_counter_lemma. Qed.
Print Assumptions ids_distinct_by_counter.

(** The decidable predicates that the correspondence check evaluates on the IMPLEMENTATION's
    observations (model agreement, read-back of every id ever returned, no id returned twice)
    hold of the MODEL's own trace for every guarded history: the checker answers (-1, -1). *)
Theorem model_passes_check :
  forall (c0 : Z) (steps : list step),
    0 <= c0 < two32 -> NoDup (tx_hashes steps) -> small_txs steps ->
    check_from (mkState [] c0) [] (model_trace (mkState [] c0) [] steps) 0 (-1) (-1) = (-1, -1).
Proof. exact model_passes_check_lemma. Qed.
Print Assumptions model_passes_check.

(** The hypotheses are satisfiable by a non-trivial history: byte-identical records from the
    same creator in one transaction, in another transaction, and across a block boundary. *)
Example c19_nonvacuous :
  let c := [(1, 2, 0, 3)] in
  let steps := [Tx 10 [(0, c); (0, c)]; Tx 11 [(0, c)]; Block; Tx 12 [(0, c); (5, [])]; Tx 13 [(0, c)]] in
  NoDup (tx_hashes steps) /\ small_txs steps
  /\ length (created init steps) = 4%nat
  /\ counter (run init steps) = 4.
Proof.
  cbv zeta. split; [|split; [|split]].
  - simpl. repeat constructor; simpl; intuition discriminate.
  - repeat constructor; simpl; unfold two32; lia.
  - vm_compute. reflexivity.
  - vm_compute. reflexivity.
Qed.
