(** * C13 — begin/end block never halts; every due item is handled exactly once, at its due
    height; queues and objects awaiting time-based processing are in bijection.

    Only statements; proofs are in [Queues/Proofs*.v]. *)
From Irismod Require Import Queues.Common.
From Irismod Require Queues.Htlc Queues.ProofsHtlc.

(** ** HTLC (modules/htlc/abci.go: BeginBlocker; keeper/htlc.go) *)
Module H.
Import Queues.Htlc Queues.ProofsHtlc.

(** Queue hygiene on every reachable state: from the empty store, after any history of
    creations, claims (valid or not, with any outcome of the money-dependent checks) and block
    boundaries in which no refund returns an error.  [QInv] says: no duplicate entries; every
    entry [(h, id)] refers to an existing open contract whose expiration height is [h], and
    [h] is in the future; every open contract has its entry; transfer contracts carry one coin. *)
Theorem htlc_queue_hygiene :
  forall (h0 : Z) (ops : list op), Forall op_clean ops -> QInv (run (init h0) ops).
Proof. exact QInv_reachable. Qed.
Print Assumptions htlc_queue_hygiene.

Theorem htlc_one_entry_per_open_contract :
  forall s, QInv s -> forall id o, get id (objs s) = Some o -> h_status o = HOpen ->
    In (h_expire o, id) (hq s) /\ forall h, In (h, id) (hq s) -> h = h_expire o.
Proof. exact one_entry_per_open_htlc. Qed.
Print Assumptions htlc_one_entry_per_open_contract.

(** The begin-blocker never aborts on a state satisfying the invariant — whichever refunds
    return errors. *)
Theorem blocks_total_htlc :
  forall s fails, QInv s -> snd (step s (BeginBlock fails)) <> Abort.
Proof. exact ProofsHtlc.blocks_total_htlc. Qed.
Print Assumptions blocks_total_htlc.

(** Every refund is performed by the begin-blocker of exactly one block, the one whose height
    is the contract's expiration height; and no contract survives open past that height. *)
Theorem processed_exactly_once_htlc :
  forall (h0 : Z) (ops : list op), Forall op_clean ops ->
  let s := run (init h0) ops in
  NoDup (map fst (refunds s))
  /\ (forall id h, In (id, h) (refunds s) ->
        exists o, get id (objs s) = Some o /\ h_status o = HRefunded /\ h_expire o = h /\ h_closed o = h)
  /\ (forall id o, get id (objs s) = Some o -> h_status o = HRefunded -> In (id, h_expire o) (refunds s))
  /\ (forall id o, get id (objs s) = Some o -> h_status o = HOpen -> height s < h_expire o).
Proof. exact ProofsHtlc.processed_exactly_once_htlc. Qed.
Print Assumptions processed_exactly_once_htlc.

(** The hypothesis [op_clean] (no refund error) is necessary: the blocker discards the error of
    [RefundHTLC] and dequeues regardless, so a failing refund leaves an open contract without
    an entry.  (Not reachable while the escrow covers the open contracts — C03/C04.) *)
Theorem htlc_swallowed_refund_error_breaks_hygiene : exists ops, ~ QInv (run (init 1) ops).
Proof. exact failing_refund_breaks_QInv. Qed.
Print Assumptions htlc_swallowed_refund_error_breaks_hygiene.

(** non-vacuity: a history with two contracts due at one height, one claimed in the last
    possible block, one refunded *)
Example htlc_nonvacuous :
  let ops := [Create 1 50 false 1 true; Create 2 50 true 1 true] ++ repeat (BeginBlock []) 49
             ++ [Claim 1 true; BeginBlock []; Claim 2 true] in
  Forall op_clean ops
  /\ refunds (run (init 1) ops) = [(2, 51)]
  /\ hq (run (init 1) ops) = []
  /\ map (fun x => h_status (snd x)) (objs (run (init 1) ops)) = [HCompleted; HRefunded].
Proof.
  cbv zeta. split; [|vm_compute; auto].
  repeat (apply Forall_cons; [exact I || reflexivity|]). apply Forall_nil.
Qed.
End H.
