(** * C13 — begin/end block never halts; every due item is handled exactly once, at its due
    height; queues and objects awaiting time-based processing are in bijection.

    Only statements; proofs are in [Queues/Proofs*.v]. *)
From Irismod Require Import Queues.Common.
From Irismod Require Queues.Htlc Queues.ProofsHtlc Queues.CheckHtlc Queues.SoundHtlc Queues.PassHtlc.
From Irismod Require Queues.Random Queues.ProofsRandom Queues.CheckRandom Queues.SoundRandom Queues.PassRandom.
From Irismod Require Queues.Farm Queues.ProofsFarm Queues.CheckFarm Queues.SoundFarm Queues.PassFarm.
From Irismod Require Queues.Service Queues.ProofsService Queues.CheckService Queues.SoundService Queues.PassService.

(** ** HTLC (modules/htlc/abci.go: BeginBlocker; keeper/htlc.go) *)
Module H.
Import Queues.Htlc Queues.ProofsHtlc.

(** Queue hygiene on every reachable state: from the empty store, after any history of
    creations, claims (valid or not, with any outcome of the money-dependent checks) and block
    boundaries in which no refund returns an error.  [QInv] says: no duplicate entries; every
    entry [(h, id)] refers to an existing open contract whose expiration height is [h], and
    [h] is in the future; every open contract has its entry; transfer contracts carry one coin. *)
Theorem htlc_queue_hygiene :
  forall (h0 : Z) (ops : list op), Forall op_clean ops -> QInv (run (init h0) ops).
Proof. exact QInv_reachable. Qed.
Print Assumptions htlc_queue_hygiene.

Theorem htlc_one_entry_per_open_contract :
  forall s, QInv s -> forall id o, get id (objs s) = Some o -> h_status o = HOpen ->
    In (h_expire o, id) (hq s) /\ forall h, In (h, id) (hq s) -> h = h_expire o.
Proof. exact one_entry_per_open_htlc. Qed.
Print Assumptions htlc_one_entry_per_open_contract.

(** The begin-blocker never aborts on a state satisfying the invariant — whichever refunds
    return errors. *)
Theorem blocks_total_htlc :
  forall s fails, QInv s -> snd (step s (BeginBlock fails)) <> Abort.
Proof. exact ProofsHtlc.blocks_total_htlc. Qed.
Print Assumptions blocks_total_htlc.

(** Every refund is performed by the begin-blocker of exactly one block, the one whose height
    is the contract's expiration height; and no contract survives open past that height. *)
Theorem processed_exactly_once_htlc :
  forall (h0 : Z) (ops : list op), Forall op_clean ops ->
  let s := run (init h0) ops in
  NoDup (map fst (refunds s))
  /\ (forall id h, In (id, h) (refunds s) ->
        exists o, get id (objs s) = Some o /\ h_status o = HRefunded /\ h_expire o = h /\ h_closed o = h)
  /\ (forall id o, get id (objs s) = Some o -> h_status o = HRefunded -> In (id, h_expire o) (refunds s))
  /\ (forall id o, get id (objs s) = Some o -> h_status o = HOpen -> height s < h_expire o).
Proof. exact ProofsHtlc.processed_exactly_once_htlc. Qed.
Print Assumptions processed_exactly_once_htlc.

(** The hypothesis [op_clean] (no refund error) is necessary: the blocker discards the error of
    [RefundHTLC] and dequeues regardless, so a failing refund leaves an open contract without
    an entry.  (Not reachable while the escrow covers the open contracts — C03/C04.) *)
Theorem htlc_swallowed_refund_error_breaks_hygiene : exists ops, ~ QInv (run (init 1) ops).
Proof. exact failing_refund_breaks_QInv. Qed.
Print Assumptions htlc_swallowed_refund_error_breaks_hygiene.

(** The check's hygiene clause (code 12) is implied by the invariant: on the projection of every
    reachable model state it evaluates to [true] — an implementation that corresponds to the
    model cannot trip it. *)
Theorem htlc_check_hygiene_clause_sound :
  forall h0 ops, Forall op_clean ops ->
    Queues.CheckHtlc.hhyg (Queues.SoundHtlc.obs_of (run (init h0) ops)) = true.
Proof. exact Queues.SoundHtlc.hygiene_clause_holds_on_every_history. Qed.
Print Assumptions htlc_check_hygiene_clause_sound.

(** The model passes its own check: for every clean history [check_htlc], fed the observations
    the MODEL produces, returns (-1,-1,0) — no divergence, and none of the clauses 11 (abort),
    12 (hygiene), 13 (refunded exactly at the expiration height; closed contracts never change). *)
Theorem model_passes_check_htlc :
  forall h0 ops, Forall op_clean ops ->
    Queues.CheckHtlc.check_htlc (h0, Queues.PassHtlc.mtrace (init h0) ops) = (-1, -1, 0).
Proof. exact Queues.PassHtlc.model_passes_check_htlc. Qed.
Print Assumptions model_passes_check_htlc.

(** non-vacuity: a history with two contracts due at one height, one claimed in the last
    possible block, one refunded *)
Example htlc_nonvacuous :
  let ops := [Create 1 50 false 1 true; Create 2 50 true 1 true] ++ repeat (BeginBlock []) 49
             ++ [Claim 1 true; BeginBlock []; Claim 2 true] in
  Forall op_clean ops
  /\ refunds (run (init 1) ops) = [(2, 51)]
  /\ hq (run (init 1) ops) = []
  /\ map (fun x => h_status (snd x)) (objs (run (init 1) ops)) = [HCompleted; HRefunded].
Proof.
  cbv zeta. split; [|vm_compute; auto].
  repeat (apply Forall_cons; [exact I || reflexivity|]). apply Forall_nil.
Qed.
End H.

(** ** random (modules/random/abci.go: BeginBlocker; keeper/keeper.go: RequestRandom) *)
Module R.
Import Queues.Random Queues.ProofsRandom.

(** Queue hygiene on every reachable state, after any history of requests (plain or oracle, any
    interval in the uint64 range, whatever the service module answers), block boundaries (any
    block time, any set of failing service starts) and service callbacks.  [QInv]: keys are
    unique; no entry lies behind the current height (it would never be drained); every entry
    was made by an accepted request; every accepted request is still queued or was drained by
    the block after its destination height; nothing is drained twice. *)
Theorem random_queue_hygiene :
  forall (h0 : Z) (ops : list op), QInv (run (init h0) ops).
Proof. exact QInv_reachable. Qed.
Print Assumptions random_queue_hygiene.

(** The begin-blocker cannot abort in a block whose unix time is not 0 — on any state. *)
Theorem blocks_total_random :
  forall s t fails, t <> 0 -> snd (step s (BeginBlock t fails)) <> Abort.
Proof. exact ProofsRandom.blocks_total_random. Qed.
Print Assumptions blocks_total_random.

(** The hypothesis is necessary: the PRNG divides by the block's unix time. *)
Theorem blocks_abort_random_at_time_zero :
  exists s, snd (step s (BeginBlock 0 [])) = Abort.
Proof. exact ProofsRandom.blocks_abort_random_at_time_zero. Qed.
Print Assumptions blocks_abort_random_at_time_zero.

(** Exactly once, in the block after the destination height: the drain log has no duplicate
    entry, every logged drain happened in block [destination + 1] (already past), every
    accepted request is pending for a height not yet passed or in the log, and the queue holds
    only accepted requests whose height has not passed. *)
Theorem processed_exactly_once_random :
  forall (h0 : Z) (ops : list op),
  let s := run (init h0) ops in
  NoDup (map fst (done s))
  /\ (forall k p, In (k, p) (done s) -> p = fst k + 1 /\ p <= height s)
  /\ (forall k, In k (made s) ->
        (exists v, get k (rq s) = Some v /\ height s <= fst k) \/ In (k, fst k + 1) (done s))
  /\ (forall k v, get k (rq s) = Some v -> In k (made s) /\ height s <= fst k).
Proof. exact ProofsRandom.processed_exactly_once_random. Qed.
Print Assumptions processed_exactly_once_random.

(** A drained plain request has its random number, stamped with the destination height. *)
Theorem plain_requests_fulfilled :
  forall s t fails s' k c, begin_block s t fails = Some s' -> get k (rq s) = Some (false, c) -> fst k = height s ->
    get (snd k) (randoms s') = Some (height s).
Proof. exact ProofsRandom.plain_requests_fulfilled. Qed.
Print Assumptions plain_requests_fulfilled.

(** A drained oracle request whose service start did not fail is registered under its context id. *)
Theorem oracle_requests_handed_over :
  forall s t s' k ctx, begin_block s t [] = Some s' -> get k (rq s) = Some (true, ctx) -> fst k = height s ->
    In ctx (oreqs s').
Proof. exact ProofsRandom.oracle_requests_handed_over. Qed.
Print Assumptions oracle_requests_handed_over.

(** The static part of the check's hygiene clause (code 22) is implied by the invariant. *)
Theorem random_check_hygiene_clause_sound :
  forall h0 ops, Queues.CheckRandom.rhyg (Queues.SoundRandom.obs_of (run (init h0) ops)) = true.
Proof. exact Queues.SoundRandom.hygiene_clause_holds_on_every_history. Qed.
Print Assumptions random_check_hygiene_clause_sound.

(** The model passes its own check, for EVERY history: [check_random] on the model's own trace
    returns (-1,-1,0) — none of 21 (abort at a block time other than 0), 22 (hygiene; entries
    vanish only in the block after their height), 23 (drained plain requests have their number). *)
Theorem model_passes_check_random :
  forall h0 ops, Queues.CheckRandom.check_random (h0, Queues.PassRandom.mtrace (init h0) ops) = (-1, -1, 0).
Proof. exact Queues.PassRandom.model_passes_check_random. Qed.
Print Assumptions model_passes_check_random.

(** The interval guard (fix "random: reject a block interval ...") is what makes [r_future] hold: a request whose destination
    wraps below the current height is rejected. *)
Example random_wrapping_interval_rejected :
  snd (step (init 7) (Request 1 (two64 - 3) false 0 true)) = Rej
  /\ snd (step (init 7) (Request 1 (two63 - 7) false 0 true)) = Rej
  /\ snd (step (init 7) (Request 1 (two63 - 8) false 0 true)) = Ok.
Proof. vm_compute. auto. Qed.

Example random_nonvacuous :
  let ops := [Request 0 2 false 0 true; Request 1 2 true 5 true; BeginBlock 100 []; Request 0 1 false 0 true;
              BeginBlock 105 []; BeginBlock 110 []; BeginBlock 115 []] in
  let s := run (init 1) ops in
  rq s = [] /\ map snd (done s) = [4; 4; 4] /\ oreqs s = [5] /\ map snd (randoms s) = [3; 3].
Proof. vm_compute. auto. Qed.
End R.

(** ** farm (modules/farm/abci.go: EndBlocker; keeper/queue.go, pool.go, farmer.go: Refund) *)
Module F.
Import Queues.Farm Queues.ProofsFarm.

(** Queue hygiene on every reachable state, after any history of pool creations, adjustments
    (in any block, including the pool's last one), destructions, stakes and block ends — with
    any outcome of the amount-dependent checks and any set of failing refunds.  The only
    hypothesis: the duration AdjustPool computes is not negative (a quotient of non-negative
    amounts: reward arithmetic, C09/C10).  [QInv]: no duplicate entry; every entry [(h, id)]
    refers to an existing pool still awaiting its end whose EndHeight is [h], and [h] is not
    behind the current height; every such pool has its entry; a pool out of the queue ended at
    a height already reached. *)
Theorem farm_queue_hygiene :
  forall (h0 : Z) (ops : list op), Forall op_wf ops -> QInv (run (init h0) ops).
Proof. exact QInv_reachable. Qed.
Print Assumptions farm_queue_hygiene.

(** The end-blocker has no aborting path: every error of Refund is logged and dropped. *)
Theorem blocks_total_farm :
  forall s f1 f2, snd (step s (EndBlock f1 f2)) <> Abort.
Proof. exact ProofsFarm.blocks_total_farm. Qed.
Print Assumptions blocks_total_farm.

(** Exactly once, at the end height (or earlier by DestroyPool): if no refund of an end-blocker
    fails in updatePool, then a pool is refunded at most once in the whole history, at its final
    EndHeight, already reached; a queued pool has not passed its EndHeight and has exactly its
    entry; a pool out of the queue was refunded or had nothing left, and has no entry. *)
Theorem processed_exactly_once_farm :
  forall (h0 : Z) (ops : list op), Forall op_clean ops ->
  let s := run (init h0) ops in
  NoDup (map fst (refunds s))
  /\ (forall id h, In (id, h) (refunds s) ->
        exists p, get id (pools s) = Some p /\ p_closed p = PRefunded /\ p_end p = h /\ h <= height s)
  /\ (forall id p, get id (pools s) = Some p -> p_closed p = PRefunded -> In (id, p_end p) (refunds s))
  /\ (forall id p, get id (pools s) = Some p -> p_closed p = POpen ->
        height s <= p_end p /\ In (p_end p, id) (fq s) /\ forall h, In (h, id) (fq s) -> h = p_end p)
  /\ (forall id p, get id (pools s) = Some p -> p_closed p <> POpen ->
        (p_closed p = PRefunded \/ p_closed p = PEmpty) /\ p_end p <= height s /\ forall h, ~ In (h, id) (fq s)).
Proof. exact ProofsFarm.processed_exactly_once_farm. Qed.
Print Assumptions processed_exactly_once_farm.

(** The hypothesis on the end-blocker is necessary: Refund dequeues first and the blocker drops
    its error, so a refund failing in updatePool leaves the pool out of the queue and never
    refunded.  (Reached on the unfixed tree through AdjustPool in a pool's last block —
    corpus/C13/farm-adjust-in-last-block-*.jsonl; fixed by "farm AdjustPool lets every reward
    rule limit the new end height".) *)
Theorem farm_swallowed_refund_error_loses_pool :
  exists ops s p, s = run (init 1) ops /\ get 1 (pools s) = Some p /\ p_closed p = PStuck
                  /\ (forall h, ~ In (h, 1) (fq s)) /\ ~ In 1 (map fst (refunds s)).
Proof. exact failing_refund_loses_pool. Qed.
Print Assumptions farm_swallowed_refund_error_loses_pool.

(** The check's hygiene clause (code 32) is implied by the invariant. *)
Theorem farm_check_hygiene_clause_sound :
  forall h0 ops, Forall op_wf ops ->
    Queues.CheckFarm.fhyg (Queues.SoundFarm.obs_of (run (init h0) ops)) = true.
Proof. exact Queues.SoundFarm.hygiene_clause_holds_on_every_history. Qed.
Print Assumptions farm_check_hygiene_clause_sound.

(** The model passes its own check: for every clean history the checker that is run on the
    implementation's traces, fed the observations the MODEL produces, returns (-1,-1,0) — no
    divergence and no clause of the C13 predicate (31 abort, 32 hygiene, 33 exactly once at the
    end height) fires.  The predicate demands nothing the theorems do not give. *)
Theorem model_passes_check_farm :
  forall h0 ops, Forall op_clean ops ->
    Queues.CheckFarm.check_farm (h0, Queues.PassFarm.mtrace (init h0) ops) = (-1, -1, 0).
Proof. exact Queues.PassFarm.model_passes_check_farm. Qed.
Print Assumptions model_passes_check_farm.

(** non-vacuity: two pools ending together at height 6 (one adjusted to it in its last block),
    one pool destroyed in the block it falls due, one with nothing left to refund *)
Example farm_nonvacuous :
  let ops := [Create 1 5 true 0 Ok; Create 2 3 true 1 Ok; Create 3 2 true 2 Ok; Create 2 2 false 0 Ok;
              EndBlock [] []; EndBlock [] []; EndBlock [] [];
              Destroy 4 0 Rej; EndBlock [] [4];
              Adjust 2 1 1 Ok; Destroy 3 2 Ok; EndBlock [] [];
              Stake 1 Ok; EndBlock [] []; Stake 1 Ok] in
  Forall op_clean ops
  /\ refunds (run (init 1) ops) = [(3, 5); (1, 6); (2, 6)]
  /\ fq (run (init 1) ops) = []
  /\ map (fun x => p_closed (snd x)) (pools (run (init 1) ops)) = [PRefunded; PRefunded; PRefunded; PEmpty].
Proof.
  cbv zeta. split; [|vm_compute; auto].
  repeat (apply Forall_cons; [exact I || reflexivity || (simpl; lia)|]). apply Forall_nil.
Qed.
End F.

(** ** service (modules/service/abci.go: EndBlocker; keeper/invocation.go, state_change.go) *)
Module S.
Import Queues.Service Queues.ProofsService.

(** Queue hygiene on every reachable state — no hypothesis on the history: any interleaving of
    calls, pauses, starts, kills, updates (timeout / frequency / total changed while a batch is
    queued or running), responses and block ends, whatever providers pass the filter and
    whether or not the consumer can pay.  [QInv]: both queues are duplicate-free, agree with
    their per-context height markers, and hold no entry behind the current height; every
    entry refers to an existing context; no context is in both queues; a running context is in
    one of them; timeouts are positive and a repeated context's frequency is not below its
    timeout (what keeps the next batch from being scheduled in the past). *)
Theorem service_queue_hygiene :
  forall (h0 : Z) (ops : list op), QInv (run (init h0) ops).
Proof. exact QInv_reachable. Qed.
Print Assumptions service_queue_hygiene.

Theorem service_one_entry_per_running_context :
  forall s, QInv s -> forall id c, get id (ctxs s) = Some c -> c_state c = CRunning ->
    (exists h, In (h, id) (nq s) /\ (forall h', In (h', id) (nq s) -> h' = h) /\ forall h', ~ In (h', id) (xq s))
    \/ (exists h, In (h, id) (xq s) /\ (forall h', In (h', id) (xq s) -> h' = h) /\ forall h', ~ In (h', id) (nq s)).
Proof. exact one_entry_per_running_context. Qed.
Print Assumptions service_one_entry_per_running_context.

(** The end-blocker never aborts on a state satisfying the invariant — including the callbacks of
    the oracle and random modules that the expiration handler invokes (Keeper.Callback ->
    HandlerResponse).  Both HandlerResponse dereference a nil error when called with no output
    and no error, and random's when the seed has the wrong length
    ([service_callback_would_abort_without_threshold]: the model has that abort); neither is
    reachable, because a context owned by a module has a batch response threshold >= 1 (so "no
    error" comes with an output) and a random context has a single request (so a batch that has
    an output is completed, and a completed batch is not called back at its expiration). *)
Theorem blocks_total_service :
  forall s res, QInv s -> snd (step s (EndBlock res)) <> Abort.
Proof. exact ProofsService.blocks_total_service. Qed.
Print Assumptions blocks_total_service.

Theorem service_callbacks_cannot_abort :
  forall s id c, QInv s -> get id (ctxs s) = Some c -> negb (c_done c) && cb_aborts c = false.
Proof. intros s id c Q Hg. apply cb_safe. exact (s_wf s Q _ _ Hg). Qed.
Print Assumptions service_callbacks_cannot_abort.

Theorem service_callback_would_abort_without_threshold :
  exists c, c_module c <> 0 /\ c_done c = false /\ cb_aborts c = true /\ ~ wf c.
Proof. exact callback_aborts_without_threshold. Qed.
Print Assumptions service_callback_would_abort_without_threshold.

(** Exactly once, at the due height: the logs of handled new-batch entries and of handled
    expirations are duplicate-free; every logged entry was handled by the end-blocker of its
    own height, already past; whatever is still queued is not behind the current height. *)
Theorem processed_exactly_once_service :
  forall (h0 : Z) (ops : list op),
  let s := run (init h0) ops in
  NoDup (map fst (ndone s)) /\ NoDup (map fst (xdone s))
  /\ (forall k p, In (k, p) (ndone s) \/ In (k, p) (xdone s) -> p = fst k /\ p < height s)
  /\ (forall k, In k (nq s) \/ In k (xq s) -> height s <= fst k).
Proof. exact ProofsService.processed_exactly_once_service. Qed.
Print Assumptions processed_exactly_once_service.

(** ... and nothing is lost in between: an entry queued at some point of a history is, at every
    later point, still queued or logged with the block of its own height. *)
Theorem service_entries_never_lost :
  forall (h0 : Z) (ops1 ops2 : list op),
  let s1 := run (init h0) ops1 in let s2 := run s1 ops2 in
  (forall k, In k (nq s1) -> In k (nq s2) \/ In (k, fst k) (ndone s2))
  /\ (forall k, In k (xq s1) -> In k (xq s2) \/ In (k, fst k) (xdone s2)).
Proof. exact entries_never_lost. Qed.
Print Assumptions service_entries_never_lost.

(** Before the fix ("service: new request batch handler skips the batch and dequeues when no
    provider can be priced") the new-batch handler returned without dequeuing when the provider
    filter failed: the invariant was lost after one block (and with no failing filter the old
    handler is the present one). *)
Theorem service_unfixed_handler_refuted :
  exists s, QInv s /\ ~ QInv (end_block_old [1] s []) /\ end_block_old [] s [] = end_block s [].
Proof. exact old_handler_leaves_stale_entry. Qed.
Print Assumptions service_unfixed_handler_refuted.

(** The check's hygiene clause (code 42) is implied by the invariant. *)
Theorem service_check_hygiene_clause_sound :
  forall h0 ops, Queues.CheckService.shyg (Queues.SoundService.obs_of (run (init h0) ops)) = true.
Proof. exact Queues.SoundService.hygiene_clause_holds_on_every_history. Qed.
Print Assumptions service_check_hygiene_clause_sound.

(** The model passes its own check — with no hypothesis on the history: the checker that is run
    on the implementation's traces, fed the observations the MODEL produces, returns (-1,-1,0):
    no divergence and no clause of the C13 predicate (41 abort, 42 hygiene, 43 every batch entry
    handled once, at its height, with the batch started / completed) fires. *)
Theorem model_passes_check_service :
  forall h0 ops, Queues.CheckService.check_service (h0, Queues.PassService.mtrace (init h0) ops) = (-1, -1, 0).
Proof. exact Queues.PassService.model_passes_check_service. Qed.
Print Assumptions model_passes_check_service.

(** non-vacuity: a repeated context (timeout 2, every 3 blocks, 2 batches) paused and restarted
    while its batch runs, a one-shot context answered in time, one whose consumer cannot pay *)
Example service_nonvacuous :
  let ops := [Call 1 0 2 true 3 2 2 Ok; Call 2 0 3 false 0 0 1 Ok; Call 3 1 2 false 0 0 1 Ok;
              EndBlock [(1, NBStart 2); (2, NBStart 1); (3, NBNoFunds)];
              Respond 2 true true Ok; Pause 1 0 Ok; EndBlock []; Start 1 0 Ok; EndBlock []; EndBlock [];
              EndBlock [(1, NBStart 0)]; EndBlock []; EndBlock []] in
  let s := run (init 1) ops in
  map fst (ndone s) = [(1, 1); (1, 2); (1, 3); (4, 1)]
  /\ map fst (xdone s) = [(3, 1); (4, 2); (6, 1)]
  /\ map fst (ctxs s) = [3] /\ nq s = [] /\ xq s = [] /\ height s = 8.
Proof. vm_compute. repeat split. Qed.
(** non-vacuity with contexts owned by modules: an oracle feed (two providers, threshold 1,
    timeout 2, every 3 blocks) started, answered by one provider only (callback with an output at
    the expiration), edited, paused; a random oracle request started by random's begin blocker and
    never answered (callback with an error at the expiration); a consumer message on a feed is
    refused.  No block aborts. *)
Example service_module_contexts_nonvacuous :
  let ops := [CallM 1 0 1 2 true 3 (-1) 1 2 Ok; MStart 1 0 Ok; CallM 2 0 2 4 false 0 0 1 1 Ok; Pause 1 0 Rej;
              EndBlock [(1, NBStart 2)]; MStart 2 0 Ok; Respond 1 true true Ok; EndBlock [(2, NBStart 1)];
              EndBlock []; MUpdate 1 0 2 0 0 0 Ok; EndBlock [(1, NBStart 2)]; MPause 1 0 Ok;
              EndBlock []; EndBlock []; EndBlock []] in
  let s := run (init 1) ops in
  map (fun o => snd (step (run (init 1) (firstn 4 ops)) o)) [Pause 1 0 Ok; Kill 1 0 Ok; Update 1 0 0 5 0 Ok] = [Rej; Rej; Rej]
  /\ map fst (xdone s) = [(3, 1); (6, 2); (6, 1)] /\ map fst (ndone s) = [(1, 1); (2, 2); (4, 1)]
  /\ map (fun x => (fst x, cstate_code (c_state (snd x)), c_thr (snd x))) (ctxs s) = [(1, 1, 2)]
  /\ height s = 8.
Proof. vm_compute. repeat split. Qed.

(** the leak that is NOT a C13 violation: a repeated context killed between two batches loses its
    new-batch entry at the entry's height (handled, exactly once) and then stays COMPLETED in the
    store for ever, with no queue entry (corpus/C13/service-killed-between-batches-context-stays.jsonl
    shows the same on the implementation). *)
Example service_killed_between_batches_stays :
  let ops := [Call 1 0 2 true 5 (-1) 1 Ok; EndBlock [(1, NBStart 1)]; EndBlock []; EndBlock []; Kill 1 0 Ok]
             ++ repeat (EndBlock []) 40 in
  let s := run (init 1) ops in
  map (fun x => (fst x, cstate_code (c_state (snd x)))) (ctxs s) = [(1, 2)] /\ nq s = [] /\ xq s = []
  /\ map fst (ndone s) = [(1, 1); (6, 1)].
Proof. vm_compute. repeat split. Qed.
End S.

(** ---------------------------------------------------------------------------------------------
    Everything above depends on [Queues/*] and [Base/*] only.  The two modules below are the ONLY
    part of C13 that imports other groups' developments ([Farm/*], [Htlc/*]); they come last and
    each [Require] stands immediately before its module, so that a change of those models can
    break nothing but the link theorems themselves ([Queues/Check.vo], the correspondence, does
    not depend on them either).
    --------------------------------------------------------------------------------------------- *)

(** ** farm, linked to the full farm model of C05/C06 ([Farm/Model.v]): the two hypotheses of
    module [F] ([op_wf]: AdjustPool's duration is not negative; [op_clean]: no Refund of the end
    blocker fails in updatePool) are facts of that model. *)
From Irismod Require Queues.LinkFarm.
Module FL.
Import Irismod.Farm.Proofs Irismod.Queues.LinkFarm.

(** Every step of the full model from a state satisfying its invariant is matched by one CLEAN
    operation of the queue model ([R]: same height, id sequence, queue entries, and per pool the
    same start / end height, editable flag and creator; a pool closed in the queue model has no
    budget left in the full model). *)
Theorem farm_link_step :
  forall fs qs st, inv fs -> valid_step st -> R fs qs -> QP.QInv qs ->
    exists o, QP.op_clean o /\ R (step_state fs st) (fst (Q.step qs o)).
Proof. exact sim_step. Qed.
Print Assumptions farm_link_step.

(** Every history of the full model (valid genesis, actors as senders — satisfiable:
    [Props.C05.c05_nonvacuous]) is mirrored by a clean history of the queue model. *)
Theorem farm_link_simulation :
  forall b h steps, genesis_ok b h -> Forall valid_step steps ->
    exists ops, Forall QP.op_clean ops /\ R (run (init b h) steps) (Q.run (Q.init h) ops).
Proof. exact Irismod.Queues.LinkFarm.farm_link_simulation. Qed.
Print Assumptions farm_link_simulation.

(** Hence, with NO hypothesis on the history: in every reachable state of the full model the
    abstract queue state satisfies [QInv] and has no stuck pool; a pool without queue entry has
    ended at a height already reached, has no budget left (its Refund ran to the end) and has
    no entry at all; a queued pool has exactly the entry of its end height, not behind the
    current height. *)
Theorem farm_exactly_once_unconditional :
  forall s, reachable s ->
  exists qs, R s qs /\ QP.QInv qs /\ QP.NoStuck qs
  /\ (forall pid p, get pid (pools s) = Some p -> in_queue (queue s) (p_end p, pid) = false ->
        p_end p <= height s /\ Forall (fun r => r_rem r = 0) (p_rules p) /\ forall e, in_queue (queue s) (e, pid) = false)
  /\ (forall pid p, get pid (pools s) = Some p -> in_queue (queue s) (p_end p, pid) = true ->
        height s <= p_end p /\ forall e, in_queue (queue s) (e, pid) = true -> e = p_end p).
Proof. exact farm_full_model_exactly_once. Qed.
Print Assumptions farm_exactly_once_unconditional.
End FL.

(** ** HTLC, linked to the full HTLC model of C03/C04 ([Htlc/Model.v]): the hypothesis of module
    [H] ([op_clean]: no refund of a begin blocker returns an error) is a fact of that model. *)
From Irismod Require Queues.LinkHtlc.
Module HL.
Import Irismod.Htlc.Model Irismod.Htlc.Proofs Irismod.Queues.LinkHtlc.

(** Every operation of the full model from a state satisfying its invariant is matched by CLEAN
    operations of the queue model ([R fs qs tbl]: [tbl] interns the structured contract ids as
    numbers; related contracts agree on state, expiration height, closing block, transfer flag
    and number of coins; the heights agree). *)
Theorem htlc_link_step :
  forall fs qs tbl o, Inv fs -> Strict fs -> wf_op fs o -> R fs qs tbl -> QP.QInv qs ->
    exists qops tbl', Forall QP.op_clean qops /\ R (step fs o) (Q.run qs qops) tbl' /\ QP.QInv (Q.run qs qops).
Proof. exact sim_step. Qed.
Print Assumptions htlc_link_step.

(** Every history of the full model — parameter changes included; [wf_run]: valid parameters, empty
    escrow at genesis, no module account signs a create message, an ACCEPTED parameter change is
    compatible with the current usage (satisfiable: [Htlc/Examples.v]) — is mirrored by a clean
    history of the queue model, to which [H.htlc_queue_hygiene] and
    [H.processed_exactly_once_htlc] therefore apply. *)
Theorem htlc_link_simulation :
  forall P b t0 ops, params_ok P -> escrow_empty b -> wf_run (init P b t0) ops ->
    exists qops tbl, Forall QP.op_clean qops /\ R (reachable P b t0 ops) (Q.run (Q.init 1) qops) tbl.
Proof. exact Irismod.Queues.LinkHtlc.htlc_link_simulation. Qed.
Print Assumptions htlc_link_simulation.
End HL.
