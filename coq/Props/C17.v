(** * C17 — Oracle: feeds store exactly the aggregated answers, bounded, creator-controlled

    Only statements, each closed by [exact] of a lemma of [Oracle/Proofs.v] / [Oracle/ProofsList.v],
    with [Print Assumptions] beneath.

    Vocabulary (Oracle/Model.v).  A history is a list of steps [(block time, operation)]:
    create / start / pause / edit feed messages, direct service messages aimed at a feed's request
    context, and [OSvc evs] = what the service module did to the oracle in one transaction or
    end-block: [SNewBatch c] (batch counter + 1, threshold snapshot, batch running),
    [SDone c _ _ outs _] (service CompleteBatch: the response callback with the outputs of the
    batch's valid responses, then batch completed), [SAutoPause c] (OnRequestContextPaused: the
    consumer ran out of funds; state callback).  [query_values s name] is what the FeedValue query
    returns (newest first); a value is [(data * 10^8, block time)].

    Hypothesis on histories, [run_wfb init h = true]: the service module completes a batch only
    while that batch is running.  It is a property of the service module (batches of one context do
    not overlap and each is completed once), and it is re-validated on every generated history by
    the correspondence check ([Check.sevs_consistent] requires the real context's
    BatchState = BATCHRUNNING before every completed batch, and compares it after every step).
    The theorems that do not need it (state mirror, creator control, bounds, no panic) hold for
    ALL histories. *)
From Irismod Require Import Oracle.Model Oracle.Check Oracle.ProofsList Oracle.Proofs Oracle.Sound.
From Coq Require Import QArith.
Open Scope Z_scope.

(** ** 1. exactly one value per batch that met its threshold, none otherwise; stamped with the block time

    After ANY well-formed history [h], when the service completes the running batch of context [c]
    (owned by feed [name], configuration [f]) at block time [now] with the outputs [outs]:
    - the batch threshold is at least 1, so an empty response set never produces a value;
    - no other feed's values change;
    - if at least [threshold] outputs arrived, the feed's values become
      [(aggregate, now) :: newest (latest_history - 1) old values] - one value appended, stamped
      with [now], the oldest dropped when the window is full - and otherwise they do not change. *)
Theorem one_value_per_successful_batch :
  forall (h : list step) (now c bc bthr : Z) (outs : list output) (tol : Z) (x : sctx) (name : Z) (f : feed),
    run_wfb init h = true ->
    let s := run init h in
    get c (ctxs s) = Some x -> feed_by_ctx s c = Some (name, f) -> x_open x = true ->
    let s' := snd (do_sev s now (SDone c bc bthr outs tol)) in
    1 <= x_bthr x
    /\ (forall n, n <> name -> query_values s' n = query_values s n)
    /\ query_values s' name =
       if x_bthr x <=? Z.of_nat (length outs)
       then (aggregate (f_agg f) (map (extract (f_path f)) outs), now)
              :: firstn (Z.to_nat (f_lh f - 1)) (query_values s name)
       else query_values s name.
Proof. exact one_value_per_successful_batch_lemma. Qed.
Print Assumptions one_value_per_successful_batch.

(** ** 3. stamped with the block time: the value stored for a batch that met its threshold is the
    newest one and carries the time of the block in which the batch completed *)
Theorem stamped_with_block_time :
  forall (h : list step) (now c bc bthr : Z) (outs : list output) (tol : Z) (x : sctx) (name : Z) (f : feed),
    run_wfb init h = true ->
    let s := run init h in
    get c (ctxs s) = Some x -> feed_by_ctx s c = Some (name, f) -> x_open x = true ->
    x_bthr x <= Z.of_nat (length outs) ->
    exists d rest, query_values (snd (do_sev s now (SDone c bc bthr outs tol))) name = (d, now) :: rest.
Proof. exact stamped_with_block_time_lemma. Qed.
Print Assumptions stamped_with_block_time.

(** ... and nothing else produces or changes a value: messages other than edit leave every feed's
    values alone (an edit only trims, see 4), and so does every service event other than a
    completed batch. *)
Theorem values_change_only_by_batches_and_edits :
  forall (h : list step) (st : step) (n : Z),
    let s := run init h in
    match snd st with
    | OSvc _ => True
    | OEdit a => query_values (exec_state s st) n =
                 if edit_applies s a n then firstn (Z.to_nat (e_lh a)) (query_values s n) else query_values s n
    | _ => query_values (exec_state s st) n = query_values s n
    end.
Proof. exact values_change_only_by_batches_and_edits_lemma. Qed.
Print Assumptions values_change_only_by_batches_and_edits.

Theorem service_events_other_than_completion_store_nothing :
  forall (s : state) (now : Z) (e : sev) (n : Z),
    (forall c bc bthr outs tol, e <> SDone c bc bthr outs tol) ->
    query_values (snd (do_sev s now e)) n = query_values s n.
Proof. exact sev_other_than_completion_lemma. Qed.
Print Assumptions service_events_other_than_completion_store_nothing.

(** ** 2. the value is the configured aggregate, rounded to 8 decimals

    For a non-empty response set whose first extracted value lies strictly inside the float64 range
    (the values are the decimal literals the providers sent; a missing / non-numeric field counts
    as 0, as gjson's Float() does), the stored data is [round8 a] where [a] is
    - for "max": an element of the data that no element exceeds,
    - for "min": an element of the data that exceeds no element,
    - otherwise ("avg"): the exact rational mean of the data. *)
Theorem value_is_configured_aggregate :
  forall (agg : Z) (p : Z) (o : output) (outs : list output),
    in_range (extract p o) ->
    let data := map (extract p) (o :: outs) in
    exists a : q, qwf a /\ aggregate agg data = round8 a
      /\ (agg = AGG_MAX -> is_max a data)
      /\ (agg = AGG_MIN -> is_min a data)
      /\ (agg <> AGG_MAX -> agg <> AGG_MIN ->
          (toQ a == Qsum (map toQ data) / inject_Z (Z.of_nat (length data)))%Q).
Proof. exact value_is_configured_aggregate_lemma. Qed.
Print Assumptions value_is_configured_aggregate.

(** [round8 (n, d)] is the integer [r] with [r / 10^8] nearest to [n / d], ties to even. *)
Theorem rounded_to_8_decimals :
  forall (n d : Z), 0 < d ->
    let r := round8 (n, d) in
    2 * Z.abs (r * d - n * scale8) <= d
    /\ (2 * Z.abs (r * d - n * scale8) = d -> Z.even r = true)
    /\ (forall z, Z.abs (r * d - n * scale8) <= Z.abs (z * d - n * scale8)).
Proof. exact rounded_to_8_decimals_lemma. Qed.
Print Assumptions rounded_to_8_decimals.

(** Before the commit "fix: oracle Max aggregate starts from -MaxFloat64" the fold started from
    math.SmallestNonzeroFloat64, a positive number: the maximum of negative values was 0. *)
Theorem value_is_configured_aggregate_refuted_before_fix :
  round8 (agg_max_unfixed [(-3, 1); (-5, 1)]) = 0 /\ round8 (spec_max [(-3, 1); (-5, 1)]) = -300000000.
Proof. exact agg_max_unfixed_wrong. Qed.
Print Assumptions value_is_configured_aggregate_refuted_before_fix.

(** ** 4. the feed keeps the newest latest-history values, newest first, through any edits

    The reference ledger of a feed ([ledger_run], Proofs.v) records every value ever produced
    (newest first) and a window size, by the two rules below and nothing else.  After ANY
    well-formed history the FeedValue query returns exactly the first [window] entries of the ledger
    (the newest ones, in newest-first order), the window never exceeds the number produced nor the
    feed's current latest-history (<= 100). *)
Theorem keeps_newest_latest_history :
  forall (h : list step) (name : Z),
    run_wfb init h = true ->
    let L := ledger_run init h name ([], 0) in
    query_values (run init h) name = firstn (Z.to_nat (snd L)) (fst L)
    /\ 0 <= snd L <= Z.of_nat (length (fst L))
    /\ (forall f, get name (feeds (run init h)) = Some f -> snd L <= f_lh f <= MaxLatestHistory).
Proof. exact keeps_newest_latest_history_lemma. Qed.
Print Assumptions keeps_newest_latest_history.

(** Closed form while latest-history is not edited: if feed [name] exists after [h1] with
    latest-history [lh] and shows [k] values, and [h2] contains no successful edit of its
    latest-history, then after [h1 ++ h2] the feed shows the newest min(lh, k + produced-during-h2)
    of all values produced (newest first).  From the creation on (k = 0) this is the newest
    min(latest_history, produced). *)
Theorem newest_min_latest_history_produced :
  forall (h1 h2 : list step) (name : Z) (f : feed),
    run_wfb init (h1 ++ h2) = true ->
    get name (feeds (run init h1)) = Some f ->
    no_lh_editb (run init h1) h2 name = true ->
    let L1 := ledger_run init h1 name ([], 0) in
    exists new,
      fst (ledger_run init (h1 ++ h2) name ([], 0)) = new ++ fst L1
      /\ query_values (run init (h1 ++ h2)) name
         = firstn (Z.to_nat (Z.min (f_lh f) (snd L1 + Z.of_nat (length new)))) (new ++ fst L1)
      /\ get name (feeds (run init (h1 ++ h2))) = Some f.
Proof. exact newest_min_lh_produced_lemma. Qed.
Print Assumptions newest_min_latest_history_produced.

(** rule 1: a completed batch of the feed's context that met its threshold puts its value in front
    and the window becomes min(latest_history, window + 1); a batch below its threshold changes nothing *)
Theorem ledger_rule_batch :
  forall (s : state) (now name c bc bthr : Z) (outs : list output) (tol : Z) (x : sctx) (f : feed) (L : ledger),
    get c (ctxs s) = Some x -> feed_by_ctx s c = Some (name, f) ->
    ledger_sev s now name (SDone c bc bthr outs tol) L =
    if x_bthr x <=? Z.of_nat (length outs)
    then ((aggregate (f_agg f) (map (extract (f_path f)) outs), now) :: fst L, Z.min (f_lh f) (snd L + 1))
    else L.
Proof. exact ledger_rule_batch_lemma. Qed.
Print Assumptions ledger_rule_batch.

(** rule 2: a successful edit to latest-history [lh > 0] makes the window min(window, lh):
    shrinking drops the oldest, growing brings nothing back *)
Theorem ledger_rule_edit :
  forall (s : state) (now : Z) (a : edit_args) (L : ledger),
    0 < e_lh a -> fst (do_edit s a) = Ok ->
    ledger_step s (now, OEdit a) (e_name a) L = (fst L, Z.min (snd L) (e_lh a)).
Proof. exact ledger_rule_edit_lemma. Qed.
Print Assumptions ledger_rule_edit.

(** ** 5. the feed's running / paused state mirrors its service request context - for ALL histories

    An existing feed's context exists, is RUNNING or PAUSED, and the feed is listed as running iff
    the context is RUNNING and as paused iff it is PAUSED; a name without a feed is in neither list. *)
Theorem state_mirrors_context :
  forall (h : list step) (name : Z),
    let s := run init h in
    match get name (feeds s) with
    | Some f => exists x, get (f_ctx f) (ctxs s) = Some x
                  /\ (x_state x = RUNNING \/ x_state x = PAUSED)
                  /\ (smem name (idx_run s) = true <-> x_state x = RUNNING)
                  /\ (smem name (idx_pau s) = true <-> x_state x = PAUSED)
    | None => smem name (idx_run s) = false /\ smem name (idx_pau s) = false
    end.
Proof. exact state_mirrors_context_lemma. Qed.
Print Assumptions state_mirrors_context.

(** the automatic pause: when the service pauses a context because its consumer cannot pay, the
    context is PAUSED and its feed is in the paused list and not in the running list *)
Theorem auto_pause_mirrored :
  forall (h : list step) (now c : Z) (x : sctx),
    let s := run init h in
    get c (ctxs s) = Some x ->
    exists name f, feed_by_ctx s c = Some (name, f) /\
      let s' := snd (do_sev s now (SAutoPause c)) in
      (exists x', get c (ctxs s') = Some x' /\ x_state x' = PAUSED)
      /\ smem name (idx_run s') = false /\ smem name (idx_pau s') = true.
Proof. exact auto_pause_mirrored_lemma. Qed.
Print Assumptions auto_pause_mirrored.

(** ** 6. only the creator controls the feed - in EVERY state

    A start, pause or edit whose sender is not the feed's creator (or whose feed does not exist) is
    rejected and changes nothing; so is every service message sent directly at the feed's context. *)
Theorem only_creator_controls :
  forall (s : state) (now : Z) (o : op) (name sender : Z),
    control_of o = Some (name, sender) ->
    (forall f, get name (feeds s) = Some f -> sender <> f_creator f) ->
    exec s (now, o) = (Rej, s).
Proof. exact stranger_rejected. Qed.
Print Assumptions only_creator_controls.

Theorem direct_service_messages_rejected :
  forall (s : state) (now name sender kind : Z), exec s (now, ODirect name sender kind) = (Rej, s).
Proof. exact direct_service_message_rejected. Qed.
Print Assumptions direct_service_messages_rejected.

(** the creator (and the context, aggregate function and value path) of a feed never changes,
    and a feed never disappears *)
Theorem creator_is_permanent :
  forall (h h' : list step) (name : Z) (f : feed),
    get name (feeds (run init h)) = Some f ->
    exists f', get name (feeds (run init (h ++ h'))) = Some f' /\ same_identity f f'.
Proof. exact creator_is_permanent_lemma. Qed.
Print Assumptions creator_is_permanent.

(** no step of any history panics (HandlerResponse calls [err.Error()]; [err] is nil only when
    outputs >= threshold, and thresholds are >= 1, so then outputs are not empty) *)
Theorem no_panic : forall (h : list step) (st : step), fst (exec (run init h) st) <> Abort.
Proof. exact no_panic_lemma. Qed.
Print Assumptions no_panic.

(** ** The checker and the theorems fit together

    The decidable predicates that the correspondence check evaluates on the IMPLEMENTATION's
    observations (agreement with the model step by step; the C17 trace predicate [prop_feed]:
    mirror, creator control, expected value list after batches and edits, bound) hold of the
    MODEL's own observation trace, for every history that is consistent with the service module's
    bookkeeping ([run_consistent]: reported batch counter / threshold are the model's, batches are
    completed while running) and whose response values are inside the float64 range: the checker
    answers (-1, -1, 0).  So an alarm of the check on the implementation is always a difference
    between the implementation and the proved model, never an excess demand of the predicate. *)
Theorem model_passes_check :
  forall (names : list Z) (steps : list step),
    run_consistent init steps = true -> Forall (step_ok names) steps ->
    check_case (model_trace names init steps) = (-1, -1, 0).
Proof. exact model_passes_check_lemma. Qed.
Print Assumptions model_passes_check.

(** The harness writes cases compressed (a feed observation equal to the previous step's is
    omitted); [check_case_c] expands and checks.  The encoding is lossless, and the model's own
    trace passes in the compressed form as well. *)
Theorem compressed_cases_lossless :
  forall (c : case) (prev : list (Z * fobs)), expand_from prev (compress_from prev c) = c.
Proof. exact expand_compress. Qed.
Print Assumptions compressed_cases_lossless.

Theorem model_passes_check_compressed :
  forall (names : list Z) (steps : list step),
    run_consistent init steps = true -> Forall (step_ok names) steps ->
    check_case_c (compress_from [] (model_trace names init steps)) = (-1, -1, 0).
Proof. exact model_passes_check_c_lemma. Qed.
Print Assumptions model_passes_check_compressed.

(** ** Non-vacuity: a concrete history exercising every hypothesis *)
Definition ex_out (m : Z) : output := [(0, Some (m, 0))].
Definition ex_history : list step :=
  [ (100, OCreate (mkCreate 7 1 AGG_MAX 0 2 true 2 false 2 2 3));
    (100, OStart 7 1);
    (105, OSvc [SNewBatch 0]);
    (105, OSvc [SDone 0 1 2 [ex_out (-3); ex_out (-5)] 0]);       (* max of negatives: -3 *)
    (110, OSvc [SNewBatch 0]);
    (110, OSvc [SDone 0 2 2 [ex_out 4] 0]);                        (* below the threshold: nothing *)
    (115, OSvc [SNewBatch 0]);
    (115, OSvc [SDone 0 3 2 [ex_out 1; ex_out 9] 0]);
    (120, OSvc [SNewBatch 0; SDone 0 4 2 [ex_out 6; ex_out 2] 0]); (* window full: the oldest goes *)
    (121, OPause 7 5);                                             (* a stranger *)
    (122, OEdit (mkEdit 7 1 1 0 false 0 0 0));                     (* shrink to 1 *)
    (123, OEdit (mkEdit 7 1 3 0 false 0 0 0));                     (* grow to 3: nothing comes back *)
    (125, OSvc [SNewBatch 0; SAutoPause 0]) ].

Example c17_nonvacuous :
  run_wfb init ex_history = true
  /\ query_values (run init (firstn 9 ex_history)) 7 = [(600000000, 120); (900000000, 115)]
  /\ ledger_run init (firstn 9 ex_history) 7 ([], 0)
     = ([(600000000, 120); (900000000, 115); (-300000000, 105)], 2)
  /\ query_values (run init ex_history) 7 = [(600000000, 120)]
  /\ snd (ledger_run init ex_history 7 ([], 0)) = 1
  /\ smem 7 (idx_pau (run init ex_history)) = true /\ smem 7 (idx_run (run init ex_history)) = false
  /\ fst (exec (run init (firstn 9 ex_history)) (121, OPause 7 5)) = Rej
  /\ fst (exec (run init (firstn 9 ex_history)) (121, OPause 7 1)) = Ok.
Proof. repeat split; vm_compute; reflexivity. Qed.

Example c17_no_lh_edit_nonvacuous :
  no_lh_editb (run init (firstn 2 ex_history)) (firstn 8 (skipn 2 ex_history)) 7 = true
  /\ no_lh_editb (run init (firstn 2 ex_history)) (skipn 2 ex_history) 7 = false.
Proof. split; vm_compute; reflexivity. Qed.

Ltac c17_out := intros k d Hkd; simpl in Hkd; destruct Hkd as [E|[]]; inversion E; subst; split; vm_compute; reflexivity.
Ltac c17_sev := first [exact I | right; intros o Ho; simpl in Ho; repeat (destruct Ho as [<-|Ho]; [c17_out|]); destruct Ho].
Ltac c17_step := first [exact I | (unfold step_ok; cbn [snd]; repeat (constructor; [c17_sev|]); constructor)].

Example c17_model_trace_nonvacuous :
  run_consistent init ex_history = true /\ Forall (step_ok [7; 8]) ex_history
  /\ length (model_trace [7; 8] init ex_history) = 13%nat.
Proof.
  split; [vm_compute; reflexivity|]. split; [|reflexivity].
  unfold ex_history. repeat (constructor; [c17_step|]). constructor.
Qed.

(** the range hypothesis of theorem 2 holds of ordinary values *)
Example c17_in_range : in_range (extract 0 (ex_out (-3))) /\ in_range (q_of_dec (123456789, 6)).
Proof. repeat split; vm_compute; reflexivity. Qed.

(** ** 8. the oracle price service (keeper.ModuleServiceRequest) reads exactly what section 4 says is there

    Asked for feed [name] at block time [now] after any well-formed history, it answers from the
    NEWEST value ever produced for that feed (the head of the ledger): 400 when the feed does not
    exist, 401 when no batch ever met its threshold, 402 when that newest value is older than 5
    minutes of BLOCK time, else 200 with exactly that value; it is what the FeedValue query shows
    first; and it is a read. *)
Theorem price_service_reads_newest_value :
  forall (h : list step) (name now : Z),
    run_wfb init h = true ->
    let s := run init h in
    let L := ledger_run init h name ([], 0) in
    price_request s now name = price_answer (has name (feeds s)) (fst L) now
    /\ price_request s now name = price_answer (has name (feeds s)) (query_values s name) now.
Proof. exact price_service_lemma. Qed.
Print Assumptions price_service_reads_newest_value.

Theorem price_service_is_a_read :
  forall (s : state) (now name code data : Z), exec s (now, OPrice name code data) = (Ok, s).
Proof. exact price_is_a_read. Qed.
Print Assumptions price_service_is_a_read.

Example c17_price_nonvacuous :
  price_request (run init (firstn 9 ex_history)) 420 7 = (200, 600000000)
  /\ price_request (run init (firstn 9 ex_history)) 421 7 = (402, 0)
  /\ price_request (run init (firstn 2 ex_history)) 421 7 = (401, 0)
  /\ price_request (run init ex_history) 421 9 = (400, 0).
Proof. repeat split; vm_compute; reflexivity. Qed.

(** ** 9. feed genesis: importing the exported values of a feed (newest first, at most
    latest-history of them) restores exactly those values in that order, under keys not above
    max(batch counter, n - 1), so the context's next batch is newer than all of them.
    (InitGenesis is not reachable by messages; pure function, see ProofsList.v.) *)
Theorem genesis_import_restores_values :
  forall (bc lh : Z) (vals : list fval),
    1 <= lh -> Z.of_nat (length vals) <= lh ->
    newest_first (genesis_import bc lh vals) = vals
    /\ keys_below (Z.max bc (Z.of_nat (length vals) - 1) + 1) (genesis_import bc lh vals).
Proof. exact genesis_import_restores. Qed.
Print Assumptions genesis_import_restores_values.

(** ** 7. the hypothesis [run_wfb] is derived from the service group's model in
    [coq/Oracle/LinkProps.v] (theorems [service_callbacks_find_batch_running] and
    [run_wfb_from_service_model]).  They live in a file of their own so that nothing in THIS file
    depends on Service/*: a change of the service model can break only those two. *)
