(** * C17 — Oracle feeds (placeholder, theorems follow) *)
From Irismod Require Import Oracle.Model.
