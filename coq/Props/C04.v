(** * C04 — HTLC: escrow and supply counters match the open contracts (placeholder, theorems follow) *)
From Irismod Require Import Htlc.Model.

Theorem rejected_step_changes_nothing' : forall s o, step_ok s o = false -> step s o = s.
Proof. intros s o H. unfold step, step_ok in *. destruct (exec s o); [discriminate|reflexivity]. Qed.
Print Assumptions rejected_step_changes_nothing'.
