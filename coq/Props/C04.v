(** * C04 — HTLC: escrow balance and cross-chain supply counters match the open contracts

    Same model, histories and hypotheses as [Props/C03.v] (see its header).  The sums are
    [wsum w table] = the sum of [w c] over all entries [c] of the contract table, with the weights
    - [w_esc d c] = amount of denom [d] if [c] is open and locks coins (ordinary or outgoing), else 0
    - [w_in d c]  = amount if [c] is an open incoming transfer, [w_out d c] likewise for outgoing
    - [w_cur d c] = + amount for a completed incoming transfer (minted), - amount for a completed
                    outgoing one (burned), else 0.
    [st_supply] is the model's bank supply (mint / burn), [st_win] the ghost "incoming amount
    completed since the last window reset".  Asset parameters do not change inside a history
    (there is no parameter-update operation; [reachable_invariant] states [st_params] stays [P]). *)
From Irismod Require Import Htlc.Model Htlc.Proofs Htlc.Examples Htlc.Check Htlc.Sound Htlc.Passes Htlc.PassesEx Htlc.ParamChange Htlc.CoreHist.

(** ** Inv_C04 holds in every reachable state (induction over the history: [Inv] holds at
    genesis and is preserved by every message and every block boundary) *)
Theorem inv_C04_reachable :
  forall (P : list aparam) (b : ledger) (t0 : Z) (ops : list op),
    params_ok P -> escrow_empty b -> wf_run (init P b t0) ops ->
    Inv_C04 (reachable P b t0 ops).
Proof. intros P b t0 ops HP HE W. exact (Inv_C04_of_Inv _ (proj1 (reach_inv P b t0 ops HP HE W))). Qed.
Print Assumptions inv_C04_reachable.

Theorem inv_C04_initial : forall P b t0, params_ok P -> escrow_empty b -> Inv (init P b t0) /\ Strict (init P b t0).
Proof. exact init_inv. Qed.
Print Assumptions inv_C04_initial.

Theorem inv_C04_step :
  forall s o, Inv s -> Strict s -> wf_op s o -> Inv (step s o) /\ Strict (step s o) /\ st_params (step s o) = params_after s o.
Proof. exact step_inv. Qed.
Print Assumptions inv_C04_step.

Theorem inv_C04_block :
  forall s dt, Inv s -> Strict s ->
    Inv (begin_block s dt) /\ Strict (begin_block s dt)
    /\ st_height (begin_block s dt) = st_height s + 1 /\ st_params (begin_block s dt) = st_params s
    /\ (forall id, get id (st_contracts (begin_block s dt))
                   = option_map (block_effect (st_height s + 1)) (get id (st_contracts s))).
Proof. exact begin_block_spec. Qed.
Print Assumptions inv_C04_block.

(** ** the clauses, one by one *)

(** escrow_eq_open: the module account holds exactly the amounts of the open ordinary contracts
    and open outgoing transfers, denom by denom *)
Theorem escrow_eq_open :
  forall s, Inv s -> forall d, bal (st_bank s) ESC d = wsum (w_esc d) (st_contracts s).
Proof. exact inv_esc. Qed.
Print Assumptions escrow_eq_open.

(** incoming_outgoing_eq_open, current_eq_minted_minus_burned, current_eq_bank_supply,
    limits_respected: for every supported asset *)
Theorem asset_counters :
  forall s, Inv s -> forall d p, get_param (st_params s) d = Some p ->
    exists a, get d (st_assets s) = Some a
      /\ as_in a = wsum (w_in d) (st_contracts s)
      /\ as_out a = wsum (w_out d) (st_contracts s)
      /\ as_cur a = wsum (w_cur d) (st_contracts s)
      /\ sup_of (st_supply s) d = as_cur a
      /\ as_cur a + as_in a <= ap_limit p
      /\ 0 <= as_out a <= as_cur a
      /\ (ap_tl p = true -> as_tlc a = sup_of (st_win s) d /\ 0 <= sup_of (st_win s) d <= ap_tbl p).
Proof. intros s I. exact (proj2 (Inv_C04_of_Inv s I)). Qed.
Print Assumptions asset_counters.

(** the window ghost is what the statement calls "the amount completed within one limit period":
    it is reset to 0 by a block exactly when UpdateTimeBasedSupplyLimits resets the elapsed time
    (the asset is not time-limited, or elapsed + step reaches the period) and kept otherwise ... *)
Theorem window_reset_rule :
  forall el s p a, get (ap_denom p) (st_assets s) = Some a ->
    let keep := ap_tl p && (as_el a + el <? ap_period p) in
    sup_of (st_win (tick_asset el s p)) (ap_denom p) = (if keep then sup_of (st_win s) (ap_denom p) else 0)
    /\ option_map as_el (get (ap_denom p) (st_assets (tick_asset el s p))) = Some (if keep then as_el a + el else 0).
Proof. exact Proofs.window_reset_rule. Qed.
Print Assumptions window_reset_rule.

(** ... and grows by the amount of every completed incoming transfer, and by nothing else *)
Theorem window_counts_completed_incoming :
  forall s id c s' d x cs, c_amount c = (d, x) :: cs -> claim_htlt s id c = Some s' ->
    st_win s' = match c_dir c with Incoming => set d (sup_of (st_win s) d + x) (st_win s) | _ => st_win s end.
Proof. exact claim_htlt_win. Qed.
Print Assumptions window_counts_completed_incoming.

(** ** the pinned code violated [escrow_eq_open]: it accepted a contract whose recipient is the htlc
    module account itself (an ordinary message: that account is not a blocked address); once claimed
    its coins stay in - or, for an incoming transfer, are minted into - escrow for ever, so escrow
    exceeded the open contracts (found by the check: corpus/C04/07-recipient-is-the-htlc-module-account.jsonl).
    Fixed in the repository ("fix: htlc CreateHTLC rejects a recipient equal to the htlc module account");
    the model follows the fixed code, and the theorems above carry no hypothesis on recipients.
    The refuted statement, for the record, on the pinned behaviour ([create_pinned] in Htlc/Examples.v =
    [create] for ordinary contracts without the new test): *)
Theorem escrow_eq_open_refuted_on_pinned_code :
  exists (s : state) (m : create_msg) (s1 : state) (who secret : Z),
    Inv s /\ m_transfer m = false /\ m_sender m <> ESC /\ m_sender m <> BLK
    /\ create_pinned s m = Some s1
    /\ step_ok s1 (Claim who (id_of m) secret) = true
    /\ bal (st_bank (step s1 (Claim who (id_of m) secret))) ESC 4
        <> wsum (w_esc 4) (st_contracts (step s1 (Claim who (id_of m) secret))).
Proof.
  exists (init exP exB (ts0 * ns)), (mkCreate 0 ESC [(4, 100)] (7, ts0) ts0 50 false).
  eexists. exists 1, 7.
  split; [exact (proj1 (init_inv exP exB (ts0 * ns) ltac:(repeat constructor; simpl; lia) ltac:(intros d; reflexivity)))|].
  split; [reflexivity|]. split; [discriminate|]. split; [discriminate|].
  split; [vm_compute; reflexivity|]. split; [vm_compute; reflexivity|]. vm_compute. discriminate.
Qed.
Print Assumptions escrow_eq_open_refuted_on_pinned_code.

(** and the fixed code (= the model) rejects the message *)
Example recipient_escrow_rejected :
  step_ok (init exP exB (ts0 * ns)) (Create (mkCreate 0 ESC [(4, 100)] (7, ts0) ts0 50 false)) = false.
Proof. vm_compute. reflexivity. Qed.

(** ** What the check evaluates lies inside these theorems: for every case accepted by the decidable
    guard [hyps_b] (evaluated by [vm_compute] on every case; a case outside it fails the check), the
    model state the implementation's observations are compared with after ANY number [n] of steps
    satisfies the invariant, hence all of the above. *)
Theorem c04_checked_states_satisfy_invariant :
  forall (k : case) (n : nat), hyps_b k = true ->
    Inv (case_state k n) /\ Strict (case_state k n) /\ Inv_C04 (case_state k n).
Proof. exact checked_states_satisfy_invariant. Qed.
Print Assumptions c04_checked_states_satisfy_invariant.

(** ** Asset-parameter changes.  The model's operation [SetParams who P'] (MsgUpdateParams: accepted iff
    [who] is the authority and [P'] passes the validation of types/params.go) applies [set_params]; the
    correspondence check exercises it in a third of the generated histories, with valid and invalid
    sets, limit cuts below the usage, period / flag / deputy / fee / bound changes.  The theorems over
    histories ([wf_op]) and the property monitors are about histories WITHOUT parameter changes (the
    monitors stop at the first one of a case); what survives a change is stated here (Htlc/ParamChange.v).
    inv_C04_after_param_change: whatever the new values (limits, time-based limit, period, active flag,
    deputy, fixed fee, swap bounds, lock bounds), as long as the supported denoms stay the same, the
    counters still equal the sums, escrow still equals the open contracts, bank supply = current,
    outgoing <= current, and the queue / log clauses hold ([InvCore]). *)
Theorem inv_C04_after_param_change :
  forall s P', InvCore s -> same_denoms (st_params s) P' -> InvCore (set_params s P').
Proof. exact inv_core_after_param_change_lemma. Qed.
Print Assumptions inv_C04_after_param_change.

Theorem inv_core_of_invariant : forall s, Inv s -> InvCore s.
Proof. exact inv_core_of_inv. Qed.
Print Assumptions inv_core_of_invariant.

(** the limit inequalities survive a change whose new limits cover the current usage ([covers]; e.g.
    limits only raised: [raise_covers]); then the whole invariant holds again, for every history after it *)
Theorem inv_C04_after_compatible_param_change :
  forall s P' ops, Inv s -> Strict s -> same_denoms (st_params s) P' -> covers s P' -> wf_run (set_params s P') ops ->
    Inv (run (set_params s P') ops) /\ Strict (run (set_params s P') ops).
Proof. exact run_after_compatible_param_change. Qed.
Print Assumptions inv_C04_after_compatible_param_change.

(** inv_C04_along_every_history: the parameter-independent clauses hold along EVERY history whose accepted
    parameter changes keep the supported denoms ([wf_core_run]: no condition on the new VALUES - limits may
    be cut below the usage, time-based limits, periods, flags, deputies, fees and bounds changed at will,
    between any messages and blocks): escrow = open contracts, the three counters = the sums, bank supply =
    current, outgoing <= current, queue <-> open contracts, per-contract log, and no open contract at or past
    its expiration height.  (Htlc/CoreHist.v: each such state is shadowed by one with relaxed limits that
    satisfies the full invariant, and every accepted operation has the same effect on both.) *)
Theorem inv_C04_along_every_history :
  forall P b t0 ops, params_ok P -> escrow_empty b -> wf_core_run (init P b t0) ops ->
    InvCore (reachable P b t0 ops) /\ Strict (reachable P b t0 ops).
Proof. exact core_reachable_lemma. Qed.
Print Assumptions inv_C04_along_every_history.

(** non-vacuity: a history with an incompatible limit cut (not a [wf_run] history): the pending incoming
    claim is rejected afterwards, the transfer is refunded at expiry *)
Example c04_history_with_incompatible_change :
  let s0 := init exP exB (ts0 * ns) in
  wf_core_run s0 exOps3 /\ ~ wf_run s0 exOps3
  /\ map (fun n => step_ok (run s0 (firstn n exOps3)) (nth n exOps3 (Adv []))) [0; 1; 2; 3]%nat = [true; true; false; true]
  /\ option_map c_state (get id2 (st_contracts (run s0 exOps3))) = Some Refunded.
Proof. exact exOps3_facts. Qed.

(** the sums survive any SEQUENCE of parameter changes keeping the denoms, and the whole invariant is
    restored by the first change whose limits cover the usage again (e.g. the authority undoes a cut) *)
Theorem inv_C04_after_param_changes :
  forall Ps s, InvCore s -> (forall P', In P' Ps -> same_denoms (st_params s) P') -> InvCore (fold_left set_params Ps s).
Proof. exact inv_core_after_param_changes. Qed.
Print Assumptions inv_C04_after_param_changes.

Theorem inv_C04_restored_by_covering_change :
  forall s P', InvCore s -> Strict s -> same_denoms (st_params s) P' -> covers s P' ->
    Inv (set_params s P') /\ Strict (set_params s P').
Proof. exact inv_restored_by_covering_change. Qed.
Print Assumptions inv_C04_restored_by_covering_change.

Theorem raising_limits_is_compatible :
  forall s P', Inv s ->
    (forall d p p', get_param (st_params s) d = Some p -> get_param P' d = Some p' ->
       ap_limit p <= ap_limit p' /\ ap_tl p' = ap_tl p /\ ap_tbl p <= ap_tbl p') ->
    same_denoms (st_params s) P' -> covers s P'.
Proof. exact raise_covers. Qed.
Print Assumptions raising_limits_is_compatible.

(** ... and they do NOT survive an arbitrary change: after a limit cut below current + incoming the
    claim of an open incoming transfer with the right secret is rejected (so [limits_respected] and
    [claim_iff_preimage] are statements about histories with unchanged parameters, as C04 says),
    while the counters still equal the sums. *)
Theorem claim_may_fail_after_limit_cut :
  let s := run (init exP exB (ts0 * ns)) [Create (mkCreate 3 0 [(0, 200)] (8, ts0) ts0 50 true)] in
  Inv s /\ same_denoms (st_params s) exCut
  /\ (exists c, get id2 (st_contracts s) = Some c /\ c_state c = Open /\ secret_ok c 8 = true)
  /\ step_ok s (Claim 0 id2 8) = true
  /\ step_ok (set_params s exCut) (Claim 0 id2 8) = false
  /\ InvCore (set_params s exCut).
Proof. exact claim_may_fail_after_limit_cut_lemma. Qed.
Print Assumptions claim_may_fail_after_limit_cut.

(** ** model_passes_check: the checker, fed the MODEL's own observations, answers (-1, -1, 0) for both
    properties.  [Vw k nd s code o] says that the observation [o] is the projection of the model state
    [s] (contracts by table position, queue, balance sheet of the case's accounts over [nd] denoms, asset
    supplies, bank supplies, clock) with result code [code]; [trace_ok] says that every step's diff
    decodes to the projection of the model's next state; [table_ok]: the id table has no duplicates, at
    most 100 actors, distinct asset denoms, parties of the table's ids inside the universe and no
    negative denoms.  Consequence: on code that agrees with the model the check can not raise an alarm,
    and the clauses of [p03] / [p04] are consequences of the invariant. *)
Theorem c04_model_passes_check :
  forall (k : case) (nd : nat),
    hyps_b k = true -> table_ok k ->
    Vw k nd (case_init k) 0 (k_obs0 k) ->
    trace_ok k nd (case_init k) (k_obs0 k) (k_steps k) ->
    check_case_C03 k = (-1, -1, 0) /\ check_case_C04 k = (-1, -1, 0).
Proof. exact model_passes_check_lemma. Qed.
Print Assumptions c04_model_passes_check.

(** its hypotheses hold of a concrete case built from the model's run of the example history *)
Example c04_model_passes_check_nonvacuous :
  hyps_b exCase = true /\ table_ok exCase /\ Vw exCase 5 (case_init exCase) 0 (k_obs0 exCase)
  /\ trace_ok exCase 5 (case_init exCase) (k_obs0 exCase) (k_steps exCase) /\ length (k_steps exCase) = 16%nat.
Proof. split; [exact exCase_hyps|]. split; [exact exCase_table|]. split; [exact exCase_init_view|]. split; [exact exCase_trace|reflexivity]. Qed.

(** ** Non-vacuity: the concrete history of [Htlc/Examples.v] satisfies the hypotheses and reaches
    non-trivial values of every counter (an incoming transfer of 200 is pending, then completed;
    an outgoing one of 50 is pending, then refunded). *)
Example c04_hypotheses_satisfiable : params_ok exP /\ escrow_empty exB /\ wf_run (init exP exB (ts0 * ns)) exOps.
Proof.
  split; [|split].
  - repeat constructor; simpl; lia.
  - intros d. reflexivity.
  - apply wf_run_b_sound. vm_compute. reflexivity.
Qed.

(** a history WITH parameter changes satisfies the hypotheses: the authority's change raises the limits
    while an incoming transfer is completed and an outgoing one is pending (compatible), a stranger's
    and an invalid change are rejected; afterwards the raised set is in force *)
Example c04_history_with_param_changes :
  wf_run (init exP exB (ts0 * ns)) exOps2
  /\ map (fun n => step_ok (reachable exP exB (ts0 * ns) (firstn n exOps2)) (nth n exOps2 (Adv []))) [7; 8; 9]%nat
     = [true; false; false]
  /\ st_params (reachable exP exB (ts0 * ns) exOps2) = exRaise.
Proof. split; [apply wf_run_b_sound; vm_compute; reflexivity|]. split; vm_compute; reflexivity. Qed.

Example c04_history_counters :
  map (fun n => let s := reachable exP exB (ts0 * ns) (firstn n exOps) in
                (bal (st_bank s) ESC 0, bal (st_bank s) ESC 4,
                 option_map (fun a => (as_in a, as_out a, as_cur a, as_tlc a)) (get 0 (st_assets s)),
                 sup_of (st_supply s) 0)) [0; 1; 3; 5; 6; 7; 9; 12]%nat
  = [ (0, 0, Some (0, 0, 0, 0), 0);
      (0, 100, Some (0, 0, 0, 0), 0);
      (0, 0, Some (0, 0, 0, 0), 0);
      (0, 0, Some (200, 0, 0, 0), 0);
      (0, 0, Some (0, 0, 200, 200), 200);
      (50, 0, Some (0, 50, 200, 200), 200);
      (50, 30, Some (0, 50, 200, 200), 200);
      (0, 0, Some (0, 0, 200, 200), 200) ].
Proof. vm_compute. reflexivity. Qed.
