(** * C12 — the genesis exported from any reachable chain state re-imports and preserves what users rely on.

    Per module M of the ten: [M.export : state -> genesis], [M.validate : genesis -> bool],
    [M.import : genesis -> option state] ([None] = InitGenesis panics), [M.queries] (the durable
    user-visible objects), [M.prep] (the module's prepare-for-zero-height function), all in
    [coq/Genesis/<M>.v], tied to the Go code on every run by the correspondence of
    [Genesis/<M>.v : corr_run] (same exported genesis, same validation verdict, same import outcome,
    same imported state, same second export; also the two verdicts on damaged copies of the export).
    [M.invb] is the decidable description of the states a history can reach; the harness evaluates
    it on every state it exports.  Statements only; proofs are in [Genesis/<M>Proofs.v].

    The four statements per module, all about the EXPORT OF A REACHABLE STATE:
      export_validates   invb s -> validate (export s) = true
      import_total       invb s -> import (export s) <> None
      export_fixpoint    invb s -> import (export s) = Some s' /\ export s' = export s
      queries_preserved  invb s -> ... /\ queries s' = queries s   (minus what the module documents as dropped)
    [_refuted] (with a witness) + [_partial] where the code violates a statement.

    Hand-made geneses are outside C12.  Where ValidateGenesis accepts a hand-made genesis that makes
    InitGenesis panic this is recorded as a REMARK ([*_handmade_genesis_can_panic]); the missing
    well-formedness is made explicit as [M.wf], every export is proved to have it
    ([*_export_wellformed]) and every validated, well-formed genesis is proved to import
    ([*_import_total_wf]). *)
From Irismod Require Import Genesis.Store.
From Irismod Require Genesis.Record Genesis.RecordProofs.
From Irismod Require Genesis.Coinswap Genesis.CoinswapProofs.
From Irismod Require Genesis.Token Genesis.TokenProofs.
From Irismod Require Genesis.Nft Genesis.NftProofs.
From Irismod Require Genesis.Random Genesis.RandomProofs.
From Irismod Require Genesis.Farm Genesis.FarmProofs.
From Irismod Require Genesis.Oracle Genesis.OracleProofs.
From Irismod Require Genesis.Service Genesis.ServiceProofs.
From Irismod Require Genesis.Htlc Genesis.HtlcProofs.
From Irismod Require Genesis.Mt Genesis.MtProofs.

(** ** record.  [ord] is the byte order of the record ids (SHA-256 of record ++ counter). *)
Module RecordC12.
Import Genesis.Record Genesis.RecordProofs.

Theorem record_export_validates :
  forall (ord : rid -> Z) (s : state), invb ord s = true -> validate (export s) = true.
Proof. exact record_export_validates_lemma. Qed.
Print Assumptions record_export_validates.

(** (holds for every validated genesis, exported or not) *)
Theorem record_import_total :
  forall (ord : rid -> Z) (g : genesis), validate g = true -> import ord g <> None.
Proof. exact record_import_total_lemma. Qed.
Print Assumptions record_import_total.

(** export . import . export = export FAILS: ids are recomputed from a fresh counter on import,
    so the second export can be ordered differently (known finding record-ids-change-on-import) *)
Theorem record_export_fixpoint_refuted :
  exists (ord : rid -> Z) (s s' : state),
    invb ord s = true /\ import ord (export s) = Some s' /\ export s' <> export s.
Proof. exact record_export_fixpoint_refuted_lemma. Qed.
Print Assumptions record_export_fixpoint_refuted.

(** ... what does hold: the second export has exactly the records of the first (as a set) *)
Theorem record_export_fixpoint_partial :
  forall (ord : rid -> Z) (s s' : state),
    import ord (export s) = Some s' -> forall r : rec, In r (export s') <-> In r (export s).
Proof. exact record_export_fixpoint_partial_lemma. Qed.
Print Assumptions record_export_fixpoint_partial.

(** queries are NOT preserved: an id that reads back on A reads nothing on B *)
Theorem record_queries_preserved_refuted :
  exists (ord : rid -> Z) (s s' : state) (id : rid) (r : rec),
    invb ord s = true /\ import ord (export s) = Some s' /\ query s id = Some r /\ query s' id = None.
Proof. exact record_queries_preserved_refuted_lemma. Qed.
Print Assumptions record_queries_preserved_refuted.

(** ... what does hold: every record readable on A is readable on B under the id derived from the
    same record and some (generally different) counter *)
Theorem record_queries_preserved_partial :
  forall (ord : rid -> Z) (s s' : state),
    import ord (export s) = Some s' ->
    forall (id : rid) (r : rec), query s id = Some r -> exists c : Z, query s' (r, c) = Some r.
Proof. exact record_queries_preserved_partial_lemma. Qed.
Print Assumptions record_queries_preserved_partial.

Example record_nonvacuous :
  invb wit_ord wit_s = true /\ validate (export wit_s) = true /\ import wit_ord (export wit_s) = Some wit_s'.
Proof. repeat split; vm_compute; reflexivity. Qed.
End RecordC12.

(** ** coinswap: all four hold *)
Module CoinswapC12.
Import Genesis.Coinswap Genesis.CoinswapProofs.

Theorem coinswap_export_validates : forall s : state, invb s = true -> validate (export s) = true.
Proof. exact coinswap_export_validates_lemma. Qed.
Print Assumptions coinswap_export_validates.

(** (holds for every validated genesis) *)
Theorem coinswap_import_total : forall g : genesis, validate g = true -> import g <> None.
Proof. exact coinswap_import_total_lemma. Qed.
Print Assumptions coinswap_import_total.

Theorem coinswap_export_fixpoint :
  forall s : state, invb s = true -> exists s', import (export s) = Some s' /\ export s' = export s.
Proof. exact coinswap_export_fixpoint_lemma. Qed.
Print Assumptions coinswap_export_fixpoint.

(** pools by id, pools by liquidity-token denomination, parameters *)
Theorem coinswap_queries_preserved :
  forall s : state, invb s = true -> exists s', import (export s) = Some s' /\ queries s' = queries s.
Proof. exact coinswap_queries_preserved_lemma. Qed.
Print Assumptions coinswap_queries_preserved.

Example coinswap_nonvacuous : invb wit_s = true /\ query_pool wit_s 2 = Some (mkPool 3 2 3 1 2).
Proof. split; vm_compute; reflexivity. Qed.
End CoinswapC12.

(** ** token: all four hold.  [validate false] / [import false] are the code's. *)
Module TokenC12.
Import Genesis.Token Genesis.TokenProofs.

Theorem token_export_validates : forall s : state, invb s = true -> validate false (export s) = true.
Proof. exact token_export_validates_lemma. Qed.
Print Assumptions token_export_validates.

Theorem token_import_total : forall s : state, invb s = true -> import false (export s) <> None.
Proof. exact token_import_total_lemma. Qed.
Print Assumptions token_import_total.

Theorem token_export_fixpoint :
  forall s : state, invb s = true -> exists s', import false (export s) = Some s' /\ export s' = export s.
Proof. exact token_export_fixpoint_lemma. Qed.
Print Assumptions token_export_fixpoint.

(** tokens by symbol, by min unit, by owner; burned totals; parameters *)
Theorem token_queries_preserved :
  forall s : state, invb s = true -> exists s', import false (export s) = Some s' /\ queries s' = queries s.
Proof. exact token_queries_preserved_lemma. Qed.
Print Assumptions token_queries_preserved.

(** well-formedness the code does not validate: every export has it; with it every validated genesis imports *)
Theorem token_export_wellformed : forall s : state, invb s = true -> wf (export s) = true.
Proof. exact token_export_wellformed_lemma. Qed.
Print Assumptions token_export_wellformed.

Theorem token_import_total_wf :
  forall g : genesis, validate false g = true -> wf g = true -> import false g <> None.
Proof. exact token_import_total_wf_lemma. Qed.
Print Assumptions token_import_total_wf.

(** REMARK, not a C12 violation: a hand-made genesis with a repeated symbol validates and panics *)
Theorem token_handmade_genesis_can_panic :
  exists g : genesis, validate false g = true /\ wf g = false /\ import false g = None.
Proof. exact token_handmade_genesis_can_panic_lemma. Qed.
Print Assumptions token_handmade_genesis_can_panic.

Example token_nonvacuous : invb wit_s = true /\ query_by_mu wit_s 2 = Some (wit_tok 1 2).
Proof. split; vm_compute; reflexivity. Qed.

(** the code as it was (before "fix: token MsgUpdateParams rejects an issue fee denominated in an unregistered
    symbol"; clause 5 of the check, corpus/C12/token-params-fee-denom-unregistered.jsonl): the theorems above hold
    for states satisfying [invb], whose last clause says the issue-fee denom is a registered symbol.
    MsgUpdateParams only ran Params.Validate, so the authority could name an unregistered symbol; the chain was then
    in a state ([pf_s 3]: everything else of the invariant holds) whose export validates and whose import panics
    ("Token ... does not exist").  With a registered symbol ([pf_s 1]) — all the repaired code accepts — the
    invariant holds. *)
Theorem token_import_total_refuted_after_param_change :
  invb (pf_s 1) = true
  /\ invb_core (pf_s 3) = true /\ fee_registered (pf_s 3) = false
  /\ validate false (export (pf_s 3)) = true /\ import false (export (pf_s 3)) = None.
Proof. exact token_import_total_refuted_after_param_change_lemma. Qed.
Print Assumptions token_import_total_refuted_after_param_change.
End TokenC12.

(** ** nft: all four hold *)
Module NftC12.
Import Genesis.Nft Genesis.NftProofs.

Theorem nft_export_validates : forall s : state, invb s = true -> validate false (export s) = true.
Proof. exact nft_export_validates_lemma. Qed.
Print Assumptions nft_export_validates.

Theorem nft_import_total : forall s : state, invb s = true -> import false (export s) <> None.
Proof. exact nft_import_total_lemma. Qed.
Print Assumptions nft_import_total.

Theorem nft_export_fixpoint :
  forall s : state, invb s = true -> exists s', import false (export s) = Some s' /\ export s' = export s.
Proof. exact nft_export_fixpoint_lemma. Qed.
Print Assumptions nft_export_fixpoint.

(** classes, NFTs with their owners, the supply of every class, every owner's list *)
Theorem nft_queries_preserved :
  forall s : state, invb s = true -> exists s', import false (export s) = Some s' /\ queries s' = queries s.
Proof. exact nft_queries_preserved_lemma. Qed.
Print Assumptions nft_queries_preserved.

Theorem nft_export_wellformed : forall s : state, invb s = true -> wf (export s) = true.
Proof. exact nft_export_wellformed_lemma. Qed.
Print Assumptions nft_export_wellformed.

Theorem nft_import_total_wf :
  forall g : genesis, validate false g = true -> wf g = true -> import false g <> None.
Proof. exact nft_import_total_wf_lemma. Qed.
Print Assumptions nft_import_total_wf.

(** REMARK, not a C12 violation *)
Theorem nft_handmade_genesis_can_panic :
  exists g : genesis, validate false g = true /\ wf g = false /\ import false g = None.
Proof. exact nft_handmade_genesis_can_panic_lemma. Qed.
Print Assumptions nft_handmade_genesis_can_panic.

Example nft_nonvacuous : invb wit_s = true /\ supply_view wit_s = [(1, 2); (2, 0)].
Proof. split; vm_compute; reflexivity. Qed.
End NftC12.

(** ** random: all four hold (results and oracle requests in flight are documented as dropped:
    the durable objects are the pending requests); [tbl] is the byte order of the request ids *)
Module RandomC12.
Import Genesis.Random Genesis.RandomProofs.

Theorem random_export_validates :
  forall (tbl : list ((Z * Z) * Z)) (s : state), invb tbl s = true -> validate (export s) = true.
Proof. exact random_export_validates_lemma. Qed.
Print Assumptions random_export_validates.

(** (holds for every validated genesis) *)
Theorem random_import_total :
  forall (tbl : list ((Z * Z) * Z)) (g : genesis), validate g = true -> import tbl g <> None.
Proof. exact random_import_total_lemma. Qed.
Print Assumptions random_import_total.

Theorem random_export_fixpoint :
  forall (tbl : list ((Z * Z) * Z)) (s : state),
    invb tbl s = true -> exists s', import tbl (export s) = Some s' /\ export s' = export s.
Proof. exact random_export_fixpoint_lemma. Qed.
Print Assumptions random_export_fixpoint.

Theorem random_queries_preserved :
  forall (tbl : list ((Z * Z) * Z)) (s : state),
    invb tbl s = true -> exists s', import tbl (export s) = Some s' /\ queries s' = queries s.
Proof. exact random_queries_preserved_lemma. Qed.
Print Assumptions random_queries_preserved.

(** after PrepForZeroHeightGenesis at block height [height] the queue is again a reachable one (so
    the four theorems apply to it), provided every pending entry lies at or above [height] *)
Theorem random_prep_keeps_invariant :
  forall (tbl : list ((Z * Z) * Z)) (height : Z) (s : state),
    invb tbl s = true -> 0 < height < two64 ->
    forallb (fun e => (height <=? fst e) && (fst e <? two64)) s = true ->
    invb tbl (prep height s) = true.
Proof. exact random_prep_inv_lemma. Qed.
Print Assumptions random_prep_keeps_invariant.

Example random_nonvacuous :
  invb wit_tbl wit_s = true /\ invb wit_tbl (prep 9 wit_s) = true /\ export (prep 9 wit_s) <> export wit_s.
Proof. repeat split; vm_compute; try reflexivity; discriminate. Qed.
End RandomC12.

(** ** farm.  Switches of the model: [fix_stake] (MsgStake rejects a zero amount), [fix_rps] (the genesis
    validation accepts a reward per share truncated to zero), [fix_q] (InitGenesis enqueues a pool ending
    at the import height) — these three repairs ARE in the tree; [fix_v] (validation of [wf]) is NOT.
    So the code's functions are [invb true], [validate true false], [import true true false].
    [h] = the height the new chain starts with (= height of the old chain + 1). *)
Module FarmC12.
Import Genesis.Farm Genesis.FarmProofs.

(** the code as it was: (1) with zero stakes possible a farmer with nothing locked makes the export
    invalid; (2) even without them, a reward per share truncated to zero does *)
Theorem farm_export_validates_refuted :
  (exists h s, invb false h s = true /\ validate false false (export s) = false)
  /\ (exists h s, invb true h s = true /\ validate false false (export s) = false).
Proof. exact farm_export_validates_refuted_lemma. Qed.
Print Assumptions farm_export_validates_refuted.

(** the code as it was: a running pool ending at the import height is missing from the new queue *)
Theorem farm_queue_rebuilt_refuted :
  exists h s s', invb true h s = true /\ import true false false h (export s) = Some s'
                 /\ queue s' <> queue_at h (pools s').
Proof. exact farm_queue_rebuilt_refuted_lemma. Qed.
Print Assumptions farm_queue_rebuilt_refuted.

(** the repaired code (the tree under check): all four hold *)
Theorem farm_export_validates :
  forall (h : Z) (s : state), invb true h s = true -> validate true false (export s) = true.
Proof. exact farm_export_validates_lemma. Qed.
Print Assumptions farm_export_validates.

Theorem farm_import_total :
  forall (h : Z) (s : state), invb true h s = true -> import true true false h (export s) <> None.
Proof. exact farm_import_total_lemma. Qed.
Print Assumptions farm_import_total.

Theorem farm_export_fixpoint :
  forall (h : Z) (s : state),
    invb true h s = true -> exists s', import true true false h (export s) = Some s' /\ export s' = export s.
Proof. exact farm_export_fixpoint_lemma. Qed.
Print Assumptions farm_export_fixpoint.

(** pools with their rules, farmers, parameters; and the queue of the new chain holds exactly the
    pools still to be closed *)
Theorem farm_queries_preserved :
  forall (h : Z) (s : state),
    invb true h s = true ->
    exists s', import true true false h (export s) = Some s' /\ queries s' = queries s
               /\ queue s' = queue_at h (pools s').
Proof. exact farm_queries_preserved_lemma. Qed.
Print Assumptions farm_queries_preserved.

Theorem farm_export_wellformed : forall (h : Z) (s : state), invb true h s = true -> wf (export s) = true.
Proof. exact farm_export_wellformed_lemma. Qed.
Print Assumptions farm_export_wellformed.

Theorem farm_import_total_wf :
  forall (h : Z) (g : genesis), validate true false g = true -> wf g = true -> import true true false h g <> None.
Proof. exact farm_import_total_wf_lemma. Qed.
Print Assumptions farm_import_total_wf.

(** REMARK, not a C12 violation: a farmer of a pool that is not in the (hand-made) genesis *)
Theorem farm_handmade_genesis_can_panic :
  exists h g, validate true false g = true /\ wf g = false /\ import true true false h g = None.
Proof. exact farm_handmade_genesis_can_panic_lemma. Qed.
Print Assumptions farm_handmade_genesis_can_panic.

Example farm_nonvacuous : invb true 4 wit_s = true /\ queue_at 4 (pools wit_s) = [((11, 1), tt)].
Proof. split; vm_compute; reflexivity. Qed.
End FarmC12.

(** ** oracle.  [e] = the service module's request contexts (id -> state, batch counter) as the
    chain in question knows them ([eA] on the exporting chain, [eB] on the importing one).  The model carries
    a switch for the repair "oracle InitGenesis keeps the order of a feed's exported values"; the tree under
    check has it ([import true]); [import false] is the code as it was. *)
Module OracleC12.
Import Genesis.Oracle Genesis.OracleProofs.

Theorem oracle_export_validates :
  forall (e : env) (s : state), invb s = true -> validate (export e s) = true.
Proof. exact oracle_export_validates_lemma. Qed.
Print Assumptions oracle_export_validates.

(** import_total FAILS for a reachable state: InitGenesis panics when the new chain's service module does not
    know the feed's request context — which happens whenever the service genesis exported with it could not
    be imported, i.e. whenever a feed is running (known finding oracle-import-panics.request-context-missing-...) *)
Theorem oracle_import_total_refuted :
  exists eA eB s, invb s = true /\ validate (export eA s) = true /\ import true eB (export eA s) = None.
Proof. exact oracle_import_total_refuted_lemma. Qed.
Print Assumptions oracle_import_total_refuted.

(** ... what does hold: when the new chain knows every feed's context *)
Theorem oracle_import_total_partial :
  forall (eA eB : env) (s : state),
    invb s = true -> (forall f, In f (feeds s) -> has (o_ctx (snd f)) eB = true) ->
    import true eB (export eA s) <> None.
Proof. exact (oracle_import_total_partial_reachable_lemma true). Qed.
Print Assumptions oracle_import_total_partial.

(** the code as it was: InitGenesis stored every exported value of a feed under the same key, so one
    value survived — the oldest (fixed; witness = corpus/C12/oracle-value-history-lost.jsonl) *)
Theorem oracle_export_fixpoint_refuted_before_fix :
  exists e s s', invb s = true /\ import false e (export e s) = Some s' /\ export e s' <> export e s.
Proof. exact oracle_export_fixpoint_refuted_lemma. Qed.
Print Assumptions oracle_export_fixpoint_refuted_before_fix.

Theorem oracle_queries_preserved_refuted_before_fix :
  exists e s s', invb s = true /\ import false e (export e s) = Some s'
                 /\ values_of s 0 = [(4, 1700000020); (3, 1700000010)] /\ values_of s' 0 = [(3, 1700000010)].
Proof. exact oracle_queries_preserved_refuted_lemma. Qed.
Print Assumptions oracle_queries_preserved_refuted_before_fix.

(** the repaired code, on a chain that knows the feeds' request contexts: export . import . export = export *)
Theorem oracle_export_fixpoint :
  forall (e : env) (s : state),
    invb s = true -> (forall f, In f (feeds s) -> has (o_ctx (snd f)) e = true) ->
    exists s', import true e (export e s) = Some s' /\ export e s' = export e s.
Proof. exact oracle_export_fixpoint_lemma. Qed.
Print Assumptions oracle_export_fixpoint.

(** ... and the feeds and every feed's value history (newest first) read the same *)
Theorem oracle_queries_preserved :
  forall (e : env) (s s' : state),
    invb s = true -> (forall f, In f (feeds s) -> has (o_ctx (snd f)) e = true) ->
    import true e (export e s) = Some s' ->
    feeds s' = feeds s /\ forall f, In f (feeds s) -> values_of s' (fst f) = values_of s (fst f).
Proof. exact oracle_values_preserved_lemma. Qed.
Print Assumptions oracle_queries_preserved.

(** after PrepForZeroHeightGenesis (running feeds moved to the paused queue) the state is again a reachable-looking
    one: the theorems above apply to it *)
Theorem oracle_prep_keeps_invariant : forall s : state, invb s = true -> invb (prep s) = true.
Proof. exact oracle_prep_inv_lemma. Qed.
Print Assumptions oracle_prep_keeps_invariant.

Example oracle_nonvacuous :
  invb wit_s = true /\ import true wit_env (export wit_env wit_s) <> None
  /\ values_of wit_s 0 = [(4, 1700000020); (3, 1700000010)].
Proof. repeat split; vm_compute; try reflexivity; discriminate. Qed.
End OracleC12.

(** ** service.  Requests, responses, request queues, earned fees and volumes are documented as
    dropped; the durable objects are parameters, definitions, bindings (with their indexes by
    owner / provider and their stored pricing), withdraw addresses and request contexts. *)
Module ServiceC12.
Import Genesis.Service Genesis.ServiceProofs.

(** export_validates FAILS: ValidateGenesis rejects every request context that is not PAUSED with a
    completed batch, so the as-is export of a chain with a running (or completed) context does not
    validate (known finding service-export-does-not-validate/request-context-not-paused-...) *)
Theorem service_export_validates_refuted : exists s : state, invb s = true /\ validate (export s) = false.
Proof. exact service_export_validates_refuted_lemma. Qed.
Print Assumptions service_export_validates_refuted.

(** ... what does hold: when every request context is paused with a completed batch ([quietb]) *)
Theorem service_export_validates_partial :
  forall s : state, invb s = true -> quietb s = true -> validate (export s) = true.
Proof. exact service_export_validates_partial_lemma. Qed.
Print Assumptions service_export_validates_partial.

(** ... and PrepForZeroHeightGenesis produces exactly such a state from any reachable state *)
Theorem service_prep_makes_quiet :
  forall s : state, invb s = true -> invb (prep s) = true /\ quietb (prep s) = true.
Proof. exact service_prep_lemma. Qed.
Print Assumptions service_prep_makes_quiet.

Theorem service_import_total_partial :
  forall s : state, invb s = true -> quietb s = true -> import (export s) <> None.
Proof. exact service_import_total_lemma. Qed.
Print Assumptions service_import_total_partial.

Theorem service_export_fixpoint_partial :
  forall s : state, invb s = true -> quietb s = true ->
    exists s', import (export s) = Some s' /\ export s' = export s.
Proof. exact service_export_fixpoint_partial_lemma. Qed.
Print Assumptions service_export_fixpoint_partial.

Theorem service_queries_preserved_partial :
  forall s : state, invb s = true -> quietb s = true ->
    exists s', import (export s) = Some s' /\ queries s' = queries s.
Proof. exact service_queries_preserved_partial_lemma. Qed.
Print Assumptions service_queries_preserved_partial.

Example service_nonvacuous : invb wit_s = true /\ quietb wit_s = false /\ quietb (prep wit_s) = true.
Proof. repeat split; vm_compute; reflexivity. Qed.
End ServiceC12.

(** ** htlc.  Closed (completed / refunded) contracts are documented as dropped: ExportGenesis filters
    them and InitGenesis refuses them.  The model carries a switch for the repair "htlc genesis
    validation accepts timestamp 0 for plain (non-transfer) contracts"; the tree under check has it. *)
Module HtlcC12.
Import Genesis.Htlc Genesis.HtlcProofs.

(** the code as it was: a plain contract created with timestamp 0 makes the export invalid *)
Theorem htlc_export_validates_refuted : exists s : state, invb false s = true /\ validate false (export s) = false.
Proof. exact htlc_export_validates_refuted_lemma. Qed.
Print Assumptions htlc_export_validates_refuted.

(** the repaired code (the tree under check): all four hold *)
Theorem htlc_export_validates : forall s : state, invb true s = true -> validate true (export s) = true.
Proof. exact htlc_export_validates_lemma. Qed.
Print Assumptions htlc_export_validates.

Theorem htlc_import_total : forall s : state, invb true s = true -> import true (export s) <> None.
Proof. exact htlc_import_total_lemma. Qed.
Print Assumptions htlc_import_total.

Theorem htlc_export_fixpoint :
  forall s : state, invb true s = true -> exists s', import true (export s) = Some s' /\ export s' = export s.
Proof. exact htlc_export_fixpoint_lemma. Qed.
Print Assumptions htlc_export_fixpoint.

(** open contracts, asset supplies, parameters; and the expiration queue of the new chain holds exactly
    its open contracts under their expiration heights *)
Theorem htlc_queries_preserved :
  forall s : state, invb true s = true ->
    exists s', import true (export s) = Some s' /\ queries s' = queries s /\ queue s' = queue_of (htlcs s').
Proof. exact htlc_queries_preserved_lemma. Qed.
Print Assumptions htlc_queries_preserved.

(** after PrepForZeroHeightGenesis at block height [height] the state is again a reachable-looking one (so the
    four theorems apply to it), provided no open contract has expired before [height]; the Go function
    leaves the expiration queue stale, which InitGenesis repairs (see [htlc_queries_preserved]) *)
Theorem htlc_prep_keeps_invariant :
  forall (height : Z) (s : state),
    invb true s = true -> 0 < height ->
    forallb (fun e => negb (is_open (snd e)) || ((height <=? h_expiry (snd e)) && (h_expiry (snd e) <? two64))) (htlcs s) = true ->
    invb true (prep height s) = true.
Proof. exact htlc_prep_inv_lemma. Qed.
Print Assumptions htlc_prep_keeps_invariant.

(** REMARK, not a C12 violation: ValidateGenesis does not compare the supplies with the open transfers *)
Theorem htlc_handmade_genesis_can_panic : exists g : genesis, validate true g = true /\ import true g = None.
Proof. exact htlc_handmade_genesis_can_panic_lemma. Qed.
Print Assumptions htlc_handmade_genesis_can_panic.

Example htlc_nonvacuous : invb true wit_s = true /\ validate true (export wit_s) = true.
Proof. split; vm_compute; reflexivity. Qed.

(** KNOWN FINDING (clause 7 of the check, corpus/C12/htlc-params-*.jsonl): the four theorems above hold for states
    satisfying [invb], i.e. as long as the asset parameters are not changed (Genesis/LinkHtlc.v derives [invb] for
    exactly those histories).  A MsgUpdateParams only validates the new parameter set by itself, and can leave the
    chain in a state — an asset dropped while its supply record is stored, an asset deactivated under an open
    transfer, a limit cut below the current supply — whose export validates and whose import panics. *)
Theorem htlc_import_total_refuted_after_param_change :
  Forall (fun s : state => invb_core s = true /\ params_cover s = false /\ validate true (export s) = true /\ import true (export s) = None)
         [pc_dropped; pc_inactive; pc_cut].
Proof. exact htlc_import_total_refuted_after_param_change_lemma. Qed.
Print Assumptions htlc_import_total_refuted_after_param_change.
End HtlcC12.

(** ** mt: all four hold (the owners part of the export compared exactly, in store key order).
    [validate false] / [import false] are the code's. *)
Module MtC12.
Import Genesis.Mt Genesis.MtProofs.

Theorem mt_export_validates : forall s : state, invb s = true -> validate false (export s) = true.
Proof. exact mt_export_validates_lemma. Qed.
Print Assumptions mt_export_validates.

Theorem mt_import_total : forall s : state, invb s = true -> import false (export s) <> None.
Proof. exact mt_import_total_lemma. Qed.
Print Assumptions mt_import_total.

Theorem mt_export_fixpoint :
  forall s : state, invb s = true -> exists s', import false (export s) = Some s' /\ export s' = export s.
Proof. exact mt_export_fixpoint_lemma. Qed.
Print Assumptions mt_export_fixpoint.

(** classes, MTs with their current supply, supplies, balances; and the two id sequences *)
Theorem mt_queries_preserved :
  forall s : state, invb s = true ->
    exists s', import false (export s) = Some s' /\ queries s' = queries s /\ dseq s' = dseq s /\ mseq s' = mseq s.
Proof. exact mt_queries_preserved_lemma. Qed.
Print Assumptions mt_queries_preserved.

(** every export also passes the stricter validation (owners are addresses, no balance sum exceeds uint64) *)
Theorem mt_export_wellformed : forall s : state, invb s = true -> validate true (export s) = true.
Proof. exact mt_export_wellformed_lemma. Qed.
Print Assumptions mt_export_wellformed.

(** REMARK, not a C12 violation: the validation's balance sums wrap at 2^64, InitGenesis refuses the overflow *)
Theorem mt_handmade_genesis_can_panic : exists g : genesis, validate false g = true /\ import false g = None.
Proof. exact mt_handmade_genesis_can_panic_lemma. Qed.
Print Assumptions mt_handmade_genesis_can_panic.

Example mt_nonvacuous : invb wit_s = true /\ sup_of (bals wit_s) = [((1, 1), 12); ((1, 2), 0)].
Proof. split; vm_compute; reflexivity. Qed.
End MtC12.

(** * The checker never raises an alarm on observations that agree with the model
    ([Genesis/PassCheck.v]): for every state satisfying the module's invariant, [check_<m>] applied to the run
    the MODEL itself produces returns (-1, -1, 0). *)
From Irismod Require Genesis.PassCheck.

Theorem coinswap_model_passes_check :
  forall s : Genesis.Coinswap.state, Genesis.Coinswap.invb s = true ->
    Genesis.Coinswap.check_coinswap (Genesis.Coinswap.mkCase [PassCheck.PCoinswap.model_run s]) = (-1, -1, 0).
Proof. exact PassCheck.PCoinswap.coinswap_model_passes_check. Qed.
Print Assumptions coinswap_model_passes_check.

Theorem nft_model_passes_check :
  forall s : Genesis.Nft.state, Genesis.Nft.invb s = true ->
    Genesis.Nft.check_nft (Genesis.Nft.mkCase [PassCheck.PNft.model_run s]) = (-1, -1, 0).
Proof. exact PassCheck.PNft.nft_model_passes_check. Qed.
Print Assumptions nft_model_passes_check.

Theorem token_model_passes_check :
  forall s : Genesis.Token.state, Genesis.Token.invb s = true ->
    Genesis.Token.check_token (Genesis.Token.mkCase [PassCheck.PToken.model_run s]) = (-1, -1, 0).
Proof. exact PassCheck.PToken.token_model_passes_check. Qed.
Print Assumptions token_model_passes_check.

Theorem random_model_passes_check :
  forall (tbl : list ((Z * Z) * Z)) (h : Z) (s : Genesis.Random.state), Genesis.Random.invb tbl s = true ->
    Genesis.Random.check_random (Genesis.Random.mkCase h tbl [PassCheck.PRandom.model_run s]) = (-1, -1, 0).
Proof. exact PassCheck.PRandom.random_model_passes_check. Qed.
Print Assumptions random_model_passes_check.

(** htlc (as-is path): the model's run imports into the exported state without its closed contracts *)
Theorem htlc_model_passes_check :
  forall (h : Z) (s : Genesis.Htlc.state), Genesis.Htlc.invb true s = true ->
    Genesis.Htlc.check_htlc (Genesis.Htlc.mkCase h [PassCheck.PHtlc.model_run s]) = (-1, -1, 0).
Proof. exact PassCheck.PHtlc.htlc_model_passes_check. Qed.
Print Assumptions htlc_model_passes_check.
