(** * C12 — exported state re-imports and preserves what users rely on (placeholder, filled below) *)
From Irismod Require Import Genesis.Check.
