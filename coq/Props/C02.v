(** * C02 — Coinswap: settlement moves exactly the traded coins between the right parties. *)
From Irismod Require Import Coinswap.Model Coinswap.Proofs.

(** A message that is rejected or aborts leaves the whole state (ledger, supplies, registry,
    sequence) as it was. *)
Theorem failed_msg_changes_nothing :
  forall (s : state) (m : msg) (o : outcome), exec s m = Fail o -> step s m = s.
Proof. exact failed_step_changes_nothing. Qed.
Print Assumptions failed_msg_changes_nothing.
