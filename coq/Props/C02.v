(** * C02 — Coinswap: settlement moves exactly the traded coins between the right parties.

    Only statements, each closed by [exact] of a lemma of [Coinswap/Proofs*.v], with
    [Print Assumptions] beneath.  The effect of a successful message is stated POINTWISE: for
    every account [a] and denom [d] (not only those of a test universe) the new balance is the
    old one plus an explicit sum of indicator terms [ind (at_ who denom a d) amount]
    (= [amount] when [(a, d) = (who, denom)], else 0); likewise every supply.  The model follows
    the code after the fix commit "coinswap routed swaps return the intermediate standard coin
    to the sender" (before it, leg 1 of a routed swap paid the recipient: corpus/C02). *)
From Irismod Require Import Coinswap.Model Coinswap.Check Coinswap.ProofsArith Coinswap.ProofsSpec
  Coinswap.Proofs Coinswap.ProofsValue Coinswap.ProofsSound Coinswap.ProofsLpt Coinswap.ProofsConserve Coinswap.ProofsEncode.

Local Open Scope Z_scope.

(** ** swaps *)

(** A successful swap order (sell or buy, any recipient) moved [sold] of the input denom from the
    sender and [bought] of the output denom to the recipient, within the user's bound; single hop:
    only the pool's two reserves moved otherwise ([sheet1]); double hop: only the two pools'
    reserves, the standard coin passing from pool 1 to pool 2 and netting to ZERO for sender and
    recipient ([sheet2]); no supply and no registry entry changed. *)
Theorem swap_balance_sheet :
  forall (s : state) (buy : bool) (sender rcpt din ain dout aout deadline : Z) (s' : state) (r : list Z),
    exec_swap s buy sender rcpt din ain dout aout deadline = Ret (s', r) ->
    exists sold bought,
      bounds_ok buy sold bought ain aout
      /\ ((exists n, lpt_of_denoms s din dout = Ret n
                     /\ ledger_delta s s' (sheet1 sender rcpt (pool_acct n) din dout sold bought))
          \/ (exists n1 n2 mid, din <> std /\ dout <> std
                     /\ lpt_of_denoms s din std = Ret n1 /\ lpt_of_denoms s std dout = Ret n2
                     /\ ledger_delta s s' (sheet2 sender rcpt (pool_acct n1) (pool_acct n2) din dout sold mid bought)))
      /\ (forall d, supply s' d = supply s d)
      /\ pools s' = pools s /\ seq s' = seq s.
Proof. exact swap_balance_sheet_lemma. Qed.
Print Assumptions swap_balance_sheet.

(** what the sheets say for the parties (neither being the pool's escrow address): the sender
    loses exactly [sold] of the input denom, the recipient gains exactly [bought] of the output
    denom; when they differ, neither sees the other's denom move *)
Theorem single_hop_parties :
  forall sender rcpt pool din dout sold bought : Z,
    sender <> pool -> rcpt <> pool -> din <> dout ->
    sheet1 sender rcpt pool din dout sold bought sender din = - sold
    /\ sheet1 sender rcpt pool din dout sold bought rcpt dout = bought
    /\ (sender <> rcpt -> sheet1 sender rcpt pool din dout sold bought sender dout = 0
                          /\ sheet1 sender rcpt pool din dout sold bought rcpt din = 0).
Proof. exact sheet1_parties. Qed.
Print Assumptions single_hop_parties.

(** double hop: in addition the standard coin nets to zero for sender and recipient *)
Theorem double_hop_parties :
  forall sender rcpt p1 p2 din dout sold mid bought : Z,
    sender <> p1 -> sender <> p2 -> rcpt <> p1 -> rcpt <> p2 -> din <> dout -> din <> std -> dout <> std ->
    sheet2 sender rcpt p1 p2 din dout sold mid bought sender din = - sold
    /\ sheet2 sender rcpt p1 p2 din dout sold mid bought rcpt dout = bought
    /\ sheet2 sender rcpt p1 p2 din dout sold mid bought sender std = 0
    /\ sheet2 sender rcpt p1 p2 din dout sold mid bought rcpt std = 0.
Proof. exact sheet2_parties. Qed.
Print Assumptions double_hop_parties.

(** every account other than sender, recipient and the pool(s) keeps every balance *)
Theorem single_hop_bystanders :
  forall sender rcpt pool din dout sold bought a d : Z,
    a <> sender -> a <> rcpt -> a <> pool -> sheet1 sender rcpt pool din dout sold bought a d = 0.
Proof. exact sheet1_bystander. Qed.
Print Assumptions single_hop_bystanders.

Theorem double_hop_bystanders :
  forall sender rcpt p1 p2 din dout sold mid bought a d : Z,
    a <> sender -> a <> rcpt -> a <> p1 -> a <> p2 ->
    sheet2 sender rcpt p1 p2 din dout sold mid bought a d = 0.
Proof. exact sheet2_bystander. Qed.
Print Assumptions double_hop_bystanders.

(** a swap succeeds only up to its deadline, with positive amounts, distinct denoms, and never
    towards the (blocked) fee collector; [bounds_ok] above is the min-received / max-paid bound *)
Theorem swap_respects_deadline :
  forall (s : state) (buy : bool) (sender rcpt din ain dout aout deadline : Z) (s' : state) (r : list Z),
    exec_swap s buy sender rcpt din ain dout aout deadline = Ret (s', r) ->
    now s <= deadline /\ rcpt <> acct_feecol /\ 0 < ain /\ 0 < aout /\ din <> dout.
Proof. exact swap_guards_lemma. Qed.
Print Assumptions swap_respects_deadline.

(** ** liquidity: balance sheet, bounds, deadline, LPT mint/burn against the reserves *)

(** [MsgAddLiquidity]: one of three cases ([add_effect]): pool creation (fee: the creator pays
    [fee], [tax] goes to the fee collector, [fee - tax] is burned; registry + 1), first deposit
    into an emptied pool, proportional deposit ([mint = L*exact/S], [dep = T*exact/S + 1]);
    always deposit <= [max_tok], minted >= [min_liq], LPT minted to the sender only and equal to
    the supply change, before the deadline *)
Theorem add_liquidity_settlement :
  forall (s : state) (sender dtok max_tok exact min_liq deadline : Z) (s' : state) (r : list Z),
    exec_add s sender dtok max_tok exact min_liq deadline = Ret (s', r) ->
    now s <= deadline /\ 0 < max_tok /\ 0 < exact /\ dtok <> std /\ is_lpt dtok = false
    /\ exists mint, r = [mint] /\ 0 <= mint /\ add_effect s s' sender dtok max_tok exact min_liq mint.
Proof. exact exec_add_spec. Qed.
Print Assumptions add_liquidity_settlement.

(** [MsgRemoveLiquidity]: burns exactly [w] LPT of the sender, pays [w*S/L] and [w*T/L] from the
    pool to the sender, both at least the stated minima, nothing else moves *)
Theorem remove_liquidity_settlement :
  forall (s : state) (sender dlpt w min_std min_tok deadline : Z) (s' : state) (r : list Z),
    exec_remove s sender dlpt w min_std min_tok deadline = Ret (s', r) ->
    let n := dlpt - 1000 in
    exists cp a_std a_tok,
      cp_of s n = Some cp /\ now s <= deadline /\ 0 < w <= liquidity s n
      /\ a_std = Z.quot (w * reserve_std s n) (liquidity s n)
      /\ a_tok = Z.quot (w * reserve_tok s cp n) (liquidity s n)
      /\ min_std <= a_std /\ min_tok <= a_tok /\ 0 <= a_std /\ 0 <= a_tok
      /\ r = [a_std; a_tok]
      /\ moves s s' (remove_sheet sender n cp w a_std a_tok) (lpt_delta n (- w))
      /\ same_reg s s'.
Proof. exact exec_remove_spec. Qed.
Print Assumptions remove_liquidity_settlement.

Theorem add_unilateral_settlement :
  forall (s : state) (sender cp dtok exact min_liq deadline : Z) (s' : state) (r : list Z),
    exec_add_uni s sender cp dtok exact min_liq deadline = Ret (s', r) ->
    exists n mint,
      pool_of s cp = Some n /\ (dtok = cp \/ dtok = std) /\ now s <= deadline /\ 0 < exact
      /\ P18 * bal (led s) (pool_acct n) dtok <> 0
      /\ mint = Z.sqrt (Z.quot ((P18 * bal (led s) (pool_acct n) dtok + phi_u s * exact) * liquidity s n * liquidity s n)
                               (P18 * bal (led s) (pool_acct n) dtok)) - liquidity s n
      /\ min_liq <= mint /\ 0 <= mint /\ r = [mint]
      /\ moves s s' (uni_add_sheet sender n dtok exact mint) (lpt_delta n mint)
      /\ same_reg s s'.
Proof. exact exec_add_uni_spec. Qed.
Print Assumptions add_unilateral_settlement.

Theorem remove_unilateral_settlement :
  forall (s : state) (sender cp dtok min_tok w deadline : Z) (s' : state) (r : list Z),
    exec_remove_uni s sender cp dtok min_tok w deadline = Ret (s', r) ->
    exists n target,
      pool_of s cp = Some n /\ (dtok = cp \/ dtok = std) /\ now s <= deadline
      /\ 0 <= w < liquidity s n
      /\ target = Z.quot ((liquidity s n + liquidity s n - w) * w * bal (led s) (pool_acct n) dtok * phi_u s)
                         (liquidity s n * liquidity s n * P18)
      /\ min_tok <= target /\ 0 < min_tok /\ r = [target]
      /\ moves s s' (uni_remove_sheet sender n dtok w target) (lpt_delta n (- w))
      /\ same_reg s s'.
Proof. exact exec_remove_uni_spec. Qed.
Print Assumptions remove_unilateral_settlement.

(** a bank transfer (donation to a pool included) moves the coin and nothing else *)
Theorem transfer_settlement :
  forall (s : state) (from to d amt : Z) (s' : state) (r : list Z),
    exec_send s from to d amt = Ret (s', r) ->
    r = [] /\ 0 < amt /\ to <> acct_feecol
    /\ moves s s' (fun a' d' => ind (at_ from d a' d') (- amt) + ind (at_ to d a' d') amt) zero1
    /\ same_reg s s'.
Proof. exact exec_send_spec. Qed.
Print Assumptions transfer_settlement.

(** liquidity tokens are minted only against deposits and burned only against withdrawals: for any
    step by a user and any registered pool, if the LPT supply grew the reserves did not shrink and at
    least one grew, if it shrank no reserve grew, and in both cases the signer's own LPT balance
    changed by exactly the supply change (creation fee not denominated in an LPT denom) *)
Theorem lpt_mint_burn_only_against_reserves :
  forall (s : state) (m : msg) (cp n : Z),
    Inv s -> sender_ok m -> In (cp, n) (pools s) -> p_cdenom (par s) <= 1000 ->
    let s' := step s m in
    let dL := liquidity s' n - liquidity s n in
    let dS := reserve_std s' n - reserve_std s n in
    let dT := reserve_tok s' cp n - reserve_tok s cp n in
    (0 < dL -> 0 <= dS /\ 0 <= dT /\ 0 < dS + dT
               /\ exists a, sender_of m = Some a /\ bal (led s') a (lpt n) = bal (led s) a (lpt n) + dL)
    /\ (dL < 0 -> dS <= 0 /\ dT <= 0
               /\ exists a, sender_of m = Some a /\ bal (led s') a (lpt n) = bal (led s) a (lpt n) + dL).
Proof. exact lpt_step_lemma. Qed.
Print Assumptions lpt_mint_burn_only_against_reserves.

(** ** supplies *)

(** one step changes the total supply of a denom only if it is the LPT denom of a pool registered
    after the step (mint / burn, by exactly the amounts in the theorems above), or the creation-fee
    denom while a pool is created (the burned part of the fee) *)
Theorem supply_frame :
  forall (s : state) (m : msg) (d : Z),
    supply (step s m) d <> supply s d ->
    (exists cp n, d = lpt n /\ In (cp, n) (pools (step s m)))
    \/ (d = p_cdenom (par s) /\ creates_pool s m).
Proof. exact supply_frame_lemma. Qed.
Print Assumptions supply_frame.

(** over any history (parameter changes included): a denom that is never the creation-fee denom
    ([all_states]: at no state the history passes through) and not the LPT denom of a pool registered
    at the end has the supply it started with *)
Theorem history_supply_frame :
  forall (ms : list msg) (s : state) (d : Z),
    all_states (fun s' => d <> p_cdenom (par s')) s ms ->
    (forall cp n, In (cp, n) (pools (run s ms)) -> d <> lpt n) ->
    supply (run s ms) d = supply s d.
Proof. exact history_supply_frame_lemma. Qed.
Print Assumptions history_supply_frame.

(** ** the balance sheet of a whole history

    [total A l d] = what the accounts of [A] hold together in denom [d].  For every duplicate-free
    set [A] containing the parties (signers, recipients) of all messages, the fee collector and the
    escrow address of every pool that exists at the end, and every denom: total minus supply is the
    same after the history as before — all messages together moved coins only among those accounts
    and minted / burned exactly what the supplies record. *)
Theorem history_balance_sheet :
  forall (ms : list msg) (A : list Z) (s : state),
    Inv s -> NoDup A ->
    (forall m, In m ms -> incl (parties m) A) -> In acct_feecol A ->
    (forall n, 1 <= n <= seq (run s ms) -> In (pool_acct n) A) ->
    forall d, total A (led (run s ms)) d - supply (run s ms) d = total A (led s) d - supply s d.
Proof. exact history_conserves_lemma. Qed.
Print Assumptions history_balance_sheet.

(** ** parameters *)

(** a parameter change is made only by the authority, only with valid values, and moves no coin *)
Theorem update_params_settlement :
  forall (s : state) (auth : Z) (p : params) (s' : state) (r : list Z),
    exec_update_params s auth p = Ret (s', r) ->
    r = [] /\ auth = acct_gov /\ params_valid p = true
    /\ led s' = led s /\ sup s' = sup s /\ same_reg s s' /\ now s' = now s /\ par s' = p.
Proof. exact exec_update_params_spec. Qed.
Print Assumptions update_params_settlement.

(** ** failure *)

(** A message that is rejected or aborts leaves the whole state (ledger, supplies, registry,
    sequence) as it was. *)
Theorem failed_msg_changes_nothing :
  forall (s : state) (m : msg) (o : outcome), exec s m = Fail o -> step s m = s.
Proof. exact failed_step_changes_nothing. Qed.
Print Assumptions failed_msg_changes_nothing.

(** ** the check's predicate is true of every model step

    [c02_step] (Check.v) is the decidable predicate the check evaluates on the IMPLEMENTATION's
    observed worlds: it recomputes sold / bought / deposited / withdrawn / minted / tax from the
    observed ledger and demands the full balance sheet, bounds, deadline, supply frame and
    registry, and that the parameters change exactly when the authority sends a valid
    MsgUpdateParams.  On the model's own worlds it answers 0, for messages signed by users or the
    authority (not a pool escrow address, not the coinswap / fee-collector module account) and a
    creation fee not denominated in an LPT denom.  The swap clause is skipped only when the recipient
    is the escrow address of a pool the order itself trades on. *)
Theorem check_predicate_holds_on_model_step :
  forall (s : state) (m : msg) (s' : state) (r : list Z) (o : obs),
    Inv s -> signer_ok m -> p_cdenom (par s) <= 1000 ->
    exec s m = Ret (s', r) -> o_code o = 0 ->
    c02_step (par s) m o (world_of s) (world_of s') = 0.
Proof. exact c02_step_model_ok. Qed.
Print Assumptions check_predicate_holds_on_model_step.

Theorem check_predicate_holds_on_failed_step :
  forall (s : state) (m : msg) (f : outcome) (o : obs),
    exec s m = Fail f -> o_code o <> 0 ->
    c02_step (par s) m o (world_of s) (world_of s) = 0.
Proof. exact c02_step_model_fail. Qed.
Print Assumptions check_predicate_holds_on_failed_step.

(** over whole histories, both predicates (C01 and C02), with the outcome code the model gives
    (the model never fails with code 0): every step of every history answers (0, 0) *)
Theorem model_history_passes_both_predicates :
  forall (ms : list msg) (s : state),
    Inv s -> Forall msg_ok ms -> p_cdenom (par s) <= 1000 ->
    Forall (fun c => c = (0, 0)) (prop_codes s ms).
Proof. exact model_history_passes. Qed.
Print Assumptions model_history_passes_both_predicates.

(** ** [model_passes_check]: the checker itself, on the driver's encoding of a model history

    [encode_steps U D s0 ms] is what the driver would print for the history [ms] if the implementation
    behaved as the model: per step the outcome code, the response, the signed differences of every
    changed ledger entry of the observed universe [U] and of every changed supply among [D], the
    registry and the parameters.  [check_case_C02] (the function evaluated by [vm_compute] on every
    implementation trace: it rebuilds the observed worlds from the differences with [next_world],
    compares them with the model, and evaluates the property's predicate on them) answers
    (-1, -1, 0) — no divergence, no violation — for every genesis, every history of messages signed by
    users or the authority, and every universe that covers what the history touches. *)
Theorem model_passes_check :
  forall (p : params) (start : Z) (gl : list ((Z * Z) * Z)) (gs : list (Z * Z))
         (U : list (Z * Z)) (D : list Z) (ms : list msg),
    let s0 := init_state (case_of p start gl gs []) in
    NoDup U -> NoDup D -> covered U D s0 ms ->
    Inv s0 -> Forall msg_ok ms -> p_cdenom p <= 1000 ->
    check_case_C02 (case_of p start gl gs (encode_steps U D s0 ms)) = (-1, -1, 0).
Proof. exact model_passes_check_C02. Qed.
Print Assumptions model_passes_check.

(** ** non-vacuity: two pools, a routed sell and a routed buy to a recipient other than the
    sender, bounds exact; the sender's and the recipient's standard coin do not move *)
Definition ex2_par : params := mkParams 3000000000000000 2000000000000000 400000000000000000 std 5000.
Definition ex2_s0 : state :=
  mkState [((0, 0), 100000000); ((0, 1), 100000000); ((0, 2), 100000000); ((1, 0), 5000); ((1, 1), 100000000)]
          [(0, 100005000); (1, 200000000); (2, 100000000)] [] 1 1000 ex2_par.
Definition ex2_setup : list msg := [MAdd 0 1 1000000 1000000 1 2000; MAdd 0 2 1000000 1000000 1 2000].
Definition ex2_sell : msg := MSwap false 1 3 1 1000 2 992 2000.
Definition ex2_params : msg := MUpdateParams acct_gov (mkParams 10000000000000000 0 500000000000000000 std 7).

Example c02_nonvacuous :
  codes_of ex2_s0 (ex2_setup ++ [ex2_sell]) = [0; 0; 0]
  /\ let s := run ex2_s0 ex2_setup in let s' := step s ex2_sell in
     bal (led s') 1 1 - bal (led s) 1 1 = - 1000      (* sender: -1000 btc *)
     /\ bal (led s') 1 0 - bal (led s) 1 0 = 0         (* sender: standard coin untouched *)
     /\ bal (led s') 3 2 - bal (led s) 3 2 = 992       (* recipient: +992 eth, exactly the bound *)
     /\ bal (led s') 3 0 - bal (led s) 3 0 = 0         (* recipient: no standard coin *)
     /\ bal (led s') 1001 0 - bal (led s) 1001 0 = - 996
     /\ bal (led s') 1002 0 - bal (led s) 1002 0 = 996.
Proof. vm_compute. repeat split; reflexivity. Qed.

(** creation fee 5000 at tax 0.4: 2000 to the fee collector, 3000 burned *)
Example c02_creation_fee :
  let s' := run ex2_s0 [MAdd 0 1 1000000 1000000 1 2000] in
  bal (led s') acct_feecol 0 = 2000 /\ supply s' 0 = supply ex2_s0 0 - 3000 /\ supply s' (lpt 1) = 1000000.
Proof. vm_compute. repeat split; reflexivity. Qed.

(** the hypotheses of the history theorem hold of that history, and the predicates indeed
    evaluate to (0, 0) at each of its steps (computed, as the check computes them) *)
Example c02_history_hypotheses :
  Inv ex2_s0 /\ Forall msg_ok (ex2_setup ++ [ex2_params; ex2_sell]) /\ p_cdenom (par ex2_s0) <= 1000
  /\ prop_codes ex2_s0 (ex2_setup ++ [ex2_params; ex2_sell]) = [(0, 0); (0, 0); (0, 0); (0, 0)].
Proof.
  split; [apply Inv_genesis; [reflexivity|unfold P18; simpl; lia|unfold P18; simpl; lia]|].
  split.
  { repeat (apply Forall_cons;
            [unfold msg_ok, signer_ok, is_pool_acct, acct_feecol, acct_module, acct_gov, std; simpl;
             repeat split; try reflexivity; try lia; try discriminate|]).
    apply Forall_nil. }
  split; [simpl; unfold std; lia|].
  vm_compute. reflexivity.
Qed.

(** a parameter change: refused for a stranger and for a fee out of range, accepted from the authority;
    no coin moves *)
Example c02_update_params :
  let s := run ex2_s0 ex2_setup in
  code_of s (MUpdateParams 1 (mkParams 1 0 1 std 1)) = 1
  /\ code_of s (MUpdateParams acct_gov (mkParams P18 0 1 std 1)) = 1
  /\ code_of s ex2_params = 0
  /\ led (step s ex2_params) = led s /\ sup (step s ex2_params) = sup s
  /\ p_fee (par (step s ex2_params)) = 10000000000000000.
Proof. vm_compute. repeat split; reflexivity. Qed.

(** the hypotheses of [history_balance_sheet] on that history: users 0, 1, 3, the fee collector and
    the three pool addresses up to the final sequence *)
Example c02_balance_sheet_hypotheses :
  let A := [0; 1; 3; acct_feecol; pool_acct 1; pool_acct 2; pool_acct 3] in
  let ms := ex2_setup ++ [ex2_sell] in
  NoDup A /\ (forall m, In m ms -> incl (parties m) A) /\ In acct_feecol A
  /\ seq (run ex2_s0 ms) = 3
  /\ total A (led (run ex2_s0 ms)) 0 - supply (run ex2_s0 ms) 0 = total A (led ex2_s0) 0 - supply ex2_s0 0.
Proof.
  cbv zeta. split; [|split; [|split; [|split]]].
  - unfold acct_feecol, pool_acct. repeat constructor; simpl; intuition discriminate.
  - intros m Hin. simpl in Hin.
    destruct Hin as [<-|[<-|[<-|[]]]]; intros a Ha; simpl in Ha; simpl; intuition.
  - simpl. tauto.
  - vm_compute. reflexivity.
  - vm_compute. reflexivity.
Qed.

(** the hypotheses of [model_passes_check] on that history (genesis given as the driver gives it,
    universe = 4 accounts + fee collector + 3 pool addresses, 3 bank denoms + 3 LPT denoms), and the
    checker's verdict computed on the encoding *)
Definition ex3_gl : list ((Z * Z) * Z) :=
  [((0, 0), 100000000); ((0, 1), 100000000); ((0, 2), 100000000); ((1, 0), 5000); ((1, 1), 100000000)].
Definition ex3_gs : list (Z * Z) := [(0, 100005000); (1, 200000000); (2, 100000000)].
Definition ex3_U : list (Z * Z) :=
  flat_map (fun a => map (fun d => (a, d)) [0; 1; 2; 1001; 1002; 1003]) [0; 1; 3; acct_feecol; 1001; 1002; 1003].
Definition ex3_D : list Z := [0; 1; 2; 1001; 1002; 1003].
Definition ex3_ms : list msg := ex2_setup ++ [ex2_params; MSwap false 1 3 1 1000 2 900 2000; ex2_sell].

Example c02_model_passes_check_hypotheses :
  let s0 := init_state (case_of ex2_par 1000 ex3_gl ex3_gs []) in
  NoDup ex3_U /\ NoDup ex3_D /\ covered ex3_U ex3_D s0 ex3_ms /\ Inv s0 /\ Forall msg_ok ex3_ms
  /\ p_cdenom ex2_par <= 1000
  /\ check_case_C02 (case_of ex2_par 1000 ex3_gl ex3_gs (encode_steps ex3_U ex3_D s0 ex3_ms)) = (-1, -1, 0)
  /\ codes_of s0 ex3_ms = [0; 0; 0; 0; 1]
  /\ length (o_led (snd (nth 3 (encode_steps ex3_U ex3_D s0 ex3_ms) (MBlock 0, mkObs 0 [] [] [] [] ex2_par)))) = 6%nat.
Proof.
  cbv zeta. split; [|split; [|split; [|split; [|split; [|split; [|split; [|split]]]]]]].
  - vm_compute. repeat constructor; simpl; intuition discriminate.
  - vm_compute. repeat constructor; simpl; intuition discriminate.
  - apply covered_b_sound. vm_compute. reflexivity.
  - apply Inv_genesis; [reflexivity|unfold P18; simpl; lia|unfold P18; simpl; lia].
  - repeat (apply Forall_cons;
            [unfold msg_ok, signer_ok, is_pool_acct, acct_feecol, acct_module, acct_gov, std; simpl;
             repeat split; try reflexivity; try lia; try discriminate|]).
    apply Forall_nil.
  - simpl. unfold std. lia.
  - vm_compute. reflexivity.
  - vm_compute. reflexivity.
  - vm_compute. reflexivity.
Qed.
