(** * C11 — All modules: state transitions are deterministic functions of chain data.

    Three parts (DESIGN.md, C11):
    (a) a static theorem over the call graph REGENERATED from the Go source on every run
        ([Gen/CallGraph.v]): on every path from a consensus entry point, every read of the host
        clock, of entropy or the host environment, every iteration over a Go map, goroutine,
        select, floating-point operation, read of a clock-initialised package variable and write
        to a package variable is one of the reviewed, justified sites of [Determinism/Allow.v];
    (b) the model side: a replica's outcome is a function of (genesis, blocks) only;
    (c) replica differencing of the real code (dynamic; evaluated by [Determinism/Check.v
        check_replicas] on every run — not a theorem).

    Trusted for (a): the translator (go/packages + go/ssa + CHA, reference and interface-conversion
    edges), CHA as an over-approximation, and the review behind each [Allow] entry.
    Outside any Gallina statement: goroutine scheduling inside CometBFT/IAVL, hardware float
    differences across architectures, the Go map implementation itself. *)
From Irismod Require Import Determinism.Check Determinism.Proofs Determinism.Model.
From Irismod Require Record.Model.
Close Scope string_scope.

(** (a0) [reach] is complete — for ALL graphs, root lists and nodes (induction on paths and
    the work-list invariant; nothing is bounded). *)
Theorem reach_complete :
  forall (g : graph) (roots : list positive) (n : positive),
    path g roots n -> PS.mem n (reach g roots) = true.
Proof. exact Reach.reach_complete. Qed.
Print Assumptions reach_complete.

(** (a1) the boolean check is sound — for ALL graphs, source tables and allow lists. *)
Theorem check_sound :
  forall (g : graph) (roots : list positive) (srcs : list (positive * desc)) (allow : list entry),
    check_all g roots srcs allow = true ->
    forall n d, path g roots n -> In (n, d) srcs -> sanctioned_in allow d.
Proof. exact check_all_sound. Qed.
Print Assumptions check_sound.

(** (a1') ... and exact: whenever the work-list traversal finished within its fuel (a boolean,
    [true] for the regenerated graph by [traversal_finished] below) the check is EQUIVALENT to the
    statement about all paths, so a failing check always means a source occurrence that does lie on
    a path from an entry point and is not on the reviewed list — for ALL graphs. *)
Theorem check_exact :
  forall (g : graph) (roots : list positive) (srcs : list (positive * desc)) (allow : list entry),
    finished g roots = true ->
    (check_all g roots srcs allow = true
     <-> forall n d, path g roots n -> In (n, d) srcs -> sanctioned_in allow d).
Proof. exact check_all_exact. Qed.
Print Assumptions check_exact.

Theorem traversal_finished : finished G roots = true.
Proof. exact traversal_finished_G. Qed.
Print Assumptions traversal_finished.

(** (a2) THE PER-RUN THEOREM, about the graph of the code as it is now: every source occurrence
    [d] (function, kind, ordinal) attached to a node [n] that lies on some path from a root is
    sanctioned.  Finite domain: the nodes, edges, roots and sources of [Gen/CallGraph.v];
    all paths (unboundedly many, of any length) are covered through [reach_complete]. *)
Theorem no_unsanctioned_source :
  forall n d, path G roots n -> In (n, d) sources -> sanctioned d.
Proof. apply check_all_sound. vm_compute. reflexivity. Qed.
Print Assumptions no_unsanctioned_source.

(** (a3) the per-function obligation cases evaluated on every run ([check_static], which is what names
    an offending function in the report) decide the same thing: an occurrence the case check does not
    flag, and that lies on a path, is sanctioned. *)
Theorem static_case_sound :
  forall (d : desc) (n : positive),
    offending d = false -> node_of d = Some n -> path G roots n -> sanctioned d.
Proof. exact offending_false_sound. Qed.
Print Assumptions static_case_sound.

(** (b) the model side: for any chain given as a block-application function, any two replicas —
    whatever their wall clocks, restart points (under the store round-trip hypothesis) and
    number of repeated exports — produce the same observations and the same export bytes. *)
Theorem run_functional :
  forall (state block result bytes : Type)
         (apply_block : state -> block -> state * result)
         (export digest save : state -> bytes) (load : bytes -> option state),
    (forall s, load (save s) = Some s) ->
    forall (sch1 sch2 : schedule) (genesis : state) (bs : list block),
    exists obs ex,
      replica state block result bytes apply_block export digest save load sch1 genesis bs
        = Some (obs, repeat ex (S (exports sch1)))
      /\ replica state block result bytes apply_block export digest save load sch2 genesis bs
        = Some (obs, repeat ex (S (exports sch2))).
Proof. exact run_functional_lemma. Qed.
Print Assumptions run_functional.

(** (c') the replica check is silent exactly when the two replicas' observations are equal. *)
Theorem replica_check_exact :
  forall c : rcase, check_replicas c = (-1, -1, 0)%Z <-> r_a c = r_b c.
Proof. exact check_replicas_silent_iff. Qed.
Print Assumptions replica_check_exact.

(** The statements are not vacuous: the regenerated graph has roots, edges and sanctioned sources
    that ARE reachable; and on a small fixed graph the check rejects a reachable unsanctioned
    source, ignores an unreachable one, and accepts once the offending edge is gone. *)
Example graph_not_vacuous :
  Nat.leb 100 (List.length roots) = true /\ Nat.leb 1000 (List.length adj) = true
  /\ existsb (fun nd : positive * desc => PS.mem (fst nd) reach_set) sources = true.
Proof. vm_compute. repeat split. Qed.

Example checker_discriminates :
  check_all (of_adj toy_adj) [1%positive] toy_sources toy_allow = false
  /\ check_all (of_adj [(1, [2]); (2, [3]); (5, [6])]%positive) [1%positive] toy_sources toy_allow = true.
Proof. split; [exact toy_rejected|exact toy_accepted_without_clock_edge]. Qed.

(** [run_functional] instantiated with a module model of this development (record, C19): block =
    list of model steps, results = the (id, record) pairs created, export = digest = the whole model
    state, save/load = identity.  Any two schedules give the same observations and exports. *)
Definition record_apply_block (s : Record.Model.state) (b : list Record.Model.step)
  : Record.Model.state * list (Record.Model.rid * Record.Model.rec) :=
  fold_left (fun (acc : Record.Model.state * list (Record.Model.rid * Record.Model.rec)) st =>
               let '(s', r) := Record.Model.exec_step (fst acc) st in (s', snd acc ++ r)) b (s, []).

Example run_functional_on_record_model :
  forall (sch1 sch2 : schedule) (bs : list (list Record.Model.step)),
  exists obs ex,
    replica _ _ _ _ record_apply_block (fun s => s) (fun s => s) (fun s => s) (fun s => Some s)
            sch1 Record.Model.init bs = Some (obs, repeat ex (S (exports sch1)))
    /\ replica _ _ _ _ record_apply_block (fun s => s) (fun s => s) (fun s => s) (fun s => Some s)
               sch2 Record.Model.init bs = Some (obs, repeat ex (S (exports sch2))).
Proof. intros. apply run_functional. reflexivity. Qed.

Example run_functional_hypothesis_satisfiable :
  exists (save : nat -> nat) (load : nat -> option nat), forall s, load (save s) = Some s.
Proof. exists (fun s => s), (fun b => Some b). reflexivity. Qed.
