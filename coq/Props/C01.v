(** * C01 — Coinswap: the value of a liquidity share never falls; swaps are priced fee-inclusive.

    Only statements, each closed by [exact] of a lemma of [Coinswap/Proofs*.v], with
    [Print Assumptions] beneath.  All amounts, reserves and supplies are unbounded integers;
    histories are arbitrary lists of messages (swaps single/double hop, sell/buy, any recipient;
    two-sided and one-sided add/remove; bank transfers, i.e. donations; block boundaries;
    MsgUpdateParams, i.e. the fees may change in mid-history) by any accounts.  Pool [n] with counterparty denom [cp]:
      [reserve_std s n] = bank balance of the pool's escrow address in the standard denom,
      [reserve_tok s cp n] = its balance in [cp], [liquidity s n] = bank supply of "lpt-n". *)
From Irismod Require Import Coinswap.Model Coinswap.Check Coinswap.ProofsArith Coinswap.ProofsSpec
  Coinswap.Proofs Coinswap.ProofsValue Coinswap.ProofsSound Coinswap.ProofsEncode.

Local Open Scope Z_scope.

(** ** pricing: [GetInputPrice] / [GetOutputPrice] as the model restates them (the restatement is
    compared with the Go functions on every run, stream [kernels]) *)

(** exact input [a] into reserves [(x, y)]: the output [out] obeys the constant-product rule with
    the fee [fee/10^18] taken on the input side ... *)
Theorem swap_in_rule :
  forall a x y fee out : Z,
    0 < x -> 0 < y -> 0 <= a -> 0 <= fee < P18 ->
    input_price a x y (P18 - fee) = Ret out ->
    x * P18 * y <= (x * P18 + a * (P18 - fee)) * (y - out) /\ 0 <= out <= y.
Proof. exact swap_in_rule_l. Qed.
Print Assumptions swap_in_rule.

(** ... and it is the largest such output: one unit more would break the rule *)
Theorem swap_in_maximal :
  forall a x y fee out : Z,
    0 < x -> 0 < y -> 0 <= a -> 0 <= fee < P18 ->
    input_price a x y (P18 - fee) = Ret out ->
    (x * P18 + a * (P18 - fee)) * (y - (out + 1)) < x * P18 * y.
Proof. exact swap_in_maximal_l. Qed.
Print Assumptions swap_in_maximal.

(** exact output [b < y]: the price [paid] obeys the rule ... *)
Theorem swap_out_rule :
  forall b x y fee paid : Z,
    0 < x -> 0 <= b < y -> 0 <= fee < P18 ->
    output_price b x y (P18 - fee) = Ret paid ->
    x * P18 * y <= (x * P18 + paid * (P18 - fee)) * (y - b) /\ 0 < paid.
Proof. exact swap_out_rule_l. Qed.
Print Assumptions swap_out_rule.

(** ... and is at most one base unit above the least admissible price *)
Theorem swap_out_near_minimal :
  forall b x y fee paid : Z,
    0 < x -> 0 <= b < y -> 0 <= fee < P18 ->
    output_price b x y (P18 - fee) = Ret paid ->
    forall p : Z, x * P18 * y <= (x * P18 + p * (P18 - fee)) * (y - b) -> paid - 1 <= p.
Proof. exact swap_out_near_minimal_l. Qed.
Print Assumptions swap_out_near_minimal.

(** the divisor of [GetOutputPrice] is positive exactly under the guard the keeper checks *)
Theorem swap_out_guard :
  forall b y ph : Z, 0 < ph -> (0 < (y - b) * ph <-> b < y).
Proof. exact output_price_guard. Qed.
Print Assumptions swap_out_guard.

(** every leg of every successful swap order is priced on the reserves it finds: it obeys the
    rule there, a sell leg pays out the maximum, a buy leg charges at most one unit above the
    minimum.  ([priced] is what [exec_swap] establishes for each leg, see [swap_legs_priced].) *)
Theorem swap_leg_rule :
  forall (buy : bool) (s : state) (n din dout paid recv : Z),
    Inv s -> 0 <= (if buy then recv else paid) ->
    priced buy s n din dout paid recv ->
    let x := bal (led s) (pool_acct n) din in
    let y := bal (led s) (pool_acct n) dout in
    let ph := P18 - p_fee (par s) in
    0 < x /\ 0 < y /\ 0 <= paid /\ 0 <= recv <= y
    /\ x * P18 * y <= (x * P18 + paid * ph) * (y - recv)
    /\ (if buy then forall p, x * P18 * y <= (x * P18 + p * ph) * (y - recv) -> paid - 1 <= p
        else (x * P18 + paid * ph) * (y - (recv + 1)) < x * P18 * y).
Proof. exact priced_rule_lemma. Qed.
Print Assumptions swap_leg_rule.

(** a successful [MsgSwapOrder] is one priced leg, or two priced legs through the standard coin
    (the second on the state the first leaves), each moving exactly its coins *)
Theorem swap_legs_priced :
  forall (s : state) (buy : bool) (sender rcpt din ain dout aout deadline : Z) (s' : state) (r : list Z),
    exec_swap s buy sender rcpt din ain dout aout deadline = Ret (s', r) ->
    r = [] /\ now s <= deadline /\ rcpt <> acct_feecol /\ 0 < ain /\ 0 < aout /\ din <> dout
    /\ exists sold bought, swap_effect buy s s' sender rcpt din dout sold bought
         /\ (if buy then bought = aout /\ sold <= ain else sold = ain /\ aout <= bought).
Proof. exact exec_swap_spec. Qed.
Print Assumptions swap_legs_priced.

(** ** the invariant of reachable states *)
Theorem invariant_at_genesis :
  forall (l : ledger) (sp : amap Z Z) (t : Z) (p : params),
    forallb (fun e : (Z * Z) * Z => 0 <=? snd e) l = true ->
    0 <= p_fee p < P18 -> 0 <= p_ufee p <= P18 ->
    Inv (mkState l sp [] 1 t p).
Proof. exact Inv_genesis. Qed.
Print Assumptions invariant_at_genesis.

Theorem invariant_preserved :
  forall (ms : list msg) (s : state), Inv s -> Inv (run s ms).
Proof. exact Inv_run. Qed.
Print Assumptions invariant_preserved.

(** ** value per share *)

(** one step, any message by any account that is not a pool escrow address (nobody holds their
    keys), any registered pool: if the liquidity is positive before and after, S*T/L^2 did not
    fall (cross-multiplied) *)
Theorem step_value_monotone :
  forall (s : state) (m : msg) (cp n : Z),
    Inv s -> sender_ok m -> In (cp, n) (pools s) ->
    0 < liquidity s n -> 0 < liquidity (step s m) n ->
    reserve_std s n * reserve_tok s cp n * (liquidity (step s m) n * liquidity (step s m) n)
    <= reserve_std (step s m) n * reserve_tok (step s m) cp n * (liquidity s n * liquidity s n).
Proof. exact step_value_monotone_lemma. Qed.
Print Assumptions step_value_monotone.

(** whole histories, INCLUDING parameter changes (a MsgUpdateParams is a step like any other: it
    succeeds only for the authority and only with parameters in range, which keeps [Inv]; the value
    per share does not depend on which in-range fee is in force at which step): after any prefix [pre],
    over any continuation [mid] during which the pool's
    liquidity stays positive ([all_pos]: at every intermediate state, both ends included), the
    value per share at the end is at least the value at the start *)
Theorem history_value_monotone :
  forall (s0 : state) (pre mid : list msg) (cp n : Z),
    Inv s0 -> Forall sender_ok mid ->
    In (cp, n) (pools (run s0 pre)) -> all_pos (run s0 pre) mid n ->
    let si := run s0 pre in let sj := run s0 (pre ++ mid) in
    reserve_std si n * reserve_tok si cp n * (liquidity sj n * liquidity sj n)
    <= reserve_std sj n * reserve_tok sj cp n * (liquidity si n * liquidity si n).
Proof. exact history_value_monotone_lemma. Qed.
Print Assumptions history_value_monotone.

(** an emptied pool (liquidity 0) gets liquidity again only through [MsgAddLiquidity] on its own
    counterparty denom while its escrow address holds nothing; the new supply is the standard
    amount deposited, and the statement above starts afresh from there *)
Theorem emptied_pool_restart :
  forall (s : state) (m : msg) (cp n : Z),
    Inv s -> In (cp, n) (pools s) -> liquidity s n = 0 -> 0 < liquidity (step s m) n ->
    exists sender max_tok exact min_liq deadline,
      m = MAdd sender cp max_tok exact min_liq deadline
      /\ acct_empty (led s) (pool_acct n) = true
      /\ liquidity (step s m) n = exact.
Proof. exact restart_lemma. Qed.
Print Assumptions emptied_pool_restart.

(** ... and an emptied pool whose address was sent coins refuses [MsgAddLiquidity] *)
Theorem donated_empty_pool_cannot_mint :
  forall (s : state) (sender dtok max_tok exact min_liq deadline n : Z),
    pool_of s dtok = Some n -> liquidity s n = 0 -> acct_empty (led s) (pool_acct n) = false ->
    exists o, exec_add s sender dtok max_tok exact min_liq deadline = Fail o.
Proof. exact donated_empty_pool_rejects. Qed.
Print Assumptions donated_empty_pool_cannot_mint.

(** a message that fails leaves every pool as it was *)
Theorem failed_msg_changes_no_pool :
  forall (s : state) (m : msg) (o : outcome), exec s m = Fail o -> step s m = s.
Proof. exact failed_step_changes_nothing. Qed.
Print Assumptions failed_msg_changes_no_pool.

(** ** the check's predicate is true of every model step

    [c01_step] (Check.v) is the decidable predicate the check evaluates on the IMPLEMENTATION's
    observed worlds before/after each message: value per share of every registered pool, and for a
    swap the rule / maximal output / near-minimal input recomputed from the observed reserve
    changes of each leg.  On the model's own worlds it always answers 0 (no clause violated): the
    check cannot raise an alarm on code that behaves as the model. *)
Theorem check_predicate_holds_on_model_step :
  forall (s : state) (m : msg) (s' : state) (r : list Z) (o : obs),
    Inv s -> sender_ok m -> exec s m = Ret (s', r) -> o_code o = 0 ->
    c01_step (par s) m o (world_of s) (world_of s') = 0.
Proof. exact c01_step_model_ok. Qed.
Print Assumptions check_predicate_holds_on_model_step.

Theorem check_predicate_holds_on_failed_step :
  forall (s : state) (m : msg) (f : outcome) (o : obs),
    Inv s -> sender_ok m -> exec s m = Fail f -> o_code o <> 0 ->
    c01_step (par s) m o (world_of s) (world_of s) = 0.
Proof. exact c01_step_model_fail. Qed.
Print Assumptions check_predicate_holds_on_failed_step.

(** ** [model_passes_check]: the checker itself, on the driver's encoding of a model history

    [encode_steps U D s0 ms] is what the driver would print for the history [ms] if the implementation
    behaved as the model: per step the outcome code, the response, the signed differences of every
    changed ledger entry of the observed universe [U] and of every changed supply among [D], the
    registry and the parameters.  [check_case_C01] (the function evaluated by [vm_compute] on every
    implementation trace: it rebuilds the observed worlds from the differences with [next_world],
    compares them with the model, and evaluates the property's predicate on them) answers
    (-1, -1, 0) — no divergence, no violation — for every genesis, every history of messages signed by
    users or the authority, and every universe that covers what the history touches. *)
Theorem model_passes_check :
  forall (p : params) (start : Z) (gl : list ((Z * Z) * Z)) (gs : list (Z * Z))
         (U : list (Z * Z)) (D : list Z) (ms : list msg),
    let s0 := init_state (case_of p start gl gs []) in
    NoDup U -> NoDup D -> covered U D s0 ms ->
    Inv s0 -> Forall msg_ok ms -> p_cdenom p <= 1000 ->
    check_case_C01 (case_of p start gl gs (encode_steps U D s0 ms)) = (-1, -1, 0).
Proof. exact model_passes_check_C01. Qed.
Print Assumptions model_passes_check.

(** ** the hypotheses are satisfiable, on a history with non-trivial residues: fee 0.3 %, a pool
    created 1000007 : 3000001, a sell, a buy, a two-sided add, a one-sided add, a donation,
    a one-sided remove, a two-sided remove; the value per share strictly grows. *)
Definition ex_par : params := mkParams 3000000000000000 2000000000000000 400000000000000000 std 5000.
Definition ex_s0 : state :=
  mkState [((0, 0), 100000000); ((0, 1), 100000000); ((1, 0), 100000000); ((1, 1), 100000000)]
          [(0, 200000000); (1, 200000000)] [] 1 1000 ex_par.
Definition ex_pre : list msg := [MAdd 0 1 3000001 1000007 1 2000].
Definition ex_mid : list msg :=
  [ MSwap false 1 1 0 12345 1 1 2000;
    MSwap true 1 0 1 100000 0 7777 2000;
    MAdd 1 1 1000000 33333 1 2000;
    MAddUni 1 1 1 54321 1 2000;
    MSend 1 1001 0 999;
    MBlock 5;
    MUpdateParams acct_gov (mkParams 250000000000000000 0 1 std 1);   (* the fee jumps from 0.3 % to 25 % *)
    MSwap false 0 0 1 4321 0 1 2000;
    MRemoveUni 0 1 0 1 1234 2000;
    MRemove 0 1001 500000 1 1 2000 ].

Example c01_nonvacuous :
  Inv ex_s0 /\ Forall sender_ok ex_mid
  /\ In (1, 1) (pools (run ex_s0 ex_pre)) /\ all_pos (run ex_s0 ex_pre) ex_mid 1
  /\ codes_of ex_s0 (ex_pre ++ ex_mid) = [0; 0; 0; 0; 0; 0; 0; 0; 0; 0; 0]
  /\ let si := run ex_s0 ex_pre in let sj := run ex_s0 (ex_pre ++ ex_mid) in
     reserve_std si 1 * reserve_tok si 1 1 * (liquidity sj 1 * liquidity sj 1)
     < reserve_std sj 1 * reserve_tok sj 1 1 * (liquidity si 1 * liquidity si 1).
Proof.
  split; [apply Inv_genesis; [reflexivity|unfold P18; simpl; lia|unfold P18; simpl; lia]|].
  split; [repeat constructor|].
  split; [vm_compute; left; reflexivity|].
  split; [vm_compute; repeat split; reflexivity|].
  split; [vm_compute; reflexivity|].
  vm_compute. reflexivity.
Qed.

(** the kernels on a concrete pair with a remainder: 12345 in at 0.3 % into 1000007 : 3000001 *)
Example c01_kernel_example :
  input_price 12345 1000007 3000001 (P18 - 3000000000000000) = Ret 36474
  /\ output_price 7777 3000001 1000007 (P18 - 3000000000000000) = Ret 23585.
Proof. vm_compute. split; reflexivity. Qed.
