(** * C01 — Coinswap: pool value per liquidity share never falls; swaps priced fee-inclusive. *)
From Irismod Require Import Coinswap.Model Coinswap.Proofs.

Theorem failed_msg_changes_no_pool :
  forall (s : state) (m : msg) (o : outcome), exec s m = Fail o -> step s m = s.
Proof. exact failed_step_changes_nothing. Qed.
Print Assumptions failed_msg_changes_no_pool.
