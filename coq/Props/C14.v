(** * C14 — NFT: each token has one owner; only owners and class creators can act. *)
From Irismod Require Import Nft.Model Nft.Proofs.

(** A rejected message changes nothing. *)
Theorem rejected_step_changes_nothing :
  forall (s : state) (st : step), ok s st = false -> next s st = s.
Proof. exact rejected_changes_nothing. Qed.
Print Assumptions rejected_step_changes_nothing.
