(** * C14 — NFT: each token has one owner; only owners and class creators can act.

    Only statements, each closed by [exact] of a lemma of [Nft/Proofs.v], with
    [Print Assumptions] beneath.  [Reachable s] = [s] is the state after ANY history (list of
    messages by anybody, each its own transaction, and block boundaries) from the empty chain.
    The state is the one of the embedded SDK keeper (cosmossdk.io/x/nft, modelled): class
    records, NFT records ([nfts]), owner records ([owners], read by [get_owner]), the owner
    index ([index], behind the per-owner queries and balances) and the per-class supply counter
    ([total_supply]).  [burned_in s steps c t] = some burn of token [(c, t)] succeeds inside the
    history [steps] run from [s]. *)
From Irismod Require Import Nft.Model Nft.Proofs Nft.Check Nft.Sound.

(** Every NFT has exactly one owner at all times: in every reachable state a token exists iff
    an owner record exists for it; the owner index lists (owner, class, id) exactly for the
    recorded owner — so no token is listed under two owners or twice — the owner is a real
    address, and every token belongs to an existing class. *)
Theorem owner_unique :
  forall s : state, Reachable s ->
    NoDup (index s)
    /\ (forall a c t, In (a, c, t) (index s) <-> get_owner s c t = Some a)
    /\ (forall c t, has_nft s c t = true <-> exists a, get_owner s c t = Some a)
    /\ (forall a a' c t, In (a, c, t) (index s) -> In (a', c, t) (index s) -> a = a')
    /\ (forall c t a, get_owner s c t = Some a -> 0 <= a)
    /\ (forall c t, has_nft s c t = true -> has_class s c = true).
Proof. exact r_owner_unique. Qed.
Print Assumptions owner_unique.

(** Transfer, edit and burn succeed only when the sender is the current owner of the token. *)
Theorem only_owner_transfers_edits_burns :
  forall (s : state) (m : msg) (s' : state),
    exec_msg s m = Some s' ->
    match m with
    | Transfer a c t _ _ _ _ _ | Edit a c t _ _ _ _ | Burn a c t => get_owner s c t = Some a
    | _ => True
    end.
Proof. exact only_owner_lemma. Qed.
Print Assumptions only_owner_transfers_edits_burns.

(** ... and, conversely, whatever message anybody sends, an existing token is either left
    exactly as it is (same metadata, same owner), or the message is a transfer by its owner
    (new owner = the recipient, metadata = the old ones with the fields that are not the
    do-not-modify sentinel replaced), or an edit by its owner (same owner, metadata replaced
    likewise), or a burn by its owner (token and owner record gone).  In particular a token's
    id never changes and nobody but the owner affects it. *)
Theorem token_changes_only_by_its_owner :
  forall (s : state) (m : msg) (s' : state) (c : cid) (t : tid) (meta : tmeta) (o : addr),
    Reachable s ->
    exec_msg s m = Some s' -> get (c, t) (nfts s) = Some meta -> get_owner s c t = Some o ->
    (get (c, t) (nfts s') = Some meta /\ get_owner s' c t = Some o)
    \/ (exists n u h d r, m = Transfer o c t n u h d r
          /\ get (c, t) (nfts s') = Some (apply_changes meta n u h d) /\ get_owner s' c t = Some r)
    \/ (exists n u h d, m = Edit o c t n u h d
          /\ get (c, t) (nfts s') = Some (apply_changes meta n u h d) /\ get_owner s' c t = Some o)
    \/ (m = Burn o c t /\ get (c, t) (nfts s') = None /\ get_owner s' c t = None).
Proof. exact r_token_step. Qed.
Print Assumptions token_changes_only_by_its_owner.

(** A mint succeeds only into an existing class and, if the class is mint-restricted, only for
    its current creator; only under an id that is not in use; it creates exactly the token asked
    for, owned by the recipient, and touches no other token and no class. *)
Theorem mint_restricted_only_creator :
  forall (s : state) (a : addr) (c : cid) (t : tid) (n u h d : Z) (r : addr) (s' : state),
    exec_msg s (Mint a c t n u h d r) = Some s' ->
    (exists cl, get c (classes s) = Some cl /\ (c_mintr cl = true -> c_creator cl = a))
    /\ get (c, t) (nfts s) = None
    /\ get (c, t) (nfts s') = Some (n, u, h, d) /\ get_owner s' c t = Some r
    /\ (forall k, k <> (c, t) -> get k (nfts s') = get k (nfts s) /\ get k (owners s') = get k (owners s))
    /\ classes s' = classes s.
Proof. exact mint_lemma. Qed.
Print Assumptions mint_restricted_only_creator.

(** Tokens of an update-restricted class never change their metadata: one step ... *)
Theorem update_restricted_metadata_frozen_step :
  forall (s : state) (m : msg) (s' : state) (c : cid) (t : tid) (cl : class) (meta : tmeta),
    Reachable s -> exec_msg s m = Some s' ->
    get c (classes s) = Some cl -> c_updr cl = true -> get (c, t) (nfts s) = Some meta ->
    get (c, t) (nfts s') = Some meta
    \/ (exists a, m = Burn a c t /\ get_owner s c t = Some a /\ get (c, t) (nfts s') = None).
Proof. exact r_frozen_step. Qed.
Print Assumptions update_restricted_metadata_frozen_step.

(** ... and along any history: as long as the token is not burned, its metadata after the
    history are the ones it had before — whatever edits, transfers carrying changes (with or
    without the do-not-modify sentinel) and class hand-overs the history contains. *)
Theorem update_restricted_metadata_frozen :
  forall (s : state) (steps : list step) (c : cid) (t : tid) (cl : class) (meta : tmeta),
    Reachable s ->
    get c (classes s) = Some cl -> c_updr cl = true -> get (c, t) (nfts s) = Some meta ->
    ~ burned_in s steps c t ->
    get (c, t) (nfts (run s steps)) = Some meta.
Proof. exact r_frozen. Qed.
Print Assumptions update_restricted_metadata_frozen.

(** A class changes hands only by a hand-over sent by its current creator (to the named
    recipient); no message changes its restriction flags or any other field. *)
Theorem class_handover_only_by_creator :
  forall (s : state) (m : msg) (s' : state) (c : cid) (cl : class),
    exec_msg s m = Some s' -> get c (classes s) = Some cl ->
    get c (classes s') = Some cl
    \/ (exists r, m = TransferDenom (c_creator cl) c r /\ get c (classes s') = Some (c_with_creator cl r)).
Proof. exact class_step. Qed.
Print Assumptions class_handover_only_by_creator.

(** Class ids are stable and never reused: along any history an existing class keeps existing
    under its id with the same flags and fields (all but the creator), and issuing the id again
    fails. *)
Theorem class_ids_stable :
  forall (s : state) (steps : list step) (c : cid) (cl : class),
    get c (classes s) = Some cl ->
    exists cl', get c (classes (run s steps)) = Some cl'
                /\ c_with_creator cl' 0 = c_with_creator cl 0
                /\ c_mintr cl' = c_mintr cl /\ c_updr cl' = c_updr cl
                /\ (forall a mr ur d o, exec_msg (run s steps) (IssueDenom a c mr ur d o) = None).
Proof. exact r_class_history. Qed.
Print Assumptions class_ids_stable.

(** An id can be issued only when no class has it; the class created is exactly the one asked
    for, created by the sender; nothing else changes. *)
Theorem issue_only_fresh_id :
  forall (s : state) (a : addr) (c : cid) (mr ur : bool) (d : Z) (o : list Z) (s' : state),
    exec_msg s (IssueDenom a c mr ur d o) = Some s' ->
    get c (classes s) = None /\ get c (classes s') = Some (a, mr, ur, d, o)
    /\ (forall c', c' <> c -> get c' (classes s') = get c' (classes s))
    /\ nfts s' = nfts s /\ owners s' = owners s.
Proof. exact issue_lemma. Qed.
Print Assumptions issue_only_fresh_id.

(** Token ids are stable, reusable only after a burn: along any history in which the token is
    not burned it still exists under its id, and every attempt to mint the id again fails. *)
Theorem ids_stable :
  forall (s : state) (steps : list step) (c : cid) (t : tid),
    Reachable s -> get (c, t) (nfts s) <> None -> ~ burned_in s steps c t ->
    get (c, t) (nfts (run s steps)) <> None
    /\ (forall a n u h d r, exec_msg (run s steps) (Mint a c t n u h d r) = None).
Proof. exact r_ids. Qed.
Print Assumptions ids_stable.

(** The reported supply of a class equals the number of its tokens, the number of owner-index
    entries of the class, and the sum of the balances of any duplicate-free list of addresses
    that contains all owners of the class.  The supply counter is a uint64 that the x/nft keeper
    increments and decrements unchecked (modelled with the wrap-around): it equals the number of
    tokens modulo 2^64 in every reachable state, hence exactly whenever that number is below 2^64. *)
Theorem supply_eq_tokens_eq_balances :
  forall s : state, Reachable s ->
    (forall c, total_supply s c = n_tokens s c mod two64)
    /\ (forall c, n_tokens s c < two64 -> total_supply s c = n_tokens s c)
    /\ (forall c, n_index s c = n_tokens s c)
    /\ (forall c, n_tokens s c = Z.of_nat (length (tokens_of s c)))
    /\ (forall c (l : list addr), NoDup l -> (forall a t, In (a, c, t) (index s) -> In a l) ->
          zsum (map (fun a => balance s a c) l) = n_tokens s c).
Proof. exact r_supply. Qed.
Print Assumptions supply_eq_tokens_eq_balances.

(** ... and the number of tokens of a class grows by at most one per step: after any history of
    fewer than 2^64 steps the counter has not wrapped and the reported supply IS the number of
    tokens (no unchecked increment or decrement ever over- or underflowed). *)
Theorem supply_counter_no_wrap :
  forall (steps : list step) (c : cid),
    Z.of_nat (length steps) < two64 ->
    n_tokens (run init steps) c <= Z.of_nat (length steps)
    /\ total_supply (run init steps) c = n_tokens (run init steps) c.
Proof. exact r_supply_no_wrap. Qed.
Print Assumptions supply_counter_no_wrap.

(** The owner is never locked out: in every reachable state the recorded owner of a token can
    burn it and can transfer it (without changes) to any address — also in restricted classes
    and after the class changed hands. *)
Theorem owner_never_locked_out :
  forall (s : state) (c : cid) (t : tid) (o : addr),
    Reachable s -> get_owner s c t = Some o ->
    (exists s', exec_msg s (Burn o c t) = Some s')
    /\ (forall r, 0 <= r -> exists s', exec_msg s (Transfer o c t dnm dnm dnm dnm r) = Some s').
Proof. exact owner_can_act. Qed.
Print Assumptions owner_never_locked_out.

(** A rejected message changes nothing. *)
Theorem rejected_step_changes_nothing :
  forall (s : state) (st : step), ok s st = false -> next s st = s.
Proof. exact rejected_changes_nothing. Qed.
Print Assumptions rejected_step_changes_nothing.

(** The checker is sound for the model: the decidable predicates that the correspondence check
    evaluates on the IMPLEMENTATION's observations (agreement with the model, and the seven
    clauses of C14 on two consecutive observations) hold of the MODEL's own trace — the
    observations computed from the model state, balances listed for any duplicate-free list of
    actors — for every history of fewer than 2^64 steps (the supply counter is a uint64) whose
    recipients are among the actors: the checker answers (-1, -1, 0).  So an alarm always means the implementation showed something the model does not. *)
Theorem model_passes_check :
  forall (actors : list addr), NoDup actors ->
  forall (steps : list step), Forall (step_covered actors) steps -> Z.of_nat (length steps) < two64 ->
    check_case (model_trace actors init steps) = (-1, -1, 0).
Proof. exact model_passes_check_lemma. Qed.
Print Assumptions model_passes_check.

(** ** The hypotheses are satisfiable on a non-trivial history *)
Definition ex_hist : list step :=
  [ Msg (IssueDenom 0 1 true true 0 [2; 0; 0; 0; 0; 0]);     (* actor 0: class 1, mint- and update-restricted *)
    Msg (IssueDenom 1 2 false false 4 [3; 0; 0; 0; 0; 0]);   (* actor 1: class 2, unrestricted *)
    Msg (IssueDenom 2 1 false false 0 []);                   (* id in use: rejected *)
    Msg (Mint 1 1 1 2 3 0 0 1);                              (* stranger mints into restricted class: rejected *)
    Msg (Mint 0 1 1 2 3 0 4 1);                              (* creator mints token 1/1 to actor 1 *)
    Msg (Mint 0 1 1 5 5 5 5 2);                              (* id in use: rejected *)
    Msg (Edit 1 1 1 1 1 1 1);                                (* owner edits in update-restricted class (all sentinel): rejected *)
    Msg (Transfer 1 1 1 6 1 1 1 2);                          (* transfer carrying a change: rejected *)
    Msg (Transfer 1 1 1 1 1 1 1 2);                          (* plain transfer 1 -> 2 *)
    Msg (Transfer 1 1 1 1 1 1 1 3);                          (* old owner: rejected *)
    Msg (Mint 3 2 1 2 2 2 2 3);                              (* anybody mints into class 2 *)
    Msg (Transfer 3 2 1 6 1 7 1 3);                          (* to self, with changes *)
    Msg (Edit 3 2 1 1 (-2) 1 0); Block;                      (* edit: uri and data replaced *)
    Msg (TransferDenom 1 1 3);                               (* not the creator: rejected *)
    Msg (TransferDenom 0 1 3);                               (* creator hands class 1 over *)
    Msg (Mint 0 1 2 0 0 0 0 0);                              (* old creator: rejected *)
    Msg (Mint 3 1 2 0 0 0 0 0);                              (* new creator mints 1/2 *)
    Msg (Burn 0 1 1);                                        (* not the owner: rejected *)
    Msg (Burn 2 1 1);                                        (* owner burns 1/1 *)
    Msg (Mint 3 1 1 7 7 7 7 0) ].                            (* the id is free again *)

Example c14_nonvacuous :
  let s := run init ex_hist in
  Reachable s
  /\ map (ok_at init ex_hist) [0; 1; 2; 3; 4; 5; 6; 7; 8; 9; 10; 11; 12; 14; 15; 16; 17; 18; 19; 20]%nat
     = [true; true; false; false; true; false; false; false; true; false; true; true; true; false; true; false; true; false; true; true]
  /\ get (1, 1) (nfts s) = Some (7, 7, 7, 7) /\ get_owner s 1 1 = Some 0
  /\ get (2, 1) (nfts s) = Some (6, -2, 7, 0) /\ get_owner s 2 1 = Some 3
  /\ total_supply s 1 = 2 /\ n_tokens s 1 = 2 /\ balance s 0 1 = 2 /\ balance s 3 2 = 1
  /\ get 1 (classes s) = Some (3, true, true, 0, [2; 0; 0; 0; 0; 0])
  /\ check_case (model_trace [0; 1; 2; 3] init ex_hist) = (-1, -1, 0)
  /\ Z.of_nat (length ex_hist) < two64
  /\ Forall (step_covered [0; 1; 2; 3]) ex_hist
  /\ burned_in init ex_hist 1 1
  /\ ~ burned_in (run init (firstn 5 ex_hist)) (firstn 13 (skipn 5 ex_hist)) 1 1.
Proof.
  cbv zeta. split; [exists ex_hist; reflexivity|].
  repeat (split; [vm_compute; reflexivity|]).
  split.
  { apply Forall_forall. intros st Hin. unfold ex_hist in Hin. simpl in Hin.
    repeat (destruct Hin as [<-|Hin]; [simpl; tauto|]). destruct Hin. }
  split.
  - exists (firstn 19 ex_hist), 2, (skipn 20 ex_hist). split; vm_compute; reflexivity.
  - intros (pre & a & post & Heq & Hok). vm_compute in Heq.
    repeat (destruct pre as [|? pre]; [simpl in Heq; try discriminate Heq; inversion Heq; subst; vm_compute in Hok; discriminate Hok|];
            simpl in Heq; inversion Heq as [[Hh Ht]]; clear Heq; rename Ht into Heq; clear Hh).
Qed.
