(** * C16 -- parameters (placeholder, theorems follow) *)
From Irismod Require Import Params.Model Params.Proofs.

Theorem defaults_validate :
  validate_cs cs_defaults = Ok /\ validate_fm fm_defaults = Ok /\ validate_ht ht_defaults = Ok
  /\ validate_sv sv_defaults = Ok /\ validate_tk tk_defaults = Ok.
Proof. exact defaults_validate_lemma. Qed.
Print Assumptions defaults_validate.
