(** * C16 -- parameters of coinswap, farm, htlc, service, token

    "A module's parameters can be changed only by the configured authority; a parameter set that the
    module's own validation rejects is never stored, by message or by genesis.  No parameter value
    that passes validation can by itself make begin/end block processing or a message handler abort:
    under every accepted parameter set each operation that is possible under the defaults still ends
    in success or an ordinary rejection."

    Only statements (proved in [Params/Proofs.v]), each with [Print Assumptions].  The model
    ([Params/Model.v]) follows the FIXED code (repo commits "fix: farm Params.Validate also validates
    the tax rate", "fix: coinswap Params.Validate rejects a pool creation fee that is not a valid coin",
    "fix: token Params.Validate rejects an issue-token base fee that is not a valid coin").  A history is an arbitrary list of [pstep]s: attempts to
    update a module's parameters (via = 0 message of the authority, 1 message of anybody else,
    2 InitGenesis) and operations of the five modules, which read the STORED sets.

    What is still refuted (known findings, not repaired; message handlers only): a pool-creation /
    issue fee AMOUNT of 2^255.2 or more passes validation and overflows the 315-bit LegacyDec in the fee
    split (coinswap, farm, token), and an htlc asset whose fixed fee + minimum swap amount reach 2^256
    overflows the Int addition in CreateHTLC, and a service minimum-deposit multiple near 2^62 overflows
    the Int product with a price of 2^193 or more in BindService; the handler panics.  The [_partial] theorems carry the
    hypothesis [*_small] and the [_refuted] theorems show that it cannot be dropped. *)
From Irismod Require Import Params.Model Params.Check Params.Proofs Params.Sound.

(** ** Only the authority updates *)

(** A step that is not a privileged update (a message signed by somebody else, or any operation)
    leaves all five stored sets unchanged ... *)
Theorem only_authority_updates :
  forall (s : pstate) (st : pstep), unprivileged st = true -> pstep_state s st = s.
Proof. exact unprivileged_step_keeps_state. Qed.
Print Assumptions only_authority_updates.

(** ... and so does every history made of such steps, whatever their number and order. *)
Theorem only_authority_updates_history :
  forall (h : list pstep) (s : pstate), forallb unprivileged h = true -> run s h = s.
Proof. exact unprivileged_history_keeps_state. Qed.
Print Assumptions only_authority_updates_history.

(** Conversely, whenever an update is accepted it came from the authority (or genesis) and the
    submitted set validates; any step that is not an accepted update changes nothing. *)
Theorem accepted_update_is_privileged_and_valid :
  forall (s : pstate) (st : pstep),
    (upd_outcome s st = Some Ok -> unprivileged st = false /\ submitted_valid st)
    /\ (upd_outcome s st <> Some Ok -> pstep_state s st = s).
Proof.
  intros s st. split; [apply step_accepted_is_privileged_and_valid|apply step_not_accepted_keeps_state].
Qed.
Print Assumptions accepted_update_is_privileged_and_valid.

(** ** Invalid sets are never stored *)

(** By message or by genesis ([via] arbitrary), for each module: a set that validation does not
    accept (ordinary error OR a panic inside validation, e.g. an absent decimal) leaves the stored
    set as it was and the update is not reported as successful. *)
Theorem invalid_params_never_stored :
  forall via,
    (forall p cur, validate_cs p <> Ok -> snd (update_cs via p cur) = cur /\ fst (update_cs via p cur) <> Ok)
    /\ (forall p cur, validate_fm p <> Ok -> snd (update_fm via p cur) = cur /\ fst (update_fm via p cur) <> Ok)
    /\ (forall p cur, validate_ht p <> Ok -> snd (update_ht via p cur) = cur /\ fst (update_ht via p cur) <> Ok)
    /\ (forall p cur, validate_sv p <> Ok -> snd (update_sv via p cur) = cur /\ fst (update_sv via p cur) <> Ok)
    /\ (forall p cur, validate_tk p <> Ok -> snd (update_tk via p cur) = cur /\ fst (update_tk via p cur) <> Ok).
Proof. intros via. repeat split; intros; apply update_invalid; assumption. Qed.
Print Assumptions invalid_params_never_stored.

(** Over histories: starting from the defaults (or from any state whose sets validate), after ANY
    history all five stored sets validate. *)
Theorem stored_params_always_validate :
  forall h : list pstep, ps_valid (run ps_init h).
Proof. intros h. apply run_keeps_valid. exact init_valid. Qed.
Print Assumptions stored_params_always_validate.

Theorem stored_params_stay_valid :
  forall (h : list pstep) (s : pstate), ps_valid s -> ps_valid (run s h).
Proof. exact run_keeps_valid. Qed.
Print Assumptions stored_params_stay_valid.

(** ** A validated set never makes a handler or a blocker abort (per module) *)

(** htlc: begin blocker (time-based supply limits), CreateHTLC (incoming / outgoing asset transfer),
    ClaimHTLC of an incoming transfer -- in every state ([supply], balances arbitrary).
    Refuted by the same family of extreme magnitudes: [FixedFee.Add(MinSwapAmount)] overflows the
    256-bit Int when the two validated amounts add up to 2^256 or more. *)
Theorem htlc_validated_params_never_abort_refuted :
  exists (p : ht_params) (o : ht_op) (w : Z), validate_ht p = Ok /\ ht_path p o = Some (Panic w).
Proof. exists ht_big, (HtCreate 10 72339 1 2 61 (Some (0, 0, 0, 0)) 100000), 318. exact ht_refuted. Qed.
Print Assumptions htlc_validated_params_never_abort_refuted.

Theorem htlc_validated_params_never_abort_partial :
  forall (p : ht_params) (o : ht_op) (r : res),
    validate_ht p = Ok -> ht_small p -> ht_path p o = Some r -> res_outcome r <> Abort.
Proof. exact ht_no_panic. Qed.
Print Assumptions htlc_validated_params_never_abort_partial.

(** service: BindService (minimum deposit), CallService (timeout), RespondService (fee tax) and the
    end blocker's slashing of expired requests.  Refuted by the same family: a validated minimum
    deposit multiple of 2^62 makes [price * multiple] overflow the 256-bit Int for a price of 2^200,
    a bind that under the default multiple is an ordinary rejection. *)
Theorem service_validated_params_never_abort_refuted :
  exists (p : sv_params) (o : sv_op) (w : Z),
    validate_sv p = Ok /\ sv_small p /\ sv_path p o = Some (Panic w) /\ sv_path sv_defaults o = Some Reject.
Proof. exists sv_big, (SvBind (2 ^ 200) 5000 3 1000000 1), 402. exact sv_refuted. Qed.
Print Assumptions service_validated_params_never_abort_refuted.

(** ... and holds for non-negative prices below 2^192 and amounts below 2^255 ([sv_small]: the
    multiple is an int64). *)
Theorem service_validated_params_never_abort_partial :
  forall (p : sv_params) (o : sv_op) (r : res),
    validate_sv p = Ok -> sv_small p -> sv_op_wf o -> sv_path p o = Some r -> res_outcome r <> Abort.
Proof. exact sv_no_panic. Qed.
Print Assumptions service_validated_params_never_abort_partial.

(** coinswap: pool creation (fee split), both swap directions, unilateral add / remove. *)
Theorem coinswap_validated_params_never_abort_refuted :
  exists (p : cs_params) (o : cs_op) (w : Z),
    validate_cs p = Ok /\ cs_op_wf o /\ cs_path p o = Some (Panic w).
Proof. exists cs_big, (CsCreatePool 0 0 0 1 1), 103. exact cs_refuted. Qed.
Print Assumptions coinswap_validated_params_never_abort_refuted.

Theorem coinswap_validated_params_never_abort_partial :
  forall (p : cs_params) (o : cs_op) (r : res),
    validate_cs p = Ok -> cs_small p -> cs_op_wf o -> cs_path p o = Some r -> res_outcome r <> Abort.
Proof. exact cs_no_panic. Qed.
Print Assumptions coinswap_validated_params_never_abort_partial.

(** farm: CreatePool (reward-category limit, fee split). *)
Theorem farm_validated_params_never_abort_refuted :
  exists (p : fm_params) (o : fm_op) (w : Z), validate_fm p = Ok /\ fm_path p o = Some (Panic w).
Proof. exists fm_big, (FmCreatePool 1 0), 203. exact fm_refuted. Qed.
Print Assumptions farm_validated_params_never_abort_refuted.

Theorem farm_validated_params_never_abort_partial :
  forall (p : fm_params) (o : fm_op) (r : res),
    validate_fm p = Ok -> fm_small p -> fm_path p o = Some r -> res_outcome r <> Abort.
Proof. exact fm_no_panic. Qed.
Print Assumptions farm_validated_params_never_abort_partial.

(** token: IssueToken and MintToken (issue fee by fee factor, mint-fee ratio, fee split). *)
Theorem token_validated_params_never_abort_refuted :
  exists (p : tk_params) (o : tk_op) (w : Z),
    validate_tk p = Ok /\ tk_op_wf o /\ tk_path p o = Some (Panic w).
Proof. exists tk_big, (TkIssue P18 0), 503. exact tk_refuted. Qed.
Print Assumptions token_validated_params_never_abort_refuted.

Theorem token_validated_params_never_abort_partial :
  forall (p : tk_params) (o : tk_op) (r : res),
    validate_tk p = Ok -> tk_small p -> tk_op_wf o -> tk_path p o = Some r -> res_outcome r <> Abort.
Proof. exact tk_no_panic. Qed.
Print Assumptions token_validated_params_never_abort_partial.

(** ** ... over histories *)

(** After ANY history of update attempts (by anybody, by message or genesis, valid or not) and
    operations, every operation of the five modules ends in success or an ordinary rejection --
    provided no submitted fee amount reaches 2^255 and operation inputs are well formed. *)
Theorem no_operation_aborts_partial :
  forall (h : list pstep) (st : pstep) (r : res),
    Forall step_wf h -> step_wf st ->
    op_result (run ps_init h) st = Some r -> res_outcome r <> Abort.
Proof. exact no_operation_aborts_lemma. Qed.
Print Assumptions no_operation_aborts_partial.

Theorem no_operation_aborts_refuted :
  exists (h : list pstep) (st : pstep) (w : Z),
    upd_outcome ps_init (hd st h) = Some Ok /\ ps_valid (run ps_init h)
    /\ op_result (run ps_init h) st = Some (Panic w).
Proof. exact no_operation_aborts_refuted_lemma. Qed.
Print Assumptions no_operation_aborts_refuted.

(** ** The defaults validate ([Gen/ParamsDefaults.v] is regenerated from the DefaultParams() functions) *)
Theorem defaults_validate :
  validate_cs cs_defaults = Ok /\ validate_fm fm_defaults = Ok /\ validate_ht ht_defaults = Ok
  /\ validate_sv sv_defaults = Ok /\ validate_tk tk_defaults = Ok.
Proof. exact defaults_validate_lemma. Qed.
Print Assumptions defaults_validate.

(** ** Non-vacuity *)

(** the hypotheses are met by non-default sets and operations that really succeed *)
Example c16_nonvacuous_coinswap :
  let p := mkCs (Some 999999999999999999) (mkCoin 2 (Some 1)) (Some 1) (Some 0) in
  validate_cs p = Ok /\ cs_small p
  /\ cs_op_wf (CsSell 1000 1000000 1000000 5000) /\ cs_path p (CsSell 1000000000000000000000 1000000 1000000 1000000000000000000000) = Some Done
  /\ cs_path p (CsCreatePool 10 10 10 5 5) = Some Done.
Proof. cbv zeta. repeat split; vm_compute; try reflexivity; discriminate. Qed.

Example c16_nonvacuous_htlc :
  let a := mkAsset 10 (Some 1000) true 3600 (Some 1000) true 2 (Some 0) (Some 1) (Some 1000) 50 34560 in
  validate_ht [a] = Ok /\ ht_small [a]
  /\ ht_path [a] (HtCreate 10 1000 2 1 50 (Some (0, 0, 0, 0)) 0) = Some Done
  /\ ht_path [a] (HtCreate 10 1000 2 1 50 (Some (0, 0, 1, 0)) 0) = Some Reject
  /\ ht_path [a] HtBegin = Some Done.
Proof.
  cbv zeta. split; [vm_compute; reflexivity|]. split; [|repeat split; vm_compute; reflexivity].
  repeat apply Forall_cons; try apply Forall_nil. vm_compute. reflexivity.
Qed.

Example c16_nonvacuous_service :
  let p := mkSv 1 1 [] (Some 999999999999999999) (Some 1000000000000000000) 1 1 1 1 true in
  validate_sv p = Ok /\ sv_small p /\ sv_op_wf (SvBlocks [5000; 1])
  /\ sv_path p (SvBlocks [5000; 1]) = Some Done /\ sv_path p (SvRespond 100 100) = Some Done.
Proof.
  cbv zeta. split; [vm_compute; reflexivity|]. split; [vm_compute; reflexivity|]. split; [|split; vm_compute; reflexivity].
  simpl. repeat apply Forall_cons; try apply Forall_nil; (split; [vm_compute; discriminate|vm_compute; reflexivity]).
Qed.

Example c16_nonvacuous_farm_token :
  let f := mkFm (mkCoin 1 (Some 0)) 0 (Some 999999999999999999) in
  let t := mkTk (Some 1000000000000000000) (mkCoin 1 (Some 0)) (Some 1000000000000000000) false 1 in
  validate_fm f = Ok /\ fm_small f /\ fm_path f (FmCreatePool 0 0) = Some Done
  /\ validate_tk t = Ok /\ tk_small t /\ tk_op_wf (TkMint 1000000000000000000 5)
  /\ tk_path t (TkMint 1000000000000000000 5) = Some Done.
Proof. cbv zeta. repeat split; vm_compute; try reflexivity; discriminate. Qed.

(** a history in which a stranger, an invalid set, a genesis import and the authority all try, and
    operations run in between: the hypotheses of [no_operation_aborts_partial] hold and the stored
    coinswap set really changes (only) at the authority's valid update *)
Example c16_nonvacuous_history :
  let p := mkCs (Some 500000000000000000) (mkCoin 1 (Some 7)) (Some 1) (Some 0) in
  let bad := mkCs (Some 0) (mkCoin 1 (Some 7)) (Some 1) (Some 0) in
  let h := [UpdCS 1 p; OpCS (CsSell 5 100 100 5); UpdCS 0 bad; UpdCS 2 bad; UpdFM 1 fm_big; UpdCS 0 p; OpFM (FmCreatePool 1 9)] in
  Forall step_wf (firstn 4 h ++ skipn 5 h)
  /\ ps_cs (run ps_init (firstn 5 h)) = cs_defaults
  /\ ps_cs (run ps_init h) = p
  /\ ps_fm (run ps_init h) = fm_defaults.
Proof.
  cbv zeta. split; [|repeat split; vm_compute; reflexivity].
  simpl. repeat apply Forall_cons; try apply Forall_nil; vm_compute; try reflexivity; try exact I; discriminate.
Qed.

(** ** The check never demands more than what is proved ([Params/Sound.v])

    On any case whose observations agree with the model at every step (first component of
    [check_case] = -1), whose submitted set and operations satisfy the side conditions above and
    whose operations are all modelled ones, the property clauses evaluated on the implementation's
    own observations hold (second component = -1): no update by a non-authority, no invalid set
    stored, no abort under the accepted set. *)
Theorem agreement_implies_property :
  forall c : case, case_wf c -> fst (fst (check_case c)) = -1 -> snd (fst (check_case c)) = -1.
Proof. exact agreement_implies_property_lemma. Qed.
Print Assumptions agreement_implies_property.

Example c16_nonvacuous_case :
  let p := mkCs (Some 500000000000000000) (mkCoin 1 (Some 7)) (Some 1) (Some 0) in
  let c := CaseCS (mkCase 0 p 0 0 cs_defaults p
                     [(CsCreatePool 100 100 100 10 10, 0, CsCreatePool 100 100 100 10 10, 1);
                      (CsSell 5 100 100 5, 0, CsSell 5 100 100 5, 0);
                      (CsBuy 200 100 100 5, 1, CsBuy 200 100 100 5, 1)]) in
  case_wf c /\ check_case c = (-1, -1, 0).
Proof.
  cbv zeta. split; [|vm_compute; reflexivity].
  split; [vm_compute; reflexivity|].
  simpl. repeat apply Forall_cons; try apply Forall_nil; (split; [simpl; try exact I; lia|vm_compute; discriminate]).
Qed.

(** the three repaired defects: the sets that made a handler abort are now rejected by validation
    (the abort points are still in the model: they are what the rejected sets WOULD reach) *)
Example c16_fixed_defects :
  let f := mkFm (mkCoin 1 (Some 5000)) 2 (Some 2000000000000000000) in
  let c := mkCs (Some 3000000000000000) (mkCoin 3 (Some 5000)) (Some 400000000000000000) (Some 2000000000000000) in
  let t := mkTk (Some 400000000000000000) (mkCoin 0 (Some 60000)) (Some 100000000000000000) true 0 in
  validate_fm f = Rej /\ fm_path f (FmCreatePool 1 1000000) = Some (Panic 206)
  /\ validate_cs c = Rej /\ cs_path c (CsCreatePool 1000000 0 1000000 10 10) = Some (Panic 104)
  /\ validate_tk t = Rej /\ tk_path t (TkIssue P18 1000000) = Some (Panic 504).
Proof. cbv zeta. repeat split; vm_compute; reflexivity. Qed.
