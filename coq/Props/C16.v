(** * C16 -- parameters of coinswap, farm, htlc, service, token

    "A module's parameters can be changed only by the configured authority; a parameter set that the
    module's own validation rejects is never stored, by message or by genesis.  No parameter value
    that passes validation can by itself make begin/end block processing or a message handler abort:
    under every accepted parameter set each operation that is possible under the defaults still ends
    in success or an ordinary rejection."

    Only statements (proved in [Params/Proofs.v], [Params/Sound.v], [Params/Pinned.v]), each with
    [Print Assumptions].  The model ([Params/Model.v]) follows the REPAIRED code: the eight repo commits
    "fix: farm Params.Validate also validates the tax rate", "fix: coinswap / token Params.Validate
    rejects a ... fee that is not a valid coin", "fix: coinswap / farm Params.Validate rejects a pool
    creation fee amount of more than 255 bits", "fix: token Params.Validate rejects an issue-token base
    fee amount of more than 195 bits", "fix: htlc asset params validation rejects a fixed fee plus
    minimum swap amount that overflows 256 bits", "fix: service GetMinDeposit returns an error instead
    of panicking ...".  With them [validated => no abort] is a full theorem for every module; what was
    refuted is kept as witnesses against the validators of the PINNED commit ([*_refuted_at_pinned_commit]).

    A history is an arbitrary list of [pstep]s: attempts to update a module's parameters (via = 0
    message of the authority, 1 message of anybody else, 2 InitGenesis) and operations of the five
    modules, which read the STORED sets. *)
From Irismod Require Import Params.Model Params.Check Params.Proofs Params.Sound Params.Pinned.

(** ** Only the authority updates *)

(** A step that is not a privileged update (a message signed by somebody else, or any operation)
    leaves all five stored sets unchanged ... *)
Theorem only_authority_updates :
  forall (s : pstate) (st : pstep), unprivileged st = true -> pstep_state s st = s.
Proof. exact unprivileged_step_keeps_state. Qed.
Print Assumptions only_authority_updates.

(** ... and so does every history made of such steps, whatever their number and order. *)
Theorem only_authority_updates_history :
  forall (h : list pstep) (s : pstate), forallb unprivileged h = true -> run s h = s.
Proof. exact unprivileged_history_keeps_state. Qed.
Print Assumptions only_authority_updates_history.

(** Conversely, whenever an update is accepted it came from the authority (or genesis) and the
    submitted set validates; any step that is not an accepted update changes nothing. *)
Theorem accepted_update_is_privileged_and_valid :
  forall (s : pstate) (st : pstep),
    (upd_outcome s st = Some Ok -> unprivileged st = false /\ submitted_valid st)
    /\ (upd_outcome s st <> Some Ok -> pstep_state s st = s).
Proof.
  intros s st. split; [apply step_accepted_is_privileged_and_valid|apply step_not_accepted_keeps_state].
Qed.
Print Assumptions accepted_update_is_privileged_and_valid.

(** ** Invalid sets are never stored *)

(** By message or by genesis ([via] arbitrary), for each module: a set that validation does not
    accept (ordinary error OR a panic inside validation, e.g. an absent decimal) leaves the stored
    set as it was and the update is not reported as successful. *)
Theorem invalid_params_never_stored :
  forall via,
    (forall p cur, validate_cs p <> Ok -> snd (update_cs via p cur) = cur /\ fst (update_cs via p cur) <> Ok)
    /\ (forall p cur, validate_fm p <> Ok -> snd (update_fm via p cur) = cur /\ fst (update_fm via p cur) <> Ok)
    /\ (forall p cur, validate_ht p <> Ok -> snd (update_ht via p cur) = cur /\ fst (update_ht via p cur) <> Ok)
    /\ (forall p cur, validate_sv p <> Ok -> snd (update_sv via p cur) = cur /\ fst (update_sv via p cur) <> Ok)
    /\ (forall p cur, validate_tk p <> Ok -> snd (update_tk via p cur) = cur /\ fst (update_tk via p cur) <> Ok).
Proof. intros via. repeat split; intros; apply update_invalid; assumption. Qed.
Print Assumptions invalid_params_never_stored.

(** *** ... by InitGenesis, stage by stage.
    InitGenesis = ValidateGenesis (panic on failure), then SetParams (validates again), then a
    module-specific condition.  Whatever the other stage does ([sp] resp. [vg] arbitrary), each stage
    that runs [Params.Validate] rejects an invalid set on its own: *)
Theorem genesis_each_stage_rejects :
  forall (P : Type) (validate other : P -> outcome) (gx : P -> bool) (p cur : P),
    validate p <> Ok ->
    (snd (init_genesis validate other gx p cur) = cur /\ fst (init_genesis validate other gx p cur) <> Ok)
    /\ (snd (init_genesis other validate gx p cur) = cur /\ fst (init_genesis other validate gx p cur) <> Ok).
Proof. intros. split; apply init_genesis_guarded; auto. Qed.
Print Assumptions genesis_each_stage_rejects.

(** Per module, with the stage functions the code really has (table in [Params/Model.v]):
    coinswap, htlc, service, token run [Params.Validate] in BOTH stages; farm's ValidateGenesis checks
    the creation-fee coin only, so a bad tax rate (or a 255-bit fee) is rejected by SetParams ALONE --
    still never stored.  The via = 2 branch of [update_M] used in the histories is this two-stage
    genesis (same stored set, same acceptance). *)
Theorem genesis_two_stage_per_module :
  (forall p cur, snd (update_cs 2 p cur) = snd (init_genesis validate_cs validate_cs (fun _ => true) p cur))
  /\ (forall p cur, snd (update_fm 2 p cur) = snd (init_genesis vg_fm validate_fm (fun _ => true) p cur))
  /\ (forall p cur, snd (update_ht 2 p cur) = snd (init_genesis validate_ht validate_ht (fun _ => true) p cur))
  /\ (forall p cur, snd (update_sv 2 p cur) = snd (init_genesis validate_sv validate_sv (fun _ => true) p cur))
  /\ (forall p cur, snd (update_tk 2 p cur)
                    = snd (init_genesis validate_tk validate_tk tk_fee_registered p cur)).
Proof.
  repeat split; intros p cur;
    [apply (update_genesis_is_two_stage validate_cs validate_cs)
    |apply (update_genesis_is_two_stage validate_fm vg_fm); apply vg_fm_weaker
    |apply (update_genesis_is_two_stage validate_ht validate_ht)
    |apply (update_genesis_is_two_stage validate_sv validate_sv)
    |apply (update_genesis_is_two_stage validate_tk validate_tk)]; auto.
Qed.
Print Assumptions genesis_two_stage_per_module.

Theorem farm_genesis_single_guard :
  let p := mkFm (mkCoin 1 (Some 5000)) 2 (Some 2000000000000000000) in
  vg_fm p = Ok /\ validate_fm p = Rej
  /\ init_genesis vg_fm validate_fm (fun _ => true) p fm_defaults = (Abort, fm_defaults).
Proof. exact vg_fm_single_guard. Qed.
Print Assumptions farm_genesis_single_guard.

(** Over histories: starting from the defaults (or from any state whose sets validate), after ANY
    history all five stored sets validate. *)
Theorem stored_params_always_validate :
  forall h : list pstep, ps_valid (run ps_init h).
Proof. intros h. apply run_keeps_valid. exact init_valid. Qed.
Print Assumptions stored_params_always_validate.

(** token: besides validating, the stored issue fee is always denominated in a REGISTERED SYMBOL -- the
    message handler rejects an unregistered symbol or a mere min unit ("fix: token MsgUpdateParams
    rejects an issue fee denominated in an unregistered symbol"), InitGenesis panics on it -- so the
    exported parameters can always be imported. *)
Theorem token_fee_denom_always_registered :
  forall h : list pstep, tk_fee_registered (ps_tk (run ps_init h)) = true.
Proof. intros h. apply run_keeps_fee_registered. vm_compute. reflexivity. Qed.
Print Assumptions token_fee_denom_always_registered.

Example c16_token_fee_denom_cases :
  let mk d := mkTk (Some 400000000000000000) (mkCoin d (Some 60000)) (Some 100000000000000000) true 0 in
  (* registered symbols: accepted by the authority's message and by genesis *)
  update_tk 0 (mk 5) tk_defaults = (Ok, mk 5) /\ update_tk 2 (mk 5) tk_defaults = (Ok, mk 5)
  (* a registered MIN UNIT only / an unregistered valid denom: validates, yet rejected (message) or panics (genesis) *)
  /\ validate_tk (mk 6) = Ok /\ update_tk 0 (mk 6) tk_defaults = (Rej, tk_defaults) /\ update_tk 2 (mk 6) tk_defaults = (Abort, tk_defaults)
  /\ validate_tk (mk 2) = Ok /\ update_tk 0 (mk 2) tk_defaults = (Rej, tk_defaults)
  (* an invalid denom: rejected by validation *)
  /\ update_tk 0 (mk 3) tk_defaults = (Rej, tk_defaults).
Proof. cbv zeta. repeat split; vm_compute; reflexivity. Qed.

Theorem stored_params_stay_valid :
  forall (h : list pstep) (s : pstate), ps_valid s -> ps_valid (run s h).
Proof. exact run_keeps_valid. Qed.
Print Assumptions stored_params_stay_valid.

(** ** A validated set never makes a handler or a blocker abort (per module, in every state) *)

(** htlc: begin blocker (time-based supply limits), CreateHTLC (incoming / outgoing asset transfer:
    swap-amount range, supply limit, time-based limit, fixed fee + minimum), ClaimHTLC incoming. *)
Theorem htlc_validated_params_never_abort :
  forall (p : ht_params) (o : ht_op) (r : res),
    validate_ht p = Ok -> ht_path p o = Some r -> res_outcome r <> Abort.
Proof. exact ht_no_panic. Qed.
Print Assumptions htlc_validated_params_never_abort.

(** service: BindService (restricted fee denom, QoS vs maximum timeout, minimum deposit = price x
    multiple vs the parameter), UpdateServiceBinding, EnableServiceBinding, RefundServiceDeposit
    (arbitration limit + complaint retrospect), CallService, UpdateRequestContext (timeout),
    RespondService (fee tax), the end blocker's slashing -- for non-negative prices and request fees /
    deposits below 2^255 (beyond that the same operation overflows under the defaults as well). *)
Theorem service_validated_params_never_abort :
  forall (p : sv_params) (o : sv_op) (r : res),
    validate_sv p = Ok -> sv_op_wf o -> sv_path p o = Some r -> res_outcome r <> Abort.
Proof. exact sv_no_panic. Qed.
Print Assumptions service_validated_params_never_abort.

(** coinswap: pool creation (fee split), both swap directions, unilateral add / remove, for the
    inputs ValidateBasic lets through (positive amounts, positive reserve of an existing pool). *)
Theorem coinswap_validated_params_never_abort :
  forall (p : cs_params) (o : cs_op) (r : res),
    validate_cs p = Ok -> cs_op_wf o -> cs_path p o = Some r -> res_outcome r <> Abort.
Proof. exact cs_no_panic. Qed.
Print Assumptions coinswap_validated_params_never_abort.

(** farm: CreatePool (category limit, fee split), CreatePoolWithCommunityPool (category limit). *)
Theorem farm_validated_params_never_abort :
  forall (p : fm_params) (o : fm_op) (r : res),
    validate_fm p = Ok -> fm_path p o = Some r -> res_outcome r <> Abort.
Proof. exact fm_no_panic. Qed.
Print Assumptions farm_validated_params_never_abort.

(** token: IssueToken / MintToken (issue fee by fee factor >= 1.00, mint-fee ratio, conversion to the
    fee token's min unit for EVERY scale 0..18, fee split), DeployERC20 / SwapToERC20 / SwapFromERC20
    (ERC20 switch, beacon). *)
Theorem token_validated_params_never_abort :
  forall (p : tk_params) (o : tk_op) (r : res),
    validate_tk p = Ok -> tk_op_wf o -> tk_path p o = Some r -> res_outcome r <> Abort.
Proof. exact tk_no_panic. Qed.
Print Assumptions token_validated_params_never_abort.

(** ** ... over histories: after ANY history of update attempts (by anybody, by message or genesis,
    valid or not, of any magnitude) and operations, every well-formed operation of the five modules
    ends in success or an ordinary rejection. *)
Theorem no_operation_aborts :
  forall (h : list pstep) (st : pstep) (r : res),
    step_wf st -> op_result (run ps_init h) st = Some r -> res_outcome r <> Abort.
Proof. exact no_operation_aborts_lemma. Qed.
Print Assumptions no_operation_aborts.

(** ** What was refuted at the pinned commit (before the repairs)
    [validate_*_pinned] restate the validators of the pinned code (tied to it by the check of rounds
    1-2; replays in [corpus/C16]).  Each witness was ACCEPTED there and makes a handler abort; each is
    rejected by the repaired validator. *)
Theorem coinswap_refuted_at_pinned_commit :
  validate_cs_pinned cs_big = Ok /\ cs_path cs_big (CsCreatePool 0 0 0 1 1) = Some (Panic 103)
  /\ validate_cs_pinned cs_bad_denom = Ok /\ cs_path cs_bad_denom (CsCreatePool 1000000 0 1000000 10 10) = Some (Panic 104)
  /\ validate_cs cs_big = Rej /\ validate_cs cs_bad_denom = Rej.
Proof. exact cs_pinned_refuted. Qed.
Print Assumptions coinswap_refuted_at_pinned_commit.

Theorem farm_refuted_at_pinned_commit :
  validate_fm_pinned fm_big = Ok /\ fm_path fm_big (FmCreatePool 1 0) = Some (Panic 203)
  /\ validate_fm_pinned fm_tax2 = Ok /\ fm_path fm_tax2 (FmCreatePool 1 1000000) = Some (Panic 206)
  /\ validate_fm fm_big = Rej /\ validate_fm fm_tax2 = Rej.
Proof. exact fm_pinned_refuted. Qed.
Print Assumptions farm_refuted_at_pinned_commit.

Theorem htlc_refuted_at_pinned_commit :
  validate_ht_pinned ht_big = Ok
  /\ ht_path ht_big (HtCreate 10 72339 1 2 61 (Some (0, 0, 0, 0)) 100000) = Some (Panic 318)
  /\ validate_ht ht_big = Rej.
Proof. exact ht_pinned_refuted. Qed.
Print Assumptions htlc_refuted_at_pinned_commit.

(** service: the set is (and stays) valid; the pinned HANDLER aborted, while the same bind under the
    default multiple was an ordinary rejection; the repaired handler rejects. *)
Theorem service_refuted_at_pinned_commit :
  validate_sv sv_big = Ok
  /\ sv_bind_pinned sv_big (2 ^ 200) 5000 3 1000000 = Panic 402
  /\ sv_bind_pinned sv_defaults (2 ^ 200) 5000 3 1000000 = Reject
  /\ sv_path sv_big (SvBind (2 ^ 200) 5000 3 1000000 1) = Some Reject.
Proof. repeat split; vm_compute; reflexivity. Qed.
Print Assumptions service_refuted_at_pinned_commit.

Theorem token_refuted_at_pinned_commit :
  validate_tk_pinned tk_big = Ok /\ tk_path tk_big (TkIssue P18 0 0) = Some (Panic 503)
  /\ validate_tk_pinned tk_bad_denom = Ok /\ tk_path tk_bad_denom (TkIssue P18 0 1000000) = Some (Panic 504)
  /\ validate_tk tk_big = Rej /\ validate_tk tk_bad_denom = Rej.
Proof. exact tk_pinned_refuted. Qed.
Print Assumptions token_refuted_at_pinned_commit.

(** ** The defaults validate ([Gen/ParamsDefaults.v] is regenerated from the DefaultParams() functions) *)
Theorem defaults_validate :
  validate_cs cs_defaults = Ok /\ validate_fm fm_defaults = Ok /\ validate_ht ht_defaults = Ok
  /\ validate_sv sv_defaults = Ok /\ validate_tk tk_defaults = Ok.
Proof. exact defaults_validate_lemma. Qed.
Print Assumptions defaults_validate.

(** ** The check and the theorems ([Params/Sound.v]) *)

(** The model's own observations pass the check: for every module, every way of submitting, every
    submitted set (valid or not, any magnitude) and every list of well-formed operations, the case
    built from the MODEL's outcomes evaluates to (-1, -1, 0) -- the check can never raise an alarm on
    code that agrees with the model. *)
Theorem model_passes_check :
  forall m : mspec, mspec_wf m -> check_case (model_case_of m) = (-1, -1, 0).
Proof. exact model_passes_check_lemma. Qed.
Print Assumptions model_passes_check.

(** On any case whose observations agree with the model at every step (first component = -1), whose
    operations are modelled ones and well formed, the property clauses evaluated on the
    implementation's own observations hold (second component = -1): no update by a non-authority, no
    invalid set stored, no abort under the accepted set. *)
Theorem agreement_implies_property :
  forall c : case, case_wf c -> fst (fst (check_case c)) = -1 -> snd (fst (check_case c)) = -1.
Proof. exact agreement_implies_property_lemma. Qed.
Print Assumptions agreement_implies_property.

(** ** Non-vacuity *)

(** the hypotheses are met by non-default sets, boundary values and operations that really succeed *)
Example c16_nonvacuous_coinswap :
  let p := mkCs (Some 999999999999999999) (mkCoin 2 (Some (2 ^ 255 - 1))) (Some 999999999999999999) (Some 0) in
  validate_cs p = Ok
  /\ cs_op_wf (CsSell 1000 1000000 1000000 5000)
  /\ cs_path p (CsSell 1000000000000000000000 1000000 1000000 1000000000000000000000) = Some Done
  /\ cs_path p (CsCreatePool 10 10 10 5 5) = Some Reject
  /\ cs_path (mkCs (Some 1) (mkCoin 1 (Some 1)) (Some 1) (Some 0)) (CsCreatePool 10 10 10 5 5) = Some Done.
Proof. cbv zeta. repeat split; vm_compute; try reflexivity; discriminate. Qed.

Example c16_nonvacuous_htlc :
  let a := mkAsset 10 (Some 1000) true 3600 (Some 1000) true 2 (Some (2 ^ 255)) (Some (2 ^ 255 - 1)) (Some (2 ^ 255)) 50 34560 in
  let b := mkAsset 11 (Some 1000) true 3600 (Some 1000) true 2 (Some 0) (Some 1) (Some 1000) 50 34560 in
  validate_ht [a; b] = Ok
  /\ ht_path [a; b] (HtCreate 11 1000 2 1 50 (Some (0, 0, 0, 0)) 0) = Some Done
  /\ ht_path [a; b] (HtCreate 11 1000 2 1 50 (Some (0, 0, 1, 0)) 0) = Some Reject
  /\ ht_path [a; b] (HtCreate 10 1000 1 2 50 (Some (0, 0, 5000, 0)) 5000) = Some Reject
  /\ ht_path [a; b] HtBegin = Some Done.
Proof. cbv zeta. repeat split; vm_compute; reflexivity. Qed.

Example c16_nonvacuous_service :
  let p := mkSv 1 (2 ^ 62) [] (Some 999999999999999999) (Some 1000000000000000000) 1 1 1 1 true in
  validate_sv p = Ok /\ sv_op_wf (SvBlocks [(1, 5000); (1, 5000); (2, 1)]) /\ sv_op_wf (SvBind (2 ^ 200) 5 1 10 1)
  /\ sv_path p (SvBlocks [(1, 5000); (1, 5000); (2, 1)]) = Some Done /\ sv_path p (SvRespond 100 100) = Some Done
  /\ sv_path p (SvBind (2 ^ 200) 5 1 10 1) = Some Reject
  /\ sv_path p (SvUpdate true 0 10 5 1 100) = Some Done
  /\ sv_path p (SvRefund false 10 1000 1002) = Some Done /\ sv_path p (SvRefund false 10 1000 1001) = Some Reject
  /\ sv_path p (SvUpdateCtx false 0 1 1 1 0 0) = Some Done.
Proof.
  cbv zeta. split; [vm_compute; reflexivity|]. split; [|split; [|repeat split; vm_compute; reflexivity]].
  - simpl. repeat apply Forall_cons; try apply Forall_nil; (split; [vm_compute; discriminate|vm_compute; reflexivity]).
  - simpl. vm_compute. discriminate.
Qed.

Example c16_nonvacuous_farm_token :
  let f := mkFm (mkCoin 1 (Some 0)) 0 (Some 999999999999999999) in
  let t := mkTk (Some 1000000000000000000) (mkCoin 1 (Some (2 ^ 195 - 1))) (Some 1000000000000000000) true 1 in
  validate_fm f = Ok /\ fm_path f (FmCreatePool 0 0) = Some Done /\ fm_path f (FmCreateCP 1) = Some Reject
  /\ validate_tk t = Ok /\ tk_op_wf (TkMint 1000000000000000000 18 5)
  /\ tk_path t (TkMint 1000000000000000000 18 5) = Some Reject
  /\ tk_path t (TkMint 1000000000000000000 18 (2 ^ 255)) = Some Done
  /\ tk_path t (TkDeploy false) = Some Done /\ tk_path t (TkSwapTo true 5 5) = Some Done.
Proof. cbv zeta. repeat split; vm_compute; try reflexivity; discriminate. Qed.

(** a history in which a stranger, an invalid set, a genesis import, an extreme set and the authority
    all try, and operations run in between: the stored coinswap set changes (only) at the
    authority's valid update *)
Example c16_nonvacuous_history :
  let p := mkCs (Some 500000000000000000) (mkCoin 1 (Some 7)) (Some 1) (Some 0) in
  let bad := mkCs (Some 0) (mkCoin 1 (Some 7)) (Some 1) (Some 0) in
  let h := [UpdCS 1 p; OpCS (CsSell 5 100 100 5); UpdCS 0 bad; UpdCS 2 bad; UpdCS 0 cs_big; UpdFM 0 fm_big; UpdCS 0 p; OpFM (FmCreatePool 1 9)] in
  Forall step_wf h
  /\ ps_cs (run ps_init (firstn 6 h)) = cs_defaults
  /\ ps_cs (run ps_init h) = p
  /\ ps_fm (run ps_init h) = fm_defaults.
Proof.
  cbv zeta. split; [|repeat split; vm_compute; reflexivity].
  repeat apply Forall_cons; try apply Forall_nil; simpl; try exact I; lia.
Qed.

Example c16_nonvacuous_case :
  let p := mkCs (Some 500000000000000000) (mkCoin 1 (Some 7)) (Some 1) (Some 0) in
  let c := CaseCS (mkCase 0 p 0 0 cs_defaults p
                     [(CsCreatePool 100 100 100 10 10, 0, CsCreatePool 100 100 100 10 10, 1);
                      (CsSell 5 100 100 5, 0, CsSell 5 100 100 5, 0);
                      (CsBuy 200 100 100 5, 1, CsBuy 200 100 100 5, 1)]) in
  case_wf c /\ check_case c = (-1, -1, 0)
  /\ c = model_case_of (MCS 0 p [CsCreatePool 100 100 100 10 10; CsSell 5 100 100 5; CsBuy 200 100 100 5]).
Proof.
  cbv zeta. split; [|split; vm_compute; reflexivity].
  simpl. repeat apply Forall_cons; try apply Forall_nil; (split; [simpl; try exact I; lia|vm_compute; discriminate]).
Qed.
