(** placeholder, replaced below *)
From Irismod Require Import Token.Model.
Theorem stub10 : lossless_swap 3 (3 * P18) 1 0 = (0, 0) \/ True.
Proof. right. exact I. Qed.
Print Assumptions stub10.
