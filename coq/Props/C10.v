(** * C10 — Token: ERC20 and fee-token conversions neither create nor lose value.

    Statements only; each is closed by [exact] of a lemma of [Token/ProofsLossLess.v] (the kernel
    [LossLessSwap], restated in [Token/LossLess.v] as the chain of [LegacyDec] operations it is) or
    of [Token/ProofsConv.v] (the conversion messages over the modelled bank and the ERC20 ledger of
    the bound contracts).  Amounts are unbounded integers: the theorems hold for every offered
    amount (in particular up to 2^128), every positive ratio with 18 decimals and every pair of
    scales 0..18. *)
From Irismod Require Import Token.Model Token.Check Token.ProofsBank Token.ProofsLossLess Token.Proofs Token.ProofsConv Token.Sound Token.Passes Token.PassesConv.

(** ** the kernel *)

(** Never burns more than was offered (and never a negative amount); never mints a negative amount. *)
Theorem lossless_never_burns_more_than_offered :
  forall input ratio si so,
    0 <= input -> 0 < ratio -> scales_ok si so ->
    let '(b, m) := lossless_swap input ratio si so in 0 <= b <= input /\ 0 <= m.
Proof. exact lossless_range. Qed.
Print Assumptions lossless_never_burns_more_than_offered.

(** Never mints more than the burned amount is worth: in exact rationals
    [m / 10^scale_out <= (b / 10^scale_in) * (ratio / 10^18)]. *)
Theorem lossless_mint_le_worth :
  forall input ratio si so,
    0 <= input -> 0 < ratio -> scales_ok si so ->
    let '(b, m) := lossless_swap input ratio si so in m * pow10 si * P18 <= b * ratio * pow10 so.
Proof. exact lossless_worth. Qed.
Print Assumptions lossless_mint_le_worth.

(** At ratio 1 the conversion is exact, and the dust that stays with the sender is less than one
    unit of the coarser output token. *)
Theorem lossless_ratio_one_exact :
  forall input si so,
    0 <= input -> scales_ok si so ->
    let '(b, m) := lossless_swap input P18 si so in
    b * pow10 so = m * pow10 si /\ input - b < pow10 (Z.max 0 (si - so)).
Proof. exact lossless_exact. Qed.
Print Assumptions lossless_ratio_one_exact.

(** The function of the pinned commit (two rounding multiplications; a give-back that ignores
    the ratio) violated both: [LossLessSwap(2499999999999999999, 0.4, 18, 0)] burned everything
    and minted 1 for an input worth 0.9999999999999999996, and [LossLessSwap(3, 3, 1, 0)] returned
    the burn amount -6.  [fix: f79da04]; [lossless_swap] above is the fixed function. *)
Theorem lossless_mint_le_worth_refuted_at_pinned_commit :
  exists input ratio si so,
    0 <= input /\ 0 < ratio /\ scales_ok si so /\
    let '(b, m) := lossless_swap_v0 input ratio si so in ~ mint_le_worth b m ratio si so.
Proof. exact lossless_v0_mints_more_than_worth. Qed.
Print Assumptions lossless_mint_le_worth_refuted_at_pinned_commit.

Theorem lossless_never_burns_negative_refuted_at_pinned_commit :
  exists input ratio si so,
    0 <= input /\ 0 < ratio /\ scales_ok si so /\ fst (lossless_swap_v0 input ratio si so) < 0.
Proof. exact lossless_v0_negative_burn. Qed.
Print Assumptions lossless_never_burns_negative_refuted_at_pinned_commit.

(** The decidable clauses the stream "lossless" evaluates on the IMPLEMENTATION's results
    ([check_lossless] of Token/Check.v: agreement with the model, burn in range, mint within worth,
    ratio-1 exactness) all pass on the model's own result, for every admissible input: that stream
    alarms only if the Go function differs from [lossless_swap] or breaks a clause. *)
Theorem lossless_checker_quiet_on_model :
  forall input ratio si so,
    0 <= input -> 0 < ratio -> scales_ok si so ->
    check_lossless (input, ratio, si, so, lossless_swap input ratio si so) = (-1, -1, 0).
Proof. exact check_lossless_quiet_on_model. Qed.
Print Assumptions lossless_checker_quiet_on_model.

(** ** conversion messages *)

(** Swap to ERC20: exactly [amt] leaves the native supply and the sender's balance, exactly [amt]
    is credited to the receiver in the bound contract, the contract's total grows by exactly
    [amt], and nothing else changes on either side. *)
Theorem to_erc20_conserves :
  forall s sender receiver denom amt s',
    exec s (ToErc20 sender receiver denom amt) = ROk s' -> NoDup (keys (erc20 s)) ->
    exists t, token_by_minunit s denom = Some t /\ t_contract t <> 0 /\ 0 < amt /\
      let c := t_contract t in
      (forall d, supply_of s' d = supply_of s d - ind (eqb d denom) amt)
      /\ (forall a d, balance s' a d = balance s a d - ind (eqb (a, d) (sender, denom)) amt)
      /\ (forall c' h, erc20_bal s' c' h = erc20_bal s c' h + ind (eqb (c', h) (c, receiver)) amt)
      /\ (forall c', erc20_total s' c' = erc20_total s c' + ind (c =? c') amt).
Proof. exact to_erc20_effect. Qed.
Print Assumptions to_erc20_conserves.

(** Swap from ERC20: the opposite, and only if the sender holds that much in the contract. *)
Theorem from_erc20_conserves :
  forall s sender receiver denom amt s',
    exec s (FromErc20 sender receiver denom amt) = ROk s' -> NoDup (keys (erc20 s)) ->
    exists t, token_by_minunit s denom = Some t /\ t_contract t <> 0 /\ 0 < amt /\
      let c := t_contract t in
      amt <= erc20_bal s c sender
      /\ (forall d, supply_of s' d = supply_of s d + ind (eqb d denom) amt)
      /\ (forall a d, balance s' a d = balance s a d + ind (eqb (a, d) (receiver, denom)) amt)
      /\ (forall c' h, erc20_bal s' c' h = erc20_bal s c' h - ind (eqb (c', h) (c, sender)) amt)
      /\ (forall c', erc20_total s' c' = erc20_total s c' - ind (c =? c') amt).
Proof. exact from_erc20_effect. Qed.
Print Assumptions from_erc20_conserves.

(** The swap-to-native hook (keeper/evm_hook.go): when the bound contract [c] has burned [amt] of
    [from]'s ERC20 balance and emitted SwapToNative(from, to, amt) — the contract's own behaviour,
    simulated by the harness — the hook mints exactly [amt] of the token filed under [c] in the
    contract index to [to], and nothing else changes. *)
Theorem hook_to_native_conserves :
  forall s c from to amt s',
    exec s (HookToNative c from to amt) = ROk s' -> NoDup (keys (erc20 s)) ->
    exists sym t, get c (contracts s) = Some sym /\ get sym (tokens s) = Some t /\ 0 < amt /\ amt <= erc20_bal s c from /\
      let denom := t_minunit t in
      (forall d, supply_of s' d = supply_of s d + ind (eqb d denom) amt)
      /\ (forall a d, balance s' a d = balance s a d + ind (eqb (a, d) (to, denom)) amt)
      /\ (forall c' h, erc20_bal s' c' h = erc20_bal s c' h - ind (eqb (c', h) (c, from)) amt)
      /\ (forall c', erc20_total s' c' = erc20_total s c' - ind (c =? c') amt).
Proof. exact hook_to_native_effect. Qed.
Print Assumptions hook_to_native_conserves.

(** ONE EVM transaction whose receipt carries several SwapToNative events (a batching contract calling
    swapToNative repeatedly, on the same or on different bound contracts): the hook processes EVERY
    event — a successful transaction is exactly the run of its events, one after the other — so for
    every token bound to a contract native supply + ERC20 supply is what it was; and any failing event
    fails the whole transaction ([do_hook_multi] is a chain of [bind]s). *)
Theorem hook_multi_is_the_run_of_its_events :
  forall s evs s', exec s (HookMulti evs) = ROk s' -> run s (map ev_msg evs) = s'.
Proof. exact hook_multi_exec_run. Qed.
Print Assumptions hook_multi_is_the_run_of_its_events.

Theorem hook_multi_conserves :
  forall s evs s' d t,
    RegInv s -> exec s (HookMulti evs) = ROk s' -> token_by_minunit s d = Some t -> t_contract t <> 0 ->
    token_by_minunit s' d = Some t
    /\ supply_of s' d + erc20_total s' (t_contract t) = supply_of s d + erc20_total s (t_contract t).
Proof. exact hook_multi_conserve. Qed.
Print Assumptions hook_multi_conserves.

(** A failed message (conversion or any other) changes neither side.  [step] is the transactional
    semantics of a message: effects of a failing handler are discarded, which is what the cached
    multistore does for the bank and what a journalled EVM does for the contract (assumption
    "transactional EVM"; the correspondence check observes both sides after every failure). *)
Theorem failed_conversion_changes_neither_side :
  forall s m, step_code s m <> 0 -> step s m = s.
Proof. exact failed_step_changes_nothing. Qed.
Print Assumptions failed_conversion_changes_neither_side.

(** The invariant behind the next theorem (consistent registry, contract ids handed out once and
    indexed to the token that carries them, one ledger entry per holder) holds at genesis and after every history of arbitrary messages. *)
Theorem registry_invariant_reachable :
  forall p balances stake_supply reg (ms : list msg), RegInv (run (genesis p balances stake_supply reg) ms).
Proof. intros. apply run_RegInv, genesis_RegInv. Qed.
Print Assumptions registry_invariant_reachable.

(** Sequences mixing conversions in both directions — messages and swap-to-native hook calls —
    with ERC20 deployments for other tokens (existing or IBC-style new ones) and implementation
    upgrades ([conversion] = ToErc20 / FromErc20 / HookToNative / HookMulti / Deploy / UpgradeErc20 / EvmMode),
    successful and failed, for any tokens, by any senders to any receivers, with the EVM double
    misbehaving in any way: for every token bound to a contract, native supply + ERC20 supply is
    what it was. *)
Theorem conversions_conserve_total :
  forall (ms : list msg) (s : state) (d : name) (t : token),
    RegInv s -> forallb conversion ms = true -> token_by_minunit s d = Some t -> t_contract t <> 0 ->
    token_by_minunit (run s ms) d = Some t
    /\ supply_of (run s ms) d + erc20_total (run s ms) (t_contract t) = supply_of s d + erc20_total s (t_contract t).
Proof. exact conversions_conserve_reachable. Qed.
Print Assumptions conversions_conserve_total.

(** ** the fee-token swap message *)

(** What a successful swap does to both ledgers: exactly the kernel's [b] leaves the sender and
    the supply of the fee token, exactly its [m] is minted to the recipient; nothing else moves. *)
Theorem swapfee_moves_exactly_the_kernel_amounts :
  forall s sender receiver denom amt s',
    IdInv s -> exec s (SwapFee sender receiver denom amt) = ROk s' ->
    exists tb target ratio tm b m,
      let recipient := if receiver =? -2 then sender else receiver in
      token_by_minunit s denom = Some tb /\ get denom (registry s) = Some (target, ratio) /\ token_by_minunit s target = Some tm
      /\ lossless_swap amt ratio (t_scale tb) (t_scale tm) = (b, m) /\ 0 <= b /\ 0 <= m /\ 0 < amt
      /\ (forall d, supply_of s' d = supply_of s d - ind (eqb d denom) b + ind (eqb d target) m)
      /\ (forall a d, balance s' a d = balance s a d - ind (eqb (a, d) (sender, denom)) b + ind (eqb (a, d) (recipient, target)) m).
Proof. exact swapfee_effect. Qed.
Print Assumptions swapfee_moves_exactly_the_kernel_amounts.

(** Hence, for a registry with positive ratios and tokens with scales 0..18: a swap never burns
    more than offered, never mints more than the burned amount is worth, and at ratio 1 is exact
    with the dust left to the sender — worth being measured with the scales of the tokens whose MIN
    UNITS are the burned and the minted denom (a token that merely carries the minted denom as its
    SYMBOL plays no part: [fix: token fee-token swap resolves its target as a min unit]). *)
Theorem swapfee_never_creates_value :
  forall s sender receiver denom amt s',
    IdInv s -> exec s (SwapFee sender receiver denom amt) = ROk s' ->
    (forall sym t, get sym (tokens s) = Some t -> 0 <= t_scale t <= 18) ->
    (forall d tr, get d (registry s) = Some tr -> 0 < snd tr) ->
    exists target ratio tb tm b m,
      let si := t_scale tb in let so := t_scale tm in
      get denom (registry s) = Some (target, ratio)
      /\ token_by_minunit s denom = Some tb /\ token_by_minunit s target = Some tm
      /\ t_minunit tb = denom /\ t_minunit tm = target
      /\ supply_of s' denom = supply_of s denom - b + ind (eqb denom target) m
      /\ supply_of s' target = supply_of s target - ind (eqb target denom) b + m
      /\ 0 <= b <= amt /\ 0 <= m /\ mint_le_worth b m ratio si so
      /\ (ratio = P18 -> b * pow10 so = m * pow10 si /\ amt - b < pow10 (Z.max 0 (si - so))).
Proof. exact swapfee_value. Qed.
Print Assumptions swapfee_never_creates_value.

(** Symbols and min units are separate name spaces in the code: a reachable state in which the
    symbol-first lookup (keeper GetToken) of a coin denom answers another token — other scale, other
    ERC20 contract — than the min-unit lookup.  Every conversion above resolves its coin denom by MIN
    UNIT ([token_by_minunit]); the fee-token swap resolved its target symbol-first before its [fix:]
    and minted with the wrong token's scale. *)
Theorem symbol_first_lookup_picks_another_token :
  exists p ms d ta tb,
    let s := run (genesis p [((0, STAKE), 1000000); ((1, STAKE), 1000000)] 2000000 []) ms in
    RegInv s /\ get_token s d = Some ta /\ token_by_minunit s d = Some tb
    /\ t_scale ta <> t_scale tb /\ t_contract ta <> 0 /\ t_contract tb <> 0 /\ t_contract ta <> t_contract tb.
Proof. exact symbol_first_lookup_differs. Qed.
Print Assumptions symbol_first_lookup_picks_another_token.

(** ** the checker and the model *)

(** Every model trace passes the C10 checker of the stream "erc20": for every history of ARBITRARY
    messages of the model (issue, edit, mint, burn, transfer-owner, fee-token swap, ERC20 deployment
    and upgrade, conversions in both directions, swap-to-native hook, parameter updates, the EVM
    double switched to any mode) from a genesis whose swap registry has positive ratios, the function
    [check_case_C10] that the check evaluates on IMPLEMENTATION traces, fed the model's own
    observations, answers (-1, -1, 0): correspondence and every clause (to / from ERC20 and hook
    conservation with everything else unchanged, the three kernel clauses on the fee-token swap, the
    administrative messages, failed messages) pass.  With [lossless_checker_quiet_on_model] for the
    pure stream, the C10 check alarms only where the implementation's trace differs from the model. *)
Theorem model_passes_check_C10 :
  forall p balances ss reg (ms : list msg),
    NoDup (keys balances) -> (forall d tr, get d reg = Some tr -> 0 < snd tr) ->
    let s0 := genesis p balances ss reg in
    check_case_C10 (mkCase p balances ss reg (obs_of s0 0) (model_trace s0 ms)) = (-1, -1, 0).
Proof. exact model_passes_check_C10_lemma. Qed.
Print Assumptions model_passes_check_C10.

Example model_passes_check_C10_hypotheses :
  NoDup (keys [((0, STAKE), 1000000); ((1, STAKE), 1000000)])
  /\ (forall d tr, get d [((6, 4), ((7, 4), 500000000000000000))] = Some tr -> 0 < snd tr).
Proof.
  split; [repeat constructor; simpl; intuition discriminate|].
  intros d tr. simpl. destruct (eq_dec d (6, 4)); [|discriminate]. intros H. inversion H. simpl. lia.
Qed.

(** ** the hypotheses are satisfiable by non-trivial inputs and histories *)
Example c10_kernel_nonvacuous :
  lossless_swap 2499999999999999999 400000000000000000 18 0 = (2, 0)                 (* v0: (all, 1) *)
  /\ lossless_swap 3 (3 * P18) 1 0 = (0, 0)                                           (* v0: (-6, 0) *)
  /\ lossless_swap 1234567 P18 6 0 = (1000000, 1)                                     (* dust 234567 stays *)
  /\ lossless_swap 7 (P18 / 2) 0 0 = (6, 3)                                           (* the odd unit stays *)
  /\ lossless_swap 5 (7 * P18 / 2) 0 6 = (5, 17500000)
  /\ lossless_swap (2 ^ 128) 333333333333333333 18 6 = (340282366920938463463374604920938463464, 113427455640312821041030746).
Proof. repeat split; vm_compute; reflexivity. Qed.

Example c10_history_nonvacuous :
  let p := mkParams 0 0 1 STAKE true true in
  let s0 := genesis p [((0, STAKE), 1000000); ((1, STAKE), 1000000)] 2000000 [((6, 4), ((7, 4), 500000000000000000))] in
  let ms0 := [ Issue 0 (0, 3) (6, 4) 1 6 100 0 true; Issue 1 (1, 3) (7, 4) 1 0 100 0 true;
               Deploy GOV 1 (0, 3) (6, 4) 6; Deploy GOV 1 (1, 3) (7, 4) 0 ] in
  let conv := [ ToErc20 0 1 (6, 4) 40000000;          (* ok *)
                ToErc20 0 200 (6, 4) 60000001;        (* more than the sender has: fails *)
                FromErc20 1 1 (6, 4) 15000000;        (* ok *)
                FromErc20 0 0 (6, 4) 1;               (* the sender holds no ERC20: fails *)
                EvmMode 1; ToErc20 0 0 (6, 4) 5;      (* the contract reverts: fails after the native burn *)
                EvmMode 0; FromErc20 1 101 (6, 4) 5;  (* blocked receiver: fails after the ERC20 burn *)
                ToErc20 1 1 (7, 4) 30;
                HookToNative 1 1 0 1000000;           (* holder 1 swaps 1 unit back to actor 0 through the hook: ok *)
                HookToNative 1 1 101 5;               (* blocked receiver: fails after the contract's burn *)
                HookMulti [(1, 1, 0, 7); (2, 1, 1, 3); (1, 1, 1, 11)];   (* three events, two contracts, one transaction: ok *)
                HookMulti [(1, 1, 0, 7); (2, 1, 1, 28)] ] in  (* the second event exceeds the holder's balance: all of it fails *)
  let s1 := run s0 ms0 in
  let s2 := run s1 conv in
  forallb conversion conv = true
  /\ codes s0 ms0 = [0; 0; 0; 0] /\ codes s1 conv = [0; 1; 0; 1; 0; 1; 0; 1; 0; 0; 1; 0; 1]
  /\ supply_of s1 (6, 4) = 100000000 /\ supply_of s2 (6, 4) = 76000018 /\ erc20_total s2 1 = 23999982
  /\ supply_of s2 (7, 4) = 73 /\ erc20_total s2 2 = 27
  /\ codes s2 [SwapFee 0 (-2) (6, 4) 2500001] = [0]
  /\ supply_of (run s2 [SwapFee 0 (-2) (6, 4) 2500001]) (6, 4) = 76000018 - 2000000
  /\ supply_of (run s2 [SwapFee 0 (-2) (6, 4) 2500001]) (7, 4) = 73 + 1.
Proof. cbv zeta. repeat split; vm_compute; reflexivity. Qed.
