(** * C18 — Random: each request is fulfilled once, on time, reproducibly, within [0,1). *)
From Irismod Require Import Random.Model Random.Proofs.

Theorem value_in_unit_interval :
  forall sha t a c seed x, get_rand sha t a c seed = Some x -> 0 <= x < precision.
Proof. exact get_rand_range. Qed.
Print Assumptions value_in_unit_interval.
