(** * C18 — Random: each request is fulfilled once, on time, reproducibly, within [0,1).

    Only statements, each closed by [exact] of a lemma of [Random/Proofs.v], with
    [Print Assumptions] beneath.

    Everything is stated for an ARBITRARY hash function [sha] (SHA-256 is an oracle: the request
    id is its pre-image (height, requester); the four digests of the PRNG are [sha] of the four
    inputs rng.go hashes) and for ARBITRARY histories: lists of request transactions
    ([Req]), block boundaries with a freely chosen header ([Begin t a started]: unix time,
    app hash, and which service contexts the service module agreed to start) and batches of
    callbacks from the service module ([Calls]).

    [sane P used steps] is the hypothesis of the property: no block has unix time 0 (the PRNG
    divides by it) and no requester in the set [P] has two well-formed requests in one block
    (the id scheme's stated limit: the id is derived from height and requester only).  The
    theorems about one request need it for that request's own requester only ([P c = true];
    take [P := Z.eqb c]); the theorems about values need no requester at all
    ([P := fun _ => false] leaves "no block has time 0").
    [ctx_unused r0 steps]: the service module never hands the service context of the oracle
    request [r0] to another request (context ids are hashes of a counter in the service module). *)
From Irismod Require Import Random.Model Random.Spec Random.Check Random.Proofs Random.Sound Random.Pass Random.PassAll Random.PassOracle.

(** ** the value: a decimal in [0,1) with exactly 20 fractional digits

    For every hash function and all inputs the numerator is in [0, 10^20), and the stored
    string is "0." followed by exactly 20 decimal digits whose value is that numerator: the
    number is numerator / 10^20, in [0,1). *)
Theorem value_in_unit_interval_20_digits :
  forall (sha : hin -> Z) (t a c : Z) (seed : option Z),
    let x := rand_val sha t a c seed in
    0 <= x < 10 ^ 20
    /\ exists ds, render x = 48 :: 46 :: ds /\ length ds = 20%nat
                  /\ Forall (fun ch => 48 <= ch <= 57) ds /\ undigits ds 0 = x.
Proof.
  intros sha t a c seed x. split; [exact (rand_val_range sha t a c seed)|].
  exact (render_value x (rand_val_range sha t a c seed)).
Qed.
Print Assumptions value_in_unit_interval_20_digits.

(** ... and so is every result that can be read in any reachable state, whichever request wrote it *)
Theorem every_stored_result_is_a_20_digit_unit_decimal :
  forall (sha : hin -> Z) (P : Z -> bool) (steps : list step) (id : rid) (txh hh x : Z),
    sane P [] steps -> query_random (run sha init steps) id = Some (txh, hh, x) ->
    0 <= x < precision
    /\ exists ds, render x = 48 :: 46 :: ds /\ length ds = 20%nat
                  /\ Forall (fun ch => 48 <= ch <= 57) ds /\ undigits ds 0 = x.
Proof. exact stored_results_lemma. Qed.
Print Assumptions every_stored_result_is_a_20_digit_unit_decimal.

(** ** a plain request is fulfilled exactly once, in the block following height + interval

    Whatever happened before ([pre]) and whatever happens after ([post]) the accepted request
    [Req c n false ..] made at height [h] (with [h + n] a height): as long as [post] holds at most
    [n] block boundaries the request sits in the pending queue under [h + n], has no result and
    no fulfilment; from the [(n+1)]-th block boundary on - i.e. from the begin block of height
    [h + n + 1], whose header is [(t, a)] - it is gone from the queue, the result read back by
    its id is (request tx hash, h + n, PRNG(t, a, requester)), and the history contains exactly
    one fulfilment under its id: that one. *)
Theorem fulfilled_exactly_once_on_time :
  forall (sha : hin -> Z) (P : Z -> bool) (pre post : list step) (c n : Z) (capok : bool) (txh : Z)
         (svc : option Z),
    let s := run sha init pre in
    let h := height s in
    let id := (h, c) in
    let steps := pre ++ Req c n false capok txh svc :: post in
    sane P [] steps -> P c = true -> req_ok c capok false svc = true -> 0 <= n -> h + n < two63 ->
    let fin := run sha init steps in
    let mine := filter (fun ev => eqb (e_rid ev) id) (events sha init steps) in
    match nth_begin (Z.to_nat n) post with
    | None => pending fin id = [h + n] /\ query_random fin id = None /\ mine = []
    | Some (t, a) =>
        let x := rand_val sha t a c None in
        pending fin id = [] /\ query_random fin id = Some (txh, h + n, x)
        /\ mine = [mkEv (h + n + 1) t a id txh None x]
    end.
Proof.
  intros sha P pre post c n capok txh svc s h id steps Hs HP Hok Hn Hd.
  exact (plain_lemma sha P pre post c n false capok txh svc Hs HP Hok Hn Hd
                     (fun H => False_ind _ (Bool.diff_false_true H)) eq_refl).
Qed.
Print Assumptions fulfilled_exactly_once_on_time.

(** ** every request, plain or oracle-seeded, follows the four-phase automaton [spec_step]

    [Pending] (in the queue under height + interval, no result) until the begin block following
    height + interval; there a plain request becomes [Fulfilled], an oracle request becomes
    [Started] if the service module started its context (the request is then stored under the
    context id) and [Dropped] otherwise; a [Started] request becomes [Fulfilled] by the callback
    carrying a seed for its context - under the header of the block in which the callback
    happens -, [Dropped] by a callback reporting failure / an unknown context / a state change,
    and stays [Started] on a response whose body is malformed and on callbacks for other
    contexts.  [Fulfilled] and [Dropped] are final.  What the queries show is a function of the
    phase, and the fulfilments logged under the id are exactly the entry into [Fulfilled]. *)
Theorem request_life_cycle :
  forall (sha : hin -> Z) (P : Z -> bool) (pre post : list step) (c n : Z) (orc capok : bool) (txh : Z)
         (svc : option Z),
    let s := run sha init pre in
    let r0 := new_req s c txh orc svc in
    let d := height s + n in
    let steps := pre ++ Req c n orc capok txh svc :: post in
    sane P [] steps -> P c = true -> req_ok c capok orc svc = true -> 0 <= n -> d < two63 ->
    (orc = true -> ctx_unused r0 (pre ++ post)) ->
    let ph := spec_run sha r0 d (enq s n r0) Pending post in
    let fin := run sha init steps in
    pending fin (req_id r0) = match ph with Pending => [d] | _ => [] end
    /\ query_random fin (req_id r0) = match ph with Fulfilled ev => Some (result_of ev) | _ => None end
    /\ match ph with
       | Started => get (q_ctx r0) (oracle fin) = Some r0
       | _ => forall x r, In (x, r) (oracle fin) -> req_id r <> req_id r0
       end
    /\ filter (is_i r0) (events sha init steps) = match ph with Fulfilled ev => [ev] | _ => [] end.
Proof. exact life_view_lemma. Qed.
Print Assumptions request_life_cycle.

(** the automaton's transitions, spelled out (oracle path) *)
Theorem oracle_path_due_block :
  forall (sha : hin -> Z) (r0 : request) (d : Z) (s : state) (t a : Z) (started : list Z),
    height s = d ->
    spec_step sha r0 d s Pending (Begin t a started) =
    if q_oracle r0 then (if existsb (Z.eqb (q_ctx r0)) started then Started else Dropped)
    else Fulfilled (mkEv (d + 1) t a (req_id r0) (q_txh r0) None (rand_val sha t a (q_consumer r0) None)).
Proof. exact spec_due_block. Qed.
Print Assumptions oracle_path_due_block.

Theorem oracle_path_not_due :
  forall (sha : hin -> Z) (r0 : request) (d : Z) (s : state) (st : step),
    height s <> d -> spec_step sha r0 d s Pending st = Pending.
Proof. exact spec_not_due. Qed.
Print Assumptions oracle_path_not_due.

Theorem oracle_path_seed_fulfils :
  forall (sha : hin -> Z) (r0 : request) (hh tt aa seed : Z),
    spec_call sha r0 hh tt aa Started (CallResp (q_ctx r0) (CbSeed seed)) =
    Fulfilled (mkEv hh tt aa (req_id r0) (q_txh r0) (Some seed)
                    (rand_val sha tt aa (q_consumer r0) (Some seed))).
Proof. exact spec_seed_fulfils. Qed.
Print Assumptions oracle_path_seed_fulfils.

Theorem oracle_path_failure_drops :
  forall (sha : hin -> Z) (r0 : request) (hh tt aa : Z),
    spec_call sha r0 hh tt aa Started (CallResp (q_ctx r0) CbFail) = Dropped
    /\ spec_call sha r0 hh tt aa Started (CallResp (q_ctx r0) CbNoCtx) = Dropped
    /\ spec_call sha r0 hh tt aa Started (CallState (q_ctx r0) true) = Dropped.
Proof. exact spec_failure_drops. Qed.
Print Assumptions oracle_path_failure_drops.

Theorem oracle_path_other_contexts_ignored :
  forall (sha : hin -> Z) (r0 : request) (hh tt aa : Z) (cl : call),
    match cl with CallResp x _ | CallState x _ => x <> q_ctx r0 end ->
    spec_call sha r0 hh tt aa Started cl = Started.
Proof. exact spec_other_context_ignored. Qed.
Print Assumptions oracle_path_other_contexts_ignored.

Theorem fulfilled_and_dropped_are_final :
  forall (sha : hin -> Z) (r0 : request) (d : Z) (steps : list step) (s : state),
    (forall ev, spec_run sha r0 d s (Fulfilled ev) steps = Fulfilled ev)
    /\ spec_run sha r0 d s Dropped steps = Dropped.
Proof.
  intros sha r0 d steps s. split.
  - intros ev. exact (spec_run_fulfilled sha r0 d steps s ev).
  - exact (spec_run_dropped sha r0 d steps s).
Qed.
Print Assumptions fulfilled_and_dropped_are_final.

(** ** no request, plain or oracle-seeded, is ever fulfilled twice *)
Theorem fulfilled_at_most_once :
  forall (sha : hin -> Z) (P : Z -> bool) (pre post : list step) (c n : Z) (orc capok : bool) (txh : Z)
         (svc : option Z),
    let s := run sha init pre in
    let r0 := new_req s c txh orc svc in
    let steps := pre ++ Req c n orc capok txh svc :: post in
    sane P [] steps -> P c = true -> req_ok c capok orc svc = true -> 0 <= n -> height s + n < two63 ->
    (orc = true -> ctx_unused r0 (pre ++ post)) ->
    (length (filter (is_i r0) (events sha init steps)) <= 1)%nat.
Proof. exact at_most_once_lemma. Qed.
Print Assumptions fulfilled_at_most_once.

(** ** once written, the result under an id never changes

    If the result of a request can be read after [post], the same result is read after every
    continuation [post ++ post']. *)
Theorem read_back_unchanged :
  forall (sha : hin -> Z) (P : Z -> bool) (pre post post' : list step) (c n : Z) (orc capok : bool)
         (txh : Z) (svc : option Z) (v : result),
    let s := run sha init pre in
    let r0 := new_req s c txh orc svc in
    let rq := Req c n orc capok txh svc in
    sane P [] (pre ++ rq :: post ++ post') -> P c = true ->
    req_ok c capok orc svc = true -> 0 <= n -> height s + n < two63 ->
    (orc = true -> ctx_unused r0 (pre ++ post ++ post')) ->
    query_random (run sha init (pre ++ rq :: post)) (req_id r0) = Some v ->
    query_random (run sha init (pre ++ rq :: post ++ post')) (req_id r0) = Some v.
Proof. exact read_back_lemma. Qed.
Print Assumptions read_back_unchanged.

(** ** the value depends only on (block time, app hash, requester, oracle seed)

    Every fulfilment in every history carries the header (time, app hash) of the block in
    which it happens, and its value is the function [rand_val sha] of exactly these four; so
    two fulfilments - in one history or in two unrelated ones - that agree on the four have
    the same value. *)
Theorem value_is_function_of_its_inputs :
  forall (sha : hin -> Z) (P : Z -> bool) (steps : list step) (ev : event),
    sane P [] steps -> In ev (events sha init steps) ->
    e_time ev <> 0
    /\ e_val ev = rand_val sha (e_time ev) (e_app ev) (snd (e_rid ev)) (e_seed ev)
    /\ 0 <= e_val ev < precision.
Proof. exact fulfilment_value_lemma. Qed.
Print Assumptions value_is_function_of_its_inputs.

Theorem value_depends_only_on :
  forall (sha : hin -> Z) (P : Z -> bool) (steps1 steps2 : list step) (ev1 ev2 : event),
    sane P [] steps1 -> sane P [] steps2 ->
    In ev1 (events sha init steps1) -> In ev2 (events sha init steps2) ->
    e_time ev1 = e_time ev2 -> e_app ev1 = e_app ev2 ->
    snd (e_rid ev1) = snd (e_rid ev2) -> e_seed ev1 = e_seed ev2 ->
    e_val ev1 = e_val ev2.
Proof. exact same_inputs_same_value_lemma. Qed.
Print Assumptions value_depends_only_on.

(** several requests falling due at one height: all fulfilments of one block carry the same
    header, and each value is computed from its OWN requester's address (and its own oracle
    seed) - no number is shared between the requests of a block *)
Theorem same_block_values_from_own_addresses :
  forall (sha : hin -> Z) (P : Z -> bool) (steps : list step) (ev1 ev2 : event),
    sane P [] steps -> In ev1 (events sha init steps) -> In ev2 (events sha init steps) ->
    e_block ev1 = e_block ev2 ->
    let t := e_time ev1 in let a := e_app ev1 in
    e_time ev2 = t /\ e_app ev2 = a
    /\ e_val ev1 = rand_val sha t a (snd (e_rid ev1)) (e_seed ev1)
    /\ e_val ev2 = rand_val sha t a (snd (e_rid ev2)) (e_seed ev2).
Proof. exact same_block_own_address_lemma. Qed.
Print Assumptions same_block_values_from_own_addresses.

(** a fulfilment's header is the header of the block it happens in *)
Theorem fulfilment_carries_its_block_header :
  forall (sha : hin -> Z) (P : Z -> bool) (used : list Z) (s : state) (st : step) (ev : event),
    Base used s -> sane P used [st] -> In ev (step_events sha s st) ->
    let s' := step_state sha s st in
    event_ok sha (height s') (time s') (apph s') ev /\ time s' <> 0.
Proof. exact step_events_ok. Qed.
Print Assumptions fulfilment_carries_its_block_header.

Theorem reachable_states_are_well_formed :
  forall (sha : hin -> Z) (P : Z -> bool) (steps : list step),
    sane P [] steps -> Base (used_after [] steps) (run sha init steps).
Proof. intros sha P steps Hs. exact (Base_run sha P steps [] init Base_init Hs). Qed.
Print Assumptions reachable_states_are_well_formed.

(** ** the check evaluates the theorem

    [Check.view_ok] - the predicate the correspondence check evaluates, after every step, on
    what the IMPLEMENTATION's queries show for every request it follows (clause 9) - holds of
    the MODEL's own observations, for every request in every history that satisfies the
    hypotheses. *)
Theorem model_views_ok :
  forall (sha : hin -> Z) (P : Z -> bool) (pre post : list step) (c n : Z) (orc capok : bool) (txh : Z)
         (svc : option Z) (code : Z) (ids : list rid) (ctxs : list Z) (facts : list svcfact),
    let s := run sha init pre in
    let r0 := new_req s c txh orc svc in
    let d := height s + n in
    let steps := pre ++ Req c n orc capok txh svc :: post in
    sane P [] steps -> P c = true -> req_ok c capok orc svc = true -> 0 <= n -> d < two63 ->
    (orc = true -> ctx_unused r0 (pre ++ post)) ->
    In (req_id r0) ids -> In (q_ctx r0) ctxs ->
    view_ok r0 d (spec_run sha r0 d (enq s n r0) Pending post)
            (obs_of (run sha init steps) code ids ctxs facts) = true.
Proof. exact model_views_ok_lemma. Qed.
Print Assumptions model_views_ok.

(** ... and the whole of clause 9 - the tracker that follows every accepted request through the
    proven automaton AND examines the hypotheses on the way (requester asking twice in a block,
    block time 0, service context named twice) - never fires on the model's own trace, for EVERY
    history, without any hypothesis: an alarm of clause 9 always means that the implementation
    showed something the model does not. *)
Theorem model_passes_life_cycle_check :
  forall (sha : hin -> Z) (steps : list step), model_life_check sha init tinit steps = true.
Proof. exact model_passes_life_cycle_check_lemma. Qed.
Print Assumptions model_passes_life_cycle_check.

(** ** the compressed case format loses nothing

    The driver sends compressed cases ([Check.ccase]: unchanged queue / oracle views omitted,
    reads as differences, well-formed value strings as their numerators); the check evaluates
    [check_case] on [expand] of them.  Every sequence of observations has a compressed form that
    expands back to exactly itself. *)
Theorem compressed_cases_lossless :
  forall (l : list (step * obs)), expand obs0 (compress obs0 l) = l.
Proof. intros l. exact (expand_compress l obs0). Qed.
Print Assumptions compressed_cases_lossless.

(** ** the model passes the whole check

    For every history of plain requests (no oracle seed: the service environment does not
    matter) satisfying the hypotheses of the property - no block with time 0, no requester
    asking twice in one block ([allP]: for all requesters) - the checker [check_case], i.e.
    correspondence + clauses 1-8 (bookkeeping from outside) + clause 9 (proven life cycle with
    its hypothesis tracking), fed the MODEL's own observations ([model_trace]), returns
    (-1, -1, 0): no divergence, no violation.  So on such histories an alarm always means that
    the implementation showed something the model does not.  The same holds for the compressed
    form the driver sends.  (For oracle-seeded requests clause 9 is covered for every history
    by [model_passes_life_cycle_check]; clauses 7-8 read the service module from outside and
    are validated by the mutation self-test only.) *)
Theorem model_passes_check :
  forall (sha : hin -> Z) (steps : list step),
    sane allP [] steps -> plain steps ->
    check_from sha init pinit tinit (model_trace sha init tinit steps) 0 (-1) (-1) 0 false = (-1, -1, 0).
Proof. exact model_passes_check_lemma. Qed.
Print Assumptions model_passes_check.

Theorem model_passes_compressed_check :
  forall (tbl : list (hin * Z)) (steps : list step),
    sane allP [] steps -> plain steps ->
    check_ccase (tbl, compress obs0 (model_trace (table_sha tbl) init tinit steps)) = (-1, -1, 0).
Proof.
  intros tbl steps Hs Hp. unfold check_ccase, check_case. cbn [fst snd].
  rewrite expand_compress. exact (model_passes_check_lemma (table_sha tbl) steps Hs Hp).
Qed.
Print Assumptions model_passes_compressed_check.

(** ** ... oracle-seeded requests included, under a well-formed service environment

    [wf_env] is a syntactic condition on the history, the part of the real service module's
    behaviour the outside-view clauses 7 and 8 rely on: every service context is named by at
    most one oracle request, a request that is not oracle-seeded names none, and no seed
    response is called back for a context that already received a response with a malformed
    body (the service module completes a context's batch with its first response).  Then the
    property side of the check - clauses 1 to 9, i.e. 7 (oracle: fulfilled when the seed
    arrives) and 8 (oracle: dropped on failure / timeout / pause) too - reports nothing on the
    model's own trace [model_trace_o], whose observations carry the service facts that
    correspond to the callbacks ([facts_of]). *)
Theorem model_passes_check_with_oracle :
  forall (sha : hin -> Z) (steps : list step),
    sane allP [] steps -> wf_env [] [] steps ->
    exists corr,
      check_from sha init pinit tinit (model_trace_o sha init tinit steps) 0 (-1) (-1) 0 false = (corr, -1, 0).
Proof. exact model_passes_check_oracle_lemma. Qed.
Print Assumptions model_passes_check_with_oracle.

(** ... and when moreover the service context ids are not negative ([ctx_nonneg]; the driver
    interns them from 0, the model uses -1 for "no context"), the correspondence side is silent
    too: the whole checker answers (-1, -1, 0), also on the compressed form the driver sends. *)
Theorem model_passes_whole_check_with_oracle :
  forall (sha : hin -> Z) (steps : list step),
    sane allP [] steps -> wf_env [] [] steps -> ctx_nonneg steps ->
    check_from sha init pinit tinit (model_trace_o sha init tinit steps) 0 (-1) (-1) 0 false = (-1, -1, 0).
Proof. exact model_passes_check_oracle_full_lemma. Qed.
Print Assumptions model_passes_whole_check_with_oracle.

Theorem model_passes_compressed_check_with_oracle :
  forall (tbl : list (hin * Z)) (steps : list step),
    sane allP [] steps -> wf_env [] [] steps -> ctx_nonneg steps ->
    check_ccase (tbl, compress obs0 (model_trace_o (table_sha tbl) init tinit steps)) = (-1, -1, 0).
Proof.
  intros tbl steps Hs Hw Hc. unfold check_ccase, check_case. cbn [fst snd].
  rewrite expand_compress. exact (model_passes_check_oracle_full_lemma (table_sha tbl) steps Hs Hw Hc).
Qed.
Print Assumptions model_passes_compressed_check_with_oracle.

(** the hypotheses of [model_passes_check] hold of a history with two requesters due at one
    height, a requester asking again in a later block, and a far request *)
Example plain_history_nonvacuous :
  let steps := [Req 0 2 false true 100 None; Begin 1700000000 1 []; Req 1 1 false true 101 None;
                Req 0 0 false true 102 None; Begin 1700000003 2 []; Calls []; Begin 1700000003 2 [];
                Req 2 4611686018427387904 false true 103 None; Begin 1700000009 3 []] in
  sane allP [] steps /\ plain steps
  /\ length (events (fun _ => 0) init steps) = 3%nat.
Proof.
  cbv zeta. split; [simpl; intuition (try discriminate; try lia)|].
  split; [simpl; intuition lia|]. vm_compute. reflexivity.
Qed.

(** ** the hypotheses are needed, and are satisfiable *)

(** a toy hash (any function will do): distinct inputs, distinct "digests" *)
Definition toy_sha (i : hin) : Z :=
  match i with
  | HApp a => 1000003000000000000007 * (a + 7)
  | HAddr c => 2000003000000000000011 * (c + 11)
  | HSeed sd => 3000017000000000000013 * (sd + 13)
  | HSum z => 7919 * z + 104729
  end.

(** WITHOUT the one-request-per-block hypothesis read-back fails: a requester asking twice in
    one block (intervals 0 and 1) gets ONE id; the result written in the next block is
    overwritten one block later.  (This is the stated limit of the id scheme, and the reason
    for the hypothesis, not a defect the property speaks about.) *)
Example read_back_needs_one_request_per_block :
  let rq n txh := Req 3 n false true txh None in
  let pre := [rq 0 50; rq 1 51; Begin 1700000000 1 []] in
  let post := [Begin 1700000005 2 []] in
  ~ sane (Z.eqb 3) [] (pre ++ post)
  /\ exists v v', query_random (run toy_sha init pre) (1, 3) = Some v
               /\ query_random (run toy_sha init (pre ++ post)) (1, 3) = Some v' /\ v <> v'.
Proof.
  cbv zeta. split.
  - simpl. intros [H1 [H2 _]]. apply H2; [reflexivity|left; reflexivity].
  - eexists. eexists. split; [vm_compute; reflexivity|]. split; [vm_compute; reflexivity|].
    intros H. discriminate H.
Qed.

(** the hypotheses are satisfiable by a non-trivial history: two requesters whose plain
    requests fall due at the same height (one made a block later with a shorter interval), an
    oracle request that is started and then seeded, one that the service refuses, and a
    requester asking again in a later block *)
Definition demo_pre : list step :=
  [ Req 0 2 false true 100 None;                (* h=1, due 3 *)
    Req 1 1 true true 101 (Some 7);             (* h=1, oracle, context 7, due 2 *)
    Begin 1700000000 1 [];                      (* h=2 *)
    Req 2 1 false true 102 None ].              (* h=2, due 3 *)
Definition demo_req : step := Req 3 1 true true 103 (Some 8).   (* h=2, oracle, context 8, due 3 *)
Definition demo_post : list step :=
  [ Req 0 0 false true 104 None;                (* requester 0 again, in another block: h=2, due 2 *)
    Begin 1700000003 2 [7];                     (* h=3: drains 2: context 7 started *)
    Calls [CallResp 7 (CbSeed 5)];              (* seed for context 7 *)
    Begin 1700000003 2 [];                      (* h=4: drains 3: two plain requests; context 8 refused *)
    Begin 1700000009 3 [] ].

Example c18_nonvacuous :
  let steps := demo_pre ++ demo_req :: demo_post in
  let s := run toy_sha init demo_pre in
  sane (fun _ => true) [] steps
  /\ ctx_unused (new_req s 3 103 true (Some 8)) (demo_pre ++ demo_post)
  /\ ctx_unused (new_req init 1 101 true (Some 7)) (demo_req :: demo_post ++ [Begin 5 5 []])
  /\ height s + 1 < two63
  /\ length (events toy_sha init steps) = 4%nat
  /\ length (filter (fun ev => e_block ev =? 4) (events toy_sha init steps)) = 2%nat
  /\ spec_run toy_sha (new_req s 3 103 true (Some 8)) 3 (enq s 1 (new_req s 3 103 true (Some 8))) Pending demo_post
     = Dropped
  /\ (exists ev, spec_run toy_sha (new_req init 1 101 true (Some 7)) 2
                          (enq init 1 (new_req init 1 101 true (Some 7))) Pending
                          (skipn 2 demo_pre ++ demo_req :: demo_post) = Fulfilled ev
                 /\ e_seed ev = Some 5 /\ e_block ev = 3)
  /\ nth_begin (Z.to_nat 2) (skipn 1 demo_pre ++ demo_req :: demo_post) = Some (1700000003, 2)
  /\ (exists ev1 ev2, filter (fun ev => e_block ev =? 4) (events toy_sha init steps) = [ev1; ev2]
                      /\ snd (e_rid ev1) <> snd (e_rid ev2) /\ e_val ev1 <> e_val ev2).
Proof.
  cbv zeta.
  split; [simpl; intuition (try discriminate; try lia)|].
  split; [simpl; intuition discriminate|].
  split; [simpl; intuition discriminate|].
  split; [vm_compute; reflexivity|].
  split; [vm_compute; reflexivity|].
  split; [vm_compute; reflexivity|].
  split; [vm_compute; reflexivity|].
  split; [eexists; split; [vm_compute; reflexivity|]; split; reflexivity|].
  split; [vm_compute; reflexivity|].
  eexists. eexists. split; [vm_compute; reflexivity|]. split; vm_compute; intros H; discriminate H.
Qed.

(** [wf_env] holds of the demo history (a seeded and a refused oracle request among plain ones),
    and of one with a malformed response followed by a failure and a pause; on both the whole
    checker, correspondence included, answers (-1, -1, 0) on the model's own trace *)
Definition demo_oracle : list step :=
  [ Req 1 1 true true 101 (Some 7); Req 2 1 true true 102 (Some 8); Req 3 1 true true 103 (Some 9);
    Req 0 2 false true 100 None;
    Begin 1700000000 1 []; Begin 1700000003 2 [7; 8; 9];
    Calls [CallResp 7 CbBadBody; CallResp 8 CbFail]; Calls [CallState 9 true; CallResp 7 CbFail];
    Begin 1700000004 2 []; Req 4 0 true true 104 (Some 10); Begin 1700000009 3 [10];
    Calls [CallResp 10 (CbSeed 3)]; Begin 1700000011 3 [] ].

Example wf_env_nonvacuous :
  sane allP [] (demo_pre ++ demo_req :: demo_post) /\ wf_env [] [] (demo_pre ++ demo_req :: demo_post)
  /\ sane allP [] demo_oracle /\ wf_env [] [] demo_oracle /\ ctx_nonneg demo_oracle
  /\ check_from toy_sha init pinit tinit
       (model_trace_o toy_sha init tinit (demo_pre ++ demo_req :: demo_post)) 0 (-1) (-1) 0 false = (-1, -1, 0)
  /\ check_from toy_sha init pinit tinit (model_trace_o toy_sha init tinit demo_oracle) 0 (-1) (-1) 0 false
     = (-1, -1, 0)
  /\ length (events toy_sha init demo_oracle) = 2%nat.
Proof.
  split; [simpl; intuition (try discriminate; try lia)|].
  split; [simpl; intuition (try discriminate; try lia)|].
  split; [simpl; intuition (try discriminate; try lia)|].
  split; [simpl; intuition (try discriminate; try lia)|].
  split; [simpl; intuition lia|].
  split; [vm_compute; reflexivity|]. split; [vm_compute; reflexivity|]. vm_compute. reflexivity.
Qed.

(** the well-formedness hypothesis is needed: in a history in which a seed response is called
    back for a context that already received a malformed response (the service module never does
    this: it completes the context's batch with the first response), the model fulfils the
    request, and the outside-view clause 8 - for which a malformed response ends the request -
    fires on the model's own trace *)
Example wf_env_needed :
  let steps := [ Req 1 0 true true 101 (Some 7); Begin 1700000000 1 [7];
                 Calls [CallResp 7 CbBadBody]; Calls [CallResp 7 (CbSeed 5)] ] in
  ~ wf_env [] [] steps
  /\ check_from toy_sha init pinit tinit (model_trace_o toy_sha init tinit steps) 0 (-1) (-1) 0 false = (-1, 3, 8).
Proof.
  cbv zeta. split; [simpl; intuition|]. vm_compute. reflexivity.
Qed.
