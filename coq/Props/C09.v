(** placeholder, replaced below *)
From Irismod Require Import Token.Model.
Theorem stub : step_code (genesis (mkParams 0 0 0 STAKE true true) [] 0 []) (EvmMode 0) = 0.
Proof. vm_compute. reflexivity. Qed.
Print Assumptions stub.
