(** * C09 — Token: identity is unique, only the owner governs, supply never exceeds the cap.

    Statements only; each is closed by [exact] of a lemma of [Token/Proofs.v].  [state], [msg],
    [exec], [step], [run] are the executable model of modules/token ([Token/Model.v]); a history
    is an arbitrary list of messages (issue, edit, mint, burn, transfer-owner, fee-token swap,
    ERC20 deployment and conversions, parameter updates) by arbitrary signers, each executed
    atomically.  [IdInv] (the symbol / min-unit indexes are consistent) holds at genesis and
    after every history. *)
From Irismod Require Import Token.Model Token.Check Token.ProofsBank Token.Proofs Token.ProofsConv Token.Passes.

(** ** identity *)

Theorem registry_consistent_forever :
  forall p balances stake_supply reg (ms : list msg),
    IdInv (run (genesis p balances stake_supply reg) ms).
Proof. intros. apply run_IdInv. apply (reg_id _ (genesis_RegInv p balances stake_supply reg)). Qed.
Print Assumptions registry_consistent_forever.

(** A symbol, once bound, identifies the same token (same symbol, min unit, scale, initial supply)
    after ANY further history. *)
Theorem symbol_unique_forever :
  forall (ms : list msg) (s : state) (sym : name) (t : token),
    IdInv s -> get sym (tokens s) = Some t ->
    exists t', get sym (tokens (run s ms)) = Some t' /\ same_identity t t'.
Proof. exact run_token. Qed.
Print Assumptions symbol_unique_forever.

(** A min unit, once bound to a symbol, stays bound to it. *)
Theorem min_unit_unique_forever :
  forall (ms : list msg) (s : state) (mu sym : name),
    IdInv s -> get mu (minunits s) = Some sym -> get mu (minunits (run s ms)) = Some sym.
Proof. exact run_minunit. Qed.
Print Assumptions min_unit_unique_forever.

(** Two registered tokens never share a min unit. *)
Theorem min_unit_identifies_one_token :
  forall (s : state) (sym1 sym2 : name) (t1 t2 : token),
    IdInv s -> get sym1 (tokens s) = Some t1 -> get sym2 (tokens s) = Some t2 ->
    t_minunit t1 = t_minunit t2 -> sym1 = sym2.
Proof. exact minunit_injective. Qed.
Print Assumptions min_unit_identifies_one_token.

(** An issue succeeds only for a symbol and a min unit that were never bound. *)
Theorem issue_never_rebinds :
  forall s owner sym minu nm scale initial max mintable s',
    exec s (Issue owner sym minu nm scale initial max mintable) = ROk s' ->
    get sym (tokens s) = None /\ get minu (minunits s) = None.
Proof. exact Proofs.issue_never_rebinds. Qed.
Print Assumptions issue_never_rebinds.

(** ** authority *)

(** Whatever the message and whoever signs it: a registered token keeps its identity, and its
    governed fields (maximum, mintable flag, owner, name) change only if the message is an edit or
    an ownership transfer of that token signed by its current owner, and succeeded. *)
Theorem only_owner_governs :
  forall (s : state) (m : msg) (sym : name) (t : token),
    IdInv s -> get sym (tokens s) = Some t ->
    exists t', get sym (tokens (step s m)) = Some t' /\ same_identity t t'
               /\ (same_gov t t' \/ (authorised m t /\ step_code s m = 0)).
Proof. exact step_token. Qed.
Print Assumptions only_owner_governs.

(** Over any history in which the owner signs no edit and no transfer, nothing governed changes. *)
Theorem strangers_cannot_govern :
  forall (ms : list msg) (s : state) (sym : name) (t : token),
    IdInv s -> get sym (tokens s) = Some t ->
    Forall (fun m => ~ signs (t_owner t) m) ms ->
    exists t', get sym (tokens (run s ms)) = Some t' /\ same_identity t t' /\ same_gov t t'.
Proof. exact run_strangers. Qed.
Print Assumptions strangers_cannot_govern.

Theorem edit_only_by_owner :
  forall s owner sym nm max mintable s',
    exec s (Edit owner sym nm max mintable) = ROk s' -> exists t, get sym (tokens s) = Some t /\ owner = t_owner t.
Proof. exact edit_needs_owner. Qed.
Print Assumptions edit_only_by_owner.

(** A transfer succeeds only for the owner, and afterwards the old owner is not the owner. *)
Theorem transfer_only_by_owner :
  forall s src dst sym s',
    exec s (Transfer src dst sym) = ROk s' ->
    exists t t', get sym (tokens s) = Some t /\ src = t_owner t /\ dst <> src
                 /\ get sym (tokens s') = Some t' /\ t_owner t' = dst.
Proof. exact transfer_needs_owner. Qed.
Print Assumptions transfer_only_by_owner.

(** Minting succeeds only for the owner, and never for a non-mintable token. *)
Theorem mint_only_by_owner_non_mintable_never_minted :
  forall s owner receiver denom amt s',
    IdInv s -> exec s (Mint owner receiver denom amt) = ROk s' ->
    exists t, token_by_minunit s denom = Some t /\ owner = t_owner t /\ t_mintable t = true.
Proof. exact mint_needs_owner_and_mintable. Qed.
Print Assumptions mint_only_by_owner_non_mintable_never_minted.

(** ** supply cap *)

(** Through every history of issue / edit / mint / burn / transfer-owner / parameter updates (and
    ERC20 deployments and conversions TO ERC20) the circulating amount of every token stays within
    [max_supply * 10^scale]; [cap_checked] excludes only the two messages that mint natively without
    consulting the cap (conversion from ERC20, fee-token swap), which C09 does not list. *)
Theorem supply_within_cap :
  forall (ms : list msg) (s : state),
    forallb cap_checked ms = true -> CapInv s -> CapInv (run s ms).
Proof. exact run_CapInv. Qed.
Print Assumptions supply_within_cap.

Theorem supply_within_cap_from_genesis :
  forall p balances stake_supply reg (ms : list msg) (sym : name) (t : token),
    stake_supply <= MAXU64 -> forallb cap_checked ms = true ->
    get sym (tokens (run (genesis p balances stake_supply reg) ms)) = Some t ->
    supply_of (run (genesis p balances stake_supply reg) ms) (t_minunit t) <= t_max t * pow10 (t_scale t).
Proof.
  intros p b ss reg ms sym t Hs Hc. apply (cap_ok _ (run_CapInv ms _ Hc (genesis_CapInv p b ss reg Hs))).
Qed.
Print Assumptions supply_within_cap_from_genesis.

(** The maximum can never be lowered below what circulates (in minimum units). *)
Theorem cap_never_below_circulation :
  forall s owner sym nm max mintable s',
    exec s (Edit owner sym nm max mintable) = ROk s' -> 0 < max ->
    exists t', get sym (tokens s') = Some t' /\ t_max t' = max
               /\ supply_of s' (t_minunit t') <= max * pow10 (t_scale t').
Proof. exact edit_cap_not_below_circulation. Qed.
Print Assumptions cap_never_below_circulation.

(** At the pinned commit EditToken compared the new maximum with the circulating amount rounded
    down to whole units, and accepted a maximum below what circulates (after a fractional burn:
    supply 10.5 units, maximum 10).  [fix: 69b6381] compares in minimum units ([edit_max_ok]). *)
Theorem cap_never_below_circulation_refuted_at_pinned_commit :
  exists max scale issued, 0 < max /\ 0 <= scale <= 18 /\
    edit_max_ok_v0 max scale issued = true /\ max * pow10 scale < issued.
Proof. exact edit_max_v0_accepts_below_circulation. Qed.
Print Assumptions cap_never_below_circulation_refuted_at_pinned_commit.

Theorem fixed_edit_comparison_is_exact :
  forall max scale issued, edit_max_ok max scale issued = true <-> issued <= max * pow10 scale.
Proof. exact edit_max_ok_sound. Qed.
Print Assumptions fixed_edit_comparison_is_exact.

(** Scope of the cap statement: the conversions do bypass it (convert to ERC20, lower the
    maximum, convert back).  C09 lists issue / mint / edit / burn only; recorded here so that the
    restriction [cap_checked] above is not silent. *)
Theorem cap_not_preserved_by_conversions :
  exists p ms, let s0 := genesis p [((0, STAKE), 1000000)] 1000000 [] in
    CapInv s0 /\ ~ CapOK (run s0 ms).
Proof. exact Proofs.cap_not_preserved_by_conversions. Qed.
Print Assumptions cap_not_preserved_by_conversions.

(** ** burn tally *)

(** After any history the burned tally of a min unit is what it was plus exactly the amounts of
    the successful burn messages for it. *)
Theorem burn_tally_exact :
  forall (ms : list msg) (s : state) (d : name),
    IdInv s -> burned_of (run s ms) d = burned_of s d + burnt_in s ms d.
Proof. exact run_burned. Qed.
Print Assumptions burn_tally_exact.

(** A successful burn takes exactly the amount from the sender and out of circulation; the module
    account keeps nothing. *)
Theorem burn_takes_exactly :
  forall s sender denom amt s',
    exec s (Burn sender denom amt) = ROk s' -> sender <> MODULE ->
    burned_of s' denom = burned_of s denom + amt
    /\ supply_of s' denom = supply_of s denom - amt
    /\ balance s' sender denom = balance s sender denom - amt
    /\ (forall d, balance s' MODULE d = balance s MODULE d).
Proof. exact burn_exact. Qed.
Print Assumptions burn_takes_exactly.

(** ** fee split *)

(** The fee handler: the payer pays [amt]; the fee collector receives [floor (amt * tax)]; the rest
    leaves circulation; every other balance (the module account's included) and supply is as before. *)
Theorem fee_split_exact :
  forall s payer d amt s',
    fee_handler s payer (d, amt) = ROk s' ->
    let tax := tax_of s amt in
    bank_only s s' /\ 0 <= tax <= amt /\ amt <= balance s payer d
    /\ (forall d', supply_of s' d' = supply_of s d' - ind (eqb d' d) (amt - tax))
    /\ (forall a d', balance s' a d' = balance s a d' - ind (eqb (a, d') (payer, d)) amt + ind (eqb (a, d') (FEECOL, d)) tax).
Proof. exact fee_handler_effect. Qed.
Print Assumptions fee_split_exact.

(** Issue: the owner pays the issue fee, split as above, and the module account ends where it was. *)
Theorem issue_fee_split_exact :
  forall s owner sym minu nm scale initial max mintable s',
    exec s (Issue owner sym minu nm scale initial max mintable) = ROk s' -> owner <> MODULE ->
    exists fd famt, issue_fee s sym = ROk (fd, famt) /\
      let tax := tax_of s famt in
      0 <= tax <= famt
      /\ (forall d, balance s' MODULE d = balance s MODULE d)
      /\ (fd <> minu ->
          balance s' owner fd = balance s owner fd - famt
          /\ balance s' FEECOL fd = balance s FEECOL fd + tax
          /\ supply_of s' fd = supply_of s fd - (famt - tax)).
Proof. exact issue_fee_split. Qed.
Print Assumptions issue_fee_split_exact.

Theorem mint_fee_split_exact :
  forall s owner receiver denom amt s',
    IdInv s -> exec s (Mint owner receiver denom amt) = ROk s' -> owner <> MODULE -> owner <> FEECOL ->
    let recipient := if receiver =? -2 then owner else receiver in
    recipient <> MODULE ->
    exists sym fd famt, get denom (minunits s) = Some sym /\ mint_fee s sym = ROk (fd, famt) /\
      let tax := tax_of s famt in
      0 <= tax <= famt
      /\ (forall d, balance s' MODULE d = balance s MODULE d)
      /\ (fd <> denom ->
          balance s' owner fd = balance s owner fd - famt
          /\ balance s' FEECOL fd = balance s FEECOL fd + tax
          /\ supply_of s' fd = supply_of s fd - (famt - tax)).
Proof. exact mint_fee_split. Qed.
Print Assumptions mint_fee_split_exact.

(** ** the checker and the model *)

(** Every model trace passes the C09 checker: for every history of C09 messages (issue / edit /
    mint / burn / transfer-owner / update-params; issues and mints signed by ordinary accounts, i.e.
    not by the token module account or the fee collector, which cannot sign) from genesis, the
    function [check_case_C09] that the check evaluates on IMPLEMENTATION traces, fed the model's own
    observations ([obs_of]: what the harness would read from a chain in the model's state), answers
    (-1, -1, 0) — correspondence and all seven clauses (cap, identity, authority, non-mintable,
    tally, fee split, failed message) pass.  So the C09 check alarms on an implementation trace only
    where that trace differs from the model. *)
Theorem model_passes_check_C09 :
  forall p balances ss reg (ms : list msg),
    NoDup (keys balances) -> ss <= MAXU64 -> Forall c09_msg ms ->
    let s0 := genesis p balances ss reg in
    check_case_C09 (mkCase p balances ss reg (obs_of s0 0) (model_trace s0 ms)) = (-1, -1, 0).
Proof. exact model_passes_check_C09_lemma. Qed.
Print Assumptions model_passes_check_C09.

(** ** the hypotheses are satisfiable by a non-trivial history *)
Example c09_nonvacuous :
  let p := mkParams 400000000000000000 100000000000000000 60000 STAKE true true in
  let s0 := genesis p [((0, STAKE), 1000000000); ((1, STAKE), 1000000000)] 2000000000 [] in
  let ms := [ Issue 0 (0, 3) (6, 4) 1 6 11 11 true;        (* fee 60000: 24000 to the collector, 36000 burned *)
              Burn 0 (6, 4) 500000;                         (* half a unit *)
              Edit 0 (0, 3) 0 10 0;                         (* maximum 10 < 10.5 circulating: rejected *)
              Edit 1 (0, 3) 0 20 0;                         (* a stranger: rejected *)
              Transfer 0 1 (0, 3);
              Mint 0 (-2) (6, 4) 1;                         (* the old owner: rejected *)
              Mint 1 (-2) (6, 4) 500000;                    (* exactly the room left *)
              Mint 1 (-2) (6, 4) 1;                         (* one above the cap: rejected *)
              Edit 1 (0, 3) 0 0 2;                          (* non-mintable from now on *)
              Edit 1 (0, 3) 0 12 0;
              Mint 1 (-2) (6, 4) 1 ] in                     (* non-mintable: rejected *)
  CapInv s0 /\ forallb cap_checked ms = true /\ Forall c09_msg ms
  /\ NoDup (keys [((0, STAKE), 1000000000); ((1, STAKE), 1000000000)])
  /\ codes s0 ms = [0; 0; 1; 1; 0; 1; 0; 1; 0; 0; 1]
  /\ supply_of (run s0 ms) (6, 4) = 11000000
  /\ burned_of (run s0 ms) (6, 4) = 500000 /\ burnt_in s0 ms (6, 4) = 500000
  /\ balance (run s0 ms) FEECOL STAKE = 24000 + 2400
  /\ balance (run s0 ms) MODULE STAKE = 0.
Proof.
  cbv zeta. split; [apply genesis_CapInv; unfold MAXU64; lia|].
  split; [reflexivity|].
  split; [repeat constructor; unfold MODULE, FEECOL; lia|].
  split; [repeat constructor; simpl; intuition discriminate|].
  repeat split; vm_compute; reflexivity.
Qed.
