(** * C08 — Service: each request gets exactly one outcome; contexts follow their schedule.

    Only statements, each closed by [exact] of a lemma of [Service/Proofs*.v], with
    [Print Assumptions] beneath. *)
From Irismod Require Import Service.Check.
From Irismod Require Import Service.Model Service.Proofs Service.ProofsHist Service.ProofsEscrow
  Service.ProofsSched Service.ProofsBatch Service.ProofsLiab Service.ProofsTally Service.ProofsLive
  Service.ProofsModule Service.ProofsFresh Service.ProofsCallback Service.ProofsSchedule Service.ProofsModuleHist Service.ProofsOutcome Service.ProofsCheck Service.ProofsTrack Service.ProofsBal Service.ProofsSlash Service.ProofsCb.

(** Over EVERY history (any list of steps: messages of any kind and content, block ends,
    rate changes, transfers, module calls) from any initial height, time and ledger: the
    outcome log ([g_out]: one entry (request id, answered | expired) appended by every
    successful response and by every expiry) never holds two entries for one request id; and
    a request that has an outcome is never active again (so it can be neither answered nor
    expired a second time). *)
Theorem request_single_outcome :
  forall c steps h0 t0 l0,
    c_msvc c < 0 ->
    let s := run c (init h0 t0 l0) steps in
    NoDup (map fst (g_out s))
    /\ (forall rid q, In rid (map fst (g_out s)) -> get rid (reqs s) = Some q -> q_active q = false).
Proof. exact single_outcome_lemma. Qed.
Print Assumptions request_single_outcome.

(** The same on chains WITH a module-served service (whose call creates and answers a request
    inside the message), for histories whose context-creating transactions have distinct hashes;
    proved with batch numbers instead of request heights (ProofsOutcome.v, invariant [OInv]). *)
Theorem request_single_outcome_with_module_services :
  forall c steps h0 t0 l0,
    NoDup (create_txhs steps) ->
    let s := run c (init h0 t0 l0) steps in
    NoDup (map fst (g_out s))
    /\ (forall rid q, In rid (map fst (g_out s)) -> get rid (reqs s) = Some q -> q_active q = false).
Proof. exact single_outcome_m_lemma. Qed.
Print Assumptions request_single_outcome_with_module_services.

(** Over EVERY history whose context-creating transactions have distinct hashes (with or without a
    module-served service): a stored request is never active after its
    expiration height (the end blocker of that height has expired it: its context's expiry entry
    was due exactly then), and a stored request that is no longer active has its outcome in the
    log.  With [request_single_outcome]: every stored request whose expiration height has passed
    has EXACTLY one outcome (answered or expired), and before that at most one. *)
Theorem request_outcome_by_expiry :
  forall c steps h0 t0 l0,
    NoDup (create_txhs steps) ->
    let s := run c (init h0 t0 l0) steps in
    forall rid q, get rid (reqs s) = Some q ->
      (q_active q = true -> height s <= q_exp q)
      /\ (q_active q = false -> In rid (map fst (g_out s))).
Proof. exact outcome_by_expiry_m_lemma. Qed.
Print Assumptions request_outcome_by_expiry.

(** Over EVERY history whose context-creating transactions have distinct hashes (with or without a
    module-served service): (1) every active request belongs to the
    RUNNING, CURRENT batch of a context that is still stored — so requests of a completed batch,
    of an earlier batch, or of a removed (one-shot, killed, exhausted) context are never active
    and can never be answered; (2) a running batch never has more active requests than
    (requests issued - responses received), and its expiry is registered; (3) a new batch is only
    ever queued for a context whose previous batch is closed, and at the height its marker says.
    [nact id m] = number of active requests of context [id]. *)
Theorem active_requests_belong_to_the_running_batch :
  forall c steps h0 t0 l0,
    NoDup (create_txhs steps) ->
    let s := run c (init h0 t0 l0) steps in
    (forall rid q, get rid (reqs s) = Some q -> q_active q = true ->
       exists x, get (rid_ctx rid) (ctxs s) = Some x /\ x_brun x = true /\ rid_b rid = x_batch x)
    /\ (forall id x, get id (ctxs s) = Some x -> x_brun x = true ->
          nact id (reqs s) <= x_breq x - x_bresp x /\ has id (expmark s) = true)
    /\ (forall h id x, In (h, id) (newq s) -> get id (ctxs s) = Some x -> x_brun x = false /\ get id (newmark s) = Some h).
Proof. exact active_requests_m_lemma. Qed.
Print Assumptions active_requests_belong_to_the_running_batch.

(** A response succeeds only for a stored, still active request and only from the provider it
    is addressed to; afterwards the request is inactive and carries the response. *)
Theorem answer_only_by_addressee_while_active :
  forall c s rid prov kind s',
    respond c s rid prov kind = Okk s' ->
    exists q, get rid (reqs s) = Some q /\ q_prov q = prov /\ q_active q = true
      /\ exists q', get rid (reqs s') = Some q' /\ q_active q' = false /\ q_resp q' <> 0.
Proof. exact answer_only_by_addressee_lemma. Qed.
Print Assumptions answer_only_by_addressee_while_active.

(** Answers from anyone else, duplicate answers and answers after expiry (the request is no
    longer active) are rejected, and the state is exactly as before. *)
Theorem duplicate_or_late_answer_rejected_unchanged :
  forall c s rid prov kind,
    (match get rid (reqs s) with
     | Some q => q_prov q <> prov \/ q_active q = false
     | None => True end) ->
    respond c s rid prov kind = Rejj /\ apply c s (Tx 0 (MRespond rid prov kind)) = s.
Proof. exact respond_rejected_lemma. Qed.
Print Assumptions duplicate_or_late_answer_rejected_unchanged.

Theorem paused_issues_nothing :
  forall s id x,
    get id (ctxs s) = Some x -> x_state x <> 0 ->
    let s' := new_batch_handler s id in
    reqs s' = reqs s /\ g_batches s' = g_batches s /\ ctxs s' = ctxs s /\ led s' = led s
    /\ expq s' = expq s /\ cblog s' = cblog s.
Proof. exact paused_issues_nothing_lemma. Qed.
Print Assumptions paused_issues_nothing.

Theorem batch_starts_only_when_running :
  forall s id,
    let s' := new_batch_handler s id in
    g_batches s' = g_batches s
    \/ exists x, get id (ctxs s) = Some x /\ x_state x = 0
                 /\ g_batches s' = g_batches s ++ [(id, x_batch x + 1, height s)]
                 /\ get id (expmark s') = Some (height s + x_timeout x)
                 /\ (exists x', get id (ctxs s') = Some x' /\ x_batch x' = x_batch x + 1 /\ x_brun x' = true).
Proof. exact batch_start_lemma. Qed.
Print Assumptions batch_starts_only_when_running.

(** one-shot contexts are removed when their batch expires; repeated ones are rescheduled
    [frequency] after the start of the batch (expiry height - timeout + frequency) *)
Theorem oneshot_removed_repeated_rescheduled :
  forall c s id x,
    get id (ctxs s) = Some x -> x_state x = 0 ->
    let s' := expired_batch_handler c s id in
    (x_rep x && ((x_total x <? 0) || (x_batch x <? x_total x)) = false -> get id (ctxs s') = None)
    /\ (x_rep x && ((x_total x <? 0) || (x_batch x <? x_total x)) = true ->
        get id (newmark s') = Some (height s - x_timeout x + x_freq x)
        /\ In (height s - x_timeout x + x_freq x, id) (newq s')
        /\ exists x', get id (ctxs s') = Some x' /\ x_brun x' = false /\ x_batch x' = x_batch x /\ x_state x' = 0).
Proof. exact batch_expiry_lemma. Qed.
Print Assumptions oneshot_removed_repeated_rescheduled.

(** [fresh_history] — the hypothesis of the history theorems above — follows from: the hashes carried by
    the context-creating steps of the history (calls, module creations) are pairwise distinct.  A
    context id is (hash of the creating transaction, per-block index), so this is "distinct
    transactions have distinct hashes" (SHA-256 collision-freeness), as in C19.  No restriction on
    module-served services. *)
Theorem fresh_history_from_distinct_hashes :
  forall c steps h0 t0 l0, NoDup (create_txhs steps) -> fresh_history c (init h0 t0 l0) steps.
Proof. exact fresh_history_from_distinct_hashes_lemma. Qed.
Print Assumptions fresh_history_from_distinct_hashes.

(** The response callback of a module-owned context (the log [cblog] is a ghost of the model: one
    entry per invocation; the harness records the real invocations and compares them step by step).
    Over EVERY history of a chain whose context-creating transactions have pairwise distinct
    hashes: the callback fired at most once for every (context, batch); it has not fired for a batch
    that is still running; and it HAS fired — exactly once — for the current batch of every stored
    module-owned context whose batch is closed (completed by responses, or expired). *)
Theorem callback_exactly_once_per_batch :
  forall c steps h0 t0 l0,
    NoDup (create_txhs steps) ->
    let s := run c (init h0 t0 l0) steps in
    NoDup (resp_keys (cblog s))
    /\ (forall id x, get id (ctxs s) = Some x -> x_brun x = true -> ~ In (id, x_batch x) (resp_keys (cblog s)))
    /\ (forall id x, get id (ctxs s) = Some x -> x_mod x = true -> x_brun x = false -> 1 <= x_batch x ->
          In (id, x_batch x) (resp_keys (cblog s))).
Proof. exact callback_exactly_once_per_batch_m_lemma. Qed.
Print Assumptions callback_exactly_once_per_batch.

(** Every invocation appends one entry for the CURRENT batch of the stored context, carrying the
    number of outputs of that batch; its [err = nil] flag is 1 iff that number reaches the batch's
    response threshold. *)
Theorem callback_outputs_iff_threshold :
  forall s id x, get id (ctxs s) = Some x ->
    exists e, cblog (callback s id) = cblog s ++ [e] /\ is_resp e = true /\ cb_id e = id /\ cb_batch e = x_batch x
      /\ cb_n e = n_outputs s id (x_batch x) /\ (cb_ok e = 1 <-> x_bthr x <= cb_n e) /\ (cb_ok e = 0 \/ cb_ok e = 1).
Proof. exact callback_outputs_iff_threshold_lemma. Qed.
Print Assumptions callback_outputs_iff_threshold.

(** The service module completes a batch (invokes the response callback) only while that batch is
    running — the hypothesis [run_wfb] of the oracle model (Oracle/Proofs.v), for responses and for
    the expiry handler.  [BatchInv] holds in every reachable state ([active_requests_...]). *)
Theorem respond_completes_only_a_running_batch :
  forall c s rid prov kind s',
    BatchInv s -> respond c s rid prov kind = Okk s' -> cblog s' <> cblog s ->
    exists x, get (rid_ctx rid) (ctxs s) = Some x /\ x_brun x = true /\ x_mod x = true
              /\ exists x', get (rid_ctx rid) (ctxs s') = Some x' /\ x_brun x' = false /\ x_batch x' = x_batch x.
Proof. exact respond_completes_only_running_batch. Qed.
Print Assumptions respond_completes_only_a_running_batch.

Theorem expiry_completes_only_a_running_batch :
  forall c s id x,
    get id (ctxs s) = Some x -> x_brun x = false -> cblog (expired_batch_handler c s id) = cblog s.
Proof. exact expiry_completes_only_running_batch. Qed.
Print Assumptions expiry_completes_only_a_running_batch.

(** The schedule over a whole history.  Take any reachable state in which the next batch of context
    [id] is scheduled at height [H] (its height marker; the expiry handler sets it to
    (expiry height - timeout + frequency) = start(n) + frequency, [oneshot_removed_repeated_rescheduled],
    the expiry height being start(n) + timeout, [batch_starts_only_when_running]).  Whatever happens
    afterwards — pause, start, messages and batches of other contexts, block ends — every LATER batch
    of [id] starts at height >= H, and the marker is still [H] until the end blocker of height [H]
    has run.  So batch n+1 starts exactly at start(n) + frequency if the context is running then, and
    never earlier; pause / start can neither advance nor duplicate it. *)
Theorem no_batch_before_its_scheduled_height :
  forall c pre post h0 t0 l0 id H,
    NoDup (create_txhs (pre ++ post)) ->
    let s := run c (init h0 t0 l0) pre in
    let s' := run c (init h0 t0 l0) (pre ++ post) in
    get id (newmark s) = Some H ->
    (forall e, In e (g_batches s') -> ~ In e (g_batches s) -> b_ctx e = id -> H <= b_h e)
    /\ (get id (newmark s') = Some H \/ H <= height s').
Proof. exact no_batch_before_its_scheduled_height_m_lemma. Qed.
Print Assumptions no_batch_before_its_scheduled_height.

(** Starting a paused context enqueues a new batch (at the current height) only when NEITHER the
    expiry of a batch NOR a next batch is registered for it; otherwise the new-batch queue and its
    height markers are exactly as before — a batch already scheduled is neither moved nor
    duplicated (pause -> start in the gap between the expiry of batch n and the scheduled height
    of batch n+1 does not create a second stream of batches).  Over histories this is the third
    part of [active_requests_belong_to_the_running_batch]: every new-batch entry agrees with the
    one height marker of its context. *)
Theorem start_keeps_schedule :
  forall s id cons s',
    k_start s id cons = Okk s' ->
    (has id (expmark s) = true \/ has id (newmark s) = true -> newq s' = newq s /\ newmark s' = newmark s)
    /\ (has id (expmark s) = false -> has id (newmark s) = false ->
        newq s' = q_add (height s, id) (newq s) /\ newmark s' = set id (height s) (newmark s))
    /\ expq s' = expq s /\ expmark s' = expmark s /\ reqs s' = reqs s /\ g_batches s' = g_batches s.
Proof. exact start_keeps_schedule_lemma. Qed.
Print Assumptions start_keeps_schedule.

Theorem only_consumer_controls :
  forall c s txh m s',
    exec_msg c s txh m = Okk s' ->
    match m with
    | MPause id cn | MStart id cn | MKill id cn | MUpdateCtx id _ _ _ _ _ _ cn =>
        exists x, get id (ctxs s) = Some x /\ x_cons x = cn /\ x_mod x = false
    | _ => True
    end.
Proof. exact only_consumer_controls_lemma. Qed.
Print Assumptions only_consumer_controls.

Theorem module_context_control :
  forall c s st s',
    exec_step c s st = Okk s' ->
    match st with
    | ModPause id cn | ModStart id cn | ModKill id cn =>
        exists x, get id (ctxs s) = Some x /\ (x_mod x = true -> x_cons x = cn)
    | _ => True
    end.
Proof. exact module_context_control_lemma. Qed.
Print Assumptions module_context_control.

(** ** The model passes its own check ([holds_C08], Service/Check.v), clause by clause.
    [obs_of univ code newctx cb s] is what the driver would observe of the model state [s].  For
    EVERY history whose context-creating transactions carry distinct hashes, whatever the checker
    state ([seen], [tr], [sc]), the previous observation [p] and the step [st]: evaluated on the
    observation of the state reached, [holds_C08] never answers the clause named.  PARTIAL: see the
    list of clauses at each theorem; clauses comparing two consecutive observations are not covered
    unless named. *)

(** clause 9: every active request belongs to the running, current batch of a stored context *)
Theorem model_passes_C08_clause_9 :
  forall c steps h0 t0 l0 univ seen fired tr sc p st code nc cb,
    NoDup (create_txhs steps) ->
    let s := run c (init h0 t0 l0) steps in
    holds_C08 seen fired tr sc p st (obs_of univ code nc cb s) <> 9.
Proof. exact model_passes_C08_clause_9_lemma. Qed.
Print Assumptions model_passes_C08_clause_9.

(** clause 8: every new-batch / expired-batch queue entry agrees with the height marker of its
    context, and every stored context with a running batch has an expiry marker *)
Theorem model_passes_C08_clause_8 :
  forall c steps h0 t0 l0 univ seen fired tr sc p st code nc cb,
    NoDup (create_txhs steps) ->
    let s := run c (init h0 t0 l0) steps in
    holds_C08 seen fired tr sc p st (obs_of univ code nc cb s) <> 8.
Proof. exact model_passes_C08_clause_8_lemma. Qed.
Print Assumptions model_passes_C08_clause_8.

(** clauses 2 and 6 compare the observation before a step with the one after it.  From ANY state
    [s] (reachable or not), for one step [st] of the model, [obs_step univ c s st] being what the
    driver would print after it (result code, new context id, callbacks logged by the step, state):
    2 — a step the model rejects leaves the whole observation unchanged; 6 — a pause / start /
    kill / update that succeeds was sent by the consumer of a context that is not module-owned
    (messages), or, through the keeper, on a module-owned context by its consumer *)
Theorem model_passes_C08_clauses_2_6 :
  forall c s st univ seen fired tr sc pcode pnc pcb,
    let k := holds_C08 seen fired tr sc (obs_of univ pcode pnc pcb s) st (obs_step univ c s st) in
    k <> 2 /\ k <> 6.
Proof. exact model_passes_C08_clauses_2_6_lemma. Qed.
Print Assumptions model_passes_C08_clauses_2_6.

(** clause 7, the two history-wide lists (PARTIAL: the third list of clause 7 — the callbacks of
    the step are exactly the expected ones, [same_set (expected_cb p st o) (o_cb o)] — is not
    covered).  Along the model's own trace the checker's accumulator [fired] is [cb_keys] of the
    callback log so far (empty at the start, extended by [cb_keys (o_cb o)] at every step — the
    log only grows); then no response callback logged by the step repeats a (context, batch)
    already fired, and the current batch of every stored module-owned context, once closed, has
    fired.  These are exactly the boolean entries the checker evaluates. *)
Theorem model_passes_C08_clause_7_history :
  forall c steps st h0 t0 l0 univ,
    NoDup (create_txhs (steps ++ [st])) ->
    let s := run c (init h0 t0 l0) steps in
    let o := obs_step univ c s st in
    let fired := cb_keys (cblog s) in
    cblog (init h0 t0 l0) = []
    /\ fired ++ cb_keys (o_cb o) = cb_keys (cblog (apply c s st))
    /\ (forall k, In k (cb_keys (o_cb o)) -> negb (existsb (eqb k) fired) = true)
    /\ (forall e, In e (o_ctxs o) ->
          (negb (t_mod (snd e)) || t_brun (snd e) || (t_batch (snd e) <? 1)
           || existsb (eqb (fst e, t_batch (snd e))) (fired ++ cb_keys (o_cb o))) = true).
Proof. exact model_passes_C08_clause_7_history_lemma. Qed.
Print Assumptions model_passes_C08_clause_7_history.

(** clause 1 (a request changes status only active -> answered by a successful response of its
    provider not after its expiry height, or active -> expired/removed in the end-block of its
    expiry height; inactive requests are only ever removed, in an end-block; a new request is
    active, unanswered, created at the current height with a later expiry, under an id never seen
    before; after an end-block no active request is at or past its expiry height).
    Along the model's OWN trace of any history — [pre] the steps already executed, [st] the next
    one, [model_seen] the checker's accumulator of request ids (as [check_from] computes it) —
    [holds_C08] never answers 1.  HYPOTHESES: no service is served by a module ([c_msvc c < 0]: then
    requests are created by the end blocker only, and a new id is fresh because it carries the
    current height; with a module-served service the freshness argument needs batch numbers and is
    not done here); distinct hashes; and no end-block step with a negative time increment
    ([good_step]) — the model rejects such a step, the driver never generates one, and the checker's
    "nothing active at its expiry height after an end-block" entry does not look at the result
    code, so on such a step the checker WOULD report clause 1 on the model's own observation. *)
Theorem model_passes_C08_clause_1 :
  forall c steps h0 t0 l0 univ,
    c_msvc c < 0 -> NoDup (create_txhs steps) -> Forall good_step steps ->
    forall pre st post, steps = pre ++ st :: post ->
    forall fired tr sc pcode pnc pcb,
      let s := run c (init h0 t0 l0) pre in
      holds_C08 (model_seen univ c (init h0 t0 l0) [] pre) fired tr sc (obs_of univ pcode pnc pcb s) st (obs_step univ c s st) <> 1.
Proof. exact model_passes_C08_clause_1_lemma. Qed.
Print Assumptions model_passes_C08_clause_1.

(** clause 5: over an end-block a paused context keeps its batch counter — one model step from any
    state whose stored context ids are distinct (true of every reachable state) *)
Theorem model_passes_C08_clause_5 :
  forall c s st univ seen fired tr sc pcode pnc pcb,
    NoDup (keys (ctxs s)) ->
    holds_C08 seen fired tr sc (obs_of univ pcode pnc pcb s) st (obs_step univ c s st) <> 5.
Proof. exact model_passes_C08_clause_5_lemma. Qed.
Print Assumptions model_passes_C08_clause_5.

(** clause 3 (one-shot contexts: a running, non-repeated context whose batch expires in this
    end-block is gone afterwards; a non-repeated context never carries a batch number above 1).  From
    NEW invariant [NR] of Service/ProofsCheck.v, proved over every history: a non-repeated stored
    context has batch <= 1, and once it has issued its batch it is neither scheduled for another one
    nor paused (so [start] cannot re-enqueue it); and [end_block_oneshot].  [good_step]: as for
    clause 1, on a REJECTED end-block (negative time increment) the checker's entry would fail on
    the model's own observation, because it does not look at the result code. *)
Theorem model_passes_C08_clause_3 :
  forall c steps st h0 t0 l0 univ seen fired tr sc pcode pnc pcb,
    NoDup (create_txhs (steps ++ [st])) -> good_step st ->
    let s := run c (init h0 t0 l0) steps in
    holds_C08 seen fired tr sc (obs_of univ pcode pnc pcb s) st (obs_step univ c s st) <> 3.
Proof. exact model_passes_C08_clause_3_lemma. Qed.
Print Assumptions model_passes_C08_clause_3.

(** clause 4 — "contexts follow their schedule", as the checker states it with its own tracker [tr]
    (per context: last batch number, the height it started at, "running and untouched since") and
    schedule [sc] (per context: the height at which the expiry handler scheduled the next batch):
    a repeated, running, untouched context starts batch n+1 exactly [frequency] after batch n —
    not at any other height, and at that height it does start it (or is paused for lack of funds)
    while below its total; and no batch starts before the scheduled height, whatever pause / start
    did in between.  Along the model's OWN trace of any history (distinct hashes, no end-block
    with a negative time increment), [model_ts] being the checker's two accumulators as
    [check_from] computes them: [holds_C08] never answers 4.  ANY configuration (module-served
    services included).  From new invariants of Service/ProofsTrack.v, all proved over every
    history: [TI] (a tracker entry (n, h0, true) of a stored repeated context with batch n means:
    it is RUNNING, and either the expiry of batch n is registered at h0 + timeout, or batch n+1 is
    scheduled at h0 + frequency), [SI] (a schedule entry is the new-batch marker of its context,
    or is past), [FB] (frequency >= timeout for repeated contexts), and [eb_tracked]: the five
    things one end-block can do to such a context. *)
Theorem model_passes_C08_clause_4 :
  forall c steps h0 t0 l0 univ,
    NoDup (create_txhs steps) -> Forall good_step steps ->
    forall pre st post, steps = pre ++ st :: post ->
    forall seen fired pc pn pb,
      let s := run c (init h0 t0 l0) pre in
      let ts := model_ts univ c (init h0 t0 l0) ([], []) pre in
      holds_C08 seen fired (fst ts) (snd ts) (obs_of univ pc pn pb s) st (obs_step univ c s st) <> 4.
Proof. exact model_passes_C08_clause_4_lemma. Qed.
Print Assumptions model_passes_C08_clause_4.

(** [model_passes_check] for [check_case_C08], the earlier PARTIAL form (the complete one is
    [model_passes_check_C08] below) (see [model_passes_clauses_C07],
    Props/C07.v, for the reading and the hypotheses): on the case the driver would print for the
    MODEL, [check_case_C08] answers (-1, p, k) — no divergence — with k never 1, 2, 3, 4, 5, 6, 8
    or 9.  NOT covered: clause 7 as a whole (its two history-wide lists are
    [model_passes_C08_clause_7_history]; the step-wise comparison with [expected_cb] is not done).
    So "k = 0" is not a theorem: k is 0 or 7. *)
Theorem model_passes_clauses_C08 :
  forall c steps h0 t0 l0 univ,
    c_msvc c < 0 -> 0 <= c_tax c -> clean l0 -> NoDup (create_txhs steps) -> Forall good_step steps ->
    In (DEP, BASE) univ -> (forall d, In d (denoms c) -> In (REQ, d) univ) ->
    (forall pre st post, steps = pre ++ st :: post -> forall rid q, get rid (reqs (run c (init h0 t0 l0) pre)) = Some q ->
       In (TAX, q_fd q) univ /\ In (REQ, q_fd q) univ) ->
    ledger_of (obs_of univ 0 None [] (init h0 t0 l0)) = l0 ->
    forall corr p k, check_case_C08 (model_case univ c h0 t0 l0 steps) = (corr, p, k) ->
      corr = -1 /\ k <> 1 /\ k <> 2 /\ k <> 3 /\ k <> 4 /\ k <> 5 /\ k <> 6 /\ k <> 8 /\ k <> 9.
Proof. exact model_passes_clauses_C08_4_lemma. Qed.
Print Assumptions model_passes_clauses_C08.

(** The same for ANY configuration — module-served services included, any end-block step — with the
    correspondence component, for both properties at once; only clause 1 of C08 is left out (its
    freshness argument is the one that needs [c_msvc c < 0]).  On the case the driver would print for
    the model, [check_case_C07] answers (-1, p, k) with k not in {1,2,3,5} and [check_case_C08]
    answers (-1, p, k) with k not in {2,5,6,8,9}. *)
Theorem model_passes_clauses_any_config :
  forall c steps h0 t0 l0 univ,
    0 <= c_tax c -> clean l0 -> NoDup (create_txhs steps) ->
    In (DEP, BASE) univ -> (forall d, In d (denoms c) -> In (REQ, d) univ) ->
    (forall pre st post, steps = pre ++ st :: post -> forall rid q, get rid (reqs (run c (init h0 t0 l0) pre)) = Some q ->
       In (TAX, q_fd q) univ /\ In (REQ, q_fd q) univ) ->
    ledger_of (obs_of univ 0 None [] (init h0 t0 l0)) = l0 ->
    let cs := model_case univ c h0 t0 l0 steps in
    (forall corr p k, check_case_C07 cs = (corr, p, k) -> corr = -1 /\ k <> 1 /\ k <> 2 /\ k <> 3 /\ k <> 5)
    /\ (forall corr p k, check_case_C08 cs = (corr, p, k) -> corr = -1 /\ k <> 2 /\ k <> 5 /\ k <> 6 /\ k <> 8 /\ k <> 9).
Proof. exact model_passes_clauses_any_lemma. Qed.
Print Assumptions model_passes_clauses_any_config.

(** clause 7, COMPLETE (Service/ProofsCb.v): along the model's own trace, with the checker's
    accumulator [fired] = [cb_keys] of the log so far, [holds_C08] never answers 7.  The step-wise
    list: the callbacks a step logs are exactly [expected_cb] computed from the observations before
    and after it ([same_set]: same length, every logged one expected) — a response completing the
    batch of a module-owned context fires the response callback with the number of outputs of that
    batch and err = nil iff the threshold is reached; every other message / keeper step logs
    nothing; an end-block logs, per stored module-owned context, the response callback iff its
    running batch expires now and the state callback iff the new-batch handler pauses it
    ([eb_log_ctx]: the log entries of one context after the end-block = those before ++ exactly
    the checker's per-context list; counted over the distinct stored ids). *)
Theorem model_passes_C08_clause_7 :
  forall c steps h0 t0 l0 univ,
    NoDup (create_txhs steps) -> Forall good_step steps ->
    forall pre st post, steps = pre ++ st :: post ->
    forall seen tr sc pc pn pb,
      let s := run c (init h0 t0 l0) pre in
      holds_C08 seen (cb_keys (cblog s)) tr sc (obs_of univ pc pn pb s) st (obs_step univ c s st) <> 7.
Proof. exact model_passes_C08_clause_7_lemma. Qed.
Print Assumptions model_passes_C08_clause_7.

(** [model_passes_check] for C08, COMPLETE: on the case the driver would print for the MODEL — its
    own observation after every step of any history — the checker answers (-1, -1, 0): no
    divergence, no step violating any of the nine clauses of [holds_C08], with the checker's own
    accumulators ([seen], [fired], tracker, schedule) as [check_from] computes them.  Hypotheses: as
    for [model_passes_clauses_C08] (no module-served service — needed by clauses 1 and 3 only —,
    distinct hashes, no end-block with a negative time increment, escrows empty at the start, the
    observed universe covers the accounts the C07 clauses read, initial ledger = the one the
    checker rebuilds). *)
Theorem model_passes_check_C08 :
  forall c steps h0 t0 l0 univ,
    c_msvc c < 0 -> 0 <= c_tax c -> clean l0 -> NoDup (create_txhs steps) -> Forall good_step steps ->
    In (DEP, BASE) univ -> (forall d, In d (denoms c) -> In (REQ, d) univ) ->
    (forall pre st post, steps = pre ++ st :: post -> forall rid q, get rid (reqs (run c (init h0 t0 l0) pre)) = Some q ->
       In (TAX, q_fd q) univ /\ In (REQ, q_fd q) univ) ->
    ledger_of (obs_of univ 0 None [] (init h0 t0 l0)) = l0 ->
    check_case_C08 (model_case univ c h0 t0 l0 steps) = (-1, -1, 0).
Proof. exact model_passes_check_C08_lemma. Qed.
Print Assumptions model_passes_check_C08.

(** ** non-vacuity: a history in which one request is answered and its sibling expires; a
    late answer to the expired one and a duplicate answer to the answered one are rejected;
    the one-shot context is removed; a repeated context (frequency 3, total 2) starts its
    batches at heights 1 and 4 and is then removed; a stranger's pause is rejected *)
Definition ex_cfg := mkCfg 50000000000000000 300000000000000000 6 2 100 4 false 2 (-1) 4.
Definition ex_l0 : ledger := [((0, 0), 1000000); ((5, 0), 1000000)].
Definition ex_hist : list step :=
  [ Tx 11 (MDefine 0 0 true);
    Tx 12 (MBind 0 2 0 1000 (0, 100, [(0, 2000, 500000000000000000)], []) 1 true 0);
    Tx 13 (MBind 0 3 0 1000 (0, 60, [], []) 1 true 0);
    Tx 14 (MCall 0 [2; 3] 5 true 0 100000 2 false 0 0);
    EndBlock 5;
    Tx 15 (MRespond ((14, 0), 1, 1, 0) 2 1);
    Tx 16 (MRespond ((14, 0), 1, 1, 0) 2 1);
    Tx 17 (MRespond ((14, 0), 1, 1, 1) 2 1);
    EndBlock 5; EndBlock 5;
    Tx 18 (MRespond ((14, 0), 1, 1, 1) 3 1) ].

Example c08_outcomes_nonvacuous :
  let s := run ex_cfg (init 1 1000 ex_l0) ex_hist in
  g_out s = [((14, 0, 1, 1, 0), 1); ((14, 0, 1, 1, 1), 2)]
  /\ get (14, 0) (ctxs s) = None
  /\ apply ex_cfg s (Tx 19 (MRespond ((14, 0), 1, 1, 1) 3 1)) = s.
Proof. vm_compute. repeat split; reflexivity. Qed.

Definition ex_hist2 : list step :=
  [ Tx 11 (MDefine 0 0 true);
    Tx 12 (MBind 0 2 0 1000 (0, 100, [], []) 1 true 0);
    Tx 14 (MCall 0 [2] 5 true 0 100000 2 true 3 2);
    EndBlock 5; EndBlock 5;
    Tx 15 (MPause (14, 0) 6);
    EndBlock 5; EndBlock 5; EndBlock 5; EndBlock 5; EndBlock 5 ].

Example c08_schedule_nonvacuous :
  let s := run ex_cfg (init 1 1000 ex_l0) ex_hist2 in
  g_batches s = [((14, 0), 1, 1); ((14, 0), 2, 4)]
  /\ g_out s = [((14, 0, 1, 1, 0), 2); ((14, 0, 2, 4, 0), 2)]
  /\ ctxs s = []
  /\ exec_step ex_cfg (run ex_cfg (init 1 1000 ex_l0) (firstn 5 ex_hist2)) (Tx 15 (MPause (14, 0) 6)) = Rejj
  /\ (exists s', exec_step ex_cfg (run ex_cfg (init 1 1000 ex_l0) (firstn 5 ex_hist2)) (Tx 15 (MPause (14, 0) 5)) = Okk s').
Proof. vm_compute. repeat split; try reflexivity. eexists. reflexivity. Qed.

Example c08_fresh_history_satisfiable :
  fresh_history ex_cfg (init 1 1000 ex_l0) ex_hist /\ fresh_history ex_cfg (init 1 1000 ex_l0) ex_hist2 /\ c_msvc ex_cfg < 0.
Proof. split; [|split]; [apply fresh_historyb_ok; vm_compute; reflexivity|apply fresh_historyb_ok; vm_compute; reflexivity|reflexivity]. Qed.

(** pause -> start in the gap (timeout 3, frequency 10: batch at 1, expiry at 4, pause at 6,
    start at 7): the batches still start at heights 1, 11, 21 and nowhere else *)
Definition ex_hist3 : list step :=
  [ Tx 11 (MDefine 0 0 true);
    Tx 12 (MBind 0 2 0 1000 (0, 10, [], []) 1 true 0);
    Tx 14 (MCall 0 [2] 5 true 0 100000 3 true 10 (-1)) ]
  ++ repeat (EndBlock 5) 5 ++ [Tx 15 (MPause (14, 0) 5); EndBlock 5; Tx 16 (MStart (14, 0) 5)] ++ repeat (EndBlock 5) 18.

Example c08_gap_nonvacuous :
  let s := run ex_cfg (init 1 1000 ex_l0) ex_hist3 in
  g_batches s = [((14, 0), 1, 1); ((14, 0), 2, 11); ((14, 0), 3, 21)] /\ height s = 25
  /\ fresh_history ex_cfg (init 1 1000 ex_l0) ex_hist3.
Proof. split; [vm_compute; reflexivity|]. split; [vm_compute; reflexivity|]. apply fresh_historyb_ok. vm_compute. reflexivity. Qed.

(** the module-owned context of this history (threshold 1, one provider) completes batch 1 by a
    response with output: one callback entry, flagged ok; hashes of the creating steps distinct *)
Definition ex_hist4 : list step :=
  [ Tx 11 (MDefine 0 0 true);
    Tx 12 (MBind 0 2 0 1000 (0, 10, [], []) 1 true 0);
    ModCreate 14 0 [2] 5 100000 3 true 10 (-1) 0 1;
    EndBlock 5;
    Tx 15 (MRespond ((14, 0), 1, 1, 0) 2 1);
    EndBlock 5; EndBlock 5; EndBlock 5 ].

Example c08_callback_nonvacuous :
  let s := run ex_cfg (init 1 1000 ex_l0) ex_hist4 in
  cblog s = [(0, (14, 0), 1, 1, 1)] /\ resp_keys (cblog s) = [((14, 0), 1)]
  /\ NoDup (create_txhs ex_hist4) /\ NoDup (create_txhs ex_hist3)
  /\ get (14, 0) (newmark s) = Some 11.
Proof. split; [vm_compute; reflexivity|]. split; [vm_compute; reflexivity|]. split; [vm_compute; repeat constructor; simpl; tauto|].
  split; [vm_compute; repeat constructor; simpl; tauto|vm_compute; reflexivity]. Qed.

(** the hypotheses of [model_passes_clauses_C08] hold of the example histories (answered + expired
    requests; repeated context paused; module-owned context with callbacks), and on the cases the
    driver would print for the model on them the whole checker answers "no divergence, no clause" *)
Definition ex_univ : list (Z * Z) := flat_map (fun a => [(a, 0); (a, 1)]) [DEP; REQ; TAX; 0; 1; 2; 3; 4; 5; 6; 7].
Definition ex_l0n : ledger := ledger_of (obs_of ex_univ 0 None [] (init 1 1000 ex_l0)).
Example c08_model_passes_clauses_nonvacuous :
  c_msvc ex_cfg < 0 /\ 0 <= c_tax ex_cfg /\ bal ex_l0n DEP BASE = 0 /\ bal ex_l0n REQ 0 = 0 /\ bal ex_l0n REQ 1 = 0
  /\ Forall good_step ex_hist /\ Forall good_step ex_hist2 /\ Forall good_step ex_hist4
  /\ (forall pre st post, ex_hist2 = pre ++ st :: post -> forall rid q, get rid (reqs (run ex_cfg (init 1 1000 ex_l0n) pre)) = Some q ->
        In (TAX, q_fd q) ex_univ /\ In (REQ, q_fd q) ex_univ)
  /\ ledger_of (obs_of ex_univ 0 None [] (init 1 1000 ex_l0n)) = ex_l0n
  /\ check_all (model_case ex_univ ex_cfg 1 1000 ex_l0n ex_hist) = (-1, -1, 0, -1, 0)
  /\ check_all (model_case ex_univ ex_cfg 1 1000 ex_l0n ex_hist2) = (-1, -1, 0, -1, 0)
  /\ check_all (model_case ex_univ ex_cfg 1 1000 ex_l0n ex_hist4) = (-1, -1, 0, -1, 0).
Proof.
  split; [vm_compute; reflexivity|]. split; [vm_compute; discriminate|].
  split; [reflexivity|]. split; [reflexivity|]. split; [reflexivity|].
  split; [repeat constructor; vm_compute; discriminate|]. split; [repeat constructor; vm_compute; discriminate|].
  split; [repeat constructor; vm_compute; discriminate|].
  split; [apply fdsb_ok; vm_compute; reflexivity|]. repeat split; vm_compute; reflexivity.
Qed.
