(** * C08 — service (stub, theorems follow) *)
From Irismod Require Import Service.Model Service.Check.
