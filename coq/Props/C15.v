(** placeholder, replaced below *)
From Irismod Require Import Mt.Model.
Theorem init_seq : dseq init = 1.
Proof. reflexivity. Qed.
Print Assumptions init_seq.
