(** * C15 — MT: balances always add up to supply; only the class owner mints.

    Only statements, each closed by [exact] of a lemma of [Mt/Proofs.v], with
    [Print Assumptions] beneath.  [Reachable s] = [s] is the state after ANY history (list of
    messages by anybody, each its own transaction, and block boundaries) from the empty chain;
    [Reachable64] additionally says the history has fewer than 2^64-1 steps, so that the two id
    sequences (64-bit counters in the code) cannot have wrapped.  Amounts are 64-bit in the
    code: the model computes every unchecked Go operation modulo 2^64 ([usub], [uadd]) and
    logs its operands ([events], [all_events]). *)
From Irismod Require Import Mt.Model Mt.Proofs Mt.Check Mt.Sound.

(** In every reachable state each holder is listed once, the holders' balances of every token
    add up to its recorded supply, no balance exceeds the supply, and the supply is a 64-bit
    number. *)
Theorem balances_sum_to_supply :
  forall s : state, Reachable s ->
    NoDup (keys (bal s))
    /\ (forall d m, holders_total s d m = supply s d m)
    /\ (forall a d m, 0 <= balance s a d m <= supply s d m)
    /\ (forall d m, supply s d m <= max64).
Proof. exact r_balances_sum_to_supply. Qed.
Print Assumptions balances_sum_to_supply.

(** A successful transfer of [x] from [a] to [r]: [a] held at least [x]; if [a = r] no balance
    changes at all; otherwise [a] has exactly [x] less and [r] exactly [x] more (as unbounded
    integers); nobody else's balance, no supply, no class and no token record changes. *)
Theorem transfer_exact :
  forall (s : state) (a : addr) (d : did) (m : mid) (x : Z) (r : addr) (s' : state) (ev : list arith),
    Reachable s ->
    exec_msg s (Transfer a d m x r) = (Some s', ev) ->
    0 < x <= balance s a d m
    /\ (forall d' m', supply s' d' m' = supply s d' m')
    /\ (a = r -> forall a' d' m', balance s' a' d' m' = balance s a' d' m')
    /\ (a <> r -> balance s' a d m = balance s a d m - x /\ balance s' r d m = balance s r d m + x)
    /\ (forall a' d' m', (a', d', m') <> (a, d, m) -> (a', d', m') <> (r, d, m) ->
          balance s' a' d' m' = balance s a' d' m')
    /\ denoms s' = denoms s /\ mts s' = mts s.
Proof. exact r_transfer_exact. Qed.
Print Assumptions transfer_exact.

(** Holding the amount is also sufficient: a well-formed transfer of at most what the sender
    holds never fails (the recipient's balance cannot overflow: it is bounded by the supply). *)
Theorem transfer_succeeds_when_held :
  forall (s : state) (a : addr) (d : did) (m : mid) (x : Z) (r : addr),
    Reachable s ->
    nonblank m && nonblank d && addr_ok a && addr_ok r = true ->
    0 < x <= balance s a d m ->
    exists s', fst (exec_msg s (Transfer a d m x r)) = Some s'.
Proof. exact r_transfer_succeeds. Qed.
Print Assumptions transfer_succeeds_when_held.

(** A successful burn of [x] by [a]: [a] held at least [x]; afterwards [a]'s balance and the
    token's supply are both exactly [x] lower; nothing else changes. *)
Theorem burn_exact :
  forall (s : state) (a : addr) (d : did) (m : mid) (x : Z) (s' : state) (ev : list arith),
    Reachable s ->
    exec_msg s (Burn a d m x) = (Some s', ev) ->
    0 < x <= balance s a d m
    /\ balance s' a d m = balance s a d m - x
    /\ supply s' d m = supply s d m - x
    /\ (forall a' d' m', (a', d', m') <> (a, d, m) -> balance s' a' d' m' = balance s a' d' m')
    /\ (forall d' m', (d', m') <> (d, m) -> supply s' d' m' = supply s d' m')
    /\ denoms s' = denoms s /\ mts s' = mts s.
Proof. exact r_burn_exact. Qed.
Print Assumptions burn_exact.

(** A successful mint of [x] (token [m], or a newly generated one when [m] is blank) adds
    exactly [x] — as unbounded integers — to the supply and to the recipient, the new supply
    still fits 64 bits, and no other balance or supply changes. *)
Theorem mint_exact :
  forall (s : state) (a : addr) (d : did) (m : mid) (x dt : Z) (r : addr) (s' : state) (ev : list arith),
    Reachable s ->
    exec_msg s (Mint a d m x dt r) = (Some s', ev) ->
    let t := if nonblank m then m else mseq s in
    let rc := if r =? -1 then a else r in
    0 < x
    /\ supply s' d t = supply s d t + x /\ supply s' d t <= max64
    /\ balance s' rc d t = balance s rc d t + x
    /\ (forall a' d' m', (a', d', m') <> (rc, d, t) -> balance s' a' d' m' = balance s a' d' m')
    /\ (forall d' m', (d', m') <> (d, t) -> supply s' d' m' = supply s d' m').
Proof. exact r_mint_exact. Qed.
Print Assumptions mint_exact.

(** No wrap-around, ever: along every history from the empty chain, every unchecked
    subtraction [a - b] the code executes on a balance or a supply has [b <= a], and every
    addition [a + b] has [a + b <= 2^64-1] — including the operations of transactions that are
    rolled back afterwards.  (The guards are in the callers and in the invariant
    "balance <= supply"; this is a theorem about the composition.) *)
Theorem no_wrap :
  forall (steps : list step) (e : arith),
    In e (all_events init steps) ->
    match e with
    | USub a b => 0 <= b <= a /\ a <= max64 /\ usub a b = a - b
    | UAdd a b => 0 <= a /\ 0 <= b /\ a + b <= max64 /\ uadd a b = a + b
    | UInc _ => True
    end.
Proof. exact r_no_wrap. Qed.
Print Assumptions no_wrap.

(** ... and the same for one more step from any reachable state. *)
Theorem no_wrap_step :
  forall (s : state) (st : step) (e : arith),
    Reachable s -> In e (events s st) ->
    match e with
    | USub a b => 0 <= b <= a /\ a <= max64 /\ usub a b = a - b
    | UAdd a b => 0 <= a /\ 0 <= b /\ a + b <= max64 /\ uadd a b = a + b
    | UInc _ => True
    end.
Proof. exact r_no_wrap_step. Qed.
Print Assumptions no_wrap_step.

(** The counters ([sequence+1] of the two id sequences, [supply++] of the per-class token
    count) do not wrap in any history of fewer than 2^64-1 steps. *)
Theorem counters_no_wrap :
  forall (steps : list step) (c : Z),
    1 + Z.of_nat (length steps) <= max64 ->
    In (UInc c) (all_events init steps) ->
    0 <= c /\ c + 1 <= max64 /\ uadd c 1 = c + 1.
Proof. exact r_counters_no_wrap. Qed.
Print Assumptions counters_no_wrap.

(** Minting (a new token or more of an existing one), editing a token and handing the class
    over succeed only when the sender is the current owner of the class. *)
Theorem only_class_owner_mints_edits_hands_over :
  forall (s : state) (msg : msg) (s' : state) (ev : list arith),
    Reachable s -> exec_msg s msg = (Some s', ev) ->
    match msg with
    | Mint a d _ _ _ _ | Edit a d _ _ | TransferDenom a d _ => owner_of s d = Some a
    | _ => True
    end.
Proof. exact r_only_owner. Qed.
Print Assumptions only_class_owner_mints_edits_hands_over.

(** The owner of a class changes only by a hand-over sent by the current owner (to the named
    recipient); in particular no other message, by anybody, re-binds a class. *)
Theorem owner_changes_only_by_handover :
  forall (s : state) (msg : msg) (s' : state) (ev : list arith) (d : did) (o : addr),
    Reachable64 s -> exec_msg s msg = (Some s', ev) -> owner_of s d = Some o ->
    owner_of s' d = Some o \/ exists r, msg = TransferDenom o d r /\ owner_of s' d = Some r.
Proof. exact r_owner_change. Qed.
Print Assumptions owner_changes_only_by_handover.

(** A token's metadata changes only by an edit sent by the owner of its class. *)
Theorem token_data_changes_only_by_owner_edit :
  forall (s : state) (msg : msg) (s' : state) (ev : list arith) (d : did) (m : mid) (dt : Z),
    Reachable64 s -> exec_msg s msg = (Some s', ev) -> get (d, m) (mts s) = Some dt ->
    get (d, m) (mts s') = Some dt
    \/ exists a dt', msg = Edit a d m dt' /\ owner_of s d = Some a /\ get (d, m) (mts s') = Some dt'.
Proof. exact r_data_change. Qed.
Print Assumptions token_data_changes_only_by_owner_edit.

(** A token's supply grows only by a mint sent by the owner of its class. *)
Theorem supply_grows_only_by_owner_mint :
  forall (s : state) (msg : msg) (s' : state) (ev : list arith) (d : did) (m : mid),
    Reachable s -> exec_msg s msg = (Some s', ev) -> supply s d m < supply s' d m ->
    exists a m0 x dt r, msg = Mint a d m0 x dt r /\ owner_of s d = Some a.
Proof. exact r_supply_growth. Qed.
Print Assumptions supply_grows_only_by_owner_mint.

(** A rejected message changes nothing. *)
Theorem rejected_step_changes_nothing :
  forall (s : state) (st : step), ok s st = false -> next s st = s.
Proof. exact rejected_changes_nothing. Qed.
Print Assumptions rejected_step_changes_nothing.

(** Generated ids: an id is the SHA-256 of its sequence number (identified with it: injectivity).
    Along every history of fewer than 2^64-1 steps the class ids and the token ids generated are
    strictly increasing sequence numbers starting at 1 — hence pairwise distinct — and each is in
    use in the final state (classes and tokens are never deleted). *)
Theorem generated_ids_never_reused :
  forall steps : list step,
    1 + Z.of_nat (length steps) <= max64 ->
    increasing_from 1 (created_denoms init steps) /\ NoDup (created_denoms init steps)
    /\ increasing_from 1 (created_mts init steps) /\ NoDup (created_mts init steps)
    /\ (forall id, In id (created_denoms init steps) -> get id (denoms (run init steps)) <> None)
    /\ (forall id, In id (created_mts init steps) -> exists d, get (d, id) (mts (run init steps)) <> None).
Proof. exact r_generated_ids. Qed.
Print Assumptions generated_ids_never_reused.

(** ... and from any reachable state onwards: the ids generated later are pairwise distinct, none
    of them is in use now (under any class), and whatever exists now still exists afterwards. *)
Theorem generated_ids_fresh :
  forall (s : state) (steps : list step),
    Reachable64 s ->
    dseq s + Z.of_nat (length steps) <= max64 -> mseq s + Z.of_nat (length steps) <= max64 ->
    NoDup (created_denoms s steps) /\ NoDup (created_mts s steps)
    /\ (forall id, In id (created_denoms s steps) -> get id (denoms s) = None)
    /\ (forall id, In id (created_mts s steps) -> forall d, get (d, id) (mts s) = None)
    /\ (forall d, get d (denoms s) <> None -> get d (denoms (run s steps)) <> None)
    /\ (forall d m, get (d, m) (mts s) <> None -> get (d, m) (mts (run s steps)) <> None).
Proof. exact r_generated_ids_fresh. Qed.
Print Assumptions generated_ids_fresh.

(** The checker is sound for the model: the decidable predicates that the correspondence check
    evaluates on the IMPLEMENTATION's observations (agreement with the model, and the seven
    clauses of C15 on two consecutive observations) hold of the MODEL's own trace (the
    observations computed from the model state) for every history of fewer than 2^64-1 steps:
    the checker answers (-1, -1, 0).  So an alarm always means the implementation showed
    something the model does not. *)
Theorem model_passes_check :
  forall steps : list step,
    1 + Z.of_nat (length steps) <= max64 ->
    check_case (model_trace init steps) = (-1, -1, 0).
Proof. exact model_passes_check_lemma. Qed.
Print Assumptions model_passes_check.

(** ** The hypotheses are satisfiable on a non-trivial history *)
Definition ex_hist : list step :=
  [ Msg (IssueDenom 0 2 5);                              (* actor 0 issues class 1 *)
    Msg (Mint 0 1 0 18446744073709551615 6 1);           (* new token 1: 2^64-1 to actor 1 *)
    Msg (Mint 0 1 1 1 0 2);                              (* one more would overflow: rejected *)
    Msg (Mint 3 1 0 7 0 (-1));                           (* stranger: rejected *)
    Msg (Transfer 1 1 1 18446744073709551614 2);         (* 1 -> 2, all but one *)
    Msg (Transfer 2 1 1 5 2);                            (* to self *)
    Msg (Burn 2 1 1 18446744073709551614);               (* burn everything actor 2 holds *)
    Msg (Burn 2 1 1 1);                                  (* more than held: rejected *)
    Msg (TransferDenom 0 1 3); Block;
    Msg (Mint 0 1 1 9 0 (-1));                           (* old owner: rejected *)
    Msg (Mint 3 1 1 9 0 (-1));                           (* new owner mints 9 to itself *)
    Msg (Edit 3 1 1 1); Msg (Edit 3 1 1 7) ].            (* sentinel: no change; real change *)

Example c15_nonvacuous :
  let s := run init ex_hist in
  Reachable s /\ Reachable64 s
  /\ map (ok_at init ex_hist) [0; 1; 2; 3; 4; 5; 6; 7; 8; 10; 11; 12; 13]%nat
     = [true; true; false; false; true; true; true; false; true; false; true; true; true]
  /\ supply s 1 1 = 10 /\ balance s 1 1 1 = 1 /\ balance s 2 1 1 = 0 /\ balance s 3 1 1 = 9
  /\ holders_total s 1 1 = 10 /\ owner_of s 1 = Some 3 /\ get (1, 1) (mts s) = Some 7
  /\ created_denoms init ex_hist = [1] /\ created_mts init ex_hist = [1]
  /\ length (all_events init ex_hist) = 13%nat
  /\ check_case (model_trace init ex_hist) = (-1, -1, 0).
Proof.
  cbv zeta. split; [exists ex_hist; reflexivity|].
  split; [exists ex_hist; split; [reflexivity|vm_compute; discriminate]|].
  vm_compute. repeat split; reflexivity.
Qed.
