(** * C05 — Farm: principal exactly accounted for and always withdrawable.

    Statements only; proofs are in [Farm/{Lemmas,Spec,Inv,Pres,Pres2,Proofs}.v].  The model
    ([Farm/Model.v]) restates modules/farm after the two [fix:] commits of the farm group
    (reward debt rounded against the farmer; AdjustPool takes the minimum over every rule).

    [reachable s]: [s] is the result of ANY list of steps (messages by senders that are not
    module accounts, and block boundaries running the end blocker) from ANY genesis ledger in
    which the farm account is empty — no bound on the number of pools, farmers, steps or on
    amounts. *)
From Irismod Require Import Farm.Model Farm.Check Farm.Proofs Farm.Sound Farm.SoundTrace.

(** In every reachable state the stakes recorded for the farmers of a pool add up to the pool's
    recorded total. *)
Theorem stakes_sum_to_total :
  forall (s : state) (pid : Z) (p : pool),
    reachable s -> get pid (pools s) = Some p ->
    zsum (map (fun xf => f_locked (snd xf)) (p_farmers p)) = p_locked p.
Proof. exact stakes_sum_lemma. Qed.
Print Assumptions stakes_sum_to_total.

(** In every reachable state and for every denomination the farm module account holds exactly
    all staked tokens plus all remaining reward budgets (the module's crisis invariant). *)
Theorem escrow_eq_stakes_plus_budgets :
  forall (s : state) (d : denom),
    reachable s ->
    bal (bank s) FARM d
    = zsum (map (fun ip => (if p_lpt (snd ip) =? d then p_locked (snd ip) else 0)
                           + zsum (map (fun r => if r_denom r =? d then r_rem r else 0) (p_rules (snd ip))))
                (pools s)).
Proof. exact escrow_lemma. Qed.
Print Assumptions escrow_eq_stakes_plus_budgets.

(** In every reachable state the reward collector holds at least what all farmers of all pools
    could be paid now (in units of 10^-18: per rule max(0, per-share * stake - debt * 10^18)). *)
Theorem collector_covers_pending :
  forall (s : state) (d : denom), reachable s -> owed (pools s) d <= bal (bank s) COLL d * P18.
Proof. exact collector_lemma. Qed.
Print Assumptions collector_covers_pending.

(** A successful unstake credits the farmer exactly the amount of the staked token plus the
    reward coins of the response, lowers the pool total by the amount, and leaves a record of
    exactly the rest (no record when nothing is left).  For every state, reachable or not. *)
Theorem unstake_returns_principal :
  forall (s : state) (who : acct) (pid : Z) (d : denom) (amt : Z) (s' : state) (rw : list (denom * Z)),
    actor who -> unstake s who pid d amt = Done s' rw ->
    exists p fi, get pid (pools s) = Some p /\ get who (p_farmers p) = Some fi /\ d = p_lpt p /\ 0 <= amt <= f_locked fi
      /\ (forall d', bal (bank s') who d' = bal (bank s) who d' + (if d' =? d then amt else 0) + csum rw d')
      /\ (exists p' db, get pid (pools s') = Some p' /\ p_locked p' = p_locked p - amt
                        /\ p_farmers p' = if f_locked fi - amt =? 0 then del1 who (p_farmers p)
                                          else set who (mkF (f_locked fi - amt) db) (p_farmers p)).
Proof. exact unstake_returns_principal_lemma. Qed.
Print Assumptions unstake_returns_principal.

(** In every reachable state, every farmer of every pool can withdraw any positive amount up to
    the recorded stake: the message succeeds (whether the pool is running, in its last block,
    expired or destroyed). *)
Theorem unstake_never_fails :
  forall (s : state) (who : acct) (pid : Z) (p : pool) (fi : finfo) (amt : Z),
    reachable s -> actor who ->
    get pid (pools s) = Some p -> get who (p_farmers p) = Some fi -> 0 < amt <= f_locked fi ->
    exists s' rw, unstake s who pid (p_lpt p) amt = Done s' rw.
Proof. exact unstake_never_fails_lemma. Qed.
Print Assumptions unstake_never_fails.

(** The decidable C05 predicate that the check evaluates on the IMPLEMENTATION's observations ([c05_step]: clauses
    1 sum of stakes, 2 escrow, 3/6 unstake within the stake succeeds, 5 rewards = accrued, 4 principal and record)
    holds of the MODEL's own observations at every step of every history, for the four observed actors: the
    checker answers 0.  So an alarm on clause 1-6 always means the implementation left the model or the property. *)
Theorem checker_predicate_holds_on_the_model :
  forall (s : state) (st : step) (oc0 : outcome) (rw0 : list (denom * Z)),
    reachable s -> valid_step st -> actor_step st ->
    c05_step (height s) (obs_of s oc0 rw0) st
             (obs_of (fst (fst (exec_step s st))) (snd (fst (exec_step s st))) (snd (exec_step s st))) = 0.
Proof. intros s st oc0 rw0 R. exact (model_passes_c05 s st oc0 rw0 (reachable_inv _ R)). Qed.
Print Assumptions checker_predicate_holds_on_the_model.

(** The invariant behind the five statements, for reference: preserved by every step. *)
Theorem invariant_preserved :
  forall (s : state) (st : step), inv s -> valid_step st -> inv (step_state s st).
Proof. exact step_inv. Qed.
Print Assumptions invariant_preserved.

(** ** the hypotheses are satisfiable on a non-trivial history

    The history that broke the unrepaired code (DESIGN section 6): reward 1 per block, A stakes 2,
    B repeatedly enters and leaves with 1 while A harvests.  It is a valid history from a valid
    genesis; it reaches a state with two farmers whose per-share * stake is fractional; and
    there both can withdraw everything (computed). *)
Definition c05_bank : ledger :=
  fold_left (fun l a => fold_left (fun l' d => credit l' a d 1000000) [0; 1; 2; 3] l) [0; 1; 2] [].
Definition c05_hist : list step :=
  [Msg (CreatePool 0 0 2 true [(3, 1000, 1)]); NextBlock; Msg (Stake 1 1 0 2); NextBlock; Msg (Stake 2 1 0 1);
   NextBlock; NextBlock; Msg (Unstake 2 1 0 1); Msg (Harvest 1 1); NextBlock; Msg (Stake 2 1 0 1);
   NextBlock; NextBlock; Msg (Unstake 2 1 0 1); Msg (Harvest 1 1); NextBlock; Msg (Stake 2 1 0 1); NextBlock].

Example c05_nonvacuous :
  genesis_ok c05_bank 2 /\ Forall valid_step c05_hist
  /\ (let s := run (init c05_bank 2) c05_hist in
      match get 1 (pools s) with
      | Some p => eqb (map (fun xf => (fst xf, f_locked (snd xf))) (p_farmers p)) [(1, 2); (2, 1)]
                  && forallb (fun r => negb ((r_rps r * 2) mod P18 =? 0)) (p_rules p)
                  && (bal (bank s) COLL 3 =? 3)
      | None => false
      end) = true.
Proof.
  split; [|split].
  - split; [lia|]. intros d. vm_compute. split; [reflexivity|discriminate].
  - unfold c05_hist. repeat constructor; try discriminate.
  - vm_compute. reflexivity.
Qed.

(** MODEL PASSES CHECK.  For every history (messages by the four observed actors, block boundaries) from every
    genesis whose balances list is the canonical one the harness writes, the checker [check_case_C05], fed the trace the
    MODEL itself produces, answers (-1, -1, 0): no divergence, no clause.  So the check can raise an alarm only on an
    implementation that does not agree with the model. *)
Theorem model_passes_check_C05 :
  forall (h0 : Z) (bl : list (acct * list Z)) (steps : list step) (fair : list (Z * Z * Z * Z * Z)),
    genesis_ok (ledger_of bl) h0 -> bals_of (ledger_of bl) = bl ->
    Forall valid_step steps -> Forall actor_step steps ->
    check_case_C05 (model_case h0 bl steps fair) = (-1, -1, 0).
Proof. exact model_passes_check_C05_lemma. Qed.
Print Assumptions model_passes_check_C05.

(** its hypotheses hold of the harness' kind of genesis: every observed account listed, module accounts empty *)
Example c05_model_case_nonvacuous :
  let bl := [(0, [1000; 1000; 1000; 1000]); (1, [1000; 1000; 1000; 1000]); (2, [5; 0; 7; 1000]); (3, [0; 0; 0; 0]);
             (FARM, [0; 0; 0; 0]); (COLL, [0; 0; 0; 0]); (FEEC, [0; 0; 0; 9]); (BURN, [0; 0; 0; 0])] in
  genesis_ok (ledger_of bl) 2 /\ bals_of (ledger_of bl) = bl
  /\ Forall actor_step c05_hist
  /\ check_case_C05 (model_case 2 bl c05_hist []) = (-1, -1, 0).
Proof.
  cbv zeta. split; [apply genesis_ok_by_entries; [lia|vm_compute; reflexivity]|]. split; [vm_compute; reflexivity|].
  split; [unfold c05_hist; repeat (apply Forall_cons; [simpl; tauto|]); apply Forall_nil|vm_compute; reflexivity].
Qed.

