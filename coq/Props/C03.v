(** * C03 — HTLC: locked funds leave escrow exactly once — by secret, else refund at expiry

    Model: [Htlc/Model.v] (create: ordinary / incoming / outgoing cross-chain; claim; the begin
    blocker: refunds of the expiry queue, then the window update).  A history is any list of
    operations [Create m | Claim who id secret | Adv dts] (a message is atomic: on error nothing is
    written; [Adv dts] executes one block boundary per element of [dts]).

    Hypotheses, all visible in the statements:
    - [params_ok P]: asset limits are not negative (types/params.go validates this);
    - [escrow_empty b]: the module account holds nothing at genesis;
    - [wf_run s ops] = [wf_op] of every operation IN THE STATE in which it is executed: the signer of a
      create message is not a module account (module accounts cannot sign); every ACCEPTED parameter
      change ([SetParams], MsgUpdateParams by the authority with a valid set) is compatible with the
      current usage ([compat_b], Model.v: denoms kept, new limits >= current + incoming, ...).  Rejected
      parameter changes are unrestricted.  What survives an incompatible change: Props/C04.v.
      (A recipient equal to a blocked module account or - since "fix: htlc CreateHTLC rejects a
      recipient equal to the htlc module account" - to the htlc account itself is refused by the code,
      and by the model; no hypothesis on recipients is needed any more.)
    Hashes are identifiers: a hash lock IS its pre-image (secret, timestamp), a contract id IS its
    pre-image (hash lock, sender, recipient, amount); the harness checks the real SHA-256 values.

    Every statement is closed by [exact] of a lemma of [Htlc/Proofs.v]. *)
From Irismod Require Import Htlc.Model Htlc.Proofs Htlc.Examples Htlc.Check Htlc.Sound Htlc.Passes Htlc.PassesEx Htlc.ParamChange Htlc.CoreHist.

(** ** Reachable states satisfy the invariant (induction over the history) *)
Theorem reachable_invariant :
  forall (P : list aparam) (b : ledger) (t0 : Z) (ops : list op),
    params_ok P -> escrow_empty b -> wf_run (init P b t0) ops ->
    Inv (reachable P b t0 ops) /\ Strict (reachable P b t0 ops).
Proof. exact reach_inv. Qed.
Print Assumptions reachable_invariant.

Theorem invariant_initial :
  forall P b t0, params_ok P -> escrow_empty b -> Inv (init P b t0) /\ Strict (init P b t0).
Proof. exact init_inv. Qed.
Print Assumptions invariant_initial.

Theorem invariant_step :
  forall s o, Inv s -> Strict s -> wf_op s o ->
    Inv (step s o) /\ Strict (step s o) /\ st_params (step s o) = params_after s o.
Proof. exact step_inv. Qed.
Print Assumptions invariant_step.

(** ** state_machine: over ANY continuation of ANY history a contract is never deleted, a closed
    contract never changes again, and an open one is either unchanged or has been closed exactly
    once (completed or refunded) with all its fixed fields kept ([close] only sets state and
    closing height). *)
Theorem state_machine :
  forall P b t0 (pre post : list op) (id : cid) (c : contract),
    params_ok P -> escrow_empty b -> wf_run (init P b t0) (pre ++ post) ->
    get id (st_contracts (reachable P b t0 pre)) = Some c ->
    exists c', get id (st_contracts (reachable P b t0 (pre ++ post))) = Some c'
      /\ (c' = c \/ (c_state c = Open /\ exists st h, st <> Open /\ c' = close c st h)).
Proof. exact state_machine_lemma. Qed.
Print Assumptions state_machine.

(** ... and a contract comes into existence only by a create message, open, with a future
    expiration height. *)
Theorem created_open :
  forall s o id c, Inv s -> Strict s -> wf_op s o ->
    get id (st_contracts s) = None -> get id (st_contracts (step s o)) = Some c ->
    c_state c = Open /\ c_closed c = 0 /\ st_height s < c_exp c /\ exists m, o = Create m /\ id = id_of m.
Proof. exact created_open_lemma. Qed.
Print Assumptions created_open.

(** ** claim_iff_preimage: in every reachable state a claim (by anybody) is accepted if and only
    if the contract exists, is open, and the secret is the pre-image of its hash lock bound to
    the contract's timestamp.  (In particular an accepted claim never fails for lack of escrowed
    coins or because of a supply limit.) *)
Theorem claim_iff_preimage :
  forall s who id secret, Inv s ->
    (step_ok s (Claim who id secret) = true <->
     addr_ok who = true /\ exists c, get id (st_contracts s) = Some c /\ c_state c = Open /\ secret_ok c secret = true).
Proof. exact claim_iff_preimage_lemma. Qed.
Print Assumptions claim_iff_preimage.

(** an accepted claim happens strictly before the expiration height, completes the contract at
    the current height, removes its queue entry and moves exactly the coins of [close_events]:
    ordinary -> escrow pays the recipient; incoming -> mint, then pay the recipient; outgoing -> burn *)
Theorem claim_effect :
  forall s who id secret, Inv s -> Strict s -> step_ok s (Claim who id secret) = true ->
    exists c, get id (st_contracts s) = Some c /\ c_state c = Open /\ secret_ok c secret = true
      /\ st_height s < c_exp c
      /\ get id (st_contracts (step s (Claim who id secret))) = Some (close c Completed (st_height s))
      /\ st_log (step s (Claim who id secret)) = close_events id c Completed ++ st_log s
      /\ ~ In (c_exp c, id) (st_queue (step s (Claim who id secret))).
Proof. exact claim_effect_lemma. Qed.
Print Assumptions claim_effect.

(** ** refund_at_expiry: the begin blocker of the block whose height is the expiration height
    refunds exactly the contracts that are still open and expire there, and touches no other. *)
Theorem refund_at_expiry :
  forall s dt, Inv s -> Strict s ->
    forall id c, get id (st_contracts s) = Some c ->
      get id (st_contracts (begin_block s dt)) =
        Some (if openb c && (c_exp c =? st_height s + 1) then close c Refunded (st_height s + 1) else c).
Proof. exact refund_at_expiry_lemma. Qed.
Print Assumptions refund_at_expiry.

(** hence in every reachable state no open contract has reached its expiration height *)
Theorem no_open_contract_at_expiry :
  forall P b t0 ops id c, params_ok P -> escrow_empty b -> wf_run (init P b t0) ops ->
    get id (st_contracts (reachable P b t0 ops)) = Some c -> c_state c = Open ->
    st_height (reachable P b t0 ops) < c_exp c.
Proof. intros P b t0 ops id c HP HE W. exact (proj2 (reach_inv P b t0 ops HP HE W) id c). Qed.
Print Assumptions no_open_contract_at_expiry.

(** ** rejections_move_nothing: a rejected message leaves the whole state unchanged; a creation
    under an existing id is rejected; by [claim_iff_preimage] so are a claim with a wrong secret,
    a second claim and a claim after the refund. *)
Theorem rejections_move_nothing : forall s o, step_ok s o = false -> step s o = s.
Proof. exact rejected_changes_nothing. Qed.
Print Assumptions rejections_move_nothing.

Theorem duplicate_id_rejected : forall s m, has (id_of m) (st_contracts s) = true -> step_ok s (Create m) = false.
Proof. exact duplicate_rejected_lemma. Qed.
Print Assumptions duplicate_id_rejected.

(** ** The coin movements.  [st_log] is a ghost: the model appends an event wherever it moves
    coins through the bank.  First: the log accounts for EVERY change of EVERY balance, over any
    history whatsoever (no hypothesis). *)
Theorem bank_is_log :
  forall P b t0 ops a d,
    bal (st_bank (reachable P b t0 ops)) a d = bal b a d + log_effect (st_log (reachable P b t0 ops)) a d.
Proof. exact bank_is_log_lemma. Qed.
Print Assumptions bank_is_log.

(** leaves_escrow_once: for a contract that locks coins (ordinary, outgoing) the number of
    movements out of escrow (payment or burn) under its id is 0 while it is open and exactly 1
    once it is closed — never 2. *)
Theorem leaves_escrow_once :
  forall s id c, Inv s -> get id (st_contracts s) = Some c -> locksb c = true ->
    n_escrow_out id (st_log s) = if openb c then 0%nat else 1%nat.
Proof. exact leaves_escrow_once_lemma. Qed.
Print Assumptions leaves_escrow_once.

(** recipient_sender_exactly_once: the complete list of movements under the id of an ordinary
    contract (newest first): locked once by the sender; then paid once to the recipient iff
    completed, once back to the sender iff refunded, never both. *)
Theorem recipient_sender_exactly_once :
  forall s id c, Inv s -> get id (st_contracts s) = Some c -> c_transfer c = false ->
    filter (ev_for id) (st_log s) =
      match c_state c with
      | Open => [EvLock id (c_sender c) (c_amount c)]
      | Completed => [EvOut id (c_to c) (c_amount c); EvLock id (c_sender c) (c_amount c)]
      | Refunded => [EvOut id (c_sender c) (c_amount c); EvLock id (c_sender c) (c_amount c)]
      end.
Proof. exact ordinary_log_lemma. Qed.
Print Assumptions recipient_sender_exactly_once.

Theorem outgoing_burns_or_refunds_once :
  forall s id c, Inv s -> get id (st_contracts s) = Some c -> is_out c = true ->
    filter (ev_for id) (st_log s) =
      match c_state c with
      | Open => [EvLock id (c_sender c) (c_amount c)]
      | Completed => [EvBurn id (c_amount c); EvLock id (c_sender c) (c_amount c)]
      | Refunded => [EvOut id (c_sender c) (c_amount c); EvLock id (c_sender c) (c_amount c)]
      end.
Proof. exact outgoing_log_lemma. Qed.
Print Assumptions outgoing_burns_or_refunds_once.

(** incoming_mints_once: an incoming transfer locks nothing; its amount is minted and paid to the
    recipient exactly once, when (and only when) it is completed. *)
Theorem incoming_mints_once :
  forall s id c, Inv s -> get id (st_contracts s) = Some c -> is_in c = true ->
    filter (ev_for id) (st_log s) =
      match c_state c with
      | Completed => [EvOut id (c_to c) (c_amount c); EvMint id (c_amount c)]
      | _ => []
      end.
Proof. exact incoming_log_lemma. Qed.
Print Assumptions incoming_mints_once.

Theorem no_contract_no_movement :
  forall s id, Inv s -> get id (st_contracts s) = None -> filter (ev_for id) (st_log s) = [].
Proof. exact no_contract_no_events_lemma. Qed.
Print Assumptions no_contract_no_movement.

(** ... the same, stated over histories (which may contain compatible parameter changes) *)
Theorem leaves_escrow_once_reachable :
  forall P b t0 ops id c, params_ok P -> escrow_empty b -> wf_run (init P b t0) ops ->
    get id (st_contracts (reachable P b t0 ops)) = Some c -> locksb c = true ->
    n_escrow_out id (st_log (reachable P b t0 ops)) = if openb c then 0%nat else 1%nat.
Proof. intros P b t0 ops id c HP HE W. exact (leaves_escrow_once_lemma _ id c (proj1 (reach_inv P b t0 ops HP HE W))). Qed.
Print Assumptions leaves_escrow_once_reachable.

(** ... and along EVERY history whose accepted parameter changes keep the denoms, compatible with the usage
    or not ([wf_core_run], Htlc/CoreHist.v): funds still leave escrow exactly once, and no open contract
    reaches its expiration height (what is lost after an incompatible change is only that a claim with the
    right secret must succeed: Props/C04.v [claim_may_fail_after_limit_cut]) *)
Theorem leaves_escrow_once_every_history :
  forall P b t0 ops id c, params_ok P -> escrow_empty b -> wf_core_run (init P b t0) ops ->
    get id (st_contracts (reachable P b t0 ops)) = Some c ->
    (locksb c = true -> n_escrow_out id (st_log (reachable P b t0 ops)) = if openb c then 0%nat else 1%nat)
    /\ (c_state c = Open -> st_height (reachable P b t0 ops) < c_exp c).
Proof.
  intros P b t0 ops id c HP HE W Hg. destruct (core_reachable_lemma P b t0 ops HP HE W) as [C S].
  split; [exact (leaves_escrow_once_core _ id c C Hg)|exact (S id c Hg)].
Qed.
Print Assumptions leaves_escrow_once_every_history.

(** ** What the check evaluates lies inside these theorems: for every case accepted by the decidable
    guard [hyps_b] (evaluated by [vm_compute] on every case; a case outside it fails the check), the
    model state the implementation's observations are compared with after ANY number [n] of steps
    satisfies the invariant, hence all of the above. *)
Theorem c03_checked_states_satisfy_invariant :
  forall (k : case) (n : nat), hyps_b k = true ->
    Inv (case_state k n) /\ Strict (case_state k n) /\ Inv_C04 (case_state k n).
Proof. exact checked_states_satisfy_invariant. Qed.
Print Assumptions c03_checked_states_satisfy_invariant.

(** ** model_passes_check: the checker, fed the MODEL's own observations, answers (-1, -1, 0) for both
    properties.  [Vw k nd s code o] says that the observation [o] is the projection of the model state
    [s] (contracts by table position, queue, balance sheet of the case's accounts over [nd] denoms, asset
    supplies, bank supplies, clock) with result code [code]; [trace_ok] says that every step's diff
    decodes to the projection of the model's next state; [table_ok]: the id table has no duplicates, at
    most 100 actors, distinct asset denoms, parties of the table's ids inside the universe and no
    negative denoms.  Consequence: on code that agrees with the model the check can not raise an alarm,
    and the clauses of [p03] / [p04] are consequences of the invariant. *)
Theorem c03_model_passes_check :
  forall (k : case) (nd : nat),
    hyps_b k = true -> table_ok k ->
    Vw k nd (case_init k) 0 (k_obs0 k) ->
    trace_ok k nd (case_init k) (k_obs0 k) (k_steps k) ->
    check_case_C03 k = (-1, -1, 0) /\ check_case_C04 k = (-1, -1, 0).
Proof. exact model_passes_check_lemma. Qed.
Print Assumptions c03_model_passes_check.

(** its hypotheses hold of a concrete case built from the model's run of the example history *)
Example c03_model_passes_check_nonvacuous :
  hyps_b exCase = true /\ table_ok exCase /\ Vw exCase 5 (case_init exCase) 0 (k_obs0 exCase)
  /\ trace_ok exCase 5 (case_init exCase) (k_obs0 exCase) (k_steps exCase) /\ length (k_steps exCase) = 16%nat.
Proof. split; [exact exCase_hyps|]. split; [exact exCase_table|]. split; [exact exCase_init_view|]. split; [exact exCase_trace|reflexivity]. Qed.

(** ** Non-vacuity: the hypotheses hold of a concrete history ([Htlc/Examples.v]) that walks all
    three kinds of contract through claim, refund, duplicate, wrong secret, second claim, claim in
    the last block before expiry and claim after refund. *)
Example c03_hypotheses_satisfiable : params_ok exP /\ escrow_empty exB /\ wf_run (init exP exB (ts0 * ns)) exOps.
Proof.
  split; [|split].
  - repeat constructor; simpl; lia.
  - intros d. reflexivity.
  - apply wf_run_b_sound. vm_compute. reflexivity.
Qed.

Example c03_history_outcomes :
  map (fun n => step_ok (reachable exP exB (ts0 * ns) (firstn n exOps)) (nth n exOps (Adv []))) (seq 0 13)
    = [true; false; true; false; true; true; true; false; true; true; true; true; false]
  /\ map (fun id => option_map (fun c => (c_state c, c_closed c, c_exp c))
                               (get id (st_contracts (reachable exP exB (ts0 * ns) exOps)))) [id1; id2; id3; id4]
    = [Some (Completed, 1, 51); Some (Completed, 1, 51); Some (Refunded, 51, 51); Some (Completed, 50, 51)]
  /\ map (fun a => (bal (st_bank (reachable exP exB (ts0 * ns) exOps)) a 4,
                    bal (st_bank (reachable exP exB (ts0 * ns) exOps)) a 0)) [0; 1; 3; ESC]
    = [(930, 200); (1070, 0); (0, 0); (0, 0)]
  /\ map (fun id => n_escrow_out id (st_log (reachable exP exB (ts0 * ns) exOps))) [id1; id2; id3; id4]
    = [1%nat; 1%nat; 1%nat; 1%nat].
Proof. vm_compute. repeat split. Qed.
