(** * C20 - API: both generated protobuf families describe and encode messages identically;
      every transaction message is registered and declares a signer that resolves to an address.

    Only statements.  Three groups:

    (a) finite facts about the descriptor sets REGENERATED on every run into [Gen/Descriptors.v]
        from the two registries of one process that links both families (gogoproto:
        modules/<m>/types/<f>.pb.go; protobuf-go "pulsar": the tree under api/irismod).  Each is a decidable
        check evaluated by [vm_compute] and lifted by a general soundness lemma
        ([dec_eq_sound], [mem_str_sound], [resolves_sound] in [Proto/DescProofs.v]).  The
        finiteness is in the statements: they are about the constants [gogo_files],
        [pulsar_files], [registered_msgs], [source_rows].
    (b) the generic wire-format theorems of [Proto/WireProofs.v]: for ALL descriptors of the
        fragment and ALL well-typed values (no bound on sizes, nesting, field numbers).
    (c) the split of the cross-family round trip: proved when every non-nullable field is
        present, refuted by a witness when one is absent (inherent in the gogoproto options the
        .proto files choose). *)
From Irismod Require Import Proto.Desc Proto.DescProofs Proto.Wire Proto.WireEnv Proto.WireProofs
  Proto.EnvProofs Proto.FillProofs Proto.Check Gen.Descriptors.
Open Scope string_scope.

(** ** (a) descriptors *)

(** Both families carry the same descriptors - files, packages, imports, messages, fields
    (name, number, type, label, type name, json name, proto3-optional, oneof index, default),
    enums and values, services, methods (request, response, streaming) and ALL message / field /
    enum / enum-value / service / method options as raw (number, wire type, bytes) - once the
    file-level code-generator options are dropped ([norm]).  The comparison ranges over the
    files for which the gogoproto family is generated at all ([gogo_scope]: the .proto files
    with a [go_package] option, rule of scripts/protocgen.sh). *)
Theorem families_agree : norm gogo_files = norm (in_scope gogo_scope pulsar_files).
Proof. apply dec_eq_sound. vm_compute. reflexivity. Qed.
Print Assumptions families_agree.

(** No .proto file is left out: the api/ family registers exactly the files found under
    proto/irismod, the gogoproto family exactly those in [gogo_scope]; the files outside the
    scope are the app-config objects [irismod/<module>/module/v1/module.proto]. *)
Theorem all_sources_generated :
  map fl_name pulsar_files = source_files /\ map fl_name gogo_files = gogo_scope
  /\ forall f, In f source_files -> In f gogo_scope \/ exists m, f = "irismod/" ++ m ++ "/module/v1/module.proto".
Proof.
  split; [apply dec_eq_sound; vm_compute; reflexivity|].
  split; [apply dec_eq_sound; vm_compute; reflexivity|].
  assert (Hb : forallb (fun f => mem_str f gogo_scope
              || existsb (fun m => Prelude.eqb f ("irismod/" ++ m ++ "/module/v1/module.proto"))
                   ["coinswap"; "farm"; "htlc"; "mt"; "nft"; "oracle"; "random"; "record"; "service"; "token"])
            source_files = true) by (vm_compute; reflexivity).
  intros f Hin. pose proof (forallb_In _ _ Hb f Hin) as Hf. cbv beta in Hf.
  apply Bool.orb_true_iff in Hf. destruct Hf as [Hs|He].
  - left. apply mem_str_sound. exact Hs.
  - right. apply existsb_exists in He. destruct He as [m [_ Hm]]. exists m. apply dec_eq_sound. exact Hm.
Qed.
Print Assumptions all_sources_generated.

(** The text of the .proto files under proto/irismod says the same as the descriptors, on the table
    (file, package, message, field name, number, type, repeated, json name - the one the text
    spells with [json_name], protoc's default [json_camel] otherwise -, signer option, enum, value,
    service, is-Msg-service, method, request, response, streaming) and on EVERY message / field /
    enum / enum-value / service / method option: the option names written in the text are
    resolved to extension numbers through the linked descriptors of gogo.proto, cosmos.proto,
    msg.proto, amino.proto, annotations.proto, descriptor.proto, their values rendered in wire form
    (message-valued options - [aggregate_opts] - by presence only). *)
Theorem proto_sources_agree : src_norm source_rows = desc_rows aggregate_opts pulsar_files.
Proof. apply dec_eq_sound. vm_compute. reflexivity. Qed.
Print Assumptions proto_sources_agree.

(** The messages imported from other repositories (Coin, PageRequest, PageResponse, Any,
    Timestamp, Duration) have the same wire layout in the two families. *)
Theorem deps_agree : wire_proj gogo_deps = wire_proj pulsar_deps.
Proof. apply dec_eq_sound. vm_compute. reflexivity. Qed.
Print Assumptions deps_agree.

(** The gRPC service descriptors in the generated Go code of both families ([grpc.ServiceDesc]:
    service name, method names, the request type each handler decodes, streaming flags, the
    .proto file named in the metadata) are exactly the services the file descriptors declare. *)
Theorem grpc_descs_agree :
  gogo_grpc = grpc_proj gogo_files /\ pulsar_grpc = grpc_proj (in_scope gogo_scope pulsar_files).
Proof. split; apply dec_eq_sound; vm_compute; reflexivity. Qed.
Print Assumptions grpc_descs_agree.

(** Every transaction message (request type of a service marked [cosmos.msg.v1.service]) is
    registered as an [sdk.Msg] implementation in the application's interface registry. *)
Theorem every_msg_registered :
  forall m, In m (tx_messages gogo_files) -> In ("/" ++ m) registered_msgs.
Proof.
  assert (Hb : forallb (fun m => mem_str ("/" ++ m) registered_msgs) (tx_messages gogo_files) = true)
    by (vm_compute; reflexivity).
  intros m Hin. apply mem_str_sound. exact (forallb_In _ _ Hb m Hin).
Qed.
Print Assumptions every_msg_registered.

(** ... and declares as signer a field that exists and holds an address - the SDK rule: the
    named field is a string, or a message that itself declares a signer, recursively
    ([MsgSwapOrder.input] is the nested case) - in both families. *)
Theorem signer_well_formed :
  forall m, In m (tx_messages gogo_files) ->
    resolves (all_msgs gogo_files) m /\ resolves (all_msgs pulsar_files) m.
Proof.
  assert (Hb : forallb (fun m => resolves_b 8 (all_msgs gogo_files) m && resolves_b 8 (all_msgs pulsar_files) m)
                 (tx_messages gogo_files) = true) by (vm_compute; reflexivity).
  intros m Hin. pose proof (forallb_In _ _ Hb m Hin) as Hm. cbv beta in Hm.
  apply Bool.andb_true_iff in Hm. destruct Hm as [H1 H2].
  split; eapply resolves_sound; eassumption.
Qed.
Print Assumptions signer_well_formed.

Theorem resolves_sound :
  forall (fuel : nat) (ms : list message) (full : string), resolves_b fuel ms full = true -> resolves ms full.
Proof. exact DescProofs.resolves_sound. Qed.
Print Assumptions resolves_sound.

(** the two families name the same transaction messages; there are 66 of them, one nested *)
Example tx_messages_nontrivial :
  tx_messages gogo_files = tx_messages pulsar_files
  /\ length (tx_messages gogo_files) = 66%nat
  /\ In "irismod.coinswap.MsgSwapOrder" (tx_messages gogo_files)
  /\ (exists m, find_msg "irismod.coinswap.MsgSwapOrder" (all_msgs gogo_files) = Some m /\ m_signers m = ["input"]).
Proof.
  split; [vm_compute; reflexivity|]. split; [vm_compute; reflexivity|].
  split; [apply mem_str_sound; vm_compute; reflexivity|].
  eexists. split; vm_compute; reflexivity.
Qed.

(** Every field of every message lies in the fragment that [Proto/Wire.v] models (no oneof,
    proto3-optional, sint, fixed, float, double, group). *)
Theorem fragment_covers_all_fields :
  unsupported_fields (gogo_files ++ gogo_deps) = [] /\ unsupported_fields (pulsar_files ++ pulsar_deps) = [].
Proof. split; vm_compute; reflexivity. Qed.
Print Assumptions fragment_covers_all_fields.

(** ** (b) encoding: for all descriptors of the fragment and all well-typed values *)

Theorem varint_roundtrip : forall (n : N) (rest : list N), read_varint (varint n ++ rest) = Some (n, rest).
Proof. exact WireProofs.varint_roundtrip. Qed.
Print Assumptions varint_roundtrip.

(** decoding what the model encodes gives the value back - any environment of message
    descriptors, any message name, any value of that type (any nesting depth, any size) *)
Theorem decode_encode : forall (e : env) (name : string) (v : value) (bs : list N),
  encode e name v = Some bs -> decode e name bs = Some v.
Proof. exact encode_decode_lemma. Qed.
Print Assumptions decode_encode.

Theorem decode_encode_typed : forall (e : env) (name : string) (v : value),
  typedb e (WMsg name) v = true -> decode e name (enc v) = Some v.
Proof. exact decode_encode_lemma. Qed.
Print Assumptions decode_encode_typed.

(** byte-exact re-encoding: an input accepted by the strict decoder (= the decoder, with
    over-long varints rejected: [strict_is_decode]) re-encodes to itself; and the strict decoder
    accepts every encoding of a well-typed value ([canonical] is inhabited by all of them) *)
Theorem encode_canonical : forall (fuel : nat) (e : env) (m : wmsg) (bs : list N) (fs : list (N * value)),
  dec_fields_strict fuel e m bs = Some fs -> enc_fields fs = bs.
Proof. exact encode_canonical_lemma. Qed.
Print Assumptions encode_canonical.

Theorem strict_is_decode : forall (fuel : nat) (e : env) (m : wmsg) (bs : list N) (fs : list (N * value)),
  dec_fields_strict fuel e m bs = Some fs -> dec_fields fuel e m bs = Some fs.
Proof. exact strict_implies_decode. Qed.
Print Assumptions strict_is_decode.

Theorem canonical_encodings_accepted : forall (e : env) (fs : list (N * value)) (m : wmsg),
  typed_fields e m fs = true ->
  forall fuel, (length (enc_fields fs) <= fuel)%nat -> dec_fields_strict fuel e m (enc_fields fs) = Some fs.
Proof. exact dec_strict_enc_fields. Qed.
Print Assumptions canonical_encodings_accepted.

(** ** (a)+(b): equal descriptors drive the same codec *)

(** The encoder/decoder environment is a function of the normalised descriptors only - for ANY
    two descriptor sets, under either reading of the gogoproto options. *)
Theorem same_descriptors_same_codec : forall (gogo : bool) (fs1 fs2 : list file),
  norm fs1 = norm fs2 -> wire_env gogo fs1 = wire_env gogo fs2.
Proof. exact same_descriptors_same_codec_lemma. Qed.
Print Assumptions same_descriptors_same_codec.

(** Hence, by [families_agree], every message defined under proto/irismod is encoded and decoded
    by the same model codec in the two families: [encode]/[decode] for the gogoproto family's
    descriptors ARE [encode]/[decode] for the api/ family's. *)
Theorem irismod_codecs_agree : forall gogo : bool,
  wire_env gogo gogo_files = wire_env gogo (in_scope gogo_scope pulsar_files).
Proof. intro gogo. apply same_descriptors_same_codec. exact families_agree. Qed.
Print Assumptions irismod_codecs_agree.

(** ... and so are the imported messages (Coin, PageRequest, PageResponse, Any, Timestamp,
    Duration), under either reading of the gogoproto options: the WHOLE environment the model codec
    is driven by is the same for the two families. *)
Theorem codecs_agree : forall gogo : bool,
  wire_env gogo (gogo_files ++ gogo_deps) = wire_env gogo (in_scope gogo_scope pulsar_files ++ pulsar_deps).
Proof.
  intro gogo. rewrite !wire_env_app. rewrite (irismod_codecs_agree gogo).
  assert (H : wire_env gogo gogo_deps = wire_env gogo pulsar_deps)
    by (destruct gogo; apply dec_eq_sound; vm_compute; reflexivity).
  rewrite H. reflexivity.
Qed.
Print Assumptions codecs_agree.

(** ** (c) the cross-family round trip *)

(** When every non-nullable field of every (sub)message is present, the gogoproto family (as
    modelled: [gogo_enc] = encode after filling in what its marshaller always emits) produces
    exactly the bytes of the plain proto3 encoding, and each side decodes the other's bytes to
    the same value - for all descriptors, all values. *)
Theorem roundtrip_populated : forall (fuel : nat) (e : env) (name : string) (v : value),
  typedb e (WMsg name) v = true -> populatedb fuel e (WMsg name) v = true ->
  gogo_enc fuel e name v = enc v
  /\ decode e name (gogo_enc fuel e name v) = Some v
  /\ decode e name (enc v) = Some v.
Proof. exact roundtrip_populated_lemma. Qed.
Print Assumptions roundtrip_populated.

(** With a non-nullable field absent it fails: [MsgAddLiquidity] with only [deadline] and
    [sender] set - the api/ family writes [20 05 2a ..], the gogoproto family additionally emits
    max_token (an empty Coin with amount "0"), exact_standard_amt "0" and min_liquidity "0".
    The environment is the one COMPUTED from the regenerated descriptors. *)
Theorem roundtrip_absent_nonnullable_refuted :
  exists (name : string) (v : value),
    encode penv name v <> None /\ encode genv name v <> None
    /\ gogo_enc FUEL genv name v <> enc v
    /\ gogo_enc FUEL genv name v =
         (unhex_bytes "0a03120130" ++ unhex_bytes "120130" ++ unhex_bytes "1a0130" ++ enc v)%list.
Proof.
  exists "irismod.coinswap.MsgAddLiquidity", (VMsg [(4, VInt 5); (5, VB "69616131")])%N.
  split; [vm_compute; discriminate|]. split; [vm_compute; discriminate|].
  split; [vm_compute; discriminate|]. vm_compute. reflexivity.
Qed.
Print Assumptions roundtrip_absent_nonnullable_refuted.

(** The strongest true variant when non-nullable fields may be absent: in a well-formed
    environment ([env_ok], [env_typed]: field numbers unique per message, the defaults gogoproto
    emits are well typed and themselves fully populated) what the gogoproto family emits - [v'], the value with its absent
    non-nullable fields filled in - is fully populated; hence the gogoproto family re-encodes [v']
    byte for byte and the plain proto3 decoder both families share returns [v'].  (This is what
    the check observes on every case: gogo re-encoded = api re-encoded = gogo bytes.) *)
Theorem roundtrip_absent_partial : forall (fuel : nat) (e : env) (name : string) (v : value),
  env_ok fuel e = true -> env_typed e = true ->
  typedb e (WMsg name) v = true ->
  let v' := fill fuel e (WMsg name) v in
  gogo_enc fuel e name v = enc v'
  /\ populatedb fuel e (WMsg name) v' = true
  /\ gogo_enc fuel e name v' = enc v'
  /\ decode e name (enc v') = Some v'.
Proof. exact roundtrip_absent_partial_lemma. Qed.
Print Assumptions roundtrip_absent_partial.

(** the environments computed from the regenerated descriptors are well-formed, and the
    hypotheses hold for the refutation witness *)
Example genv_ok :
  env_ok FUEL genv = true /\ env_typed genv = true /\ env_ok FUEL penv = true
  /\ typedb genv (WMsg "irismod.coinswap.MsgAddLiquidity") (VMsg [(4, VInt 5); (5, VB "69616131")])%N = true.
Proof. repeat split; vm_compute; reflexivity. Qed.

(** the hypotheses of [roundtrip_populated] are satisfiable by a non-trivial value of a real
    message: all fields of MsgAddLiquidity set, nested Coin populated *)
Example populated_nonvacuous :
  let v := (VMsg [(1, VMsg [(1, VB "7374616b65"); (2, VB "3130")]); (2, VB "3939"); (3, VB "31");
                  (4, VInt 18446744073709551615); (5, VB "69616131")])%N in
  typedb genv (WMsg "irismod.coinswap.MsgAddLiquidity") v = true
  /\ canonb genv (WMsg "irismod.coinswap.MsgAddLiquidity") v = true
  /\ populatedb FUEL genv (WMsg "irismod.coinswap.MsgAddLiquidity") v = true
  /\ length (enc v) = 37%nat.
Proof. cbv zeta. repeat split; vm_compute; reflexivity. Qed.

(** the identity of the known findings is computed from the descriptors: 96 non-nullable
    fields, one customtype numeral on a message-typed field, three map fields *)
Example finding_sets :
  length (nonnullable_fields (gogo_files ++ gogo_deps)) = 96%nat
  /\ mismatch_fields (gogo_files ++ gogo_deps) = [("irismod.coinswap.Params", "fee")]
  /\ length (map_fields gogo_files) = 3%nat.
Proof. repeat split; vm_compute; reflexivity. Qed.
