(** * C12 over HISTORIES of the message-level models — the link theorems.

    Kept in a file of its own (listed in the coq_targets of check/propsd/c12.py) because it depends on the OTHER
    groups' message-level models: when one of those models changes, at most this file stops compiling (and the
    check reports the broken obligation by name), while the theorems of [Props/C12.v] — which depend only on
    [coq/Genesis] — stay checked. *)
From Irismod Require Import Genesis.Store.
(** No free-standing invariant:

    For record, coinswap, random, nft, mt, htlc, token and farm the reachability invariant [invb] is DERIVED from the other groups'
    message-level models ([Genesis/Link<Mod>.v]): an abstraction [abs] maps a state of that model to the
    genesis-level state (renaming ids by an injective numbering, sorting the stores the way the KV store
    iterates), and [reachable_<mod>] proves [invb (abs (run h)) = true] for every history [h] from that
    model's proved invariants (plus small extra invariants proved over its step function).  The C12
    statements then quantify over histories. *)
From Irismod Require Genesis.LinkRecord Genesis.LinkCoinswap Genesis.LinkRandom Genesis.LinkNft Genesis.LinkMt Genesis.LinkHtlc Genesis.LinkToken Genesis.LinkFarm Genesis.LinkHtlcParams Genesis.LinkOracle Genesis.LinkService.

Module LinkRecordC12.
Import Genesis.LinkRecord.

(** hypothesis: the id order [ord] separates the ids in the store (SHA-256 is collision-free on them) *)
Theorem reachable_record :
  forall (ord : G.rid -> Z) (steps : list M.step),
    separates ord (map fst (M.store (M.run M.init steps))) ->
    G.invb ord (abs ord (M.run M.init steps)) = true.
Proof. exact LinkRecord.reachable_record. Qed.
Print Assumptions reachable_record.

Theorem record_history_export_validates :
  forall (ord : G.rid -> Z) (steps : list M.step),
    separates ord (map fst (M.store (M.run M.init steps))) ->
    G.validate (G.export (abs ord (M.run M.init steps))) = true.
Proof. exact LinkRecord.record_history_export_validates. Qed.
Print Assumptions record_history_export_validates.

Theorem record_history_import_total :
  forall (ord : G.rid -> Z) (steps : list M.step),
    separates ord (map fst (M.store (M.run M.init steps))) ->
    G.import ord (G.export (abs ord (M.run M.init steps))) <> None.
Proof. exact LinkRecord.record_history_import_total. Qed.
Print Assumptions record_history_import_total.

(** every record the history created is readable after export -> import under an id of the same record *)
Theorem record_history_queries_partial :
  forall (ord : G.rid -> Z) (steps : list M.step) (s' : G.state),
    G.import ord (G.export (abs ord (M.run M.init steps))) = Some s' ->
    forall id r, M.query (M.run M.init steps) id = Some r -> exists c, G.query s' (r, c) = Some r.
Proof. exact LinkRecord.record_history_queries_partial. Qed.
Print Assumptions record_history_queries_partial.
End LinkRecordC12.

Module LinkCoinswapC12.
Import Genesis.LinkCoinswap.

(** from the coinswap model's [Inv], the lpt numbering [Dense] and valid stored parameters [ParOk] of the initial
    state (all three are preserved by every message, MsgUpdateParams included); the sequence stays a uint64 *)
Theorem reachable_coinswap :
  forall (rk : Z -> Z), (forall a b, rk a = rk b -> a = b) -> (forall a, 0 <= rk a) ->
  forall (s0 : M.state) (ms : list M.msg),
    MV.Inv s0 -> Dense s0 -> ParOk s0 -> M.seq (M.run s0 ms) < G.two64 ->
    G.invb (abs rk (M.run s0 ms)) = true.
Proof. exact LinkCoinswap.reachable_coinswap. Qed.
Print Assumptions reachable_coinswap.

Theorem coinswap_history_roundtrip :
  forall (rk : Z -> Z), (forall a b, rk a = rk b -> a = b) -> (forall a, 0 <= rk a) ->
  forall (s0 : M.state) (ms : list M.msg),
    MV.Inv s0 -> Dense s0 -> ParOk s0 -> M.seq (M.run s0 ms) < G.two64 ->
    G.import (G.export (abs rk (M.run s0 ms))) = Some (abs rk (M.run s0 ms)).
Proof. exact LinkCoinswap.coinswap_history_roundtrip. Qed.
Print Assumptions coinswap_history_roundtrip.
End LinkCoinswapC12.

Module LinkRandomC12.
Import Genesis.LinkRandom.

(** [sane] is the random model's well-formedness of histories (block times non-zero, one request per consumer
    and block where the harness needs it); no further hypothesis *)
Theorem reachable_random :
  forall (sha : M.hin -> Z) (P : Z -> bool) (tbl : list ((Z * Z) * Z)) (steps : list M.step),
    MP.sane P [] steps -> G.invb tbl (abs tbl (M.run sha M.init steps)) = true.
Proof. exact LinkRandom.reachable_random. Qed.
Print Assumptions reachable_random.

Theorem random_history_roundtrip :
  forall (sha : M.hin -> Z) (P : Z -> bool) (tbl : list ((Z * Z) * Z)) (steps : list M.step),
    MP.sane P [] steps ->
    G.import tbl (G.export (abs tbl (M.run sha M.init steps))) = Some (abs tbl (M.run sha M.init steps)).
Proof. exact LinkRandom.random_history_roundtrip. Qed.
Print Assumptions random_history_roundtrip.
End LinkRandomC12.

Module LinkNftC12.
Import Genesis.LinkNft.

(** no hypothesis on the history at all *)
Theorem reachable_nft :
  forall (rkc rkt : Z -> Z), (forall a b, rkc a = rkc b -> a = b) ->
  forall (blobc : M.class -> Z) (blobt : M.tmeta -> Z) (steps : list M.step),
    G.invb (abs rkc rkt blobc blobt (M.run M.init steps)) = true.
Proof. exact LinkNft.reachable_nft. Qed.
Print Assumptions reachable_nft.

Theorem nft_history_roundtrip :
  forall (rkc rkt : Z -> Z), (forall a b, rkc a = rkc b -> a = b) ->
  forall (blobc : M.class -> Z) (blobt : M.tmeta -> Z) (steps : list M.step),
    G.import false (G.export (abs rkc rkt blobc blobt (M.run M.init steps)))
    = Some (abs rkc rkt blobc blobt (M.run M.init steps)).
Proof. exact LinkNft.nft_history_roundtrip. Qed.
Print Assumptions nft_history_roundtrip.
End LinkNftC12.


(** ** mt: [invb] derived from the message-level model of the nftmt group ([Mt/Model.v], [Mt/Proofs.v],
    [Mt/Export.v]). [Reachable64 s] = [s] is the state after a history of fewer than 2^64 - 1 steps from the
    empty state (the bound under which the uint64 sequences do not wrap). *)
Module LinkMtC12.
Import Genesis.LinkMt.

Theorem reachable_mt : forall s : M.state, MP.Reachable64 s -> G.invb (abs s) = true.
Proof. exact LinkMt.reachable_mt. Qed.
Print Assumptions reachable_mt.

Theorem mt_history_export_validates :
  forall s : M.state, MP.Reachable64 s -> G.validate false (G.export (abs s)) = true.
Proof. exact LinkMt.mt_history_export_validates. Qed.
Print Assumptions mt_history_export_validates.

Theorem mt_history_roundtrip :
  forall s : M.state, MP.Reachable64 s -> G.import false (G.export (abs s)) = Some (GP.norm (abs s)).
Proof. exact LinkMt.mt_history_roundtrip. Qed.
Print Assumptions mt_history_roundtrip.

Theorem mt_history_fixpoint_and_queries :
  forall s : M.state, MP.Reachable64 s ->
  exists s', G.import false (G.export (abs s)) = Some s' /\ G.export s' = G.export (abs s) /\ G.queries s' = G.queries (abs s).
Proof. exact LinkMt.mt_history_fixpoint_and_queries. Qed.
Print Assumptions mt_history_fixpoint_and_queries.
End LinkMtC12.

(** ** htlc: [invb] derived from the message-level model of the htlc group ([Htlc/Model.v], [Htlc/Proofs.v]:
    [Inv], [Strict]) plus the small invariant [J] of [Genesis/LinkHtlc.v].  Histories: from a genesis with
    parameters that Keeper.SetParams accepts and an empty escrow account, any operations WITHOUT parameter
    changes ([wf0]: it implies the htlc group's run-dependent [wf_run]; a MsgUpdateParams can make the exported genesis un-importable — known finding, clause 7
    of the check) whose transfers carry a timestamp ([ts_ok]).  [rk] numbers the contract ids (injective on the
    ids of the state), [oth] gives the lengths of the other-chain address strings.  [abs] is the whole store,
    [abs_o] the store without the closed contracts (which ExportGenesis drops, documented). *)
Module LinkHtlcC12.
Import Genesis.LinkHtlc.

Theorem reachable_htlc :
  forall (rk : M.cid -> Z) (hl : M.hlock -> Z) (rs : Z -> Z) (oth : M.cid -> Z * Z),
  (forall id, fst (oth id) <= 128 /\ snd (oth id) <= 128) ->
  forall P b t0 ops, M.params_valid P = true -> MP.escrow_empty b -> Forall wf0 ops -> Forall ts_ok ops ->
  inj_on rk (map fst (M.st_contracts (MP.reachable P b t0 ops))) ->
  G.invb true (abs_o rk hl rs oth (MP.reachable P b t0 ops)) = true.
Proof. exact LinkHtlc.reachable_htlc. Qed.
Print Assumptions reachable_htlc.

Theorem htlc_history_export_validates :
  forall (rk : M.cid -> Z) (hl : M.hlock -> Z) (rs : Z -> Z) (oth : M.cid -> Z * Z),
  (forall id, fst (oth id) <= 128 /\ snd (oth id) <= 128) ->
  forall P b t0 ops, M.params_valid P = true -> MP.escrow_empty b -> Forall wf0 ops -> Forall ts_ok ops ->
  inj_on rk (map fst (M.st_contracts (MP.reachable P b t0 ops))) ->
  G.validate true (G.export (abs rk hl rs oth (MP.reachable P b t0 ops))) = true.
Proof. exact LinkHtlc.htlc_history_export_validates. Qed.
Print Assumptions htlc_history_export_validates.

(** import does not panic, and the new chain's state is the old one's without its closed contracts — the
    expiration queue included (it is rebuilt from the open contracts and equals the old queue) *)
Theorem htlc_history_import_is_open_part :
  forall (rk : M.cid -> Z) (hl : M.hlock -> Z) (rs : Z -> Z) (oth : M.cid -> Z * Z),
  (forall id, fst (oth id) <= 128 /\ snd (oth id) <= 128) ->
  forall P b t0 ops, M.params_valid P = true -> MP.escrow_empty b -> Forall wf0 ops -> Forall ts_ok ops ->
  inj_on rk (map fst (M.st_contracts (MP.reachable P b t0 ops))) ->
  G.import true (G.export (abs rk hl rs oth (MP.reachable P b t0 ops))) = Some (abs_o rk hl rs oth (MP.reachable P b t0 ops)).
Proof. exact LinkHtlc.htlc_history_import_is_open_part. Qed.
Print Assumptions htlc_history_import_is_open_part.

Theorem htlc_history_fixpoint_and_queries :
  forall (rk : M.cid -> Z) (hl : M.hlock -> Z) (rs : Z -> Z) (oth : M.cid -> Z * Z),
  (forall id, fst (oth id) <= 128 /\ snd (oth id) <= 128) ->
  forall P b t0 ops, M.params_valid P = true -> MP.escrow_empty b -> Forall wf0 ops -> Forall ts_ok ops ->
  inj_on rk (map fst (M.st_contracts (MP.reachable P b t0 ops))) ->
  exists s', G.import true (G.export (abs rk hl rs oth (MP.reachable P b t0 ops))) = Some s'
    /\ G.export s' = G.export (abs rk hl rs oth (MP.reachable P b t0 ops))
    /\ G.queries s' = G.queries (abs rk hl rs oth (MP.reachable P b t0 ops))
    /\ G.queue s' = G.queue_of (G.htlcs s').
Proof. exact LinkHtlc.htlc_history_fixpoint_and_queries. Qed.
Print Assumptions htlc_history_fixpoint_and_queries.

(** after PrepForZeroHeightGenesis at the state's height the invariant holds again (and with it the four
    statements of [Props/C12.v] for the prepared state); import of the prepared export does not panic *)
Theorem htlc_history_prep :
  forall (rk : M.cid -> Z) (hl : M.hlock -> Z) (rs : Z -> Z) (oth : M.cid -> Z * Z),
  (forall id, fst (oth id) <= 128 /\ snd (oth id) <= 128) ->
  forall P b t0 ops, M.params_valid P = true -> MP.escrow_empty b -> Forall wf0 ops -> Forall ts_ok ops ->
  let s := MP.reachable P b t0 ops in
  inj_on rk (map fst (M.st_contracts s)) ->
  (forall id c, In (id, c) (M.st_contracts s) -> M.c_exp c < G.two64) ->
  G.invb true (G.prep (M.st_height s) (abs_o rk hl rs oth s)) = true
  /\ G.import true (G.export (G.prep (M.st_height s) (abs_o rk hl rs oth s))) <> None.
Proof. exact LinkHtlc.htlc_history_prep. Qed.
Print Assumptions htlc_history_prep.

(** KNOWN FINDING at the message level: with a parameter change in the history (the asset is deactivated under an
    open incoming transfer; the model's SetParams accepts the set as Keeper.SetParams does) the export of the
    abstraction validates and its import panics *)
Theorem htlc_import_total_refuted_after_param_change :
  let ops := [ M.Create (M.mkCreate 3 0 [(0, 200)] (8, 1700000000) 1700000000 50 true); M.SetParams M.GOV ex_P_inactive ] in
  let s := MP.reachable ex_P ex_B (1700000000 * M.ns) ops in
  M.params_valid ex_P_inactive = true /\ M.st_params s = ex_P_inactive
  /\ length (G.g_htlcs (G.export (ex_abs s))) = 1%nat
  /\ G.validate true (G.export (ex_abs s)) = true /\ G.import true (G.export (ex_abs s)) = None.
Proof. exact LinkHtlc.htlc_history_param_change_refuted. Qed.
Print Assumptions htlc_import_total_refuted_after_param_change.
End LinkHtlcC12.

(** ** token: [invb] derived from the message-level model of the token group ([Token/Model.v], [Token/Proofs.v]:
    [IdInv]; [Token/Passes.v]: [WF]) plus the invariant [K] of [Genesis/LinkToken.v].  Histories: the harness
    genesis (the native token, parameters that pass Params.Validate with the native symbol as fee denom), then
    any C09 messages (issue, edit, mint, burn, ownership transfer, parameter update; no ERC20 messages, no
    fee-token swap).  [rs] / [rm] number symbols / min units (injective on what the state holds), [ro] the
    owners, [nlen] gives the length of an interned token name. *)
Module LinkTokenC12.
Import Genesis.LinkToken.

Theorem reachable_token :
  forall (rs rm : M.name -> Z) (ro : M.acct -> Z) (nlen : Z -> Z),
  (forall n, 0 <= rm n) -> (forall a, 0 <= a -> 0 <= ro a) -> (forall nm, 0 <= nm -> 0 < nlen nm <= 32) ->
  forall p balances ss reg (ms : list M.msg),
  pars_good p -> M.p_fee_denom p = M.STAKE -> NoDup (keys balances) -> Forall MW.c09_msg ms ->
  inj_on rs (map fst (M.tokens (M.run (M.genesis p balances ss reg) ms))) ->
  inj_on rm (map fst (M.minunits (M.run (M.genesis p balances ss reg) ms))) ->
  G.invb (abs rs rm ro nlen (M.run (M.genesis p balances ss reg) ms)) = true.
Proof. exact LinkToken.reachable_token. Qed.
Print Assumptions reachable_token.

Theorem token_history_export_validates :
  forall (rs rm : M.name -> Z) (ro : M.acct -> Z) (nlen : Z -> Z),
  (forall n, 0 <= rm n) -> (forall a, 0 <= a -> 0 <= ro a) -> (forall nm, 0 <= nm -> 0 < nlen nm <= 32) ->
  forall p balances ss reg (ms : list M.msg),
  pars_good p -> M.p_fee_denom p = M.STAKE -> NoDup (keys balances) -> Forall MW.c09_msg ms ->
  inj_on rs (map fst (M.tokens (M.run (M.genesis p balances ss reg) ms))) ->
  inj_on rm (map fst (M.minunits (M.run (M.genesis p balances ss reg) ms))) ->
  G.validate false (G.export (abs rs rm ro nlen (M.run (M.genesis p balances ss reg) ms))) = true.
Proof. exact LinkToken.token_history_export_validates. Qed.
Print Assumptions token_history_export_validates.

(** import does not panic and gives back the state itself (so the second export is the first and every query
    reads the same) *)
Theorem token_history_roundtrip :
  forall (rs rm : M.name -> Z) (ro : M.acct -> Z) (nlen : Z -> Z),
  (forall n, 0 <= rm n) -> (forall a, 0 <= a -> 0 <= ro a) -> (forall nm, 0 <= nm -> 0 < nlen nm <= 32) ->
  forall p balances ss reg (ms : list M.msg),
  pars_good p -> M.p_fee_denom p = M.STAKE -> NoDup (keys balances) -> Forall MW.c09_msg ms ->
  inj_on rs (map fst (M.tokens (M.run (M.genesis p balances ss reg) ms))) ->
  inj_on rm (map fst (M.minunits (M.run (M.genesis p balances ss reg) ms))) ->
  G.import false (G.export (abs rs rm ro nlen (M.run (M.genesis p balances ss reg) ms)))
  = Some (abs rs rm ro nlen (M.run (M.genesis p balances ss reg) ms)).
Proof. exact LinkToken.token_history_roundtrip. Qed.
Print Assumptions token_history_roundtrip.

(** round 5: the same for histories that also contain the conversion messages ([link_msg]: the C09 messages, fee-token
    swaps, conversions to / from ERC20, the EVM hook, EVM-mode switches, beacon upgrades; NOT [Deploy]).  What these
    messages change — bank, ERC20 ledger, EVM mode — is outside the exported genesis. *)
Theorem reachable_token_conv :
  forall (rs rm : M.name -> Z) (ro : M.acct -> Z) (nlen : Z -> Z),
  (forall n, 0 <= rm n) -> (forall a, 0 <= a -> 0 <= ro a) -> (forall nm, 0 <= nm -> 0 < nlen nm <= 32) ->
  forall p balances ss reg (ms : list M.msg),
  pars_good p -> M.p_fee_denom p = M.STAKE -> NoDup (keys balances) -> Forall link_msg ms ->
  inj_on rs (map fst (M.tokens (M.run (M.genesis p balances ss reg) ms))) ->
  inj_on rm (map fst (M.minunits (M.run (M.genesis p balances ss reg) ms))) ->
  G.invb (abs rs rm ro nlen (M.run (M.genesis p balances ss reg) ms)) = true.
Proof. exact LinkToken.reachable_token_conv. Qed.
Print Assumptions reachable_token_conv.

Theorem token_history_conv_roundtrip :
  forall (rs rm : M.name -> Z) (ro : M.acct -> Z) (nlen : Z -> Z),
  (forall n, 0 <= rm n) -> (forall a, 0 <= a -> 0 <= ro a) -> (forall nm, 0 <= nm -> 0 < nlen nm <= 32) ->
  forall p balances ss reg (ms : list M.msg),
  pars_good p -> M.p_fee_denom p = M.STAKE -> NoDup (keys balances) -> Forall link_msg ms ->
  inj_on rs (map fst (M.tokens (M.run (M.genesis p balances ss reg) ms))) ->
  inj_on rm (map fst (M.minunits (M.run (M.genesis p balances ss reg) ms))) ->
  G.validate false (G.export (abs rs rm ro nlen (M.run (M.genesis p balances ss reg) ms))) = true
  /\ G.import false (G.export (abs rs rm ro nlen (M.run (M.genesis p balances ss reg) ms)))
     = Some (abs rs rm ro nlen (M.run (M.genesis p balances ss reg) ms)).
Proof.
  intros. split; [apply LinkToken.token_history_conv_export_validates|apply LinkToken.token_history_conv_roundtrip]; assumption.
Qed.
Print Assumptions token_history_conv_roundtrip.
End LinkTokenC12.

(** ** farm: [invb] derived from the message-level model of the farm group ([Farm/Model.v], [Farm/Inv.v] [inv],
    [Farm/Proofs.v], [Farm/History.v] [pool_step_lemma] / [new_pool_lemma], [Farm/Pres2.v] [end_block_fold]) plus the
    invariant [F] of [Genesis/LinkFarm.v] (rule totals positive, stored parameters valid).  The exported state is a
    BLOCK-BOUNDARY state: [step_state (run (init b h0) steps) NextBlock] for any valid steps (messages of
    non-module accounts, MsgUpdateParams included, and block boundaries) from a genesis with empty farm escrow.
    The three farm fixes of this group are in the code and in the models (a stake is positive: [pi_pos]; a reward
    per share may be zero; import at height h re-enqueues a pool ending at h).  Hypotheses left: the numberings
    [ra] (accounts) and [rd] (denoms) are non-negative and [rd] is injective; description lengths are at most 280. *)
Module LinkFarmC12.
Import Genesis.LinkFarm.

Theorem reachable_farm :
  forall ra rd desc dlen : Z -> Z,
  (forall a, 0 <= ra a) -> (forall d, 0 <= rd d) -> (forall a b, rd a = rd b -> a = b) -> (forall id, dlen id <= 280) ->
  forall b h0 steps, MP.genesis_ok b h0 -> Forall MI.valid_step steps ->
  let s := M.step_state (M.run (M.init b h0) steps) M.NextBlock in
  G.invb true (M.height s) (abs ra rd desc dlen s) = true.
Proof. exact LinkFarm.reachable_farm. Qed.
Print Assumptions reachable_farm.

Theorem farm_history_export_validates :
  forall ra rd desc dlen : Z -> Z,
  (forall a, 0 <= ra a) -> (forall d, 0 <= rd d) -> (forall a b, rd a = rd b -> a = b) -> (forall id, dlen id <= 280) ->
  forall b h0 steps, MP.genesis_ok b h0 -> Forall MI.valid_step steps ->
  let s := M.step_state (M.run (M.init b h0) steps) M.NextBlock in
  G.validate true false (G.export (abs ra rd desc dlen s)) = true.
Proof. exact LinkFarm.farm_history_export_validates. Qed.
Print Assumptions farm_history_export_validates.

(** the new chain starts at the height of the next block: import does not panic and gives back the state itself *)
Theorem farm_history_roundtrip :
  forall ra rd desc dlen : Z -> Z,
  (forall a, 0 <= ra a) -> (forall d, 0 <= rd d) -> (forall a b, rd a = rd b -> a = b) -> (forall id, dlen id <= 280) ->
  forall b h0 steps, MP.genesis_ok b h0 -> Forall MI.valid_step steps ->
  let s := M.step_state (M.run (M.init b h0) steps) M.NextBlock in
  G.import true true false (M.height s) (G.export (abs ra rd desc dlen s)) = Some (abs ra rd desc dlen s).
Proof. exact LinkFarm.farm_history_roundtrip. Qed.
Print Assumptions farm_history_roundtrip.

(** second export = first; pools, rules, farmers, parameters read the same; the new chain's queue holds exactly the
    pools still to be closed *)
Theorem farm_history_fixpoint_and_queries :
  forall ra rd desc dlen : Z -> Z,
  (forall a, 0 <= ra a) -> (forall d, 0 <= rd d) -> (forall a b, rd a = rd b -> a = b) -> (forall id, dlen id <= 280) ->
  forall b h0 steps, MP.genesis_ok b h0 -> Forall MI.valid_step steps ->
  let s := M.step_state (M.run (M.init b h0) steps) M.NextBlock in
  exists s', G.import true true false (M.height s) (G.export (abs ra rd desc dlen s)) = Some s'
    /\ G.export s' = G.export (abs ra rd desc dlen s) /\ G.queries s' = G.queries (abs ra rd desc dlen s)
    /\ G.queue s' = G.queue_at (M.height s) (G.pools s').
Proof. exact LinkFarm.farm_history_fixpoint_and_queries. Qed.
Print Assumptions farm_history_fixpoint_and_queries.
End LinkFarmC12.

(** ** htlc, round 5: the same for histories WITH parameter changes, the compatible ones.  [wfp_run]: as the htlc
    group's [wf_run] (an accepted MsgUpdateParams keeps the supported denoms and its limits cover the stored
    supplies: [compat_b]) plus [keeps_active] (an active asset stays active) — together this group's
    [params_cover]; a change outside them can make the export un-importable (the known finding).  The histories
    without parameter changes of [LinkHtlcC12] are the special case [wf0_wfp]. *)
Module LinkHtlcParamsC12.
Import Genesis.LinkHtlc Genesis.LinkHtlcParams.

Theorem reachable_htlc_params :
  forall (rk : M.cid -> Z) (hl : M.hlock -> Z) (rs : Z -> Z) (oth : M.cid -> Z * Z),
  (forall id, fst (oth id) <= 128 /\ snd (oth id) <= 128) ->
  forall P b t0 ops, M.params_valid P = true -> MP.escrow_empty b -> wfp_run (M.init P b t0) ops -> Forall ts_ok ops ->
  inj_on rk (map fst (M.st_contracts (MP.reachable P b t0 ops))) ->
  G.invb true (abs_o rk hl rs oth (MP.reachable P b t0 ops)) = true.
Proof. exact LinkHtlcParams.reachable_htlc_params. Qed.
Print Assumptions reachable_htlc_params.

Theorem htlc_params_history_export_validates :
  forall (rk : M.cid -> Z) (hl : M.hlock -> Z) (rs : Z -> Z) (oth : M.cid -> Z * Z),
  (forall id, fst (oth id) <= 128 /\ snd (oth id) <= 128) ->
  forall P b t0 ops, M.params_valid P = true -> MP.escrow_empty b -> wfp_run (M.init P b t0) ops -> Forall ts_ok ops ->
  inj_on rk (map fst (M.st_contracts (MP.reachable P b t0 ops))) ->
  G.validate true (G.export (abs rk hl rs oth (MP.reachable P b t0 ops))) = true.
Proof. exact LinkHtlcParams.htlc_params_history_export_validates. Qed.
Print Assumptions htlc_params_history_export_validates.

Theorem htlc_params_history_import_is_open_part :
  forall (rk : M.cid -> Z) (hl : M.hlock -> Z) (rs : Z -> Z) (oth : M.cid -> Z * Z),
  (forall id, fst (oth id) <= 128 /\ snd (oth id) <= 128) ->
  forall P b t0 ops, M.params_valid P = true -> MP.escrow_empty b -> wfp_run (M.init P b t0) ops -> Forall ts_ok ops ->
  inj_on rk (map fst (M.st_contracts (MP.reachable P b t0 ops))) ->
  G.import true (G.export (abs rk hl rs oth (MP.reachable P b t0 ops))) = Some (abs_o rk hl rs oth (MP.reachable P b t0 ops)).
Proof. exact LinkHtlcParams.htlc_params_history_import_is_open_part. Qed.
Print Assumptions htlc_params_history_import_is_open_part.
End LinkHtlcParamsC12.

(** ** oracle: [invb] derived from the message-level model of the oracle group ([Oracle/Model.v], [Oracle/Proofs.v]
    [Inv], [Inv_run], [feed_ctx_inj]) plus the invariant [VS] of [Genesis/LinkOracle.v] (every feed's values are in
    ascending key order), for EVERY history of the model — no hypothesis on it.  The service module's request
    contexts are the environment ([abs_env]: the contexts of the model state).  Left hand-written: nothing of
    [invb]; [abs] takes the creator numbering (non-negative) and the descriptions' lengths (at most 280) as
    parameters and sets the syntactic validity flags of name / aggregate function to true. *)
Module LinkOracleC12.
Import Genesis.LinkOracle.

Theorem reachable_oracle :
  forall rc desc dlen : Z -> Z, (forall a, 0 <= rc a) -> (forall n, dlen n <= 280) ->
  forall h : list M.step, G.invb (abs rc desc dlen (M.run M.init h)) = true.
Proof. exact LinkOracle.reachable_oracle. Qed.
Print Assumptions reachable_oracle.

Theorem oracle_history_export_validates :
  forall rc desc dlen : Z -> Z, (forall a, 0 <= rc a) -> (forall n, dlen n <= 280) ->
  forall h : list M.step,
  G.validate (G.export (abs_env (M.run M.init h)) (abs rc desc dlen (M.run M.init h))) = true.
Proof. exact LinkOracle.oracle_history_export_validates. Qed.
Print Assumptions oracle_history_export_validates.

(** import does not panic on any chain whose service module knows the feeds' request contexts *)
Theorem oracle_history_import_total :
  forall rc desc dlen : Z -> Z, (forall a, 0 <= rc a) -> (forall n, dlen n <= 280) ->
  forall (h : list M.step) (eB : G.env),
  (forall f, In f (G.feeds (abs rc desc dlen (M.run M.init h))) -> has (G.o_ctx (snd f)) eB = true) ->
  G.import true eB (G.export (abs_env (M.run M.init h)) (abs rc desc dlen (M.run M.init h))) <> None.
Proof. exact LinkOracle.oracle_history_import_total. Qed.
Print Assumptions oracle_history_import_total.

(** with the chain's own contexts on the new chain (which they are known: [contexts_known]): second export = first,
    same feeds, every feed's value history reads the same *)
Theorem oracle_history_fixpoint_and_queries :
  forall rc desc dlen : Z -> Z, (forall a, 0 <= rc a) -> (forall n, dlen n <= 280) ->
  forall h : list M.step,
  let s := M.run M.init h in
  exists s', G.import true (abs_env s) (G.export (abs_env s) (abs rc desc dlen s)) = Some s'
    /\ G.export (abs_env s) s' = G.export (abs_env s) (abs rc desc dlen s)
    /\ G.feeds s' = G.feeds (abs rc desc dlen s)
    /\ forall f, In f (G.feeds (abs rc desc dlen s)) -> G.values_of s' (fst f) = G.values_of (abs rc desc dlen s) (fst f).
Proof. exact LinkOracle.oracle_history_fixpoint_and_queries. Qed.
Print Assumptions oracle_history_fixpoint_and_queries.
End LinkOracleC12.

(** ** service: a PARTIAL link ([Genesis/LinkService.v]).  The genesis-level service model is structural (field-level
    validity of parameters / definitions / bindings / request contexts is the module's own Validate, carried as
    flags).  Derived for EVERY history of the service group's model: the structural [invb] of the abstraction;
    from their [WInv] ([reach_W]) that the model's provider -> owner store is the view [owners_view] the
    genesis-level model computes from the bindings; from their [DepInv] that binding owners and withdraw addresses
    are addresses; and the round trip after PrepForZeroHeightGenesis (as-is only when every context is paused
    with a completed batch — the known finding otherwise).  LEFT HAND-WRITTEN: the validity flags (set to true by
    [abs]) and the (owner, service, provider) index, which the message model does not have. *)
Module LinkServiceC12.
Import Genesis.LinkService.

Theorem reachable_service :
  forall (np : Z -> Z) (nc : M.ctxid -> Z) (npr : M.binding -> Z) (pblob : Z) (dblob : Z -> Z)
         (bblob : (Z * Z) -> M.binding -> Z) (xblob : M.ctxid -> M.context -> Z),
  (forall a, 0 <= np a) -> (forall a b, np a = np b -> a = b) -> (forall a, 0 <= nc a) -> (forall a b, nc a = nc b -> a = b) ->
  (forall b, 0 <= npr b) ->
  forall c h0 t0 l0 steps, G.invb (abs np nc npr pblob dblob bblob xblob (M.run c (M.init h0 t0 l0) steps)) = true.
Proof. exact LinkService.reachable_service. Qed.
Print Assumptions reachable_service.

Theorem service_owner_index_is_view :
  forall (np : Z -> Z) (nc : M.ctxid -> Z) (npr : M.binding -> Z) (pblob : Z) (dblob : Z -> Z)
         (bblob : (Z * Z) -> M.binding -> Z) (xblob : M.ctxid -> M.context -> Z),
  (forall a b, np a = np b -> a = b) ->
  forall c h0 t0 l0 steps,
  G.owners_view (abs np nc npr pblob dblob bblob xblob (M.run c (M.init h0 t0 l0) steps))
  = abs_owners np (M.run c (M.init h0 t0 l0) steps).
Proof. exact LinkService.service_owner_index_is_view. Qed.
Print Assumptions service_owner_index_is_view.

Theorem service_owners_are_addresses :
  forall c h0 t0 l0 steps, Irismod.Base.Bank.bal l0 M.DEP M.BASE = 0 ->
  (forall k b, get k (M.binds (M.run c (M.init h0 t0 l0) steps)) = Some b -> 0 <= M.b_owner b)
  /\ (forall o w, get o (M.waddr (M.run c (M.init h0 t0 l0) steps)) = Some w -> 0 <= w).
Proof. exact LinkService.service_owners_are_addresses. Qed.
Print Assumptions service_owners_are_addresses.

Theorem service_history_prep_roundtrip :
  forall (np : Z -> Z) (nc : M.ctxid -> Z) (npr : M.binding -> Z) (pblob : Z) (dblob : Z -> Z)
         (bblob : (Z * Z) -> M.binding -> Z) (xblob : M.ctxid -> M.context -> Z),
  (forall a, 0 <= np a) -> (forall a b, np a = np b -> a = b) -> (forall a, 0 <= nc a) -> (forall a b, nc a = nc b -> a = b) ->
  (forall b, 0 <= npr b) ->
  forall c h0 t0 l0 steps,
  let a := abs np nc npr pblob dblob bblob xblob (M.run c (M.init h0 t0 l0) steps) in
  G.validate (G.export (G.prep a)) = true /\ G.import (G.export (G.prep a)) = Some (G.prep a).
Proof. exact LinkService.service_history_prep_roundtrip. Qed.
Print Assumptions service_history_prep_roundtrip.

Theorem service_history_quiet_roundtrip :
  forall (np : Z -> Z) (nc : M.ctxid -> Z) (npr : M.binding -> Z) (pblob : Z) (dblob : Z -> Z)
         (bblob : (Z * Z) -> M.binding -> Z) (xblob : M.ctxid -> M.context -> Z),
  (forall a, 0 <= np a) -> (forall a b, np a = np b -> a = b) -> (forall a, 0 <= nc a) -> (forall a b, nc a = nc b -> a = b) ->
  (forall b, 0 <= npr b) ->
  forall c h0 t0 l0 steps,
  (forall id x, get id (M.ctxs (M.run c (M.init h0 t0 l0) steps)) = Some x -> M.x_state x = 1 /\ M.x_brun x = false) ->
  let a := abs np nc npr pblob dblob bblob xblob (M.run c (M.init h0 t0 l0) steps) in
  G.validate (G.export a) = true /\ G.import (G.export a) = Some a.
Proof. exact LinkService.service_history_quiet_roundtrip. Qed.
Print Assumptions service_history_quiet_roundtrip.
End LinkServiceC12.
