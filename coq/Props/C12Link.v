(** * C12 over HISTORIES of the message-level models — the link theorems.

    Kept in a file of its own (listed in the coq_targets of check/propsd/c12.py) because it depends on the OTHER
    groups' message-level models: when one of those models changes, at most this file stops compiling (and the
    check reports the broken obligation by name), while the theorems of [Props/C12.v] — which depend only on
    [coq/Genesis] — stay checked. *)
From Irismod Require Import Genesis.Store.
(** No free-standing invariant:

    For record, coinswap, random, nft and mt the reachability invariant [invb] is DERIVED from the other groups'
    message-level models ([Genesis/Link<Mod>.v]): an abstraction [abs] maps a state of that model to the
    genesis-level state (renaming ids by an injective numbering, sorting the stores the way the KV store
    iterates), and [reachable_<mod>] proves [invb (abs (run h)) = true] for every history [h] from that
    model's proved invariants (plus small extra invariants proved over its step function).  The C12
    statements then quantify over histories. *)
From Irismod Require Genesis.LinkRecord Genesis.LinkCoinswap Genesis.LinkRandom Genesis.LinkNft Genesis.LinkMt.

Module LinkRecordC12.
Import Genesis.LinkRecord.

(** hypothesis: the id order [ord] separates the ids in the store (SHA-256 is collision-free on them) *)
Theorem reachable_record :
  forall (ord : G.rid -> Z) (steps : list M.step),
    separates ord (map fst (M.store (M.run M.init steps))) ->
    G.invb ord (abs ord (M.run M.init steps)) = true.
Proof. exact LinkRecord.reachable_record. Qed.
Print Assumptions reachable_record.

Theorem record_history_export_validates :
  forall (ord : G.rid -> Z) (steps : list M.step),
    separates ord (map fst (M.store (M.run M.init steps))) ->
    G.validate (G.export (abs ord (M.run M.init steps))) = true.
Proof. exact LinkRecord.record_history_export_validates. Qed.
Print Assumptions record_history_export_validates.

Theorem record_history_import_total :
  forall (ord : G.rid -> Z) (steps : list M.step),
    separates ord (map fst (M.store (M.run M.init steps))) ->
    G.import ord (G.export (abs ord (M.run M.init steps))) <> None.
Proof. exact LinkRecord.record_history_import_total. Qed.
Print Assumptions record_history_import_total.

(** every record the history created is readable after export -> import under an id of the same record *)
Theorem record_history_queries_partial :
  forall (ord : G.rid -> Z) (steps : list M.step) (s' : G.state),
    G.import ord (G.export (abs ord (M.run M.init steps))) = Some s' ->
    forall id r, M.query (M.run M.init steps) id = Some r -> exists c, G.query s' (r, c) = Some r.
Proof. exact LinkRecord.record_history_queries_partial. Qed.
Print Assumptions record_history_queries_partial.
End LinkRecordC12.

Module LinkCoinswapC12.
Import Genesis.LinkCoinswap.

(** from the coinswap model's [Inv], the lpt numbering [Dense] and valid stored parameters [ParOk] of the initial
    state (all three are preserved by every message, MsgUpdateParams included); the sequence stays a uint64 *)
Theorem reachable_coinswap :
  forall (rk : Z -> Z), (forall a b, rk a = rk b -> a = b) -> (forall a, 0 <= rk a) ->
  forall (s0 : M.state) (ms : list M.msg),
    MV.Inv s0 -> Dense s0 -> ParOk s0 -> M.seq (M.run s0 ms) < G.two64 ->
    G.invb (abs rk (M.run s0 ms)) = true.
Proof. exact LinkCoinswap.reachable_coinswap. Qed.
Print Assumptions reachable_coinswap.

Theorem coinswap_history_roundtrip :
  forall (rk : Z -> Z), (forall a b, rk a = rk b -> a = b) -> (forall a, 0 <= rk a) ->
  forall (s0 : M.state) (ms : list M.msg),
    MV.Inv s0 -> Dense s0 -> ParOk s0 -> M.seq (M.run s0 ms) < G.two64 ->
    G.import (G.export (abs rk (M.run s0 ms))) = Some (abs rk (M.run s0 ms)).
Proof. exact LinkCoinswap.coinswap_history_roundtrip. Qed.
Print Assumptions coinswap_history_roundtrip.
End LinkCoinswapC12.

Module LinkRandomC12.
Import Genesis.LinkRandom.

(** [sane] is the random model's well-formedness of histories (block times non-zero, one request per consumer
    and block where the harness needs it); no further hypothesis *)
Theorem reachable_random :
  forall (sha : M.hin -> Z) (P : Z -> bool) (tbl : list ((Z * Z) * Z)) (steps : list M.step),
    MP.sane P [] steps -> G.invb tbl (abs tbl (M.run sha M.init steps)) = true.
Proof. exact LinkRandom.reachable_random. Qed.
Print Assumptions reachable_random.

Theorem random_history_roundtrip :
  forall (sha : M.hin -> Z) (P : Z -> bool) (tbl : list ((Z * Z) * Z)) (steps : list M.step),
    MP.sane P [] steps ->
    G.import tbl (G.export (abs tbl (M.run sha M.init steps))) = Some (abs tbl (M.run sha M.init steps)).
Proof. exact LinkRandom.random_history_roundtrip. Qed.
Print Assumptions random_history_roundtrip.
End LinkRandomC12.

Module LinkNftC12.
Import Genesis.LinkNft.

(** no hypothesis on the history at all *)
Theorem reachable_nft :
  forall (rkc rkt : Z -> Z), (forall a b, rkc a = rkc b -> a = b) ->
  forall (blobc : M.class -> Z) (blobt : M.tmeta -> Z) (steps : list M.step),
    G.invb (abs rkc rkt blobc blobt (M.run M.init steps)) = true.
Proof. exact LinkNft.reachable_nft. Qed.
Print Assumptions reachable_nft.

Theorem nft_history_roundtrip :
  forall (rkc rkt : Z -> Z), (forall a b, rkc a = rkc b -> a = b) ->
  forall (blobc : M.class -> Z) (blobt : M.tmeta -> Z) (steps : list M.step),
    G.import false (G.export (abs rkc rkt blobc blobt (M.run M.init steps)))
    = Some (abs rkc rkt blobc blobt (M.run M.init steps)).
Proof. exact LinkNft.nft_history_roundtrip. Qed.
Print Assumptions nft_history_roundtrip.
End LinkNftC12.


(** ** mt: [invb] derived from the message-level model of the nftmt group ([Mt/Model.v], [Mt/Proofs.v],
    [Mt/Export.v]). [Reachable64 s] = [s] is the state after a history of fewer than 2^64 - 1 steps from the
    empty state (the bound under which the uint64 sequences do not wrap). *)
Module LinkMtC12.
Import Genesis.LinkMt.

Theorem reachable_mt : forall s : M.state, MP.Reachable64 s -> G.invb (abs s) = true.
Proof. exact LinkMt.reachable_mt. Qed.
Print Assumptions reachable_mt.

Theorem mt_history_export_validates :
  forall s : M.state, MP.Reachable64 s -> G.validate false (G.export (abs s)) = true.
Proof. exact LinkMt.mt_history_export_validates. Qed.
Print Assumptions mt_history_export_validates.

Theorem mt_history_roundtrip :
  forall s : M.state, MP.Reachable64 s -> G.import false (G.export (abs s)) = Some (GP.norm (abs s)).
Proof. exact LinkMt.mt_history_roundtrip. Qed.
Print Assumptions mt_history_roundtrip.

Theorem mt_history_fixpoint_and_queries :
  forall s : M.state, MP.Reachable64 s ->
  exists s', G.import false (G.export (abs s)) = Some s' /\ G.export s' = G.export (abs s) /\ G.queries s' = G.queries (abs s).
Proof. exact LinkMt.mt_history_fixpoint_and_queries. Qed.
Print Assumptions mt_history_fixpoint_and_queries.
End LinkMtC12.
