(** * Coinswap: proofs about export / validate / import (C12) *)
From Irismod Require Import Genesis.Coinswap.

Lemma zmax_list_nonneg l : 0 <= zmax_list l.
Proof. induction l as [|x l IH]; simpl; lia. Qed.

Ltac split_andb H :=
  repeat match type of H with
         | (_ && _) = true => let H1 := fresh "Hi" in apply andb_true_iff in H; destruct H as [H H1]
         end.

(** a reachable state is re-created exactly by importing its own export *)
Lemma coinswap_roundtrip s : invb s = true -> import (export s) = Some s.
Proof.
  intros Hinv. unfold invb in Hinv. split_andb Hinv.
  rename Hinv into Hsorted, Hi6 into Hkey, Hi5 into Hstd, Hi4 into Hlpt, Hi3 into Hok, Hi2 into Hseq,
         Hi1 into Hlt, Hi0 into Hidx, Hi into Hprm.
  assert (Hval : validate (export s) = true).
  { unfold validate, export. simpl. rewrite Hstd, Hlpt, Hok, Hprm. simpl.
    rewrite (key_ok_map p_id (pools s) Hkey), (sortedb_keys_nodupb _ Hsorted). simpl.
    rewrite andb_true_r. pose proof (zmax_list_nonneg (map p_lpt (map snd (pools s)))) as Hnn.
    rewrite Z.mod_small by lia. exact Hseq. }
  unfold import. rewrite Hval. simpl. rewrite Hprm. simpl. unfold export; simpl.
  rewrite (okeyed_roundtrip1 p_id (pools s) Hsorted Hkey).
  assert (Hidx' : lpt_index s = index_of (map snd (pools s))) by (apply Prelude.eqb_true_iff; exact Hidx).
  rewrite <- Hidx'. destruct s; reflexivity.
Qed.

Lemma coinswap_export_validates_lemma s : invb s = true -> validate (export s) = true.
Proof.
  intros Hinv. pose proof (coinswap_roundtrip s Hinv) as Hr. unfold import in Hr.
  destruct (validate (export s)); [reflexivity|discriminate].
Qed.

Lemma coinswap_import_total_lemma g : validate g = true -> import g <> None.
Proof.
  intros Hv. unfold import. rewrite Hv. simpl.
  unfold validate in Hv. apply andb_true_iff in Hv. destruct Hv as [_ Hp]. rewrite Hp. discriminate.
Qed.

Lemma coinswap_export_fixpoint_lemma s :
  invb s = true -> exists s', import (export s) = Some s' /\ export s' = export s.
Proof. intros Hinv. exists s. split; [apply coinswap_roundtrip; exact Hinv|reflexivity]. Qed.

Lemma coinswap_queries_preserved_lemma s :
  invb s = true -> exists s', import (export s) = Some s' /\ queries s' = queries s.
Proof. intros Hinv. exists s. split; [apply coinswap_roundtrip; exact Hinv|reflexivity]. Qed.

(** a state with two pools (lpt-1 for denomination 4, lpt-2 for denomination 3) *)
Definition wit_params : params := mkParams 3000000000000000 (2, 5000) 400000000000000000 2000000000000000.
Definition wit_s : state :=
  mkState wit_params 2 3 [(3, mkPool 3 2 3 1 2); (4, mkPool 4 2 4 1 1)] [(1, 4); (2, 3)].
