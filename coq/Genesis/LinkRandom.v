(** * Random: the C12 invariant derived from the message-level model (Random/Model.v).

    The message-level model keeps the request queue as an association list (due height, id) -> request in
    insertion order.  [abs] re-inserts every entry the way InitGenesis does ([enqueue]: under its due height
    and the rank of the id derived from the request), which yields the genesis-level view
    height -> (id rank -> request).  The model's request has no fee cap (it is not part of the queue logic):
    [abs] sets it to "none".  Generated random numbers and oracle requests in flight are not exported. *)
From Irismod Require Import Genesis.Sort.
From Irismod Require Random.Model Random.Spec Random.Proofs Genesis.Random Genesis.RandomProofs.
From Coq Require Import Sorting.Sorted.

Module M := Irismod.Random.Model.
Module MP := Irismod.Random.Proofs.
Module MSp := Irismod.Random.Spec.
Module G := Irismod.Genesis.Random.
Module GP := Irismod.Genesis.RandomProofs.

Definition abs_req (r : M.request) : G.request :=
  G.mkReq (M.q_height r) (M.q_consumer r) (M.q_txh r) (M.q_oracle r) 0 (M.q_ctx r).

Section Tbl.
  Variable tbl : list ((Z * Z) * Z).

  Definition abs_queue (q : list ((Z * M.rid) * M.request)) : G.state :=
    fold_left (fun acc e => G.enqueue tbl acc (fst (fst e)) (abs_req (snd e))) q [].
  Definition abs (s : M.state) : G.state := abs_queue (M.queue s).

  (** well-formed nested queues *)
  Definition inner_wf (inner : list (Z * G.request)) : Prop :=
    sorted lt1 inner /\ inner <> [] /\ forall x, In x inner -> fst x = G.idrank tbl (snd x).
  Definition wf (acc : G.state) : Prop :=
    sorted lt1 acc /\ forall e, In e acc -> 0 <= fst e /\ inner_wf (snd e).

  Lemma oins_total_sorted {V} k (v : V) m : sorted lt1 m -> sorted lt1 (oins lt1 k v m).
  Proof.
    intros Hs. apply (oins_sorted_on lt1 lt1_trans); [exact Hs|].
    intros e _ Hne Hlt. unfold lt1 in *. lia.
  Qed.

  Lemma wf_enqueue acc h r : wf acc -> 0 <= h -> wf (G.enqueue tbl acc h r).
  Proof.
    intros [Hs Hall] Hh. unfold G.enqueue. split; [apply oins_total_sorted; exact Hs|].
    intros e He. apply In_oins_inv in He. destruct He as [->|He]; [|apply Hall; exact He].
    simpl. split; [exact Hh|].
    assert (Hold : G.getd h acc [] = [] \/ inner_wf (G.getd h acc [])).
    { unfold G.getd. destruct (get h acc) as [old|] eqn:E; [|left; reflexivity].
      right. apply get_In in E. exact (proj2 (Hall _ E)). }
    split; [|split].
    - apply oins_total_sorted. destruct Hold as [->|[Ho _]]; [constructor|exact Ho].
    - intros Hnil. pose proof (In_oins_same lt1 (G.idrank tbl r) r (G.getd h acc [])) as Hin. rewrite Hnil in Hin. destruct Hin.
    - intros x Hx. apply In_oins_inv in Hx. destruct Hx as [->|Hx]; [reflexivity|].
      destruct Hold as [Hn|[_ [_ Hk]]]; [rewrite Hn in Hx; destruct Hx|apply Hk; exact Hx].
  Qed.

  Lemma wf_abs_queue q : (forall k r, In (k, r) q -> 0 <= fst k) -> wf (abs_queue q).
  Proof.
    unfold abs_queue. assert (Hgen : forall acc, wf acc -> (forall k r, In (k, r) q -> 0 <= fst k) ->
      wf (fold_left (fun acc e => G.enqueue tbl acc (fst (fst e)) (abs_req (snd e))) q acc)).
    { induction q as [|[k r] q IH]; intros acc Hw Hq; simpl; [exact Hw|].
      apply IH; [apply wf_enqueue; [exact Hw|apply (Hq k r); left; reflexivity]|intros k' r' Hin; apply (Hq k' r'); right; exact Hin]. }
    intros Hq. apply Hgen; [|exact Hq]. split; [constructor|intros e []].
  Qed.

  Lemma wf_invb acc : wf acc -> G.invb tbl acc = true.
  Proof.
    intros [Hs Hall]. unfold G.invb. apply andb_true_iff. split; [apply (sorted_sortedb lt1); exact Hs|].
    rewrite forallb_forall. intros e He. destruct (Hall e He) as (Hh & Hi & Hne & Hk).
    unfold G.inner_ok. rewrite (sorted_sortedb lt1 _ Hi).
    assert (Hkeys : forallb (fun x => fst x =? G.idrank tbl (snd x)) (snd e) = true).
    { rewrite forallb_forall. intros x Hx. rewrite (Hk x Hx). apply Z.eqb_refl. }
    rewrite Hkeys. destruct (snd e); [contradiction|]. simpl. rewrite andb_true_r. lia.
  Qed.
End Tbl.

(** ** the due heights in the queue of every reachable state are uint64 values *)
Section Hist.
  Variable sha : M.hin -> Z.
  Variable P : Z -> bool.

  Definition QInv (s : M.state) : Prop := forall k r, In (k, r) (M.queue s) -> 0 <= fst k < M.two64.

  Lemma QInv_step used s st : MP.Base used s -> MP.sane P used [st] -> QInv s -> QInv (M.step_state sha s st).
  Proof.
    intros Hb Hs Hq. pose proof Hb as [Hh Ht _ _ _]. unfold M.step_state.
    destruct st as [c n orc capok txh svc|t a started|cs]; simpl in Hs.
    - rewrite MP.exec_req. destruct (MSp.req_ok c capok orc svc); simpl; [|exact Hq].
      destruct (M.interval_ok (M.height s) n); simpl; [|exact Hq].
      intros k r Hin. apply MP.in_set_inv in Hin. destruct Hin as [He|Hin]; [|exact (Hq _ _ Hin)].
      inversion He; subst. simpl. unfold M.due_key. apply Z.mod_pos_bound. unfold M.two64. lia.
    - destruct Hs as [Htz _]. unfold M.exec_step. rewrite (MP.begin_block_nz sha s t a started Htz). simpl.
      intros k r Hin. apply filter_In in Hin. exact (Hq _ _ (proj1 Hin)).
    - unfold M.exec_step. rewrite (MP.exec_calls_nz sha cs s Ht). simpl.
      destruct (MP.calls_state_sub sha cs s) as (_ & _ & _ & Hq' & _). intros k r Hin. rewrite Hq' in Hin. exact (Hq _ _ Hin).
  Qed.

  Lemma QInv_run steps : forall used s, MP.Base used s -> MP.sane P used steps -> QInv s -> QInv (M.run sha s steps).
  Proof.
    induction steps as [|st steps IH]; intros used s Hb Hs Hq; [exact Hq|].
    apply (MP.sane_cons P) in Hs. destruct Hs as [H1 H2]. simpl.
    apply (IH (MP.used_step used st)); [apply (MP.Base_step sha P); assumption|exact H2|apply (QInv_step used); assumption].
  Qed.

  (** every state reached by a history of the model satisfies the genesis-level invariant *)
  Theorem reachable_random tbl (steps : list M.step) :
    MP.sane P [] steps -> G.invb tbl (abs tbl (M.run sha M.init steps)) = true.
  Proof.
    intros Hs. apply wf_invb. apply wf_abs_queue. intros k r Hin.
    apply (QInv_run steps [] M.init MP.Base_init Hs) in Hin; [lia|]. intros ? ? [].
  Qed.

  (** ** C12 over histories of the random model (no free-standing invariant) *)
  Theorem random_history_export_validates tbl steps :
    MP.sane P [] steps -> G.validate (G.export (abs tbl (M.run sha M.init steps))) = true.
  Proof. intros Hs. apply (GP.random_export_validates_lemma tbl). apply reachable_random. exact Hs. Qed.

  Theorem random_history_roundtrip tbl steps :
    MP.sane P [] steps ->
    G.import tbl (G.export (abs tbl (M.run sha M.init steps))) = Some (abs tbl (M.run sha M.init steps)).
  Proof. intros Hs. apply GP.random_roundtrip. apply reachable_random. exact Hs. Qed.
End Hist.
