(** * NFT: export / validate / import  (modules/nft/keeper/genesis.go, types/genesis.go,
      keeper/{collection,denom,nft}.go)

    The module keeps its objects in the SDK's x/nft keeper.  That keeper is modelled, not verified:
    its store is the classes in id order, each with its NFTs in id order (every NFT carrying its
    owner); [SaveClass] fails on an existing class id, [Mint] on an existing (class, NFT) id; the
    total supply of a class and the per-owner index are VIEWS of that store (number of NFTs of the
    class; the NFTs whose owner field is the address), which is how the harness compares them on
    both chains.  Class ids, NFT ids and owner addresses are numbered in byte order; whether an id
    / URI passes the module's syntax checks is carried as a flag computed by the module's own
    validators; all remaining text fields of a class / an NFT are interned as one blob. *)
From Irismod Require Export Genesis.Store.

Definition dinfo := (Z * bool * Z * Z)%type.      (* creator (-1: not an address), id passes ValidateDenomID, flags, text blob *)
Definition ninfo := (Z * bool * bool * Z)%type.   (* owner (-1: none / not an address), id ok, uri ok, text blob *)
Definition col := (Z * (dinfo * list (Z * ninfo)))%type.
Definition state := list col.
Definition genesis := list col.

Definition d_creator (d : dinfo) : Z := let '(c, _, _, _) := d in c.
Definition d_id_ok (d : dinfo) : bool := let '(_, b, _, _) := d in b.
Definition n_owner (n : ninfo) : Z := let '(o, _, _, _) := n in o.
Definition n_ok (n : ninfo) : bool := let '(o, a, b, _) := n in (0 <=? o) && a && b.
Definition c_info (c : col) : dinfo := fst (snd c).
Definition c_nfts (c : col) : list (Z * ninfo) := snd (snd c).

(** ExportGenesis = GetCollections: classes in id order, NFTs in id order *)
Definition export (s : state) : genesis := s.

(** types.ValidateGenesis = [validate false].  [wf] is the well-formedness InitGenesis relies on and the
    code does NOT validate (no repeated class / NFT id, every creator an address); every EXPORTED genesis
    has it (proved); [validate true] = [validate false] plus [wf]. *)
Definition wf (g : genesis) : bool :=
  nodupb (map fst g) && forallb (fun c => (0 <=? d_creator (fst (snd c))) && nodupb (map fst (snd (snd c)))) g.
Definition validate (fx : bool) (g : genesis) : bool :=
  forallb (fun c => d_id_ok (c_info c) && forallb (fun n => n_ok (snd n)) (c_nfts c)) g
  && (if fx then wf g else true).

(** InitGenesis: SaveDenom then SaveCollection (= Mint per NFT) per collection; any error panics *)
Fixpoint imp_nfts (l : list (Z * ninfo)) (ns : list (Z * ninfo)) : option (list (Z * ninfo)) :=
  match l with
  | [] => Some ns
  | n :: l' => if has (fst n) ns then None else imp_nfts l' (oins lt1 (fst n) (snd n) ns)
  end.
Fixpoint imp_cols (g : list col) (cs : state) : option state :=
  match g with
  | [] => Some cs
  | c :: g' =>
      if d_creator (c_info c) <? 0 then None
      else if has (fst c) cs then None
      else match imp_nfts (c_nfts c) [] with
           | None => None
           | Some ns => imp_cols g' (oins lt1 (fst c) (c_info c, ns) cs)
           end
  end.
Definition import (fx : bool) (g : genesis) : option state :=
  if negb (validate fx g) then None else imp_cols g [].

(** Queries: Denoms / Denom, Collection / NFT (with owner), Supply of a class, NFTsOfOwner *)
Definition supply_view (s : state) : list (Z * Z) := map (fun c => (fst c, Z.of_nat (length (c_nfts c)))) s.
Definition owner_view (s : state) : list ((Z * Z * Z) * unit) :=
  fold_left (fun m c => fold_left (fun m' n => oins lt3 (n_owner (snd n), fst c, fst n) tt m') (c_nfts c) m) s [].
Definition view := (state * list (Z * Z) * list ((Z * Z * Z) * unit))%type.
Definition queries (s : state) : view := (s, supply_view s, owner_view s).

(** reachable states *)
Definition col_ok (c : col) : bool :=
  sortedb lt1 (c_nfts c) && (0 <=? d_creator (c_info c)) && d_id_ok (c_info c)
  && forallb (fun n => n_ok (snd n)) (c_nfts c).
Definition invb (s : state) : bool := sortedb lt1 s && forallb col_ok s.

(** ** Correspondence and the C12 predicate *)
Record run := mkRun {
  r_sA : state; r_gA : genesis; r_val : bool; r_imp : Z; r_sB : option state; r_gB : option genesis;
  r_vA : list (Z * Z) * list ((Z * Z * Z) * unit);           (* Supply and NFTsOfOwner answers on A *)
  r_vB : option (list (Z * Z) * list ((Z * Z * Z) * unit));  (* ... on B *)
  r_t : option (genesis * bool * Z)       (* a tampered copy of the export: the genesis, ValidateGenesis = nil, InitGenesis 0 ok / 2 panic *)
}.
Record case := mkCase { c_runs : list run }.

Definition views_of (s : state) := (supply_view s, owner_view s).

(** the tree under check does NOT contain that change (it was not taken: C12 quantifies over exported
    geneses of reachable states, not over hand-made ones); the switch documents what would close the gap *)
Definition fixed_v : bool := false.

Definition corr_run (r : run) : bool :=
  invb (r_sA r)
  && eqb (export (r_sA r)) (r_gA r)
  && eqb (views_of (r_sA r)) (r_vA r)
  && eqb (validate fixed_v (r_gA r)) (r_val r)
  && match import fixed_v (r_gA r) with
     | None => negb (r_imp r =? 0)
     | Some b => (r_imp r =? 0) && eqb (r_sB r) (Some b) && eqb (r_gB r) (Some (export b))
                 && eqb (r_vB r) (Some (views_of b))
     end
  && match r_t r with
     | Some (tg, tv, ti) => eqb (validate fixed_v tg) tv && eqb (match import fixed_v tg with Some _ => true | None => false end) (ti =? 0)
     | None => true
     end.

(** clause codes: 1 export does not validate; 2 import panics; 3 second export differs;
    4 a class / an NFT / an owner reads differently on B; 5 a supply or an owner's list differs on B *)
Definition prop_run (r : run) : Z :=
  first_code
    [ (1, r_val r);
      (2, r_imp r =? 0);
      (3, match r_gB r with Some g => eqb g (r_gA r) | None => true end);
      (4, match r_sB r with Some b => eqb b (r_sA r) | None => true end);
      (5, match r_vB r with Some v => eqb v (r_vA r) | None => true end) ].

Fixpoint check_runs (rs : list run) (i : Z) (corr prop code : Z) : Z * Z * Z :=
  match rs with
  | [] => (corr, prop, code)
  | r :: rest =>
      let corr' := if (corr <? 0) && negb (corr_run r) then i else corr in
      let c := prop_run r in
      let '(prop', code') := if (prop <? 0) && negb (c =? 0) then (i, c) else (prop, code) in
      check_runs rest (i + 1) corr' prop' code'
  end.

Definition check_nft (c : case) : Z * Z * Z := check_runs (c_runs c) 0 (-1) (-1) 0.
