(** * Random: proofs about export / validate / import (C12) *)
From Irismod Require Import Genesis.Random.

Ltac split_andb H :=
  repeat match type of H with
         | (_ && _) = true => let H1 := fresh "Hi" in apply andb_true_iff in H; destruct H as [H H1]
         end.

Lemma oins_oins_same {V} k (x y : V) m : oins lt1 k y (oins lt1 k x m) = oins lt1 k y m.
Proof.
  induction m as [|[k' v'] m IH]; simpl.
  - destruct (eq_dec k k); [reflexivity|congruence].
  - destruct (eq_dec k k') as [->|Hne]; simpl.
    + destruct (eq_dec k' k'); [reflexivity|congruence].
    + destruct (lt1 k k') eqn:E; simpl.
      * destruct (eq_dec k k); [reflexivity|congruence].
      * destruct (eq_dec k k'); [contradiction|]. rewrite E, IH. reflexivity.
Qed.

Section Ids.
  Variable tbl : list ((Z * Z) * Z).
  Notation ins := (fun m r => oins lt1 (idrank tbl r) r m).

  Lemma enqueue_fold h rs : forall X s,
    fold_left (fun s' r => enqueue tbl s' h r) rs (oins lt1 h X s) = oins lt1 h (fold_left ins rs X) s.
  Proof.
    induction rs as [|r rs IH]; intros X s; simpl; [reflexivity|].
    unfold enqueue at 2. unfold getd. rewrite get_oins_same. rewrite oins_oins_same. apply IH.
  Qed.

  Lemma enqueue_all h r rs s :
    get h s = None ->
    fold_left (fun s' r => enqueue tbl s' h r) (r :: rs) s = oins lt1 h (okeyed lt1 (idrank tbl) (r :: rs)) s.
  Proof.
    intros Hn. simpl. unfold enqueue at 2. unfold getd. rewrite Hn. rewrite enqueue_fold. reflexivity.
  Qed.

  Lemma import_fold l : forall acc,
    sorted lt1 (acc ++ l) -> forallb (inner_ok tbl) l = true ->
    fold_left (fun s e => fold_left (fun s' r => enqueue tbl s' (fst e) r) (snd e) s) (export l) acc = acc ++ l.
  Proof.
    induction l as [|[h inner] l IH]; intros acc Hs Hok; simpl.
    - rewrite app_nil_r. reflexivity.
    - apply andb_true_iff in Hok. destruct Hok as [Hin Hl]. unfold inner_ok in Hin. simpl in Hin. split_andb Hin.
      assert (Hall : Forall (fun a => lt1 (fst a) h = true) acc) by (apply sorted_app_inv in Hs; exact Hs).
      destruct inner as [|x inner]; [discriminate|].
      change (map snd (x :: inner)) with (snd x :: map snd inner).
      rewrite enqueue_all by (apply get_none_all_lt; exact Hall).
      change (snd x :: map snd inner) with (map snd (x :: inner)).
      rewrite (okeyed_roundtrip1 (idrank tbl) (x :: inner) Hi1 Hi0).
      rewrite (oins_last lt1 lt1_irrefl lt1_asym h (x :: inner) acc Hall).
      rewrite IH; [rewrite <- app_assoc; reflexivity| rewrite <- app_assoc; exact Hs | exact Hl].
  Qed.

  Lemma validate_export s : forallb (inner_ok tbl) s = true -> validate (export s) = true.
  Proof.
    unfold validate, export. intros Hok. rewrite forallb_forall in *. intros e Hin.
    apply in_map_iff in Hin. destruct Hin as (e0 & <- & Hin). specialize (Hok e0 Hin).
    unfold inner_ok in Hok. split_andb Hok. exact Hok.
  Qed.

  Lemma random_roundtrip s : invb tbl s = true -> import tbl (export s) = Some s.
  Proof.
    unfold invb. intros Hinv. apply andb_true_iff in Hinv. destruct Hinv as [Hs Hok].
    unfold import. rewrite (validate_export s Hok). simpl. f_equal.
    apply (import_fold s []); [simpl; apply (sortedb_sorted lt1 lt1_trans); exact Hs|exact Hok].
  Qed.

  Lemma random_export_validates_lemma s : invb tbl s = true -> validate (export s) = true.
  Proof. unfold invb. intros Hinv. apply andb_true_iff in Hinv. apply validate_export. tauto. Qed.

  Lemma random_import_total_lemma g : validate g = true -> import tbl g <> None.
  Proof. intros Hv. unfold import. rewrite Hv. discriminate. Qed.

  Lemma random_export_fixpoint_lemma s :
    invb tbl s = true -> exists s', import tbl (export s) = Some s' /\ export s' = export s.
  Proof. intros Hinv. exists s. split; [apply random_roundtrip; exact Hinv|reflexivity]. Qed.

  Lemma random_queries_preserved_lemma s :
    invb tbl s = true -> exists s', import tbl (export s) = Some s' /\ queries s' = queries s.
  Proof. intros Hinv. exists s. split; [apply random_roundtrip; exact Hinv|reflexivity]. Qed.
End Ids.

(** after PrepForZeroHeightGenesis: the heights shift by the same amount, so a reachable queue whose
    entries all lie at or above the export height is again a reachable queue *)
Lemma sortedb_shift {V} (d : Z) (m : list (Z * V)) :
  sortedb lt1 m = true -> sortedb lt1 (map (fun e => (fst e + d, snd e)) m) = true.
Proof.
  induction m as [|a m IH]; simpl; intros Hs; [reflexivity|].
  destruct m as [|b m']; [reflexivity|]. simpl in *. apply andb_true_iff in Hs. destruct Hs as [Hab Ht].
  apply andb_true_iff. split; [unfold lt1 in *; lia|apply IH; exact Ht].
Qed.

Lemma random_prep_inv_lemma tbl height s :
  invb tbl s = true -> 0 < height < two64 ->
  forallb (fun e => (height <=? fst e) && (fst e <? two64)) s = true ->
  invb tbl (prep height s) = true.
Proof.
  unfold invb, prep. intros Hinv Hh Hge. apply andb_true_iff in Hinv. destruct Hinv as [Hs Hok].
  assert (Heq : map (fun e : Z * list (Z * request) => ((fst e - height + 1) mod two64, snd e)) s
                = map (fun e => (fst e + (1 - height), snd e)) s).
  { apply map_ext_in. intros e Hin. rewrite forallb_forall in Hge. specialize (Hge e Hin).
    apply andb_true_iff in Hge. destruct Hge as [H1 H2]. f_equal. rewrite Z.mod_small; unfold two64 in *; lia. }
  rewrite Heq. apply andb_true_iff. split; [apply sortedb_shift; exact Hs|].
  rewrite forallb_forall in *. intros e Hin. apply in_map_iff in Hin. destruct Hin as (e0 & <- & Hin).
  specialize (Hok e0 Hin). specialize (Hge e0 Hin). apply andb_true_iff in Hge. destruct Hge as [H1 H2].
  unfold inner_ok in *. cbn [fst snd]. split_andb Hok. rewrite Hi1, Hi0, Hi. repeat rewrite andb_true_r. lia.
Qed.

Definition wit_tbl : list ((Z * Z) * Z) := [((5, 0), 1); ((5, 1), 0); ((6, 0), 2)].
Definition wit_s : state :=
  [(9, [(0, mkReq 5 1 3 false 0 0); (1, mkReq 5 0 4 false 0 0)]); (12, [(2, mkReq 6 0 5 false 0 0)])].
