(** * HTLC: the link theorems of [Genesis/LinkHtlc.v] for histories WITH parameter changes — the compatible ones.

    The htlc group's round-4 invariant holds along [wf_run] histories: an accepted MsgUpdateParams keeps the set of
    supported denoms and its limits cover the stored supplies ([compat_b]).  For the genesis round trip one more
    thing is needed, the first clause of this group's [params_cover]: an asset that is active stays active
    ([keeps_active]; otherwise an open transfer can sit on a deactivated asset and InitGenesis panics — the known
    finding).  Under both, every theorem of LinkHtlc.v holds again; the stored parameters are the current ones. *)
From Irismod Require Import Genesis.Sort.
From Irismod Require Import Genesis.LinkHtlc.

Definition keeps_active (P P' : list M.aparam) : Prop :=
  forall d p, M.get_param P d = Some p -> M.ap_active p = true ->
    exists p', M.get_param P' d = Some p' /\ M.ap_active p' = true.

(** well-formedness of an operation in a state: as the htlc group's [wf_op], plus [keeps_active] for an accepted
    parameter change *)
Definition wfp (s : M.state) (o : M.op) : Prop :=
  match o with
  | M.Create m => M.m_sender m <> M.ESC /\ M.m_sender m <> M.BLK
  | M.SetParams who P' => M.step_ok s o = true -> M.compat_b s P' = true /\ keeps_active (M.st_params s) P'
  | _ => True
  end.
Fixpoint wfp_run (s : M.state) (ops : list M.op) : Prop :=
  match ops with [] => True | o :: rest => wfp s o /\ wfp_run (M.step s o) rest end.

Lemma wfp_wf s o : wfp s o -> MP.wf_op s o.
Proof. destruct o; simpl; tauto. Qed.

Lemma wfp_run_wf : forall ops s, wfp_run s ops -> MP.wf_run s ops.
Proof. induction ops as [|o ops IH]; intros s W; simpl; [exact Logic.I|]. destruct W as [Wo W]. split; [exact (wfp_wf s o Wo)|exact (IH _ W)]. Qed.

(** histories without parameter changes are a special case *)
Lemma wf0_wfp s o : wf0 o -> wfp s o.
Proof. destruct o; simpl; tauto. Qed.

Lemma good_params P P' c : keeps_active P P' -> good P c -> good P' c.
Proof.
  intros Hk [Hc Ht]. split; [exact Hc|]. intros Htr. destruct (Ht Htr) as (Hts & d & x & p & Ha & Hp & Hact).
  split; [exact Hts|]. destruct (Hk d p Hp Hact) as (p' & Hp' & Ha'). exists d, x, p'. auto.
Qed.

Definition PV (s : M.state) : Prop := M.params_valid (M.st_params s) = true.

Lemma Jp_step s o : MP.Inv s -> MP.Strict s -> wfp s o -> ts_ok o -> PV s -> J (M.st_params s) s ->
  PV (M.step s o) /\ J (M.st_params (M.step s o)) (M.step s o).
Proof.
  intros I S W T Hpv HJ.
  assert (Hplain : wf0 o -> PV (M.step s o) /\ J (M.st_params (M.step s o)) (M.step s o)).
  { intros W0. destruct (MP.step_inv s o I S (wf0_wf s o W0)) as (_ & _ & P1). rewrite (wf0_params s o W0) in P1.
    unfold PV. rewrite P1. split; [exact Hpv|]. exact (J_step (M.st_params s) s o I S W0 T eq_refl HJ). }
  destruct o as [m|who id secret|dts|who P']; try (apply Hplain; exact W); try (apply Hplain; exact Logic.I).
  simpl in W. unfold M.step_ok in W. unfold M.step. cbn [M.exec] in *.
  destruct ((who =? M.GOV) && M.params_valid P') eqn:E; [|split; assumption].
  destruct (W eq_refl) as [_ Hk]. apply andb_true_iff in E. destruct E as [_ Ev].
  split; [exact Ev|]. destruct HJ as [Hh Hc]. split; [exact Hh|]. intros id c Hg.
  exact (good_params _ _ c Hk (Hc id c Hg)).
Qed.

Lemma Jp_run : forall ops s, MP.Inv s -> MP.Strict s -> wfp_run s ops -> Forall ts_ok ops -> PV s -> J (M.st_params s) s ->
  MP.Inv (M.run s ops) /\ MP.Strict (M.run s ops) /\ PV (M.run s ops) /\ J (M.st_params (M.run s ops)) (M.run s ops).
Proof.
  unfold M.run. induction ops as [|o ops IH]; intros s I S W T Hpv HJ; simpl; [auto|].
  destruct W as [Wo W]. inversion T as [|? ? To Tops]; subst.
  destruct (MP.step_inv s o I S (wfp_wf s o Wo)) as (I1 & S1 & _).
  destruct (Jp_step s o I S Wo To Hpv HJ) as (Hpv1 & HJ1). exact (IH _ I1 S1 W Tops Hpv1 HJ1).
Qed.

Section Hist.
  Variable rk : M.cid -> Z.
  Variable hl : M.hlock -> Z.
  Variable rs : Z -> Z.
  Variable oth : M.cid -> Z * Z.
  Hypothesis oth_ok : forall id, fst (oth id) <= 128 /\ snd (oth id) <= 128.
  Variable P : list M.aparam.
  Variable b : Irismod.Base.Bank.ledger.
  Variable t0 : Z.
  Variable ops : list M.op.
  Hypothesis HPv : M.params_valid P = true.
  Hypothesis HE : MP.escrow_empty b.
  Hypothesis HW : wfp_run (M.init P b t0) ops.
  Hypothesis HT : Forall ts_ok ops.
  Let s := MP.reachable P b t0 ops.
  Hypothesis rk_inj : inj_on rk (map fst (M.st_contracts s)).

  Lemma reach_facts : MP.Inv s /\ MP.Strict s /\ PV s /\ J (M.st_params s) s.
  Proof.
    destruct (MP.init_inv P b t0 (params_valid_ok P HPv) HE) as [I0 S0]. unfold s, MP.reachable.
    apply Jp_run; try assumption.
    split; [simpl; lia|]. intros id c Hg. discriminate.
  Qed.

  Theorem reachable_htlc_params : G.invb true (abs_o rk hl rs oth s) = true.
  Proof.
    destruct reach_facts as (I & S & Hpv & HJ).
    exact (reachable_htlc_o rk hl rs oth oth_ok (M.st_params s) s rk_inj I S HJ eq_refl Hpv).
  Qed.

  Theorem htlc_params_history_export_validates : G.validate true (G.export (abs rk hl rs oth s)) = true.
  Proof.
    destruct reach_facts as (I & _). rewrite (export_abs rk hl rs oth s rk_inj I).
    apply GP.htlc_export_validates_lemma. exact reachable_htlc_params.
  Qed.

  (** import does not panic; the new chain's state is the old one's without its closed contracts *)
  Theorem htlc_params_history_import_is_open_part :
    G.import true (G.export (abs rk hl rs oth s)) = Some (abs_o rk hl rs oth s).
  Proof.
    destruct reach_facts as (I & _). rewrite (export_abs rk hl rs oth s rk_inj I).
    rewrite (GP.htlc_roundtrip _ reachable_htlc_params).
    rewrite <- (norm_abs rk hl rs oth s rk_inj I), (norm_abs_o rk hl rs oth s rk_inj I). reflexivity.
  Qed.
End Hist.

(** non-vacuity: an incoming transfer is opened, then the authority raises the asset's limits and changes its fee
    (accepted, compatible, the asset stays active), a plain contract is created, blocks pass *)
Definition ex_P_raised : list M.aparam := [M.mkAP 0 5000 true 2000 (60 * M.ns) true 3 7 1 400 50 100].
Definition ex_ops2 : list M.op :=
  [ M.Create (M.mkCreate 3 0 [(0, 200)] (8, 1700000000) 1700000000 50 true);
    M.SetParams M.GOV ex_P_raised;
    M.Create (M.mkCreate 1 0 [(4, 30)] (10, 0) 0 50 false);
    M.Adv [M.ns; M.ns] ].

Example link_htlc_params_nonvacuous :
  let s := MP.reachable ex_P ex_B (1700000000 * M.ns) ex_ops2 in
  M.params_valid ex_P = true /\ MP.escrow_empty ex_B /\ wfp_run (M.init ex_P ex_B (1700000000 * M.ns)) ex_ops2 /\ Forall ts_ok ex_ops2
  /\ inj_on ex_rk (map fst (M.st_contracts s))
  /\ M.st_params s = ex_P_raised /\ length (G.g_htlcs (G.export (ex_abs s))) = 2%nat
  /\ G.import true (G.export (ex_abs s)) = Some (GP.norm (ex_abs s)).
Proof.
  cbv zeta. split; [vm_compute; reflexivity|]. split; [intros d; reflexivity|].
  split.
  { simpl. split; [split; discriminate|]. split.
    - intros _. split; [vm_compute; reflexivity|].
      intros d p Hp Ha. unfold ex_P_raised. vm_compute in Hp. destruct d; try discriminate. inversion Hp; subst.
      eexists. split; [vm_compute; reflexivity|reflexivity].
    - split; [split; discriminate|]. split; exact Logic.I. }
  split; [repeat constructor; simpl; try (intros H; first [discriminate H | discriminate])|].
  split.
  { intros a b Ha Hb. vm_compute in Ha, Hb.
    repeat (destruct Ha as [<-|Ha]; [repeat (destruct Hb as [<-|Hb]; [intros H; first [reflexivity | vm_compute in H; discriminate H]|]); destruct Hb|]).
    destruct Ha. }
  vm_compute. repeat split; reflexivity.
Qed.
