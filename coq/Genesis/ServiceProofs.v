(** * Service: proofs about export / validate / import / prep (C12) *)
From Irismod Require Import Genesis.Service.

Ltac split_andb H :=
  repeat match type of H with
         | (_ && _) = true => let H1 := fresh "Hi" in apply andb_true_iff in H; destruct H as [H H1]
         end.

Lemma imp_binds_ok l : forall m,
  (forall b, In b l -> (0 <=? b_provider b) && (0 <=? b_owner b) && (0 <=? b_pricing b) = true) ->
  imp_binds l m = Some (fold_left (fun m b => oins lt2 (b_name b, b_provider b) b m) l m).
Proof.
  induction l as [|b l IH]; intros m Hall; simpl; [reflexivity|].
  pose proof (Hall b (or_introl eq_refl)) as Hb. split_andb Hb.
  assert (H1 : (b_provider b <? 0) = false) by lia. assert (H2 : (b_owner b <? 0) = false) by lia.
  assert (H3 : (b_pricing b <? 0) = false) by lia. rewrite H1, H2, H3. simpl.
  apply IH. intros b' Hin. apply Hall. right. exact Hin.
Qed.

Lemma service_roundtrip s : invb s = true -> quietb s = true -> import (export s) = Some s.
Proof.
  intros Hinv Hq. unfold invb in Hinv. split_andb Hinv.
  rename Hinv into Hprm, Hi6 into Hds, Hi5 into Hdok, Hi4 into Hbs, Hi3 into Hbok, Hi2 into Hws, Hi1 into Hwok,
         Hi0 into Hcs, Hi into Hcok.
  assert (Hval : validate (export s) = true).
  { unfold validate, export. simpl. unfold quietb in Hq.
    apply andb_true_iff; split; [apply andb_true_iff; split; [apply andb_true_iff; split; [apply andb_true_iff; split|]|]|];
      [exact Hprm|exact Hdok| |exact Hwok|exact Hq].
    rewrite forallb_forall. intros b Hin. apply in_map_iff in Hin. destruct Hin as (e & <- & Hin).
    rewrite forallb_forall in Hbok. specialize (Hbok e Hin). split_andb Hbok. exact Hi2. }
  unfold import. rewrite Hval. simpl. rewrite Hprm. simpl.
  rewrite imp_binds_ok.
  - change (fold_left (fun m b => oins lt2 (b_name b, b_provider b) b m) (map snd (binds s)) [])
      with (okeyed lt2 (fun b => (b_name b, b_provider b)) (map snd (binds s))).
    rewrite (okeyed_sorted lt2 lt2_irrefl lt2_asym (fun b => (b_name b, b_provider b)) (binds s)).
    + change (fold_left (fun m d => oins lt1 (fst d) (snd d) m) (defs s) []) with (oof_list lt1 (defs s)).
      change (fold_left (fun m w => oins lt1 (fst w) (snd w) m) (wdraw s) []) with (oof_list lt1 (wdraw s)).
      change (fold_left (fun m c => oins lt1 (fst c) (snd c) m) (ctxs s) []) with (oof_list lt1 (ctxs s)).
      rewrite !(oof_list_sorted lt1 lt1_irrefl lt1_asym) by (apply (sortedb_sorted lt1 lt1_trans); assumption).
      destruct s; reflexivity.
    + apply (sortedb_sorted lt2 lt2_trans). exact Hbs.
    + apply Forall_forall. intros e Hin. rewrite forallb_forall in Hbok. specialize (Hbok e Hin). split_andb Hbok.
      symmetry. apply Prelude.eqb_true_iff. exact Hbok.
  - intros b Hin. apply in_map_iff in Hin. destruct Hin as (e & <- & Hin).
    rewrite forallb_forall in Hbok. specialize (Hbok e Hin). split_andb Hbok. rewrite Hi1, Hi0, Hi. reflexivity.
Qed.

Lemma service_export_validates_partial_lemma s : invb s = true -> quietb s = true -> validate (export s) = true.
Proof.
  intros Hinv Hq. pose proof (service_roundtrip s Hinv Hq) as Hr. unfold import in Hr.
  destruct (validate (export s)); [reflexivity|discriminate].
Qed.

Lemma service_import_total_lemma s : invb s = true -> quietb s = true -> import (export s) <> None.
Proof. intros Hinv Hq. rewrite (service_roundtrip s Hinv Hq). discriminate. Qed.

Lemma service_export_fixpoint_partial_lemma s :
  invb s = true -> quietb s = true -> exists s', import (export s) = Some s' /\ export s' = export s.
Proof. intros Hinv Hq. exists s. split; [apply service_roundtrip; assumption|reflexivity]. Qed.

Lemma service_queries_preserved_partial_lemma s :
  invb s = true -> quietb s = true -> exists s', import (export s) = Some s' /\ queries s' = queries s.
Proof. intros Hinv Hq. exists s. split; [apply service_roundtrip; assumption|reflexivity]. Qed.

Lemma service_import_total_partial_lemma g :
  validate g = true ->
  (forall b, In b (g_binds g) -> (0 <=? b_provider b) && (0 <=? b_owner b) && (0 <=? b_pricing b) = true) ->
  import g <> None.
Proof.
  intros Hv Hb. unfold import. rewrite Hv. simpl.
  assert (Hp : snd (g_prm g) = true). { unfold validate in Hv. split_andb Hv. exact Hv. }
  rewrite Hp. simpl. rewrite imp_binds_ok by exact Hb. discriminate.
Qed.

(** PrepForZeroHeightGenesis turns every reachable state into a quiet reachable state *)
Lemma sortedb_map_snd {V W} (f : V -> W) (m : list (Z * V)) :
  sortedb lt1 m = true -> sortedb lt1 (map (fun c => (fst c, f (snd c))) m) = true.
Proof.
  induction m as [|a m IH]; simpl; intros Hs; [reflexivity|].
  destruct m as [|b m']; [reflexivity|]. simpl in *. apply andb_true_iff in Hs. destruct Hs as [Hab Ht].
  rewrite Hab. simpl. apply IH. exact Ht.
Qed.

Lemma service_prep_lemma s : invb s = true -> invb (prep s) = true /\ quietb (prep s) = true.
Proof.
  intros Hinv. unfold invb in *. split_andb Hinv. unfold prep, quietb. simpl. split.
  - rewrite Hinv, Hi6, Hi5, Hi4, Hi3, Hi2, Hi1. simpl. rewrite (sortedb_map_snd prep_ctx (ctxs s) Hi0). simpl.
    rewrite forallb_forall in *. intros c Hin. apply in_map_iff in Hin. destruct Hin as (c0 & <- & Hin).
    specialize (Hi c0 Hin). simpl. exact Hi.
  - rewrite forallb_forall in *. intros c Hin. apply in_map_iff in Hin. destruct Hin as (c0 & <- & Hin).
    specialize (Hi c0 Hin). apply andb_true_iff in Hi. destruct Hi as [H1 H2].
    unfold ctx_ok. simpl. rewrite H1, H2. reflexivity.
Qed.

(** a running request context: the as-is export does not validate *)
Definition wit_bind : binding := mkBinding 0 1 1 4 true 2.
Definition wit_s : state :=
  mkState (12, true) [(0, (0, true))] [((0, 1), wit_bind)] [(2, 3)] [(0, mkCtx 8 true 0 0 1 2 0); (1, mkCtx 9 true 2 1 1 0 0)].

Lemma service_export_validates_refuted_lemma : exists s, invb s = true /\ validate (export s) = false.
Proof. exists wit_s. split; vm_compute; reflexivity. Qed.
