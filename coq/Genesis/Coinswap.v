(** * Coinswap: export / validate / import  (modules/coinswap/keeper/genesis.go,
      types/genesis.go, types/params.go, keeper/pool.go)

    Denominations are numbers that respect the byte order of the real strings (-1: not a valid
    denomination); a pool id "pool-<counterparty denom>" is numbered like its counterparty
    denomination (the harness checks the id has that form); a liquidity-token denomination
    "lpt-N" is the number N that [ParseLptDenom] yields (-1: does not parse).  Decimals are scaled
    by 10^18.  The pool reserves and the liquidity-token supply live in the bank module (imported
    into chain B separately); the harness shows them through the LiquidityPool query. *)
From Irismod Require Export Genesis.Store.

Record params := mkParams { p_fee : Z; p_pcf : Z * Z; p_tax : Z; p_uni : Z }.
Record pool := mkPool {
  p_id : Z; p_std : Z; p_cp : Z;
  p_escrow : Z;                                 (* -1: not an address; 1: the address derived from the lpt denom; 0: another address *)
  p_lpt : Z
}.

#[export] Instance EqDec_params : EqDec params.
Proof. intros x y. decide equality; apply eq_dec. Defined.
#[export] Instance EqDec_pool : EqDec pool.
Proof. intros x y. decide equality; apply eq_dec. Defined.

Record state := mkState {
  prm : params;
  std : Z;
  seq : Z;
  pools : list (Z * pool);                      (* "pool/<id>" -> pool, ascending id *)
  lpt_index : list (Z * Z)                      (* "lptDenom/lpt-N" -> pool id (never iterated by the code; kept ascending in N) *)
}.
Record genesis := mkGenesis { g_prm : params; g_std : Z; g_pools : list pool; g_seq : Z }.

#[export] Instance EqDec_state : EqDec state.
Proof. intros x y. decide equality; apply eq_dec. Defined.
#[export] Instance EqDec_genesis : EqDec genesis.
Proof. intros x y. decide equality; apply eq_dec. Defined.

Definition two64 : Z := 18446744073709551616.
Definition one_dec : Z := 1000000000000000000.

(** Keeper.ExportGenesis *)
Definition export (s : state) : genesis := mkGenesis (prm s) (std s) (map snd (pools s)) (seq s).

(** Params.Validate *)
Definition params_ok (p : params) : bool :=
  (0 <? p_fee p) && (p_fee p <? one_dec) && (0 <? snd (p_pcf p))
  && (0 <? p_tax p) && (p_tax p <? one_dec) && (0 <=? p_uni p) && (p_uni p <? one_dec).

Definition pool_ok (p : pool) : bool :=
  (0 <=? p_lpt p) && (0 <=? p_cp p) && (0 <=? p_std p) && (0 <=? p_escrow p).

Fixpoint zmax_list (l : list Z) : Z := match l with [] => 0 | x :: l' => Z.max x (zmax_list l') end.

(** types.ValidateGenesis (the verdict; the Go loop returns at the first failing clause) *)
Definition validate (g : genesis) : bool :=
  (0 <=? g_std g)
  && nodupb (map p_id (g_pools g)) && nodupb (map p_lpt (g_pools g))
  && forallb pool_ok (g_pools g)
  && ((zmax_list (map p_lpt (g_pools g)) + 1) mod two64 =? g_seq g)
  && params_ok (g_prm g).

(** Keeper.InitGenesis: validation, SetParams (validates again), standard denom, sequence, then
    setPool for every pool (the pool under its id, the id under the pool's lpt denom) *)
Definition index_of (ps : list pool) : list (Z * Z) :=
  fold_left (fun m p => oins lt1 (p_lpt p) (p_id p) m) ps [].

Definition import (g : genesis) : option state :=
  if negb (validate g) then None
  else if negb (params_ok (g_prm g)) then None
  else Some (mkState (g_prm g) (g_std g) (g_seq g) (okeyed lt1 p_id (g_pools g)) (index_of (g_pools g))).

(** Queries: LiquidityPool by lpt denom (pool found through the index), LiquidityPools, Params *)
Definition query_pool (s : state) (lpt : Z) : option pool :=
  match get lpt (lpt_index s) with Some id => get id (pools s) | None => None end.
Definition view := (params * list (Z * pool) * list (Z * option pool))%type.
Definition queries (s : state) : view :=
  (prm s, pools s, map (fun e => (p_lpt (snd e), query_pool s (p_lpt (snd e)))) (pools s)).

(** reachable states: pools in id order under their own ids, distinct lpt denominations numbered
    from 1 without gaps below the sequence, the index is the one of the pools, valid parameters *)
Definition key_ok (e : Z * pool) : bool := fst e =? p_id (snd e).
Definition invb (s : state) : bool :=
  sortedb lt1 (pools s) && forallb key_ok (pools s)
  && (0 <=? std s)
  && nodupb (map p_lpt (map snd (pools s)))
  && forallb pool_ok (map snd (pools s))
  && (zmax_list (map p_lpt (map snd (pools s))) + 1 =? seq s) && (seq s <? two64)
  && eqb (lpt_index s) (index_of (map snd (pools s)))
  && params_ok (prm s).

(** ** Correspondence and the C12 predicate on the implementation's observations *)
Record run := mkRun {
  r_sA : state; r_gA : genesis; r_val : bool; r_imp : Z; r_sB : option state; r_gB : option genesis;
  r_x : list (Z * Z * Z * Z * Z * Z * Z)   (* LiquidityPool answers: lpt, (A: standard, token, liquidity), (B: the same); -1 = query fails *)
}.
Record case := mkCase { c_runs : list run }.

Definition corr_run (r : run) : bool :=
  invb (r_sA r)
  && eqb (export (r_sA r)) (r_gA r)
  && eqb (validate (r_gA r)) (r_val r)
  && match import (r_gA r) with
     | None => negb (r_imp r =? 0)
     | Some b => (r_imp r =? 0) && eqb (r_sB r) (Some b) && eqb (r_gB r) (Some (export b))
     end.

(** clause codes: 1 export does not validate; 2 import panics; 3 second export differs;
    4 a pool / the parameters / a pool looked up by its lpt denom reads differently on B;
    5 the LiquidityPool query (reserves, liquidity supply) answers differently on B *)
Definition prop_run (r : run) : Z :=
  first_code
    [ (1, r_val r);
      (2, r_imp r =? 0);
      (3, match r_gB r with Some g => eqb g (r_gA r) | None => true end);
      (4, match r_sB r with Some b => eqb (queries b) (queries (r_sA r)) | None => true end);
      (5, match r_sB r with
          | Some _ => forallb (fun '(_, a1, a2, a3, b1, b2, b3) => (a1 =? b1) && (a2 =? b2) && (a3 =? b3)) (r_x r)
          | None => true end) ].

Fixpoint check_runs (rs : list run) (i : Z) (corr prop code : Z) : Z * Z * Z :=
  match rs with
  | [] => (corr, prop, code)
  | r :: rest =>
      let corr' := if (corr <? 0) && negb (corr_run r) then i else corr in
      let c := prop_run r in
      let '(prop', code') := if (prop <? 0) && negb (c =? 0) then (i, c) else (prop, code) in
      check_runs rest (i + 1) corr' prop' code'
  end.

Definition check_coinswap (c : case) : Z * Z * Z := check_runs (c_runs c) 0 (-1) (-1) 0.
