(** * Farm: the C12 invariant derived from the message-level model (Farm/Model.v, Farm/Inv.v, Farm/Proofs.v,
      Farm/History.v).

    C12 is about states a chain can EXPORT, i.e. states at a block boundary: [step_state s NextBlock] (end
    blocker, then the next height) for a state [s] reached by any valid steps from genesis.  (Inside a block a
    destroyed pool has end height = current height and is not in the queue; the end of the block makes its end
    height the past.)  From the farm group's [inv] (pool ids in 1..seq and distinct; per pool: rules with
    distinct denoms, remaining >= 0, per block > 0, per share >= 0; farmers distinct with positive stakes and
    non-negative debts; the queue holds exactly the pools not yet closed, under their end heights), the
    queue bookkeeping of their end blocker ([end_block_fold]) and a small invariant [F] proved here over their
    step function (every rule has a positive total: [pool_step_lemma], [new_pool_lemma]; the stored parameters
    pass Params.Validate) the genesis-level [invb] follows for the abstraction of the boundary state.

    [abs] takes as parameters what the message model does not have: the numbering [ra] of accounts and [rd] of
    denominations (non-negative; [rd] injective), the interned description of a pool and its length
    (at most 280, MsgCreatePool.ValidateBasic).  A farmer's reward debt is the list of (rule denom, debt)
    without the zero entries (sdk.Coins).  The maximum number of reward categories is the model's constant. *)
From Irismod Require Import Genesis.Sort.
From Irismod Require Farm.Model Farm.Inv Farm.Proofs Farm.History Genesis.Farm Genesis.FarmProofs.
From Coq Require Import Sorting.Sorted Permutation ZifyBool.

Module M := Irismod.Farm.Model.
Module MS := Irismod.Farm.Spec.
Module MI := Irismod.Farm.Inv.
Module M2 := Irismod.Farm.Pres2.
Module MP := Irismod.Farm.Proofs.
Module MH := Irismod.Farm.History.
Module MC := Irismod.Farm.Check.
Module G := Irismod.Genesis.Farm.
Module GP := Irismod.Genesis.FarmProofs.

(** ** Part 1: the extra invariant over the message-level steps *)
Definition pars_ok (s : M.state) : Prop := 0 <= M.cfee s /\ 0 < M.trate s < Irismod.Base.Dec.P18.
Definition totals_pos (p : M.pool) : Prop := Forall (fun r => 0 < M.r_total r) (M.p_rules p).
Definition F (s : M.state) : Prop := pars_ok s /\ forall pid p, get pid (M.pools s) = Some p -> totals_pos p.

Lemma refund_pars s pid p s' ok : M.refund s pid p = (s', ok) -> M.cfee s' = M.cfee s /\ M.trate s' = M.trate s.
Proof.
  intros H. destruct (MS.refund_cases s pid p s' ok H) as [(p1 & b1 & _ & _ & ->)|(p1 & b1 & b' & _ & -> & _)]; split; reflexivity.
Qed.

Lemma end_block_one_pars s pid : M.cfee (M.end_block_one s pid) = M.cfee s /\ M.trate (M.end_block_one s pid) = M.trate s.
Proof.
  unfold M.end_block_one. destruct (get pid (M.pools s)) as [p|]; [|split; reflexivity].
  destruct (M.refund s pid p) as [s' ok] eqn:E. exact (refund_pars s pid p s' ok E).
Qed.

Lemma fold_pars l : forall s, M.cfee (fold_left M.end_block_one l s) = M.cfee s /\ M.trate (fold_left M.end_block_one l s) = M.trate s.
Proof.
  induction l as [|pid l IH]; intros s; simpl; [split; reflexivity|].
  destruct (IH (M.end_block_one s pid)) as [H1 H2]. destruct (end_block_one_pars s pid) as [H3 H4]. split; congruence.
Qed.

Lemma pars_step s st : pars_ok s -> pars_ok (M.step_state s st).
Proof.
  intros Hp. unfold M.step_state. destruct st as [m|]; unfold M.exec_step.
  - destruct (M.exec_msg s m) as [s' rw|o] eqn:E; cbn [fst snd]; [|exact Hp].
    destruct m as [who lpt start ed rules|who pid' d amt|who pid' d amt|who pid'|who pid' add rpb|who pid'|who cf tr]; simpl in E.
    + destruct (MS.create_Done _ _ _ _ _ _ _ _ E) as (b1 & b2 & iv & _ & _ & _ & _ & _ & _ & _ & _ & ->). exact Hp.
    + destruct (MS.stake_Done _ _ _ _ _ _ _ E) as (p0 & b1 & p1 & b2 & rw0' & db & b3 & Hx). cbv zeta in Hx.
      destruct Hx as (_ & _ & _ & _ & _ & _ & _ & _ & _ & _ & _ & ->). exact Hp.
    + destruct (MS.unstake_Done _ _ _ _ _ _ _ E) as (p0 & fi & p1 & b1 & b2 & rw0' & db & b3 & Hx).
      destruct Hx as (_ & _ & _ & _ & _ & _ & _ & _ & _ & _ & _ & _ & ->). exact Hp.
    + destruct (MS.harvest_Done _ _ _ _ _ E) as (p0 & fi & p1 & b1 & rw0' & db & b2 & Hx).
      destruct Hx as (_ & _ & _ & _ & _ & _ & _ & ->). exact Hp.
    + destruct (MS.adjust_Done _ _ _ _ _ _ _ E) as (p0 & p1 & b1 & b2 & iv & Hx). cbv zeta in Hx.
      destruct Hx as (_ & _ & _ & _ & _ & _ & _ & _ & _ & _ & _ & _ & ->). exact Hp.
    + destruct (MS.destroy_Done _ _ _ _ _ E) as (p0 & _ & _ & _ & _ & Hr & _).
      destruct (refund_pars _ _ _ _ _ Hr) as [H1 H2]. unfold pars_ok. rewrite H1, H2. exact Hp.
    + destruct (MP.update_params_Done _ _ _ _ _ _ E) as (_ & Hc & Ht & _ & ->). unfold pars_ok. simpl. lia.
  - cbn [fst]. unfold pars_ok. simpl. unfold M.end_block. destruct (fold_pars (M.due s) s) as [H1 H2]. rewrite H1, H2. exact Hp.
Qed.

Lemma amount_of_nonneg add d : Forall (fun c : Z * Z => 0 < snd c) add -> 0 <= M.amount_of add d.
Proof.
  intros Ha. unfold M.amount_of. destruct (get d add) as [x|] eqn:E; [|lia].
  rewrite Forall_forall in Ha. pose proof (Ha _ (get_In _ _ _ E)). simpl in *. lia.
Qed.

Lemma topup_nonneg s st pid d :
  0 <= MC.topup st (Irismod.Farm.Sound.obs_of (fst (fst (M.exec_step s st))) (snd (fst (M.exec_step s st))) (snd (M.exec_step s st))) pid d.
Proof.
  unfold MC.topup. destruct st as [m|]; [|lia]. destruct m; try lia.
  destruct ((pid0 =? pid) && _) eqn:Ec; [|lia]. apply andb_true_iff in Ec. destruct Ec as [_ Ec].
  unfold M.exec_step in Ec. simpl in Ec. destruct (M.adjust s who pid0 add rpb) as [s' rw|o] eqn:E.
  - destruct (MS.adjust_Done _ _ _ _ _ _ _ E) as (p0 & p1 & b1 & b2 & iv & Hx). cbv zeta in Hx.
    destruct Hx as (_ & Ha & _). apply amount_of_nonneg. exact Ha.
  - simpl in Ec. pose proof (MH.exec_msg_fail s (M.Adjust who pid0 add rpb) o E) as Ho. destruct o; [congruence|discriminate|discriminate].
Qed.

Lemma totals_step pa pb tp R : (forall d, 0 <= tp d) -> MH.pool_step pa pb tp R -> totals_pos pa -> totals_pos pb.
Proof.
  unfold MH.pool_step, totals_pos. intros Htp H2. induction H2 as [|ra rb la lb Hr H2 IH]; intros Ha; [constructor|].
  inversion Ha as [|? ? Hra Hla]; subst. constructor; [|exact (IH Hla)].
  destruct Hr as (Hd & Ht & _). pose proof (Htp (M.r_denom ra)). lia.
Qed.

Lemma F_step s st : MI.inv s -> MI.valid_step st -> F s -> F (M.step_state s st).
Proof.
  intros I Hv [Hp Ht]. split; [exact (pars_step s st Hp)|]. intros pid pb Hg.
  destruct (get pid (M.pools s)) as [pa|] eqn:Ea.
  - destruct (MH.pool_step_lemma s st pid pa Prelude.Ok [] I Hv Ea) as (pb' & Hg' & Hps). cbv zeta in Hg', Hps.
    unfold M.step_state in Hg. rewrite Hg in Hg'. inversion Hg'; subst pb'.
    eapply totals_step; [|exact Hps|exact (Ht _ _ Ea)]. intros d. apply topup_nonneg.
  - destruct (MH.new_pool_lemma s st pid pb Ea Hg) as (who & lpt & start & ed & rules & -> & _ & Hr & _ & _ & Hok).
    unfold M.exec_step in Hok. destruct (M.exec_msg s (M.CreatePool who lpt start ed rules)) as [s' rw|o] eqn:E; cbn [fst snd] in Hok.
    + simpl in E. destruct (MS.create_Done _ _ _ _ _ _ _ _ E) as (b1 & b2 & iv & _ & Hall & _).
      unfold totals_pos. rewrite Hr. unfold MS.new_rules. apply Forall_forall. intros r Hin. apply in_map_iff in Hin.
      destruct Hin as ([[d t] pb0] & <- & Hin). rewrite Forall_forall in Hall. pose proof (Hall _ Hin). simpl in *. lia.
    + pose proof (MH.exec_msg_fail _ _ _ E). congruence.
Qed.

Lemma F_run steps : forall s, MI.inv s -> Forall MI.valid_step steps -> F s -> F (M.run s steps).
Proof.
  induction steps as [|st steps IH]; simpl; intros s I Hv Hf; [exact Hf|]. inversion Hv as [|? ? Hv1 Hv2]; subst.
  apply IH; [apply MP.step_inv; assumption|exact Hv2|apply F_step; assumption].
Qed.

Lemma F_init b h : F (M.init b h).
Proof.
  split; [unfold pars_ok, M.init, M.creation_fee, M.tax_rate, Irismod.Base.Dec.P18; simpl; lia|]. intros pid p Hg. discriminate.
Qed.

(** ** Part 2: the block boundary: the queue holds exactly the pools that still have to be closed *)
Lemma boundary s : MI.inv s ->
  let sb := M.step_state s M.NextBlock in
  MI.inv sb /\ forall pid p, get pid (M.pools sb) = Some p -> (In (M.p_end p, pid) (M.queue sb) <-> M.height sb <= M.p_end p).
Proof.
  intros I. cbv zeta. pose proof (M2.next_block_inv s I) as Ib. split; [exact Ib|]. intros pid p Hg. split.
  - intros Hin. apply M2.in_queue_true in Hin. exact (proj1 (MI.i_sched _ Ib _ _ Hg Hin)).
  - intros Hle. destruct (M.in_queue (M.queue (M.step_state s M.NextBlock)) (M.p_end p, pid)) eqn:E; [apply M2.in_queue_true; exact E|].
    exfalso.
    destruct (M2.end_block_fold (M.due s) s I (M2.NoDup_due _ (MI.i_qnd _ I)) (fun pid H => proj1 (M2.in_due s pid) H)) as (I' & Hh & _).
    fold (M.end_block s) in *. unfold M.step_state, M.exec_step in Hg, E, Hle. cbn [fst M.pools M.queue M.height] in Hg, E, Hle.
    pose proof (MI.i_unq _ I' pid p Hg E). lia.
Qed.

(** ** Part 3: the abstraction *)
Section Abs.
  Variables (ra rd desc dlen : Z -> Z).

  Definition abs_rule (r : M.rule) : G.rule := G.mkRule (rd (M.r_denom r)) (M.r_total r) (M.r_rem r) (M.r_pb r) (M.r_rps r).
  Definition rule_entry (r : M.rule) : Z * G.rule := (rd (M.r_denom r), abs_rule r).
  Definition abs_pool (id : Z) (p : M.pool) : G.pool :=
    G.mkPool id (ra (M.p_creator p)) (desc id) (dlen id) (M.p_start p) (M.p_end p) (M.p_last p) (M.p_edit p) (rd (M.p_lpt p), M.p_locked p).
  Definition pool_entry (e : Z * M.pool) : Z * (G.pool * list (Z * G.rule)) :=
    (fst e, (abs_pool (fst e) (snd e), osort lt1 (map rule_entry (M.p_rules (snd e))))).
  (** sdk.Coins: (rule denom, debt) without the zero entries *)
  Definition abs_debt (rs : list M.rule) (ds : list Z) : list G.coin :=
    filter (fun c : Z * Z => negb (snd c =? 0)) (combine (map (fun r => rd (M.r_denom r)) rs) ds).
  Definition farmer_entry (pid : Z) (p : M.pool) (e : Z * M.finfo) : (Z * Z) * G.farmer :=
    ((ra (fst e), pid), G.mkFarmer pid (ra (fst e)) (M.f_locked (snd e)) (abs_debt (M.p_rules p) (M.f_debt (snd e)))).
  Definition farmers_of (e : Z * M.pool) : list ((Z * Z) * G.farmer) := map (farmer_entry (fst e) (snd e)) (M.p_farmers (snd e)).
  Definition q_entry (e : Z * Z) : (Z * Z) * unit := (e, tt).
  Definition abs (s : M.state) : G.state :=
    G.mkState (G.mkParams (rd M.STAKE, M.cfee s) M.max_categories (M.trate s)) (M.seq s)
              (osort lt1 (map pool_entry (M.pools s))) (osort lt2 (flat_map farmers_of (M.pools s))) (osort lt2 (map q_entry (M.queue s))).
End Abs.

(** ** generic helpers *)
Lemma sorted1 {V} (m : list (Z * V)) : sorted lt1 (osort lt1 m).
Proof. apply osort_sorted; [exact lt1_trans|apply lt1_total_on]. Qed.
Lemma sorted2 {V} (m : list ((Z * Z) * V)) : sorted lt2 (osort lt2 m).
Proof. apply osort_sorted; [exact lt2_trans|apply lt2_total_on]. Qed.
Lemma In_osort1 {V} (m : list (Z * V)) e : In e (osort lt1 m) -> In e m.
Proof. unfold osort, oof_list. intros H. apply In_fold_oins_inv in H. destruct H as [[]|H]. exact H. Qed.
Lemma In_osort2 {V} (m : list ((Z * Z) * V)) e : In e (osort lt2 m) -> In e m.
Proof. unfold osort, oof_list. intros H. apply In_fold_oins_inv in H. destruct H as [[]|H]. exact H. Qed.

Lemma in_unit {K} (l : list (K * unit)) k : In (k, tt) l <-> In k (map fst l).
Proof.
  split; [intros H; apply (in_map fst) in H; exact H|].
  intros H. apply in_map_iff in H. destruct H as ([k' []] & <- & H). exact H.
Qed.

Lemma osort_unit_ext (m1 m2 : list ((Z * Z) * unit)) :
  (forall k, In k (map fst m1) <-> In k (map fst m2)) -> osort lt2 m1 = osort lt2 m2.
Proof.
  intros H. apply (sorted_ext lt2 lt2_irrefl lt2_asym); [apply sorted2|apply sorted2|].
  intros [k []]. rewrite !in_unit, !keys_osort. apply H.
Qed.

Lemma coins_valid_single d x : 0 <= d -> 0 <= x -> G.coins_valid [(d, x)] = true.
Proof.
  intros Hd Hx. unfold G.coins_valid. cbn [forallb filter map fst snd].
  assert (E1 : (0 <=? x) = true) by lia. assert (E2 : (0 <=? d) = true) by lia. rewrite E1, E2.
  destruct (x =? 0); reflexivity.
Qed.

Lemma NoDup_fst_combine {A B} (a : list A) : forall b : list B, NoDup a -> NoDup (map fst (combine a b)).
Proof.
  induction a as [|x a IH]; intros b Hnd; [constructor|]. destruct b as [|y b]; [constructor|].
  inversion Hnd as [|? ? Hn Hnd']; subst. cbn [combine map fst]. constructor; [|apply IH; exact Hnd'].
  intros Hin. apply in_map_iff in Hin. destruct Hin as ([x' y'] & Hx & Hin). cbn [fst] in Hx. subst x'.
  apply in_combine_l in Hin. contradiction.
Qed.

Lemma NoDup_map_filter' {A B} (f : A -> B) (p : A -> bool) l : NoDup (map f l) -> NoDup (map f (filter p l)).
Proof.
  induction l as [|a l IH]; simpl; intros Hnd; [constructor|]. inversion Hnd as [|? ? Hn Hnd']; subst.
  destruct (p a); [|apply IH; exact Hnd']. simpl. constructor; [|apply IH; exact Hnd'].
  intros Hin. apply Hn. apply in_map_iff in Hin. destruct Hin as (x & <- & Hx). apply filter_In in Hx. apply in_map. tauto.
Qed.

Lemma queue_at_osort h (ps : G.pstore) : forall acc,
  fold_left (fun q (e : Z * (G.pool * list (Z * G.rule))) =>
               if h <=? G.p_end (fst (snd e)) then oins lt2 (G.p_end (fst (snd e)), fst e) tt q else q) ps acc
  = fold_left (fun m (kv : (Z * Z) * unit) => oins lt2 (fst kv) (snd kv) m)
              (map (fun e : Z * (G.pool * list (Z * G.rule)) => ((G.p_end (fst (snd e)), fst e), tt))
                   (filter (fun e : Z * (G.pool * list (Z * G.rule)) => h <=? G.p_end (fst (snd e))) ps)) acc.
Proof.
  induction ps as [|e ps IH]; intros acc; [reflexivity|]. cbn [fold_left filter].
  destruct (h <=? G.p_end (fst (snd e))); [cbn [map fold_left]; exact (IH _)|exact (IH _)].
Qed.

(** ** Part 4: [invb] of the abstraction of a boundary state *)
Section Reach.
  Variables (ra rd desc dlen : Z -> Z).
  Hypothesis ra_nn : forall a, 0 <= ra a.
  Hypothesis rd_nn : forall d, 0 <= rd d.
  Hypothesis rd_inj : forall a b, rd a = rd b -> a = b.
  Hypothesis dlen_ok : forall id, dlen id <= 280.
  Variable s : M.state.
  Hypothesis I : MI.inv s.
  Hypothesis HF : F s.
  Hypothesis Hq : forall pid p, get pid (M.pools s) = Some p -> (In (M.p_end p, pid) (M.queue s) <-> M.height s <= M.p_end p).

  Notation PE := (pool_entry ra rd desc dlen).
  Notation PL := (osort lt1 (map PE (M.pools s))).

  Lemma nd_pools : NoDup (map fst (M.pools s)). Proof. exact (MI.i_nodup _ I). Qed.
  Lemma nd_PL0 : NoDup (map fst (map PE (M.pools s))).
  Proof. rewrite map_map. cbn [pool_entry fst]. exact nd_pools. Qed.

  Lemma pool_facts pid p : In (pid, p) (M.pools s) ->
    get pid (M.pools s) = Some p /\ 0 < pid <= M.seq s /\ MI.pool_inv (M.height s) p /\ totals_pos p.
  Proof.
    intros Hin. assert (Hg : get pid (M.pools s) = Some p) by (apply NoDup_get_some; [exact nd_pools|exact Hin]).
    split; [exact Hg|]. split.
    - pose proof (MI.i_ids _ I) as Hi. rewrite Forall_forall in Hi. exact (Hi pid (in_map fst _ _ Hin)).
    - split; [|exact (proj2 HF pid p Hg)]. pose proof (MI.i_pools _ I) as Hp. rewrite Forall_forall in Hp.
      exact (Hp p (in_map snd _ _ Hin)).
  Qed.

  Lemma in_PL e : In e PL <-> exists pid p, e = PE (pid, p) /\ In (pid, p) (M.pools s).
  Proof.
    rewrite (In_osort lt1 _ e nd_PL0), in_map_iff. split.
    - intros ([pid p] & <- & Hin). eauto.
    - intros (pid & p & -> & Hin). eauto.
  Qed.

  Lemma has_pool pid p : In (pid, p) (M.pools s) -> has pid PL = true.
  Proof.
    intros Hin. unfold has. rewrite (get_osort lt1 _ _ nd_PL0).
    rewrite (NoDup_get_some _ pid (snd (PE (pid, p))) nd_PL0); [reflexivity|].
    apply in_map_iff. exists (pid, p). split; [reflexivity|exact Hin].
  Qed.

  Lemma debt_valid rs ds : Forall (fun d => 0 <= d) ds -> NoDup (map M.r_denom rs) -> G.coins_valid (abs_debt rd rs ds) = true.
  Proof.
    intros Hds Hnd. unfold G.coins_valid, abs_debt. apply andb_true_iff. split.
    - apply forallb_forall. intros [d x] Hin. apply filter_In in Hin. destruct Hin as [Hin _].
      pose proof (in_combine_l _ _ _ _ Hin) as Hl. pose proof (in_combine_r _ _ _ _ Hin) as Hr.
      apply in_map_iff in Hl. destruct Hl as (r & <- & _). rewrite Forall_forall in Hds. pose proof (Hds _ Hr). pose proof (rd_nn (M.r_denom r)).
      cbn [fst snd]. lia.
    - apply NoDup_nodupb. apply NoDup_map_filter'. apply NoDup_map_filter'. apply NoDup_fst_combine.
      rewrite <- (map_map M.r_denom rd). apply FinFun.Injective_map_NoDup; [exact rd_inj|exact Hnd].
  Qed.

  Lemma queue_abs : osort lt2 (map q_entry (M.queue s)) = G.queue_at (M.height s) PL.
  Proof.
    unfold G.queue_at. rewrite queue_at_osort.
    change (osort lt2 (map q_entry (M.queue s))
            = osort lt2 (map (fun e : Z * (G.pool * list (Z * G.rule)) => ((G.p_end (fst (snd e)), fst e), tt))
                             (filter (fun e : Z * (G.pool * list (Z * G.rule)) => M.height s <=? G.p_end (fst (snd e))) PL))).
    apply osort_unit_ext. intros [e pid]. rewrite !map_map, !in_map_iff. cbn [q_entry fst]. split.
    - intros (x & Hx & Hin). cbn in Hx. subst x. assert (Hin' : In (e, pid) (M.queue s)) by exact Hin.
      apply M2.in_queue_true in Hin. destruct (MI.i_qwf _ I _ _ Hin) as (p & Hg & <-).
      exists (PE (pid, p)). split; [reflexivity|]. apply filter_In. split.
      + apply in_PL. exists pid, p. split; [reflexivity|exact (get_In _ _ _ Hg)].
      + cbn. apply Z.leb_le. apply (Hq pid p Hg). exact Hin'.
    - intros (x & Hx & Hin). apply filter_In in Hin. destruct Hin as [Hin Hlive]. apply in_PL in Hin.
      destruct Hin as (pid' & p & -> & Hin). cbn in Hx, Hlive. inversion Hx; subst. apply Z.leb_le in Hlive.
      destruct (pool_facts pid p Hin) as (Hg & _). exists (M.p_end p, pid). split; [reflexivity|]. apply (Hq pid p Hg). exact Hlive.
  Qed.

  Theorem reachable_farm_state : G.invb true (M.height s) (abs ra rd desc dlen s) = true.
  Proof.
    destruct HF as ((Hc & Ht1 & Ht2) & _).
    assert (H1 : sortedb lt1 PL = true) by (apply (sorted_sortedb lt1); apply sorted1).
    assert (H2 : forallb (G.pentry_ok (abs ra rd desc dlen s)) PL = true).
    { apply forallb_forall. intros e He. apply in_PL in He. destruct He as (pid & p & -> & Hin).
      destruct (pool_facts pid p Hin) as (Hg & Hid & PI & Htot).
      pose proof (M2.locked_nonneg _ _ PI) as Hl. pose proof (ra_nn (M.p_creator p)). pose proof (rd_nn (M.p_lpt p)). pose proof (dlen_ok pid).
      assert (Hr : forallb (fun x : Z * G.rule => (fst x =? G.u_denom (snd x)) && G.rule_fields_ok (snd x))
                     (osort lt1 (map (rule_entry rd) (M.p_rules p))) = true).
      { apply forallb_forall. intros x Hx. apply In_osort1 in Hx. apply in_map_iff in Hx. destruct Hx as (r & <- & Hr).
        pose proof (MI.pi_rule _ _ PI) as Hro. rewrite Forall_forall in Hro. destruct (Hro r Hr) as (R1 & R2 & R3).
        unfold totals_pos in Htot. rewrite Forall_forall in Htot. pose proof (Htot r Hr). pose proof (rd_nn (M.r_denom r)).
        unfold rule_entry, abs_rule, G.rule_fields_ok. cbn [fst snd G.u_denom G.u_total G.u_remaining G.u_per_block G.u_per_share]. lia. }
      unfold G.pentry_ok. apply andb_true_iff; split; [apply andb_true_iff; split; [apply andb_true_iff; split; [apply andb_true_iff; split|]|]|].
      - cbn. apply Z.eqb_refl.
      - cbn. lia.
      - unfold pool_entry, G.pool_fields_ok, abs_pool. cbn [fst snd G.p_id G.p_desc_len G.p_creator G.p_lpt].
        apply andb_true_iff; split; [lia|apply coins_valid_single; assumption].
      - cbn [pool_entry fst snd]. apply (sorted_sortedb lt1). apply sorted1.
      - exact Hr. }
    assert (H3 : sortedb lt2 (osort lt2 (flat_map (farmers_of ra rd) (M.pools s))) = true) by (apply (sorted_sortedb lt2); apply sorted2).
    assert (H4 : forallb (fun e : (Z * Z) * G.farmer => eqb (fst e) (G.f_addr (snd e), G.f_pool (snd e)) && has (G.f_pool (snd e)) PL
                       && G.farmer_fields_ok true (snd e)) (osort lt2 (flat_map (farmers_of ra rd) (M.pools s))) = true).
    { apply forallb_forall. intros e He. apply In_osort2 in He. apply in_flat_map in He. destruct He as ([pid p] & Hin & He).
      unfold farmers_of in He. cbn [fst snd] in He. apply in_map_iff in He. destruct He as ([who fi] & <- & Hfi).
      destruct (pool_facts pid p Hin) as (Hg & Hid & PI & _).
      pose proof (MI.pi_pos _ _ PI) as Hpos. rewrite Forall_forall in Hpos. pose proof (Hpos fi (in_map snd _ _ Hfi)) as Hl.
      pose proof (MI.pi_farmers _ _ PI) as Hfo. rewrite Forall_forall in Hfo. destruct (Hfo fi (in_map snd _ _ Hfi)) as (_ & Hd).
      pose proof (ra_nn who).
      unfold farmer_entry, G.farmer_fields_ok. cbn [fst snd G.f_addr G.f_pool G.f_locked G.f_debt].
      rewrite Prelude.eqb_refl, (has_pool pid p Hin), (debt_valid _ _ Hd (MI.pi_denoms _ _ PI)). cbn in Hl. lia. }
    assert (H5 : eqb (osort lt2 (map q_entry (M.queue s))) (G.queue_at (M.height s) PL) = true) by (apply Prelude.eqb_true_iff; exact queue_abs).
    assert (H6 : G.coins_valid [(rd M.STAKE, M.cfee s)] = true) by (apply coins_valid_single; [apply rd_nn|exact Hc]).
    assert (H7 : G.params_valid (G.mkParams (rd M.STAKE, M.cfee s) M.max_categories (M.trate s)) = true).
    { unfold G.params_valid, G.fee_valid, G.one_dec. cbn [G.m_fee G.m_tax fst snd]. pose proof (rd_nn M.STAKE).
      unfold Irismod.Base.Dec.P18 in Ht2. lia. }
    assert (H8 : (0 <=? M.seq s) = true) by (pose proof (MI.i_seq _ I); lia).
    unfold G.invb. do 7 (apply andb_true_intro; split; [|first [exact H8|exact H7|exact H6|exact H5|exact H4|exact H3|exact H2]]). exact H1.
  Qed.
End Reach.

(** ** Part 5: C12 over histories of the farm model (no free-standing invariant) *)
Section Hist.
  Variables (ra rd desc dlen : Z -> Z).
  Hypothesis ra_nn : forall a, 0 <= ra a.
  Hypothesis rd_nn : forall d, 0 <= rd d.
  Hypothesis rd_inj : forall a b, rd a = rd b -> a = b.
  Hypothesis dlen_ok : forall id, dlen id <= 280.
  (** any valid steps (messages of accounts that are not module accounts — parameter updates included — and block
      boundaries) from a genesis with empty farm escrow; then the end of the block: the state a chain exports *)
  Variable b : Irismod.Base.Bank.ledger.
  Variable h0 : Z.
  Variable steps : list M.step.
  Hypothesis Hg : MP.genesis_ok b h0.
  Hypothesis Hv : Forall MI.valid_step steps.
  Let s := M.step_state (M.run (M.init b h0) steps) M.NextBlock.

  Theorem reachable_farm : G.invb true (M.height s) (abs ra rd desc dlen s) = true.
  Proof.
    pose proof (MP.run_inv steps _ (MP.inv_init b h0 Hg) Hv) as I0.
    pose proof (F_run steps _ (MP.inv_init b h0 Hg) Hv (F_init b h0)) as F0.
    destruct (boundary _ I0) as (Ib & Hq).
    exact (reachable_farm_state ra rd desc dlen ra_nn rd_nn rd_inj dlen_ok s Ib (F_step _ M.NextBlock I0 Logic.I F0) Hq).
  Qed.

  Theorem farm_history_export_validates : G.validate true false (G.export (abs ra rd desc dlen s)) = true.
  Proof. exact (GP.farm_export_validates_lemma (M.height s) _ reachable_farm). Qed.

  (** the new chain starts at the height of the next block; import does not panic and gives back the state itself,
      queue of active pools included *)
  Theorem farm_history_roundtrip :
    G.import true true false (M.height s) (G.export (abs ra rd desc dlen s)) = Some (abs ra rd desc dlen s).
  Proof. exact (GP.farm_roundtrip (M.height s) false _ reachable_farm). Qed.

  Theorem farm_history_fixpoint_and_queries :
    exists s', G.import true true false (M.height s) (G.export (abs ra rd desc dlen s)) = Some s'
      /\ G.export s' = G.export (abs ra rd desc dlen s) /\ G.queries s' = G.queries (abs ra rd desc dlen s)
      /\ G.queue s' = G.queue_at (M.height s) (G.pools s').
  Proof.
    destruct (GP.farm_queries_preserved_lemma (M.height s) _ reachable_farm) as (s' & Hi & Hqr & Hqu).
    exists s'. split; [exact Hi|]. pose proof Hi as Hi'. rewrite farm_history_roundtrip in Hi'. inversion Hi'; subst s'.
    split; [reflexivity|]. split; [reflexivity|exact Hqu].
  Qed.
End Hist.

(** ** non-vacuity: the history of [Props/C05.c05_nonvacuous] (a pool, two farmers entering and leaving, harvests,
    block boundaries) followed by a parameter update and a second pool that is destroyed *)
Definition zn (z : Z) : Z := if z <? 0 then - 2 * z - 1 else 2 * z.
Lemma zn_nn z : 0 <= zn z. Proof. unfold zn. destruct (z <? 0) eqn:E; lia. Qed.
Lemma zn_inj a b : zn a = zn b -> a = b. Proof. unfold zn. destruct (a <? 0) eqn:Ea, (b <? 0) eqn:Eb; lia. Qed.

Definition ex_bank : Irismod.Base.Bank.ledger :=
  fold_left (fun l a => fold_left (fun l' d => Irismod.Base.Bank.credit l' a d 1000000) [0; 1; 2; 3] l) [0; 1; 2] [].
Definition ex_hist : list M.step :=
  [M.Msg (M.CreatePool 0 0 2 true [(3, 1000, 1)]); M.NextBlock; M.Msg (M.Stake 1 1 0 2); M.NextBlock; M.Msg (M.Stake 2 1 0 1);
   M.NextBlock; M.NextBlock; M.Msg (M.Unstake 2 1 0 1); M.Msg (M.Harvest 1 1); M.NextBlock; M.Msg (M.Stake 2 1 0 1);
   M.Msg (M.UpdateParams M.AUTH 7000 250000000000000000);
   M.Msg (M.CreatePool 1 1 9 true [(2, 50, 5); (3, 60, 3)]); M.NextBlock; M.Msg (M.Destroy 1 2) ].
Definition ex_abs := abs Z.abs zn (fun id => id) (fun _ => 10).

Example link_farm_nonvacuous :
  let s := M.step_state (M.run (M.init ex_bank 2) ex_hist) M.NextBlock in
  MP.genesis_ok ex_bank 2 /\ Forall MI.valid_step ex_hist
  /\ map fst (G.pools (ex_abs s)) = [1; 2] /\ map fst (G.farmers (ex_abs s)) = [(1, 1); (2, 1)]
  /\ map fst (G.queue (ex_abs s)) = [(1002, 1)] /\ G.m_fee (G.prm (ex_abs s)) = (6, 7000)
  /\ G.invb true (M.height s) (ex_abs s) = true
  /\ G.import true true false (M.height s) (G.export (ex_abs s)) = Some (ex_abs s).
Proof.
  cbv zeta. split; [split; [lia|]; intros d; vm_compute; split; [reflexivity|discriminate]|].
  split; [unfold ex_hist; repeat constructor; try discriminate|].
  vm_compute. repeat split; reflexivity.
Qed.
