(** * Oracle: proofs about export / validate / import (C12) *)
From Irismod Require Import Genesis.Oracle.

Ltac split_andb H :=
  repeat match type of H with
         | (_ && _) = true => let H1 := fresh "Hi" in apply andb_true_iff in H; destruct H as [H H1]
         end.

Lemma oracle_export_validates_lemma e s : invb s = true -> validate (export e s) = true.
Proof.
  unfold invb. intros Hinv. split_andb Hinv. clear - Hi6.
  unfold validate, export. rewrite forallb_forall. intros en Hin. apply in_flat_map in Hin.
  destruct Hin as (f & Hf & Hen). rewrite forallb_forall in Hi6. specialize (Hi6 f Hf).
  apply andb_true_iff in Hi6. destruct Hi6 as [_ Hok].
  destruct (get (o_ctx (snd f)) e) as [[st bc]|]; [|destruct Hen].
  destruct Hen as [<-|[]]. exact Hok.
Qed.

(** the feeds (and nothing else) that the import loop leaves in the feed store *)
Lemma imp_entries_feeds e g : forall s0 s',
  imp_entries e g s0 = Some s' ->
  feeds s' = fold_left (fun m f => oins lt1 (o_name f) f m) (map (fun en => fst (fst en)) g) (feeds s0).
Proof.
  induction g as [|[[f st] vl] g IH]; intros s0 s' Himp; simpl in *.
  - inversion Himp; subst. reflexivity.
  - destruct (get (o_ctx f) e) as [[st' bc]|]; [|discriminate]. rewrite (IH _ _ Himp). reflexivity.
Qed.

Lemma export_feeds e s :
  (forall f, In f (feeds s) -> has (o_ctx (snd f)) e = true) ->
  map (fun en => fst (fst en)) (export e s) = map snd (feeds s).
Proof.
  unfold export. induction (feeds s) as [|f l IH]; intros Hall; simpl; [reflexivity|].
  pose proof (Hall f (or_introl eq_refl)) as Hf. unfold has in Hf.
  destruct (get (o_ctx (snd f)) e) as [[st bc]|]; [|discriminate]. simpl. f_equal.
  apply IH. intros f' Hin. apply Hall. right. exact Hin.
Qed.

(** what does survive export -> import: the feeds themselves (name, aggregation, history length, creator, context) *)
Lemma oracle_feeds_preserved_lemma eA eB s s' :
  invb s = true -> (forall f, In f (feeds s) -> has (o_ctx (snd f)) eA = true) ->
  import eB (export eA s) = Some s' -> feeds s' = feeds s.
Proof.
  intros Hinv Hctx Himp. unfold import in Himp. destruct (validate (export eA s)); [|discriminate]. simpl in Himp.
  rewrite (imp_entries_feeds _ _ _ _ Himp). simpl. rewrite (export_feeds eA s Hctx).
  unfold invb in Hinv. split_andb Hinv.
  change (fold_left (fun m f => oins lt1 (o_name f) f m) (map snd (feeds s)) []) with (okeyed lt1 o_name (map snd (feeds s))).
  apply okeyed_roundtrip1; [exact Hinv|].
  rewrite forallb_forall in *. intros f Hf. specialize (Hi6 f Hf). apply andb_true_iff in Hi6. tauto.
Qed.

(** import is total on a validated genesis exactly when the service module of the new chain knows every context *)
Lemma imp_entries_total e g : forall s0,
  (forall en, In en g -> has (o_ctx (fst (fst en))) e = true) -> imp_entries e g s0 <> None.
Proof.
  induction g as [|[[f st] vl] g IH]; intros s0 Hall; simpl; [discriminate|].
  pose proof (Hall _ (or_introl eq_refl)) as Hf. simpl in Hf. unfold has in Hf.
  destruct (get (o_ctx f) e) as [[st' bc]|]; [|discriminate].
  apply IH. intros en Hin. apply Hall. right. exact Hin.
Qed.

Lemma oracle_import_total_partial_lemma e g :
  validate g = true -> (forall en, In en g -> has (o_ctx (fst (fst en))) e = true) -> import e g <> None.
Proof. intros Hv Hall. unfold import. rewrite Hv. simpl. apply imp_entries_total. exact Hall. Qed.

(** ** Refutations (witness = the state of corpus/C12/oracle-value-history-lost.jsonl) *)
Definition wit_feed : feed := mkFeed 0 true 0 6 1 true 2 3 0 0.
Definition wit_env : env := [(0, (1, 2))].
Definition wit_s : state := mkState [(0, wit_feed)] [(0, 0)] [(0, [(1, (3, 1700000010)); (2, (4, 1700000020))])] [] [(0, tt)].
Definition wit_s' : state := mkState [(0, wit_feed)] [(0, 0)] [(0, [(2, (3, 1700000010))])] [] [(0, tt)].

(** the exported genesis of a reachable state makes InitGenesis panic when the new chain's service module
    does not know the feed's request context (which is the case whenever the service genesis exported with
    it could not be imported) *)
Lemma oracle_import_total_refuted_lemma :
  exists eA eB s, invb s = true /\ validate (export eA s) = true /\ import eB (export eA s) = None.
Proof. exists wit_env, [], wit_s. repeat split; vm_compute; reflexivity. Qed.

(** ... and does not when it knows them all *)
Lemma oracle_import_total_partial_reachable_lemma eA eB s :
  invb s = true -> (forall f, In f (feeds s) -> has (o_ctx (snd f)) eB = true) ->
  import eB (export eA s) <> None.
Proof.
  intros Hinv Hctx. apply oracle_import_total_partial_lemma; [apply oracle_export_validates_lemma; exact Hinv|].
  intros en Hin. unfold export in Hin. apply in_flat_map in Hin. destruct Hin as (f & Hf & Hen).
  destruct (get (o_ctx (snd f)) eA) as [[st bc]|]; [|destruct Hen]. destruct Hen as [<-|[]]. simpl. apply Hctx. exact Hf.
Qed.

(** every exported value of a feed is stored under the same key: only the OLDEST survives *)
Lemma oracle_export_fixpoint_refuted_lemma :
  exists e s s', invb s = true /\ import e (export e s) = Some s' /\ export e s' <> export e s.
Proof. exists wit_env, wit_s, wit_s'. repeat split; vm_compute; try reflexivity. discriminate. Qed.

Lemma oracle_queries_preserved_refuted_lemma :
  exists e s s', invb s = true /\ import e (export e s) = Some s'
                 /\ values_of s 0 = [(4, 1700000020); (3, 1700000010)] /\ values_of s' 0 = [(3, 1700000010)].
Proof. exists wit_env, wit_s, wit_s'. repeat split; vm_compute; reflexivity. Qed.
