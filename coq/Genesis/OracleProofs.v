(** * Oracle: proofs about export / validate / import (C12) *)
From Irismod Require Import Genesis.Oracle.
From Coq Require Import ZifyBool.

Ltac split_andb H :=
  repeat match type of H with
         | (_ && _) = true => let H1 := fresh "Hi" in apply andb_true_iff in H; destruct H as [H H1]
         end.

Lemma oracle_export_validates_lemma e s : invb s = true -> validate (export e s) = true.
Proof.
  unfold invb. intros Hinv. split_andb Hinv. clear - Hi6.
  unfold validate, export. rewrite forallb_forall. intros en Hin. apply in_flat_map in Hin.
  destruct Hin as (f & Hf & Hen). rewrite forallb_forall in Hi6. specialize (Hi6 f Hf).
  apply andb_true_iff in Hi6. destruct Hi6 as [_ Hok].
  destruct (get (o_ctx (snd f)) e) as [[st bc]|]; [|destruct Hen].
  destruct Hen as [<-|[]]. exact Hok.
Qed.

(** the feeds (and nothing else) that the import loop leaves in the feed store *)
Lemma imp_entries_feeds fx e g : forall s0 s',
  imp_entries fx e g s0 = Some s' ->
  feeds s' = fold_left (fun m f => oins lt1 (o_name f) f m) (map (fun en => fst (fst en)) g) (feeds s0).
Proof.
  induction g as [|[[f st] vl] g IH]; intros s0 s' Himp; simpl in *.
  - inversion Himp; subst. reflexivity.
  - destruct (get (o_ctx f) e) as [[st' bc]|]; [|discriminate]. rewrite (IH _ _ Himp). reflexivity.
Qed.

Lemma export_feeds e s :
  (forall f, In f (feeds s) -> has (o_ctx (snd f)) e = true) ->
  map (fun en => fst (fst en)) (export e s) = map snd (feeds s).
Proof.
  unfold export. induction (feeds s) as [|f l IH]; intros Hall; simpl; [reflexivity|].
  pose proof (Hall f (or_introl eq_refl)) as Hf. unfold has in Hf.
  destruct (get (o_ctx (snd f)) e) as [[st bc]|]; [|discriminate]. simpl. f_equal.
  apply IH. intros f' Hin. apply Hall. right. exact Hin.
Qed.

(** what does survive export -> import: the feeds themselves (name, aggregation, history length, creator, context) *)
Lemma oracle_feeds_preserved_lemma fx eA eB s s' :
  invb s = true -> (forall f, In f (feeds s) -> has (o_ctx (snd f)) eA = true) ->
  import fx eB (export eA s) = Some s' -> feeds s' = feeds s.
Proof.
  intros Hinv Hctx Himp. unfold import in Himp. destruct (validate (export eA s)); [|discriminate]. simpl in Himp.
  rewrite (imp_entries_feeds _ _ _ _ _ Himp). simpl. rewrite (export_feeds eA s Hctx).
  unfold invb in Hinv. split_andb Hinv.
  change (fold_left (fun m f => oins lt1 (o_name f) f m) (map snd (feeds s)) []) with (okeyed lt1 o_name (map snd (feeds s))).
  apply okeyed_roundtrip1; [exact Hinv|].
  rewrite forallb_forall in *. intros f Hf. specialize (Hi6 f Hf). apply andb_true_iff in Hi6. tauto.
Qed.

(** import is total on a validated genesis exactly when the service module of the new chain knows every context *)
Lemma imp_entries_total fx e g : forall s0,
  (forall en, In en g -> has (o_ctx (fst (fst en))) e = true) -> imp_entries fx e g s0 <> None.
Proof.
  induction g as [|[[f st] vl] g IH]; intros s0 Hall; simpl; [discriminate|].
  pose proof (Hall _ (or_introl eq_refl)) as Hf. simpl in Hf. unfold has in Hf.
  destruct (get (o_ctx f) e) as [[st' bc]|]; [|discriminate].
  apply IH. intros en Hin. apply Hall. right. exact Hin.
Qed.

Lemma oracle_import_total_partial_lemma fx e g :
  validate g = true -> (forall en, In en g -> has (o_ctx (fst (fst en))) e = true) -> import fx e g <> None.
Proof. intros Hv Hall. unfold import. rewrite Hv. simpl. apply imp_entries_total. exact Hall. Qed.

(** ** Refutations (witness = the state of corpus/C12/oracle-value-history-lost.jsonl) *)
Definition wit_feed : feed := mkFeed 0 true 0 6 1 true 2 3 0 0.
Definition wit_env : env := [(0, (1, 2))].
Definition wit_s : state := mkState [(0, wit_feed)] [(0, 0)] [(0, [(1, (3, 1700000010)); (2, (4, 1700000020))])] [] [(0, tt)].
Definition wit_s' : state := mkState [(0, wit_feed)] [(0, 0)] [(0, [(2, (3, 1700000010))])] [] [(0, tt)].

(** the exported genesis of a reachable state makes InitGenesis panic when the new chain's service module
    does not know the feed's request context (which is the case whenever the service genesis exported with
    it could not be imported) *)
Lemma oracle_import_total_refuted_lemma :
  exists eA eB s, invb s = true /\ validate (export eA s) = true /\ import true eB (export eA s) = None.
Proof. exists wit_env, [], wit_s. repeat split; vm_compute; reflexivity. Qed.

(** ... and does not when it knows them all *)
Lemma oracle_import_total_partial_reachable_lemma fx eA eB s :
  invb s = true -> (forall f, In f (feeds s) -> has (o_ctx (snd f)) eB = true) ->
  import fx eB (export eA s) <> None.
Proof.
  intros Hinv Hctx. apply oracle_import_total_partial_lemma; [apply oracle_export_validates_lemma; exact Hinv|].
  intros en Hin. unfold export in Hin. apply in_flat_map in Hin. destruct Hin as (f & Hf & Hen).
  destruct (get (o_ctx (snd f)) eA) as [[st bc]|]; [|destruct Hen]. destruct Hen as [<-|[]]. simpl. apply Hctx. exact Hf.
Qed.

(** the code as it was ([import false]): every exported value of a feed is stored under the same key, only the
    OLDEST survives *)
Lemma oracle_export_fixpoint_refuted_lemma :
  exists e s s', invb s = true /\ import false e (export e s) = Some s' /\ export e s' <> export e s.
Proof. exists wit_env, wit_s, wit_s'. repeat split; vm_compute; try reflexivity. discriminate. Qed.

Lemma oracle_queries_preserved_refuted_lemma :
  exists e s s', invb s = true /\ import false e (export e s) = Some s'
                 /\ values_of s 0 = [(4, 1700000020); (3, 1700000010)] /\ values_of s' 0 = [(3, 1700000010)].
Proof. exists wit_env, wit_s, wit_s'. repeat split; vm_compute; reflexivity. Qed.

Lemma NoDup_get_some_local {K V} `{EqDec K} (m : list (K * V)) k v : NoDup (map fst m) -> In (k, v) m -> get k m = Some v.
Proof.
  induction m as [|[k0 v0] m IH]; simpl; intros Hnd Hin; [contradiction|].
  inversion Hnd as [|? ? Hn Hnd']; subst. destruct (eq_dec k k0) as [->|Hne].
  - destruct Hin as [Heq|Hin]; [congruence|]. exfalso. apply Hn. apply (in_map fst _ (k0, v)). exact Hin.
  - destruct Hin as [Heq|Hin]; [congruence|]. apply IH; assumption.
Qed.

(** ** The repaired import ([import true]): the value history survives *)
Fixpoint rekey (k : Z) (l : list value) : list (Z * value) :=
  match l with [] => [] | v :: l' => (k, v) :: rekey (k + 1) l' end.

Lemma rekey_vals k l : map snd (rekey k l) = l.
Proof. revert k. induction l as [|v l IH]; intros k; simpl; [reflexivity|]. rewrite IH. reflexivity. Qed.
Lemma rekey_length k l : length (rekey k l) = length l.
Proof. revert k. induction l as [|v l IH]; intros k; simpl; [reflexivity|]. rewrite IH. reflexivity. Qed.
Lemma rekey_app k a v : rekey k (a ++ [v]) = rekey k a ++ [(k + Z.of_nat (length a), v)].
Proof.
  revert k. induction a as [|x a IH]; intros k.
  - simpl. rewrite Z.add_0_r. reflexivity.
  - cbn [app rekey]. rewrite IH.
    replace (k + Z.of_nat (length (x :: a))) with (k + 1 + Z.of_nat (length a)) by (change (length (x :: a)) with (S (length a)); rewrite Nat2Z.inj_succ; lia). reflexivity.
Qed.
Lemma rekey_keys_lt k l : Forall (fun a => lt1 (fst a) (k + Z.of_nat (length l)) = true) (rekey k l).
Proof.
  revert k. induction l as [|v l IH]; intros k; cbn [rekey]; [constructor|].
  change (length (v :: l)) with (S (length l)). rewrite Nat2Z.inj_succ. constructor.
  - cbn [fst]. unfold lt1. lia.
  - specialize (IH (k + 1)). eapply Forall_impl; [|exact IH]. intros a Ha. cbn beta in Ha. unfold lt1 in *. lia.
Qed.

Lemma getd_oins_same {V} k (v d : V) m : getd k (oins lt1 k v m) d = v.
Proof. unfold getd. rewrite get_oins_same. reflexivity. Qed.

Lemma set_value_other vs X Y k latest v : Y <> X -> get Y (set_value vs X k latest v) = get Y vs.
Proof. intros Hne. unfold set_value. apply get_oins_other. exact Hne. Qed.

Lemma imp_feed_values_other fx vs X Y bc latest vl : Y <> X -> get Y (imp_feed_values fx vs X bc latest vl) = get Y vs.
Proof.
  intros Hne. unfold imp_feed_values. destruct fx.
  - generalize (if bc + 1 <? Z.of_nat (length vl) then Z.of_nat (length vl) - 1 else bc) as base. intros base.
    generalize (base - (Z.of_nat (length vl) - 1)) as k0. generalize (rev vl) as l. intros l.
    revert vs. induction l as [|v l IH]; intros vs k0; simpl; [reflexivity|].
    rewrite IH. simpl. apply set_value_other. exact Hne.
  - revert vs. induction vl as [|v l IH]; intros vs; simpl; [reflexivity|]. rewrite IH. apply set_value_other. exact Hne.
Qed.

(** the insertion loop of one feed: nothing is trimmed while the history fits *)
Lemma fold_set_value X latest k0 l : forall done m,
  getd X m [] = rekey k0 done -> Z.of_nat (length done) + Z.of_nat (length l) <= latest ->
  getd X (fst (fold_left (fun mk v => (set_value (fst mk) X (snd mk) latest v, snd mk + 1)) l
                         (m, k0 + Z.of_nat (length done)))) [] = rekey k0 (done ++ l).
Proof.
  induction l as [|v l IH]; intros done m Hm Hlen; simpl fold_left.
  - rewrite app_nil_r. exact Hm.
  - cbn [fst snd]. simpl length in Hlen.
    assert (Hstep : getd X (set_value m X (k0 + Z.of_nat (length done)) latest v) [] = rekey k0 (done ++ [v])).
    { unfold set_value. rewrite getd_oins_same. rewrite Hm, rekey_length.
      assert (Hdrop : Z.to_nat (Z.max 0 (Z.of_nat (length done) - latest + 1)) = O) by lia. rewrite Hdrop. simpl skipn.
      rewrite (oins_last lt1 lt1_irrefl lt1_asym _ _ _ (rekey_keys_lt k0 done)). rewrite rekey_app. reflexivity. }
    specialize (IH (done ++ [v]) _ Hstep). rewrite app_length in IH. simpl length in IH.
    replace (k0 + Z.of_nat (length done + 1)) with (k0 + Z.of_nat (length done) + 1) in IH by lia.
    rewrite IH by lia. rewrite <- app_assoc. reflexivity.
Qed.

Lemma imp_feed_values_same vs X bc latest vl :
  getd X vs [] = [] -> Z.of_nat (length vl) <= latest ->
  rev (map snd (getd X (imp_feed_values true vs X bc latest vl) [])) = vl.
Proof.
  intros Hm Hlen. unfold imp_feed_values.
  set (base := if bc + 1 <? Z.of_nat (length vl) then Z.of_nat (length vl) - 1 else bc).
  pose proof (fold_set_value X latest (base - (Z.of_nat (length vl) - 1)) (rev vl) [] vs) as H.
  simpl in H. rewrite Z.add_0_r in H. rewrite H; [|exact Hm|rewrite rev_length; lia].
  rewrite rekey_vals, rev_involutive. reflexivity.
Qed.

(** the whole import loop: every entry's feed reads its exported values, the others are untouched *)
Lemma imp_entries_values e g : forall s0 s',
  imp_entries true e g s0 = Some s' ->
  NoDup (map (fun en => o_name (fst (fst en))) g) ->
  (forall en, In en g -> getd (o_name (fst (fst en))) (vals s0) [] = []
                         /\ Z.of_nat (length (snd en)) <= o_latest (fst (fst en))) ->
  (forall en, In en g -> values_of s' (o_name (fst (fst en))) = snd en)
  /\ (forall Y, ~ In Y (map (fun en => o_name (fst (fst en))) g) -> get Y (vals s') = get Y (vals s0)).
Proof.
  induction g as [|[[f st] vl] g IH]; intros s0 s' Himp Hnd Hpre; cbn [imp_entries] in Himp.
  - inversion Himp; subst. split; [intros en []|reflexivity].
  - destruct (get (o_ctx f) e) as [[st' bc]|]; [|discriminate].
    simpl in Hnd. inversion Hnd as [|? ? Hn Hnd']; subst.
    destruct (Hpre _ (or_introl eq_refl)) as [Hf0 Hf1]. simpl in Hf0, Hf1.
    match type of Himp with imp_entries _ _ _ ?st1 = _ => set (s1 := st1) in * end.
    assert (Hpre1 : forall en, In en g -> getd (o_name (fst (fst en))) (vals s1) [] = []
                                          /\ Z.of_nat (length (snd en)) <= o_latest (fst (fst en))).
    { intros en Hin. destruct (Hpre en (or_intror Hin)) as [A B]. split; [|exact B].
      unfold s1, getd. cbn [vals]. rewrite imp_feed_values_other; [exact A|].
      intros Heq. apply Hn. rewrite <- Heq. apply (in_map (fun en0 => o_name (fst (fst en0)))). exact Hin. }
    destruct (IH s1 s' Himp Hnd' Hpre1) as [Hin1 Hout1]. split.
    + intros en [<-|Hin]; [|apply Hin1; exact Hin]. simpl.
      unfold values_of, getd. rewrite (Hout1 (o_name f) Hn). unfold s1. cbn [vals].
      apply (imp_feed_values_same (vals s0) (o_name f) bc (o_latest f) vl Hf0 Hf1).
    + intros Y HY. simpl in HY. rewrite Hout1 by tauto. unfold s1. cbn [vals].
      apply imp_feed_values_other. intros Heq. apply HY. left. symmetry. exact Heq.
Qed.

(** every feed's value history (newest first) reads the same after export -> import *)
Lemma oracle_values_preserved_lemma e s s' :
  invb s = true -> (forall f, In f (feeds s) -> has (o_ctx (snd f)) e = true) ->
  import true e (export e s) = Some s' ->
  feeds s' = feeds s /\ forall f, In f (feeds s) -> values_of s' (fst f) = values_of s (fst f).
Proof.
  intros Hinv Hctx Himp. split; [exact (oracle_feeds_preserved_lemma true e e s s' Hinv Hctx Himp)|].
  unfold import in Himp. destruct (validate (export e s)); [|discriminate]. simpl in Himp.
  pose proof Hinv as Hinv0. unfold invb in Hinv. split_andb Hinv.
  rename Hinv into Hfs, Hi6 into Hfk, Hi3 into Hvals.
  assert (Hnames : map (fun en => o_name (fst (fst en))) (export e s) = map fst (feeds s)).
  { rewrite <- (map_map (fun en => fst (fst en)) o_name). rewrite (export_feeds e s Hctx).
    rewrite map_map. apply map_ext_in. intros f Hf. rewrite forallb_forall in Hfk. specialize (Hfk f Hf).
    apply andb_true_iff in Hfk. lia. }
  destruct (imp_entries_values e (export e s) _ s' Himp) as [Hvs _].
  - rewrite Hnames. apply (sorted_keys_NoDup lt1 lt1_irrefl). apply (sortedb_sorted lt1 lt1_trans). exact Hfs.
  - intros en Hen. split; [reflexivity|]. unfold export in Hen. apply in_flat_map in Hen. destruct Hen as (f & Hf & Hen).
    destruct (get (o_ctx (snd f)) e) as [[st bc]|]; [|destruct Hen]. destruct Hen as [<-|[]]. simpl.
    unfold values_of. rewrite rev_length, map_length. unfold getd.
    rewrite forallb_forall in Hfk. pose proof (Hfk f Hf) as Hk. apply andb_true_iff in Hk. destruct Hk as [Hk Hok].
    destruct (get (fst f) (vals s)) as [inner|] eqn:Eg.
    + apply get_In in Eg. rewrite forallb_forall in Hvals. specialize (Hvals _ Eg). simpl in Hvals. split_andb Hvals.
      assert (Hgf : get (fst f) (feeds s) = Some (snd f)).
      { apply NoDup_get_some_local; [apply (sorted_keys_NoDup lt1 lt1_irrefl); apply (sortedb_sorted lt1 lt1_trans); exact Hfs|].
        destruct f; exact Hf. }
      match goal with Hm : context [get (fst f) (feeds s)] |- _ => rewrite Hgf in Hm; lia end.
    + simpl. unfold feed_ok in Hok. split_andb Hok. lia.
  - intros f Hf. pose proof (Hctx f Hf) as Hc. unfold has in Hc.
    destruct (get (o_ctx (snd f)) e) as [[st bc]|] eqn:Ec; [|discriminate].
    assert (Hen : In (snd f, st, values_of s (fst f)) (export e s)).
    { unfold export. apply in_flat_map. exists f. split; [exact Hf|]. rewrite Ec. left. reflexivity. }
    specialize (Hvs _ Hen). simpl in Hvs.
    rewrite forallb_forall in Hfk. specialize (Hfk f Hf). apply andb_true_iff in Hfk. destruct Hfk as [Hk _].
    assert (Hname : o_name (snd f) = fst f) by lia. rewrite Hname in Hvs. exact Hvs.
Qed.

Lemma flat_map_ext_in_local {A B} (f g : A -> list B) l : (forall a, In a l -> f a = g a) -> flat_map f l = flat_map g l.
Proof.
  induction l as [|a l IH]; intros Hfg; simpl; [reflexivity|].
  rewrite (Hfg a (or_introl eq_refl)), IH; [reflexivity|]. intros x Hx. apply Hfg. right. exact Hx.
Qed.

Lemma oracle_export_fixpoint_lemma e s :
  invb s = true -> (forall f, In f (feeds s) -> has (o_ctx (snd f)) e = true) ->
  exists s', import true e (export e s) = Some s' /\ export e s' = export e s.
Proof.
  intros Hinv Hctx. destruct (import true e (export e s)) as [s'|] eqn:E.
  - exists s'. split; [reflexivity|]. destruct (oracle_values_preserved_lemma e s s' Hinv Hctx E) as [Hf Hv].
    unfold export. rewrite Hf. apply flat_map_ext_in_local. intros f Hfin.
    destruct (get (o_ctx (snd f)) e) as [[st bc]|]; [|reflexivity]. rewrite (Hv f Hfin). reflexivity.
  - exfalso. exact (oracle_import_total_partial_reachable_lemma true e e s Hinv Hctx E).
Qed.

(** ** after PrepForZeroHeightGenesis: every running feed is moved to the other queue; the state is again a
    reachable-looking one, so the theorems apply to it (with the service contexts as they are after the service
    module's own preparation: all paused, which is what makes the pair importable) *)
Lemma oins_total_sorted1 {V} k (v : V) m : sortedb lt1 m = true -> sortedb lt1 (oins lt1 k v m) = true.
Proof.
  intros Hs. apply (sortedb_sorted lt1 lt1_trans) in Hs.
  assert (Hgen : forall m0, sorted lt1 m0 -> sorted lt1 (oins lt1 k v m0)).
  { clear. unfold sorted. induction m0 as [|[k' v'] m0 IH]; simpl; intros Hs; [constructor; constructor|].
    inversion Hs as [|? ? Hs' Hall]; subst. destruct (eq_dec k k') as [->|Hne]; [constructor; assumption|].
    destruct (lt1 k k') eqn:E.
    - constructor; [exact Hs|]. constructor; [exact E|]. rewrite Forall_forall in *. intros x Hx.
      specialize (Hall x Hx). unfold klt, lt1 in *. simpl in *. lia.
    - constructor; [apply IH; exact Hs'|]. rewrite Forall_forall in *. intros x Hx.
      apply In_oins_inv in Hx. destruct Hx as [->|Hx]; [unfold klt, lt1 in *; simpl in *; lia|apply Hall; exact Hx]. }
  specialize (Hgen m Hs). clear Hs.
  unfold sorted in Hgen. induction (oins lt1 k v m) as [|a l IH]; [reflexivity|].
  inversion Hgen as [|? ? Hs' Hall]; subst. destruct l as [|b l']; [reflexivity|].
  simpl. inversion Hall as [|? ? Hab _]; subst. unfold klt in Hab. rewrite Hab. simpl. apply IH. exact Hs'.
Qed.

Lemma get_In_has {V} (k : Z) (v : V) m : In (k, v) m -> match get k m with Some _ => true | None => false end = true.
Proof.
  induction m as [|[k0 v0] m IH]; simpl; intros Hin; [contradiction|].
  destruct (eq_dec k k0); [reflexivity|]. destruct Hin as [Heq|Hin]; [congruence|apply IH; exact Hin].
Qed.

Lemma has_fold_oins_unit (l : list (Z * unit)) : forall acc k,
  has k (fold_left (fun m x => oins lt1 (fst x) tt m) l acc) = has k acc || has k l.
Proof.
  induction l as [|[k0 []] l IH]; intros acc k; cbn [fold_left fst]; [unfold has at 3; simpl; rewrite orb_false_r; reflexivity|].
  rewrite IH. unfold has. cbn [get]. destruct (eq_dec k k0) as [->|Hne].
  - rewrite get_oins_same. rewrite orb_true_r. reflexivity.
  - rewrite get_oins_other by exact Hne. reflexivity.
Qed.

Lemma sortedb_fold_oins_unit (l : list (Z * unit)) : forall acc,
  sortedb lt1 acc = true -> sortedb lt1 (fold_left (fun m x => oins lt1 (fst x) tt m) l acc) = true.
Proof. induction l as [|x l IH]; intros acc Hs; simpl; [exact Hs|]. apply IH. apply oins_total_sorted1. exact Hs. Qed.

Lemma oracle_prep_inv_lemma s : invb s = true -> invb (prep s) = true.
Proof.
  intros Hinv. unfold invb in *. split_andb Hinv.
  rename Hinv into H1, Hi6 into H2, Hi5 into H3, Hi4 into H4, Hi3 into H5, Hi2 into H6, Hi1 into H7, Hi0 into H8, Hi into H9.
  unfold prep. cbn [feeds ctx_idx vals running paused].
  rewrite H1, H2, H3, H4, H5. cbn [andb sortedb].
  rewrite (sortedb_fold_oins_unit (running s) (paused s) H7). cbn [andb].
  apply andb_true_iff. split.
  - rewrite forallb_forall in *. intros f Hf. specialize (H8 f Hf). unfold has at 1. cbn [get].
    rewrite has_fold_oins_unit. destruct (has (fst f) (running s)), (has (fst f) (paused s)); simpl in *; congruence.
  - rewrite forallb_forall in *. intros x Hx. cbn [app] in Hx.
    assert (Hk : has (fst x) (fold_left (fun m y => oins lt1 (fst y) tt m) (running s) (paused s)) = true).
    { unfold has. destruct x as [k u]. cbn [fst]. apply (get_In_has k u). exact Hx. }
    rewrite has_fold_oins_unit in Hk. apply orb_true_iff in Hk.
    destruct Hk as [Hk|Hk]; unfold has in Hk.
    + destruct (get (fst x) (paused s)) as [u|] eqn:E; [|discriminate]. apply get_In in E.
      apply (H9 (fst x, u)). apply in_or_app. right. exact E.
    + destruct (get (fst x) (running s)) as [u|] eqn:E; [|discriminate]. apply get_In in E.
      apply (H9 (fst x, u)). apply in_or_app. left. exact E.
Qed.
