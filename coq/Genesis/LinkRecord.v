(** * Record: the C12 invariant derived from the message-level model (Record/Model.v).

    [abs] maps a state of the message-level model (store in insertion order) to the genesis-level state
    (store in the byte order [ord] of the ids).  Every state reached by a history of the model satisfies
    the genesis-level invariant [invb], provided the order [ord] separates the ids in the store (the hash
    is collision-free on them).  The C12 theorems are then restated over histories. *)
From Irismod Require Import Genesis.Sort.
From Irismod Require Record.Model Record.Proofs Genesis.Record Genesis.RecordProofs.

Module M := Irismod.Record.Model.
Module MP := Irismod.Record.Proofs.
Module G := Irismod.Genesis.Record.
Module GP := Irismod.Genesis.RecordProofs.

Section Ord.
  Variable ord : G.rid -> Z.
  Notation ilt := (G.idlt ord).

  Lemma ilt_irrefl k : ilt k k = false. Proof. unfold G.idlt. lia. Qed.
  Lemma ilt_asym a b : ilt a b = true -> ilt b a = false. Proof. unfold G.idlt. lia. Qed.
  Lemma ilt_trans a b c : ilt a b = true -> ilt b c = true -> ilt a c = true. Proof. unfold G.idlt. lia. Qed.

  Definition abs (s : M.state) : G.state := G.mkState (osort ilt (M.store s)) (M.counter s).

  (** [ord] separates the ids [ks] *)
  Definition separates (ks : list G.rid) : Prop := forall a b, In a ks -> In b ks -> a <> b -> ord a <> ord b.

  Lemma separates_total ks : separates ks -> total_on ilt ks.
  Proof. intros Hsep a b Ha Hb Hne Hlt. specialize (Hsep a b Ha Hb Hne). unfold G.idlt in *. lia. Qed.
End Ord.

(** ** the invariant of the message-level model that the link needs *)
Definition LInv (s : M.state) : Prop :=
  NoDup (map fst (M.store s))
  /\ forall id r, In (id, r) (M.store s) -> r = fst id /\ G.rec_valid r = true.

Lemma In_set_inv {K V} `{EqDec K} (k : K) (v : V) m e : In e (set k v m) -> e = (k, v) \/ In e m.
Proof.
  induction m as [|[k0 v0] m IH]; simpl; intros Hin.
  - destruct Hin as [<-|[]]. left. reflexivity.
  - destruct (eq_dec k k0) as [->|Hne]; simpl in Hin.
    + destruct Hin as [<-|Hin]; [left; reflexivity|right; right; exact Hin].
    + destruct Hin as [<-|Hin]; [right; left; reflexivity|]. destruct (IH Hin); [left|right; right]; assumption.
Qed.

Lemma LInv_init : LInv M.init.
Proof. split; [constructor|intros ? ? []]. Qed.

Lemma msg_ok_valid txh creator cs : M.msg_ok (creator, cs) = true -> G.rec_valid (txh, cs, creator) = true.
Proof. unfold M.msg_ok, G.rec_valid, G.rec_contents, G.rec_creator. simpl. destruct cs; [discriminate|]. intros H. exact H. Qed.

Lemma LInv_add s r : LInv s -> G.rec_valid r = true -> LInv (fst (M.add_record s r)).
Proof.
  intros [Hnd Hall] Hv. unfold M.add_record. simpl. split.
  - apply (keys_set_NoDup (r, M.counter s) r (M.store s)). exact Hnd.
  - intros id r' Hin. apply In_set_inv in Hin. destruct Hin as [Heq|Hin]; [inversion Heq; subst; simpl; auto|apply Hall; exact Hin].
Qed.

Lemma LInv_msgs ms : forall s txh s' cs, M.exec_msgs s txh ms = Some (s', cs) -> LInv s -> LInv s'.
Proof.
  induction ms as [|m ms IH]; simpl; intros s txh s' cs H Hs.
  - inversion H; subst. exact Hs.
  - destruct (M.exec_msg s txh m) as [[s1 [id1 r1]]|] eqn:E1; [|discriminate].
    destruct (M.exec_msgs s1 txh ms) as [[s2 cs2]|] eqn:E2; [|discriminate].
    inversion H; subst; clear H. apply MP.exec_msg_spec in E1. destruct E1 as (Hok & -> & -> & _).
    apply (IH _ _ _ _ E2). apply LInv_add; [exact Hs|]. destruct m as [creator cs0]. apply msg_ok_valid. exact Hok.
Qed.

Lemma LInv_step s st : LInv s -> LInv (fst (M.exec_step s st)).
Proof.
  intros Hs. destruct st as [txh ms|]; simpl; [|exact Hs].
  destruct (M.exec_msgs s txh ms) as [[s' cs]|] eqn:E; simpl; [exact (LInv_msgs _ _ _ _ _ E Hs)|exact Hs].
Qed.

Lemma LInv_run steps : forall s, LInv s -> LInv (M.run s steps).
Proof. induction steps as [|st rest IH]; simpl; intros s Hs; [exact Hs|]. apply IH. apply LInv_step. exact Hs. Qed.

(** ** every state a history of the model reaches satisfies the genesis-level invariant *)
Theorem reachable_record ord (steps : list M.step) :
  separates ord (map fst (M.store (M.run M.init steps))) ->
  G.invb ord (abs ord (M.run M.init steps)) = true.
Proof.
  intros Hsep. destruct (LInv_run steps M.init LInv_init) as [Hnd Hall].
  set (s := M.run M.init steps) in *. unfold G.invb, abs. simpl. apply andb_true_iff. split.
  - apply (sorted_sortedb (G.idlt ord)).
    apply osort_sorted; [apply ilt_trans|]. apply separates_total. exact Hsep.
  - rewrite forallb_forall. intros [id r] Hin.
    apply (In_osort (G.idlt ord) (M.store s) (id, r) Hnd) in Hin. destruct (Hall id r Hin) as [Heq Hv].
    unfold G.entry_ok. simpl. rewrite Hv, andb_true_r. apply Prelude.eqb_true_iff. symmetry. exact Heq.
Qed.

(** the abstraction reads like the model: the gRPC query by id *)
Theorem abs_query ord steps id :
  G.query (abs ord (M.run M.init steps)) id = M.query (M.run M.init steps) id.
Proof.
  destruct (LInv_run steps M.init LInv_init) as [Hnd _]. unfold G.query, M.query, abs. simpl.
  apply (get_osort (G.idlt ord)). exact Hnd.
Qed.

(** ** C12 over histories (no free-standing invariant) *)
Theorem record_history_export_validates ord steps :
  separates ord (map fst (M.store (M.run M.init steps))) ->
  G.validate (G.export (abs ord (M.run M.init steps))) = true.
Proof. intros Hsep. apply (GP.record_export_validates_lemma ord). apply reachable_record. exact Hsep. Qed.

Theorem record_history_import_total ord steps :
  separates ord (map fst (M.store (M.run M.init steps))) ->
  G.import ord (G.export (abs ord (M.run M.init steps))) <> None.
Proof. intros Hsep. apply GP.record_import_total_lemma. apply record_history_export_validates. exact Hsep. Qed.

(** every record created by the history is readable after export -> import, under the id of the same
    record and some counter (the partial form of queries_preserved that holds for this module) *)
Theorem record_history_queries_partial ord steps s' :
  G.import ord (G.export (abs ord (M.run M.init steps))) = Some s' ->
  forall id r, M.query (M.run M.init steps) id = Some r -> exists c, G.query s' (r, c) = Some r.
Proof.
  intros Himp id r Hq. apply (GP.record_queries_preserved_partial_lemma ord _ _ Himp id r).
  rewrite abs_query. exact Hq.
Qed.

(** the separation hypothesis is satisfiable: a history with three records and an order table *)
Definition ex_steps : list M.step := [M.Tx 7 [(0, [(1, 1, 0, 0)]); (1, [(1, 2, 0, 0)])]; M.Block; M.Tx 8 [(0, [(1, 1, 0, 0)])]].
Definition ex_ord : G.rid -> Z :=
  G.ord_of [(((7, [(1, 1, 0, 0)], 0), 0), 5); (((7, [(1, 2, 0, 0)], 1), 1), 2); (((8, [(1, 1, 0, 0)], 0), 2), 9)].
Example separates_example :
  map ex_ord (map fst (M.store (M.run M.init ex_steps))) = [5; 2; 9]
  /\ G.invb ex_ord (abs ex_ord (M.run M.init ex_steps)) = true.
Proof. split; vm_compute; reflexivity. Qed.
