(** * Ordered key-value stores (the KV store as the genesis code sees it).

    A module store is a list of (key, value) pairs kept in ascending key order: prefix
    iteration in Go (IAVL / cache-kv iterators) visits keys in ascending byte order, and
    [ExportGenesis] functions emit objects in exactly that order.  Keys are abstract; the
    byte order is a parameter [ltb] (for identifiers that are hashes the harness interns the
    identifiers with numbers that respect the byte order, so [ltb] is the order on [Z] or
    the lexicographic order on tuples of [Z]).

    The central lemma is [oof_list_sorted]: re-inserting the entries of a sorted, duplicate
    free list one by one into an empty store gives back the same list.  This is what makes
    "export, then import by replaying setters, then export again" a fixpoint. *)
From Irismod Require Export Base.Prelude.
From Coq Require Import Sorting.Sorted Permutation.

Section OStore.
  Context {K V : Type} `{EqDec K}.
  Variable ltb : K -> K -> bool.
  Hypothesis ltb_irrefl : forall k, ltb k k = false.
  Hypothesis ltb_asym : forall a b, ltb a b = true -> ltb b a = false.

  (** store.Set(key, value) *)
  Fixpoint oins (k : K) (v : V) (m : list (K * V)) : list (K * V) :=
    match m with
    | [] => [(k, v)]
    | (k', v') :: m' =>
        if eq_dec k k' then (k, v) :: m'
        else if ltb k k' then (k, v) :: m
        else (k', v') :: oins k v m'
    end.

  Definition oof_list (l : list (K * V)) : list (K * V) :=
    fold_left (fun m kv => oins (fst kv) (snd kv) m) l [].

  Definition klt (a b : K * V) : Prop := ltb (fst a) (fst b) = true.
  Definition sorted (m : list (K * V)) : Prop := StronglySorted klt m.

  Lemma oins_last k v m :
    Forall (fun a => ltb (fst a) k = true) m -> oins k v m = m ++ [(k, v)].
  Proof.
    induction m as [|[k' v'] m IH]; simpl; intros Hall; [reflexivity|].
    inversion Hall as [|? ? Hk Hall']; subst. simpl in Hk.
    destruct (eq_dec k k') as [->|Hne].
    - rewrite ltb_irrefl in Hk. discriminate.
    - rewrite (ltb_asym _ _ Hk). rewrite IH by exact Hall'. reflexivity.
  Qed.

  Lemma sorted_app_inv a x b :
    sorted (a ++ x :: b) -> Forall (fun y => klt y x) a.
  Proof.
    induction a as [|y a IH]; simpl; intros Hs; [constructor|].
    inversion Hs as [|? ? Hs' Hall]; subst.
    constructor.
    - rewrite Forall_forall in Hall. apply Hall. apply in_or_app. right. left. reflexivity.
    - apply IH. exact Hs'.
  Qed.

  Lemma fold_oins_sorted l : forall acc,
    sorted (acc ++ l) ->
    fold_left (fun m kv => oins (fst kv) (snd kv) m) l acc = acc ++ l.
  Proof.
    induction l as [|[k v] l IH]; intros acc Hs; simpl.
    - rewrite app_nil_r. reflexivity.
    - rewrite oins_last.
      + rewrite IH; rewrite <- app_assoc; simpl; [reflexivity|exact Hs].
      + apply sorted_app_inv in Hs. exact Hs.
  Qed.

  Theorem oof_list_sorted l : sorted l -> oof_list l = l.
  Proof. intros Hs. unfold oof_list. rewrite fold_oins_sorted; [reflexivity|exact Hs]. Qed.

  Lemma get_oins_same k v m : get k (oins k v m) = Some v.
  Proof.
    induction m as [|[k' v'] m IH]; simpl.
    - destruct (eq_dec k k); congruence.
    - destruct (eq_dec k k') as [->|Hne]; simpl.
      + destruct (eq_dec k' k'); congruence.
      + destruct (ltb k k'); simpl.
        * destruct (eq_dec k k); congruence.
        * destruct (eq_dec k k'); [contradiction|exact IH].
  Qed.

  Lemma get_oins_other k k0 v m : k0 <> k -> get k0 (oins k v m) = get k0 m.
  Proof.
    intros Hne. induction m as [|[k' v'] m IH]; simpl.
    - destruct (eq_dec k0 k); [contradiction|reflexivity].
    - destruct (eq_dec k k') as [->|Hk]; simpl.
      + destruct (eq_dec k0 k'); [contradiction|reflexivity].
      + destruct (ltb k k'); simpl.
        * destruct (eq_dec k0 k); [contradiction|reflexivity].
        * destruct (eq_dec k0 k'); [reflexivity|exact IH].
  Qed.

  (** executable check of sortedness (adjacent keys ascending) *)
  Fixpoint sortedb (m : list (K * V)) : bool :=
    match m with
    | a :: (b :: _) as t => ltb (fst a) (fst b) && sortedb t
    | _ => true
    end.

  Hypothesis ltb_trans : forall a b c, ltb a b = true -> ltb b c = true -> ltb a c = true.

  Lemma sortedb_sorted m : sortedb m = true -> sorted m.
  Proof.
    induction m as [|a m IH]; intros Hb; [constructor|].
    destruct m as [|b m'].
    - constructor; constructor.
    - simpl in Hb. apply andb_true_iff in Hb. destruct Hb as [Hab Ht].
      specialize (IH Ht). constructor; [exact IH|].
      inversion IH as [|? ? Hs' Hall]; subst.
      constructor; [exact Hab|].
      rewrite Forall_forall in *. intros x Hx. unfold klt in *.
      eapply ltb_trans; [exact Hab|]. apply Hall. exact Hx.
  Qed.

  Lemma sorted_keys_NoDup m : sorted m -> NoDup (map fst m).
  Proof.
    induction m as [|a m IH]; intros Hs; simpl; [constructor|].
    inversion Hs as [|? ? Hs' Hall]; subst.
    constructor; [|apply IH; exact Hs'].
    intros Hin. apply in_map_iff in Hin. destruct Hin as (b & Hb & Hinb).
    rewrite Forall_forall in Hall. specialize (Hall b Hinb). unfold klt in Hall.
    rewrite <- Hb in Hall. rewrite ltb_irrefl in Hall. discriminate.
  Qed.
End OStore.

(** ** Re-inserting the VALUES of a sorted store under the keys derived from them *)
Section Keyed.
  Context {K V : Type} `{EqDec K}.
  Variable ltb : K -> K -> bool.
  Hypothesis ltb_irrefl : forall k, ltb k k = false.
  Hypothesis ltb_asym : forall a b, ltb a b = true -> ltb b a = false.
  Variable key : V -> K.

  (** the import loop "for each exported object: store.Set(key(object), object)" *)
  Definition okeyed (vs : list V) : list (K * V) :=
    fold_left (fun m v => oins ltb (key v) v m) vs [].

  Lemma fold_left_map_gen {A B C} (f : A -> B -> A) (g : C -> B) l : forall a,
    fold_left f (map g l) a = fold_left (fun a x => f a (g x)) l a.
  Proof. induction l as [|x l IH]; intros a; simpl; [reflexivity|apply IH]. Qed.

  Theorem okeyed_sorted (l : list (K * V)) :
    sorted ltb l -> Forall (fun e => key (snd e) = fst e) l -> okeyed (map snd l) = l.
  Proof.
    intros Hs Hk. unfold okeyed. rewrite fold_left_map_gen.
    rewrite <- (oof_list_sorted ltb ltb_irrefl ltb_asym l Hs) at 2. unfold oof_list.
    assert (Hgen : forall acc,
      fold_left (fun a (x : K * V) => oins ltb (key (snd x)) (snd x) a) l acc
      = fold_left (fun m kv => oins ltb (fst kv) (snd kv) m) l acc).
    { clear Hs. induction l as [|e l IH]; intros acc; simpl; [reflexivity|].
      inversion Hk as [|? ? He Hk']; subst. rewrite He. apply IH. exact Hk'. }
    apply Hgen.
  Qed.

  Lemma In_oins_same k v (m : list (K * V)) : In (k, v) (oins ltb k v m).
  Proof.
    induction m as [|[k' v'] m IH]; simpl; [left; reflexivity|].
    destruct (eq_dec k k'); [left; reflexivity|].
    destruct (ltb k k'); [left; reflexivity|right; exact IH].
  Qed.

  Lemma In_oins_other (e : K * V) k v m : In e m -> fst e <> k -> In e (oins ltb k v m).
  Proof.
    induction m as [|[k' v'] m IH]; simpl; intros Hin Hne; [contradiction|].
    destruct (eq_dec k k') as [->|Hk].
    - destruct Hin as [<-|Hin]; [simpl in Hne; congruence|right; exact Hin].
    - destruct (ltb k k'); [right; exact Hin|].
      destruct Hin as [<-|Hin]; [left; reflexivity|right; apply IH; assumption].
  Qed.

  Lemma In_oins_inv (e : K * V) k v m : In e (oins ltb k v m) -> e = (k, v) \/ In e m.
  Proof.
    induction m as [|[k' v'] m IH]; simpl; intros Hin.
    - destruct Hin as [<-|[]]. left; reflexivity.
    - destruct (eq_dec k k') as [->|Hk].
      + destruct Hin as [<-|Hin]; [left; reflexivity|right; right; exact Hin].
      + destruct (ltb k k').
        * destruct Hin as [<-|Hin]; [left; reflexivity|right; exact Hin].
        * destruct Hin as [<-|Hin]; [right; left; reflexivity|].
          destruct (IH Hin) as [->|Hm]; [left; reflexivity|right; right; exact Hm].
  Qed.
End Keyed.

(** [sortedb] / [forallb] facts in the shape the per-module proofs use *)
Lemma forallb_Forall {A} (p : A -> bool) l : forallb p l = true -> Forall (fun x => p x = true) l.
Proof. intros Hf. apply Forall_forall. apply forallb_forall. exact Hf. Qed.

Lemma has_false_notin {K V} `{EqDec K} (k : K) (m : list (K * V)) : ~ In k (map fst m) -> has k m = false.
Proof.
  unfold has. induction m as [|[k' v'] m IH]; simpl; intros Hn; [reflexivity|].
  destruct (eq_dec k k') as [->|Hne]; [exfalso; apply Hn; left; reflexivity|].
  apply IH. intros Hin. apply Hn. right. exact Hin.
Qed.

Lemma keys_oins_inv {K V} `{EqDec K} (ltb : K -> K -> bool) k' k (v : V) m :
  In k' (map fst (oins ltb k v m)) -> k' = k \/ In k' (map fst m).
Proof.
  intros Hin. apply in_map_iff in Hin. destruct Hin as (e & <- & He).
  apply In_oins_inv in He. destruct He as [->|He]; [left; reflexivity|].
  right. apply in_map_iff. exists e. split; [reflexivity|exact He].
Qed.

(** ** Key orders used by the models *)
Definition lt1 (a b : Z) : bool := a <? b.
Definition lt2 (a b : Z * Z) : bool :=
  let '(a1, a2) := a in let '(b1, b2) := b in (a1 <? b1) || ((a1 =? b1) && (a2 <? b2)).
Definition lt3 (a b : Z * Z * Z) : bool :=
  let '(a1, a2, a3) := a in let '(b1, b2, b3) := b in
  (a1 <? b1) || ((a1 =? b1) && ((a2 <? b2) || ((a2 =? b2) && (a3 <? b3)))).

Lemma lt1_irrefl k : lt1 k k = false. Proof. unfold lt1. lia. Qed.
Lemma lt1_asym a b : lt1 a b = true -> lt1 b a = false. Proof. unfold lt1. lia. Qed.
Lemma lt1_trans a b c : lt1 a b = true -> lt1 b c = true -> lt1 a c = true. Proof. unfold lt1. lia. Qed.

Lemma lt2_irrefl k : lt2 k k = false. Proof. destruct k. unfold lt2. lia. Qed.
Lemma lt2_asym a b : lt2 a b = true -> lt2 b a = false.
Proof. destruct a, b. unfold lt2. lia. Qed.
Lemma lt2_trans a b c : lt2 a b = true -> lt2 b c = true -> lt2 a c = true.
Proof. destruct a, b, c. unfold lt2. lia. Qed.

Lemma lt3_irrefl k : lt3 k k = false. Proof. destruct k as [[? ?] ?]. unfold lt3. lia. Qed.
Lemma lt3_asym a b : lt3 a b = true -> lt3 b a = false.
Proof. destruct a as [[? ?] ?], b as [[? ?] ?]. unfold lt3. lia. Qed.
Lemma lt3_trans a b c : lt3 a b = true -> lt3 b c = true -> lt3 a c = true.
Proof. destruct a as [[? ?] ?], b as [[? ?] ?], c as [[? ?] ?]. unfold lt3. lia. Qed.

Lemma get_none_all_lt {V} k (m : list (Z * V)) : Forall (fun a => lt1 (fst a) k = true) m -> get k m = None.
Proof.
  induction m as [|[k' v'] m IH]; simpl; intros Hall; [reflexivity|].
  inversion Hall as [|? ? Hk Hall']; subst. simpl in Hk. unfold lt1 in Hk.
  destruct (eq_dec k k') as [->|Hne]; [lia|]. apply IH. exact Hall'.
Qed.

(** ** Small helpers shared by the per-module genesis models *)

(** first failing clause of a list of (code, holds) pairs, or 0 *)
Fixpoint first_code (l : list (Z * bool)) : Z :=
  match l with
  | [] => 0
  | (c, b) :: l' => if b then first_code l' else c
  end.

(** all failing clauses of a list of (code, holds) pairs *)
Fixpoint all_codes (l : list (Z * bool)) : list Z :=
  match l with
  | [] => []
  | (c, b) :: l' => if b then all_codes l' else c :: all_codes l'
  end.

(** From the failing clauses of all runs (run index, code), report the first one that is not in the
    list of clause codes recorded as known findings of the module; if there is none, the first known
    one.  (A known finding on one export path must not hide a new violation on the other.) *)
Definition pick_violation (known : list Z) (fails : list (Z * Z)) : Z * Z :=
  match filter (fun rc => negb (existsb (Z.eqb (snd rc)) known)) fails with
  | x :: _ => x
  | [] => match fails with x :: _ => x | [] => (-1, 0) end
  end.

(** check.py looks at the divergence index only when no property clause fails; a failing clause that is a
    RECORDED finding of the module must therefore not hide a divergence of the same case: report the
    divergence alone in that case (a new violation is still reported together with the divergence index) *)
Definition prefer_divergence (known : list Z) (r : Z * Z * Z) : Z * Z * Z :=
  let '(corr, prop, code) := r in
  if (0 <=? corr) && existsb (Z.eqb code) known then (corr, -1, 0) else r.

(** all elements pairwise distinct *)
Fixpoint nodupb {A} `{EqDec A} (l : list A) : bool :=
  match l with
  | [] => true
  | x :: l' => negb (existsb (fun y => eqb x y) l') && nodupb l'
  end.

Lemma nodupb_NoDup {A} `{EqDec A} (l : list A) : nodupb l = true -> NoDup l.
Proof.
  induction l as [|x l IH]; simpl; intros Hb; [constructor|].
  apply andb_true_iff in Hb. destruct Hb as [Hx Hl].
  constructor; [|apply IH; exact Hl].
  intros Hin. apply negb_true_iff in Hx.
  assert (existsb (fun y => eqb x y) l = true) as He.
  { apply existsb_exists. exists x. split; [exact Hin|apply eqb_refl]. }
  congruence.
Qed.

Lemma NoDup_nodupb {A} `{EqDec A} (l : list A) : NoDup l -> nodupb l = true.
Proof.
  induction l as [|x l IH]; simpl; intros Hnd; [reflexivity|].
  inversion Hnd as [|? ? Hx Hl]; subst. rewrite (IH Hl), andb_true_r.
  apply negb_true_iff. destruct (existsb (fun y => eqb x y) l) eqn:E; [|reflexivity].
  apply existsb_exists in E. destruct E as (y & Hy & Hxy). assert (x = y) as Heq by (apply Prelude.eqb_true_iff; exact Hxy). rewrite <- Heq in Hy. contradiction.
Qed.

(** keys of a store checked sorted are pairwise distinct (boolean form) *)
Lemma sortedb_keys_nodupb {V} (m : list (Z * V)) : sortedb lt1 m = true -> nodupb (map fst m) = true.
Proof.
  intros Hs. apply NoDup_nodupb. apply (sorted_keys_NoDup lt1 lt1_irrefl).
  apply (sortedb_sorted lt1 lt1_trans). exact Hs.
Qed.

Lemma key_ok_map {V} (key : V -> Z) (m : list (Z * V)) :
  forallb (fun e => fst e =? key (snd e)) m = true -> map key (map snd m) = map fst m.
Proof.
  induction m as [|e m IH]; simpl; intros Hk; [reflexivity|].
  apply andb_true_iff in Hk. destruct Hk as [He Hm]. rewrite (IH Hm). f_equal. lia.
Qed.

Lemma key_ok_Forall {V} (key : V -> Z) (m : list (Z * V)) :
  forallb (fun e => fst e =? key (snd e)) m = true -> Forall (fun e => key (snd e) = fst e) m.
Proof.
  intros Hk. apply Forall_forall. intros e He. rewrite forallb_forall in Hk. specialize (Hk e He). lia.
Qed.

(** a store checked sorted whose keys are derived from the values is rebuilt by re-inserting the values *)
Lemma okeyed_roundtrip1 {V} (key : V -> Z) (m : list (Z * V)) :
  sortedb lt1 m = true -> forallb (fun e => fst e =? key (snd e)) m = true ->
  okeyed lt1 key (map snd m) = m.
Proof.
  intros Hs Hk. apply (okeyed_sorted lt1 lt1_irrefl lt1_asym).
  - apply (sortedb_sorted lt1 lt1_trans). exact Hs.
  - apply key_ok_Forall. exact Hk.
Qed.

(** equality of two lists up to order, decided by mutual removal *)
Fixpoint remove1 {A} `{EqDec A} (x : A) (l : list A) : option (list A) :=
  match l with
  | [] => None
  | y :: l' => if eq_dec x y then Some l'
               else match remove1 x l' with Some r => Some (y :: r) | None => None end
  end.

Fixpoint permb {A} `{EqDec A} (a b : list A) : bool :=
  match a with
  | [] => match b with [] => true | _ => false end
  | x :: a' => match remove1 x b with Some b' => permb a' b' | None => false end
  end.

Lemma remove1_perm {A} `{EqDec A} (x : A) l r : remove1 x l = Some r -> Permutation l (x :: r).
Proof.
  revert r. induction l as [|y l IH]; simpl; intros r Hr; [discriminate|].
  destruct (eq_dec x y) as [->|Hne].
  - inversion Hr; subst. apply Permutation_refl.
  - destruct (remove1 x l) as [r'|] eqn:E; [|discriminate].
    inversion Hr; subst. eapply Permutation_trans; [apply perm_skip; apply IH; reflexivity|].
    apply perm_swap.
Qed.

Lemma permb_perm {A} `{EqDec A} (a b : list A) : permb a b = true -> Permutation a b.
Proof.
  revert b. induction a as [|x a IH]; simpl; intros b Hb.
  - destruct b; [constructor|discriminate].
  - destruct (remove1 x b) as [b'|] eqn:E; [|discriminate].
    apply remove1_perm in E. eapply Permutation_trans; [apply perm_skip; apply IH; exact Hb|].
    apply Permutation_sym. exact E.
Qed.
