(** * Service: export / validate / import / prepare-for-zero-height
      (modules/service/genesis.go, types/genesis.go, keeper/binding.go, keeper/invocation.go, keeper/fees.go)

    Modelled at the level of the genesis STRUCTURE: which collections are exported and in which
    order, the request-context state conditions of [ValidateGenesis], how [InitGenesis] rebuilds the
    stores and the secondary indexes of the bindings.  The field-level checks of parameters,
    definitions, bindings and request contexts are the module's own [Validate] methods, carried as
    flags (not modelled); the remaining content of an object is interned as one blob.  Service names
    are numbered in byte order, providers / owners by the byte order of their addresses, context
    ids by the byte order of the ids.  Requests, responses, the request queues, earned fees and
    request volumes are NOT exported (documented as dropped). *)
From Irismod Require Export Genesis.Store.

Record binding := mkBinding {
  b_name : Z; b_provider : Z; b_owner : Z;        (* -1: not an address *)
  b_blob : Z; b_ok : bool;                        (* ServiceBinding.Validate() = nil *)
  b_pricing : Z                                   (* the pricing as ParsePricing reads it, interned; -1: does not parse *)
}.
Record rctx := mkCtx {
  x_blob : Z; x_ok : bool;                        (* RequestContext.Validate() = nil *)
  x_state : Z;                                    (* 0 RUNNING, 1 PAUSED, 2 COMPLETED *)
  x_bstate : Z;                                   (* 0 BATCH_RUNNING, 1 BATCH_COMPLETED *)
  x_counter : Z; x_req_count : Z; x_resp_count : Z
}.
#[export] Instance EqDec_binding : EqDec binding.
Proof. intros x y. decide equality; apply eq_dec. Defined.
#[export] Instance EqDec_rctx : EqDec rctx.
Proof. intros x y. decide equality; apply eq_dec. Defined.

Definition def := (Z * bool)%type.                (* blob, ServiceDefinition.Validate() = nil *)
Record state := mkState {
  prm : Z * bool;                                 (* parameters: blob, Params.Validate() = nil *)
  defs : list (Z * def);                          (* name -> definition *)
  binds : list ((Z * Z) * binding);               (* name, provider -> binding *)
  wdraw : list (Z * Z);                           (* owner -> withdraw address *)
  ctxs : list (Z * rctx)                          (* context id -> request context *)
}.
Record genesis := mkGenesis {
  g_prm : Z * bool; g_defs : list (Z * def); g_binds : list binding;
  g_wdraw : list (Z * Z);                         (* the JSON map, keys ascending; -1: not an address *)
  g_ctxs : list (Z * rctx)                        (* the JSON map, keys ascending; -1: a key that is not hex *)
}.
#[export] Instance EqDec_state : EqDec state.
Proof. intros x y. decide equality; apply eq_dec. Defined.
#[export] Instance EqDec_genesis : EqDec genesis.
Proof. intros x y. decide equality; apply eq_dec. Defined.

(** ExportGenesis *)
Definition export (s : state) : genesis :=
  mkGenesis (prm s) (defs s) (map snd (binds s)) (wdraw s) (ctxs s).

(** types.ValidateGenesis *)
Definition ctx_ok (c : Z * rctx) : bool :=
  (0 <=? fst c) && x_ok (snd c) && (x_state (snd c) =? 1) && (x_bstate (snd c) =? 1).
Definition validate (g : genesis) : bool :=
  snd (g_prm g) && forallb (fun d => snd (snd d)) (g_defs g) && forallb b_ok (g_binds g)
  && forallb (fun w => (0 <=? fst w) && (0 <=? snd w)) (g_wdraw g)
  && forallb ctx_ok (g_ctxs g).

(** InitGenesis: SetParams, SetServiceDefinition, SetServiceBindingForGenesis (panics when provider,
    owner or pricing do not parse), SetWithdrawAddress, SetRequestContext *)
Fixpoint imp_binds (l : list binding) (m : list ((Z * Z) * binding)) : option (list ((Z * Z) * binding)) :=
  match l with
  | [] => Some m
  | b :: l' =>
      if (b_provider b <? 0) || (b_owner b <? 0) || (b_pricing b <? 0) then None
      else imp_binds l' (oins lt2 (b_name b, b_provider b) b m)
  end.
Definition import (g : genesis) : option state :=
  if negb (validate g) then None
  else if negb (snd (g_prm g)) then None
  else match imp_binds (g_binds g) [] with
       | None => None
       | Some bs =>
           Some (mkState (g_prm g)
                         (fold_left (fun m d => oins lt1 (fst d) (snd d) m) (g_defs g) [])
                         bs
                         (fold_left (fun m w => oins lt1 (fst w) (snd w) m) (g_wdraw g) [])
                         (fold_left (fun m c => oins lt1 (fst c) (snd c) m) (g_ctxs g) []))
       end.

(** PrepForZeroHeightGenesis: (refunds move coins in the bank module;) every request context becomes
    PAUSED with a completed, empty batch *)
Definition prep_ctx (c : rctx) : rctx := mkCtx (x_blob c) (x_ok c) 1 1 (x_counter c) 0 0.
Definition prep (s : state) : state :=
  mkState (prm s) (defs s) (binds s) (wdraw s) (map (fun c => (fst c, prep_ctx (snd c))) (ctxs s)).

(** Queries: Definition, Binding / Bindings of a service, Bindings of an owner (owner index), the owner of
    a provider, the pricing of a binding, WithdrawAddress, RequestContext, Params.  The secondary
    indexes are views of the bindings. *)
Definition owner_bindings_view (s : state) : list ((Z * Z * Z) * unit) :=
  fold_left (fun m b => oins lt3 (b_owner (snd b), b_name (snd b), b_provider (snd b)) tt m) (binds s) [].
Definition owners_view (s : state) : list (Z * Z) :=
  fold_left (fun m b => oins lt1 (b_provider (snd b)) (b_owner (snd b)) m) (binds s) [].
Definition pricing_view (s : state) : list ((Z * Z) * Z) := map (fun b => (fst b, b_pricing (snd b))) (binds s).
Definition views := (list ((Z * Z * Z) * unit) * list (Z * Z) * list ((Z * Z) * Z))%type.
Definition views_of (s : state) : views := (owner_bindings_view s, owners_view s, pricing_view s).
Definition queries (s : state) := (s, views_of s).

(** reachable states *)
Definition invb (s : state) : bool :=
  snd (prm s)
  && sortedb lt1 (defs s) && forallb (fun d => snd (snd d)) (defs s)
  && sortedb lt2 (binds s)
  && forallb (fun b => eqb (fst b) (b_name (snd b), b_provider (snd b)) && b_ok (snd b)
                       && (0 <=? b_provider (snd b)) && (0 <=? b_owner (snd b)) && (0 <=? b_pricing (snd b))) (binds s)
  && sortedb lt1 (wdraw s) && forallb (fun w => (0 <=? fst w) && (0 <=? snd w)) (wdraw s)
  && sortedb lt1 (ctxs s) && forallb (fun c => (0 <=? fst c) && x_ok (snd c)) (ctxs s).
(** ... in which every request context is paused with a completed batch (e.g. after [prep]) *)
Definition quietb (s : state) : bool := forallb ctx_ok (ctxs s).

(** ** Correspondence and the C12 predicate *)
Record run := mkRun {
  r_sA : state; r_gA : genesis; r_val : bool; r_imp : Z; r_sB : option state; r_gB : option genesis;
  r_vA : views; r_vB : option views
}.
Record case := mkCase { c_runs : list run }.

Definition corr_run (r : run) : bool :=
  invb (r_sA r)
  && eqb (export (r_sA r)) (r_gA r)
  && eqb (views_of (r_sA r)) (r_vA r)
  && eqb (validate (r_gA r)) (r_val r)
  && match import (r_gA r) with
     | None => negb (r_imp r =? 0)
     | Some b => (r_imp r =? 0) && eqb (r_sB r) (Some b) && eqb (r_gB r) (Some (export b))
                 && eqb (r_vB r) (Some (views_of b))
     end.

(** clause codes: 13 export does not validate because a request context is not PAUSED with a completed
    batch; 1 ... for another reason; 2 import of a VALIDATED genesis panics; 3 second export differs; 4 a definition / binding /
    withdraw address / request context / the parameters read differently on B; 5 a secondary index of
    the bindings (by owner, owner of provider, pricing) reads differently on B *)
Definition prop_clauses (r : run) : list (Z * bool) :=
    [ (13, r_val r || forallb ctx_ok (g_ctxs (r_gA r)));
      (1, r_val r || negb (forallb ctx_ok (g_ctxs (r_gA r))));
      (2, (r_imp r =? 0) || negb (r_val r));
      (3, match r_gB r with Some g => eqb g (r_gA r) | None => true end);
      (4, match r_sB r with Some b => eqb b (r_sA r) | None => true end);
      (5, match r_vB r with Some v => eqb v (r_vA r) | None => true end) ].

Fixpoint run_fails (rs : list run) (i : Z) : list (Z * Z) :=
  match rs with
  | [] => []
  | r :: rest => map (fun c => (i, c)) (all_codes (prop_clauses r)) ++ run_fails rest (i + 1)
  end.
Fixpoint first_div (rs : list run) (i : Z) : Z :=
  match rs with
  | [] => -1
  | r :: rest => if corr_run r then first_div rest (i + 1) else i
  end.

(** the clause codes recorded as known findings of this module (see known-findings.txt) *)
Definition known_codes : list Z := [13].

Definition check_service (c : case) : Z * Z * Z :=
  let pre_ok :=
    match c_runs c with
    | r0 :: r1 :: _ => eqb (r_sA r1) (prep (r_sA r0)) && quietb (r_sA r1)
    | _ => true
    end in
  let '(prop, code) := pick_violation known_codes (run_fails (c_runs c) 0) in
  prefer_divergence known_codes (if pre_ok then first_div (c_runs c) 0 else 1, prop, code).
