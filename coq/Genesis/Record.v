(** * Record: export / validate / import  (modules/record/genesis.go, types/genesis.go,
      keeper/keeper.go)

    Exportable state: the record store (id -> record, iterated in ascending id order) and the
    32-bit counter that enters every id.  An id is [tmhash(record bytes ++ be32 counter)];
    as in [Record/Model.v] the hash is an injective function, so the id is its pre-image
    [(record, counter)].  The byte order of the real ids (which fixes the iteration order of
    the store, hence the order of the exported list) is a parameter [ord : rid -> Z]; the
    harness supplies it as a table of the SHA-256 values it computed for the pre-images. *)
From Irismod Require Export Genesis.Store.

Definition content := (Z * Z * Z * Z)%type.          (* digest, digest_algo, uri, meta (interned, 0 = empty) *)
Definition rec := (Z * list content * Z)%type.        (* tx hash, contents, creator (-1: not an address) *)
Definition rid := (rec * Z)%type.                     (* pre-image of the id *)

Record state := mkState { store : list (rid * rec); counter : Z }.
Definition genesis := list rec.

#[export] Instance EqDec_state : EqDec state.
Proof.
  intros [a b] [c d]. destruct (eq_dec a c); [|right; congruence].
  destruct (eq_dec b d); [left|right]; congruence.
Defined.

Definition two32 : Z := 4294967296.

Definition content_ok (c : content) : bool :=
  let '(d, a, _, _) := c in negb (d =? 0) && negb (a =? 0).
Definition rec_contents (r : rec) : list content := snd (fst r).
Definition rec_creator (r : rec) : Z := snd r.

Section Ord.
  Variable ord : rid -> Z.
  Definition idlt (a b : rid) : bool := ord a <? ord b.

  (** ExportGenesis: the values of the store in iteration order *)
  Definition export (s : state) : genesis := map snd (store s).

  (** types.ValidateGenesis.  Note the last branch: when [ValidateContents] fails the Go code
      executes [return nil] — it accepts the whole genesis without looking at the rest. *)
  Fixpoint validate (g : genesis) : bool :=
    match g with
    | [] => true
    | r :: g' =>
        match rec_contents r with
        | [] => false
        | _ =>
            if rec_creator r <? 0 then false
            else if negb (forallb content_ok (rec_contents r)) then true
            else validate g'
        end
    end.

  (** Keeper.AddRecord *)
  Definition add_record (s : state) (r : rec) : state :=
    mkState (oins idlt (r, counter s) r (store s)) ((counter s + 1) mod two32).

  Definition empty : state := mkState [] 0.

  (** InitGenesis on an empty store: panics (None) iff validation fails *)
  Definition import (g : genesis) : option state :=
    if validate g then Some (fold_left add_record g empty) else None.

  (** gRPC Query/Record *)
  Definition query (s : state) (id : rid) : option rec := get id (store s).

  (** what reachable states look like: the store is in id order, every id is derived from the
      record it maps to, and every record passed [MsgCreateRecord.ValidateBasic] *)
  Definition rec_valid (r : rec) : bool :=
    match rec_contents r with [] => false | _ => (0 <=? rec_creator r) && forallb content_ok (rec_contents r) end.
  Definition entry_ok (e : rid * rec) : bool := eqb (fst (fst e)) (snd e) && rec_valid (snd e).
  Definition invb (s : state) : bool := sortedb idlt (store s) && forallb entry_ok (store s).
End Ord.

(** ** Correspondence and the C12 predicate on the implementation's observations *)

Record run := mkRun {
  r_sA : state;                         (* state of chain A (read through the iterator, the counter getter and the gRPC query) *)
  r_gA : genesis;                       (* ExportGenesis(A), projected *)
  r_val : bool;                         (* ValidateGenesis(export) = nil *)
  r_imp : Z;                            (* InitGenesis on the fresh chain B: 0 ok, 2 panic *)
  r_sB : option state;                  (* state of B afterwards *)
  r_gB : option genesis;                (* ExportGenesis(B) *)
  r_x : list (rid * option rec)         (* gRPC Query/Record on B for every id of A *)
}.
Record case := mkCase { c_ord : list (rid * Z); c_runs : list run }.

Definition ord_of (tbl : list (rid * Z)) (id : rid) : Z :=
  match get id tbl with Some z => z | None => -1 end.

Definition corr_run (ord : rid -> Z) (r : run) : bool :=
  invb ord (r_sA r)
  && eqb (export (r_sA r)) (r_gA r)
  && eqb (validate (r_gA r)) (r_val r)
  && match import ord (r_gA r) with
     | None => negb (r_imp r =? 0)
     | Some b => (r_imp r =? 0) && eqb (r_sB r) (Some b)
                 && eqb (r_gB r) (Some (export b))
                 && forallb (fun '(id, o) => eqb (query b id) o) (r_x r)
                 && (Z.of_nat (length (r_x r)) =? Z.of_nat (length (store (r_sA r))))
     end.

(** clause codes: 1 export does not validate; 2 import panics; 32 second export is not even a
    permutation of the first; 42 a record of A is stored under no id in B;
    31 second export is a re-ordering of the first; 41 an id of A no longer reads back on B *)
Definition prop_run (r : run) : Z :=
  first_code
    [ (1, r_val r);
      (2, r_imp r =? 0);
      (32, match r_gB r with Some g => permb g (r_gA r) | None => true end);
      (42, match r_sB r with
           | Some b => forallb (fun e => existsb (fun e' => eqb (snd e') (snd e)) (store b)) (store (r_sA r))
           | None => true end);
      (31, match r_gB r with Some g => eqb g (r_gA r) | None => true end);
      (41, forallb (fun e => match get (fst e) (r_x r) with Some (Some v) => eqb v (snd e) | _ => false end)
             (store (r_sA r))) ].

Fixpoint check_runs (ord : rid -> Z) (rs : list run) (i : Z) (corr prop code : Z) : Z * Z * Z :=
  match rs with
  | [] => (corr, prop, code)
  | r :: rest =>
      let corr' := if (corr <? 0) && negb (corr_run ord r) then i else corr in
      let c := prop_run r in
      let '(prop', code') := if (prop <? 0) && negb (c =? 0) then (i, c) else (prop, code) in
      check_runs ord rest (i + 1) corr' prop' code'
  end.

(** the clause codes recorded as known findings of this module (see known-findings.txt) *)
Definition known_codes : list Z := [31; 41].

Definition check_record (c : case) : Z * Z * Z :=
  prefer_divergence known_codes (check_runs (ord_of (c_ord c)) (c_runs c) 0 (-1) (-1) 0).
