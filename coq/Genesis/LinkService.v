(** * Service: a PARTIAL link of the C12 invariant to the message-level model (Service/Model.v, Service/ProofsCheck.v
      [WInv], Service/ProofsHist.v [DepInv]).

    The genesis-level service model is structural: which collections are exported, in which order, how InitGenesis
    rebuilds the stores and the secondary indexes of the bindings; the field-level validity of parameters,
    definitions, bindings and request contexts is the module's own [Validate], carried as flags.  Accordingly:

    - DERIVED here, for every history of the service model: the structural [invb] of the abstraction (stores read
      the way the store reads them — first binding wins —, re-keyed by injective non-negative numberings and
      sorted), and, from the service group's [WInv] (every binding's provider is filed under the binding's owner;
      every entry of the owner index has a binding), that the model's provider -> owner store IS the view
      [owners_view] that the genesis-level model computes from the bindings — the assumption behind clause 5
      ("a secondary index of the bindings reads differently") for this index; from [DepInv]: binding owners and
      withdraw addresses are addresses (non-negative).
    - LEFT HAND-WRITTEN (flags set to true by [abs], not derived): Params.Validate, ServiceDefinition.Validate,
      ServiceBinding.Validate, RequestContext.Validate of the stored objects, and that the pricing string parses.
      The (owner, service, provider) index of the real store has no counterpart in the message model.
    - the request contexts: [quietb] (every context PAUSED with a completed batch) is what the export needs in order
      to validate (known finding); it holds of [prep (abs s)], for which the round trip is stated. *)
From Irismod Require Import Genesis.Sort.
From Irismod Require Service.Model Service.ProofsHist Service.ProofsEscrow Service.ProofsCheck Genesis.Service Genesis.ServiceProofs.
From Coq Require Import Sorting.Sorted Permutation ZifyBool.

Module M := Irismod.Service.Model.
Module MH := Irismod.Service.ProofsHist.
Module ME := Irismod.Service.ProofsEscrow.
Module MK := Irismod.Service.ProofsCheck.
Module G := Irismod.Genesis.Service.
Module GP := Irismod.Genesis.ServiceProofs.

(** ** generic: reading an association list the way the store does, under a re-keying *)
Section Canon.
  Context {K0 K V W : Type} `{EqDec K0} `{EqDec K}.
  Variable ltb : K -> K -> bool.
  Hypothesis ltb_irrefl : forall k, ltb k k = false.
  Hypothesis ltb_trans : forall a b c, ltb a b = true -> ltb b c = true -> ltb a c = true.
  Hypothesis ltb_total : forall ks : list K, total_on ltb ks.
  Variable kf : K0 -> K.
  Hypothesis kf_inj : forall a b, kf a = kf b -> a = b.
  Variable g : K0 -> V -> W.

  Definition canonk (m : list (K0 * V)) : list (K * W) :=
    osort ltb (rev (map (fun e => (kf (fst e), g (fst e) (snd e))) m)).

  Lemma osort_snoc (l : list (K * W)) a : osort ltb (l ++ [a]) = oins ltb (fst a) (snd a) (osort ltb l).
  Proof. unfold osort, oof_list. rewrite fold_left_app. reflexivity. Qed.

  Lemma get_osort_rev (m : list (K * W)) k : get k (osort ltb (rev m)) = get k m.
  Proof.
    induction m as [|[k0 v0] m IH]; [reflexivity|]. cbn [rev]. rewrite osort_snoc. cbn [fst snd get].
    destruct (eq_dec k k0) as [->|Hne]; [apply get_oins_same|]. rewrite get_oins_other by exact Hne. exact IH.
  Qed.

  Lemma get_canonk m k : get (kf k) (canonk m) = option_map (g k) (get k m).
  Proof.
    unfold canonk. rewrite get_osort_rev. induction m as [|[k0 v0] m IH]; [reflexivity|]. cbn [map fst snd get].
    destruct (eq_dec k k0) as [->|Hne].
    - destruct (eq_dec (kf k0) (kf k0)); [reflexivity|congruence].
    - destruct (eq_dec (kf k) (kf k0)) as [E|_]; [apply kf_inj in E; congruence|exact IH].
  Qed.

  Lemma canonk_sorted m : sorted ltb (canonk m).
  Proof. apply osort_sorted; [exact ltb_trans|apply ltb_total]. Qed.

  Lemma in_canonk m k' w : In (k', w) (canonk m) <-> exists k v, get k m = Some v /\ k' = kf k /\ w = g k v.
  Proof.
    assert (Hnd : NoDup (map fst (canonk m))) by (apply (sorted_keys_NoDup ltb ltb_irrefl); apply canonk_sorted).
    split.
    - intros Hin. pose proof (NoDup_get_some _ _ _ Hnd Hin) as Hg.
      unfold canonk, osort, oof_list in Hin. apply In_fold_oins_inv in Hin. destruct Hin as [[]|Hin].
      apply in_rev in Hin. apply in_map_iff in Hin. destruct Hin as ([k v0] & Hx & _). cbn [fst snd] in Hx.
      assert (Hk : k' = kf k) by congruence. subst k'.
      rewrite get_canonk in Hg. destruct (get k m) as [v|] eqn:Egm; [|discriminate]. cbn [option_map] in Hg.
      exists k, v. split; [exact Egm|]. split; [reflexivity|congruence].
    - intros (k & v & Hg & -> & ->). apply get_In. rewrite get_canonk, Hg. reflexivity.
  Qed.
End Canon.

Lemma sorted1 {V} (m : list (Z * V)) : sorted lt1 (osort lt1 m).
Proof. apply osort_sorted; [exact lt1_trans|apply lt1_total_on]. Qed.
Lemma In_osort1 {V} (m : list (Z * V)) e : In e (osort lt1 m) -> In e m.
Proof. unfold osort, oof_list. intros H. apply In_fold_oins_inv in H. destruct H as [[]|H]. exact H. Qed.

(** ** Part 1: the abstraction *)
Section Abs.
  Variable np : Z -> Z.                         (* accounts *)
  Variable nc : M.ctxid -> Z.                   (* request-context ids *)
  Variable npr : M.binding -> Z.                (* the pricing of a binding, interned *)
  Variables (pblob : Z) (dblob : Z -> Z) (bblob : (Z * Z) -> M.binding -> Z) (xblob : M.ctxid -> M.context -> Z).

  Definition abs_binding (k : Z * Z) (b : M.binding) : G.binding :=
    G.mkBinding (fst k) (np (snd k)) (np (M.b_owner b)) (bblob k b) true (npr b).
  Definition abs_ctx (id : M.ctxid) (x : M.context) : G.rctx :=
    G.mkCtx (xblob id x) true (M.x_state x) (if M.x_brun x then 0 else 1) (M.x_batch x) (M.x_breq x) (M.x_bresp x).
  Definition bkey (k : Z * Z) : Z * Z := (fst k, np (snd k)).
  Definition abs (s : M.state) : G.state :=
    G.mkState (pblob, true)
              (osort lt1 (map (fun n => (n, (dblob n, true))) (M.defs s)))
              (canonk lt2 bkey abs_binding (M.binds s))
              (canonk lt1 np (fun _ w => np w) (M.waddr s))
              (canonk lt1 nc abs_ctx (M.ctxs s)).
  (** the model's provider -> owner store, read the same way *)
  Definition abs_owners (s : M.state) : list (Z * Z) := canonk lt1 np (fun _ o => np o) (M.owners s).
End Abs.

(** ** Part 2: the structural invariant, for every state *)
Section Struct.
  Variable np : Z -> Z.
  Variable nc : M.ctxid -> Z.
  Variable npr : M.binding -> Z.
  Variables (pblob : Z) (dblob : Z -> Z) (bblob : (Z * Z) -> M.binding -> Z) (xblob : M.ctxid -> M.context -> Z).
  Hypothesis np_nn : forall a, 0 <= np a.
  Hypothesis np_inj : forall a b, np a = np b -> a = b.
  Hypothesis nc_nn : forall a, 0 <= nc a.
  Hypothesis nc_inj : forall a b, nc a = nc b -> a = b.
  Hypothesis npr_nn : forall b, 0 <= npr b.

  Lemma bkey_inj a b : bkey np a = bkey np b -> a = b.
  Proof. destruct a as [a1 a2], b as [b1 b2]. unfold bkey. cbn [fst snd]. intros E. inversion E as [[E1 E2]]. apply np_inj in E2. congruence. Qed.

  Theorem service_structure s : G.invb (abs np nc npr pblob dblob bblob xblob s) = true.
  Proof.
    unfold G.invb, abs. cbn [G.prm G.defs G.binds G.wdraw G.ctxs snd].
    assert (H2 : sortedb lt1 (osort lt1 (map (fun n : Z => (n, (dblob n, true))) (M.defs s))) = true) by (apply (sorted_sortedb lt1); apply sorted1).
    assert (H3 : forallb (fun d : Z * G.def => snd (snd d)) (osort lt1 (map (fun n : Z => (n, (dblob n, true))) (M.defs s))) = true).
    { apply forallb_forall. intros d Hd. apply In_osort1 in Hd. apply in_map_iff in Hd. destruct Hd as (n & <- & _). reflexivity. }
    assert (H4 : sortedb lt2 (canonk lt2 (bkey np) (abs_binding np npr bblob) (M.binds s)) = true)
      by (apply (sorted_sortedb lt2); apply (canonk_sorted lt2 lt2_trans lt2_total_on)).
    assert (H5 : forallb (fun b : (Z * Z) * G.binding => eqb (fst b) (G.b_name (snd b), G.b_provider (snd b)) && G.b_ok (snd b)
                      && (0 <=? G.b_provider (snd b)) && (0 <=? G.b_owner (snd b)) && (0 <=? G.b_pricing (snd b)))
                   (canonk lt2 (bkey np) (abs_binding np npr bblob) (M.binds s)) = true).
    { apply forallb_forall. intros [k' w] Hin.
      apply (in_canonk lt2 lt2_irrefl lt2_trans lt2_total_on (bkey np) bkey_inj) in Hin. destruct Hin as (k & b & _ & -> & ->).
      unfold abs_binding, bkey. cbn [fst snd G.b_name G.b_provider G.b_ok G.b_owner G.b_pricing].
      rewrite Prelude.eqb_refl. pose proof (np_nn (snd k)). pose proof (np_nn (M.b_owner b)). pose proof (npr_nn b). lia. }
    assert (H6 : sortedb lt1 (canonk lt1 np (fun _ w : Z => np w) (M.waddr s)) = true)
      by (apply (sorted_sortedb lt1); apply (canonk_sorted lt1 lt1_trans lt1_total_on)).
    assert (H7 : forallb (fun w : Z * Z => (0 <=? fst w) && (0 <=? snd w)) (canonk lt1 np (fun _ w : Z => np w) (M.waddr s)) = true).
    { apply forallb_forall. intros [k' w] Hin.
      apply (in_canonk lt1 lt1_irrefl lt1_trans lt1_total_on np np_inj) in Hin. destruct Hin as (k & v & _ & -> & ->).
      cbn [fst snd]. pose proof (np_nn k). pose proof (np_nn v). lia. }
    assert (H8 : sortedb lt1 (canonk lt1 nc (abs_ctx xblob) (M.ctxs s)) = true)
      by (apply (sorted_sortedb lt1); apply (canonk_sorted lt1 lt1_trans lt1_total_on)).
    assert (H9 : forallb (fun c : Z * G.rctx => (0 <=? fst c) && G.x_ok (snd c)) (canonk lt1 nc (abs_ctx xblob) (M.ctxs s)) = true).
    { apply forallb_forall. intros [k' w] Hin.
      apply (in_canonk lt1 lt1_irrefl lt1_trans lt1_total_on nc nc_inj) in Hin. destruct Hin as (k & v & _ & -> & ->).
      cbn [fst snd abs_ctx G.x_ok]. pose proof (nc_nn k). lia. }
    do 8 (apply andb_true_intro; split; [|first [exact H9|exact H8|exact H7|exact H6|exact H5|exact H4|exact H3|exact H2]]). reflexivity.
  Qed.
End Struct.

(** ** Part 3: the provider -> owner store is the view of the bindings (from [WInv]) *)
Lemma fold_oins_map {A K V} `{EqDec K} (ltb : K -> K -> bool) (f : A -> K) (g : A -> V) (l : list A) : forall acc,
  fold_left (fun m t => oins ltb (f t) (g t) m) l acc
  = fold_left (fun m (kv : K * V) => oins ltb (fst kv) (snd kv) m) (map (fun t => (f t, g t)) l) acc.
Proof. induction l as [|a l IH]; intros acc; [reflexivity|]. cbn [fold_left map]. exact (IH _). Qed.

Lemma In_osort1_fun {V} (phi : Z -> V) (m : list (Z * V)) e :
  (forall x, In x m -> snd x = phi (fst x)) -> (In e (osort lt1 m) <-> In e m).
Proof.
  intros Hphi. split; [apply In_osort1|]. intros He. destruct e as [k v].
  assert (Hk : In k (map fst (osort lt1 m))) by (apply keys_osort; apply (in_map fst) in He; exact He).
  apply in_map_iff in Hk. destruct Hk as ([k' v'] & Hk' & Hin). cbn [fst] in Hk'. subst k'.
  pose proof (Hphi _ (In_osort1 _ _ Hin)) as H1. pose proof (Hphi _ He) as H2. cbn [fst snd] in H1, H2. congruence.
Qed.

Section Owners.
  Variable np : Z -> Z.
  Variable nc : M.ctxid -> Z.
  Variable npr : M.binding -> Z.
  Variables (pblob : Z) (dblob : Z -> Z) (bblob : (Z * Z) -> M.binding -> Z) (xblob : M.ctxid -> M.context -> Z).
  Hypothesis np_inj : forall a b, np a = np b -> a = b.
  Variable s : M.state.
  Hypothesis W : MK.WInv s.

  Notation BA := (canonk lt2 (bkey np) (abs_binding np npr bblob) (M.binds s)).

  Theorem owner_index_is_view : G.owners_view (abs np nc npr pblob dblob bblob xblob s) = abs_owners np s.
  Proof.
    unfold G.owners_view, abs. cbn [G.binds].
    rewrite (fold_oins_map lt1 (fun b : (Z * Z) * G.binding => G.b_provider (snd b)) (fun b => G.b_owner (snd b))).
    change (fold_left (fun m (kv : Z * Z) => oins lt1 (fst kv) (snd kv) m)
                      (map (fun t : (Z * Z) * G.binding => (G.b_provider (snd t), G.b_owner (snd t))) BA) [])
      with (osort lt1 (map (fun t : (Z * Z) * G.binding => (G.b_provider (snd t), G.b_owner (snd t))) BA)).
    assert (Hbind : forall x, In x (map (fun t : (Z * Z) * G.binding => (G.b_provider (snd t), G.b_owner (snd t))) BA)
                     <-> exists svc p b, get (svc, p) (M.binds s) = Some b /\ x = (np p, np (M.b_owner b))).
    { intros x. rewrite in_map_iff. split.
      - intros ([k' w] & <- & Hin). apply (in_canonk lt2 lt2_irrefl lt2_trans lt2_total_on (bkey np) (bkey_inj np np_inj)) in Hin.
        destruct Hin as ([svc p] & b & Hg & -> & ->). exists svc, p, b. split; [exact Hg|reflexivity].
      - intros (svc & p & b & Hg & ->). exists (bkey np (svc, p), abs_binding np npr bblob (svc, p) b). split; [reflexivity|].
        apply (in_canonk lt2 lt2_irrefl lt2_trans lt2_total_on (bkey np) (bkey_inj np np_inj)). exists (svc, p), b. auto. }
    assert (Hown : forall x, In x (abs_owners np s) <-> exists p o, get p (M.owners s) = Some o /\ x = (np p, np o)).
    { intros [k v]. unfold abs_owners. rewrite (in_canonk lt1 lt1_irrefl lt1_trans lt1_total_on np np_inj). split.
      - intros (p & o & Hg & -> & ->). eauto.
      - intros (p & o & Hg & E). inversion E; subst. eauto. }
    assert (Heq : forall x, (exists svc p b, get (svc, p) (M.binds s) = Some b /\ x = (np p, np (M.b_owner b)))
                         <-> (exists p o, get p (M.owners s) = Some o /\ x = (np p, np o))).
    { intros x. split.
      - intros (svc & p & b & Hg & ->). exists p, (M.b_owner b). split; [|reflexivity].
        exact (MK.w_own _ W (svc, p) b (get_In _ _ _ Hg)).
      - intros (p & o & Hg & ->). assert (Hh : has p (M.owners s) = true) by (unfold has; rewrite Hg; reflexivity).
        destruct (MK.w_has _ W p Hh) as (svc & Hb). unfold has in Hb. destruct (get (svc, p) (M.binds s)) as [b|] eqn:Eb; [|discriminate].
        pose proof (MK.w_own _ W (svc, p) b (get_In _ _ _ Eb)) as Ho. cbn [snd] in Ho. rewrite Hg in Ho. inversion Ho; subst o.
        exists svc, p, b. auto. }
    apply (sorted_ext lt1 lt1_irrefl lt1_asym); [apply sorted1|apply (canonk_sorted lt1 lt1_trans lt1_total_on)|]. intros x.
    rewrite (In_osort1_fun (fun k => match get k (abs_owners np s) with Some o => o | None => 0 end)).
    - rewrite Hbind, Hown. apply Heq.
    - intros y Hy. apply Hbind in Hy. apply Heq in Hy. destruct Hy as (p & o & Hg & ->). cbn [fst snd].
      unfold abs_owners. rewrite (get_canonk lt1 np np_inj), Hg. reflexivity.
  Qed.
End Owners.

(** ** Part 4: over histories of the service model — every history *)
Section Hist.
  Variable np : Z -> Z.
  Variable nc : M.ctxid -> Z.
  Variable npr : M.binding -> Z.
  Variables (pblob : Z) (dblob : Z -> Z) (bblob : (Z * Z) -> M.binding -> Z) (xblob : M.ctxid -> M.context -> Z).
  Hypothesis np_nn : forall a, 0 <= np a.
  Hypothesis np_inj : forall a b, np a = np b -> a = b.
  Hypothesis nc_nn : forall a, 0 <= nc a.
  Hypothesis nc_inj : forall a b, nc a = nc b -> a = b.
  Hypothesis npr_nn : forall b, 0 <= npr b.
  Variable c : M.config.
  Variables (h0 t0 : Z) (l0 : Irismod.Base.Bank.ledger).
  Variable steps : list M.step.
  Let s := M.run c (M.init h0 t0 l0) steps.
  Notation A := (abs np nc npr pblob dblob bblob xblob).

  Theorem reachable_service : G.invb (A s) = true.
  Proof. apply service_structure; assumption. Qed.

  Theorem service_owner_index_is_view : G.owners_view (A s) = abs_owners np s.
  Proof. apply owner_index_is_view; [exact np_inj|]. exact (MK.reach_W c steps h0 t0 l0). Qed.

  (** binding owners and withdraw addresses are addresses (the deposit escrow starts empty) *)
  Theorem service_owners_are_addresses : Irismod.Base.Bank.bal l0 M.DEP M.BASE = 0 ->
    (forall k b, get k (M.binds s) = Some b -> 0 <= M.b_owner b) /\ (forall o w, get o (M.waddr s) = Some w -> 0 <= w).
  Proof.
    intros H0. pose proof (ME.DepInv_reachable c steps h0 t0 l0 H0) as D. split; [exact (MH.di_owner _ D)|exact (MH.di_waddr _ D)].
  Qed.

  (** after PrepForZeroHeightGenesis (every context PAUSED with a completed batch): export validates, import does not
      panic and gives back the prepared state itself *)
  Theorem service_history_prep_roundtrip :
    G.validate (G.export (G.prep (A s))) = true /\ G.import (G.export (G.prep (A s))) = Some (G.prep (A s)).
  Proof.
    destruct (GP.service_prep_lemma _ reachable_service) as [Hi Hq].
    split; [exact (GP.service_export_validates_partial_lemma _ Hi Hq)|exact (GP.service_roundtrip _ Hi Hq)].
  Qed.

  (** ... and as-is, when every stored context is paused with a completed batch *)
  Theorem service_history_quiet_roundtrip :
    (forall id x, get id (M.ctxs s) = Some x -> M.x_state x = 1 /\ M.x_brun x = false) ->
    G.validate (G.export (A s)) = true /\ G.import (G.export (A s)) = Some (A s).
  Proof.
    intros Hq. assert (Hqb : G.quietb (A s) = true).
    { unfold G.quietb, abs. cbn [G.ctxs]. apply forallb_forall. intros [k' w] Hin.
      apply (in_canonk lt1 lt1_irrefl lt1_trans lt1_total_on nc nc_inj) in Hin. destruct Hin as (id & x & Hg & -> & ->).
      destruct (Hq id x Hg) as [Hs Hb]. unfold G.ctx_ok, abs_ctx. cbn [fst snd G.x_ok G.x_state G.x_bstate]. rewrite Hs, Hb.
      pose proof (nc_nn id). lia. }
    split; [exact (GP.service_export_validates_partial_lemma _ reachable_service Hqb)|exact (GP.service_roundtrip _ reachable_service Hqb)].
  Qed.
End Hist.

(** ** non-vacuity: the history of [Props/C07.c07_history_nonvacuous] (a definition, two bindings of one owner, a call
    to both, a response, an expiry with slashing) plus a withdraw address; numberings: the Z -> N bijection and a
    pairing of two of them *)
Definition zn (z : Z) : Z := if z <? 0 then - 2 * z - 1 else 2 * z.
Lemma zn_nn z : 0 <= zn z. Proof. unfold zn. destruct (z <? 0) eqn:E; lia. Qed.
Lemma zn_inj a b : zn a = zn b -> a = b. Proof. unfold zn. destruct (a <? 0) eqn:Ea, (b <? 0) eqn:Eb; lia. Qed.
Definition pair2 (x y : Z) : Z := (x + y) * (x + y + 1) + 2 * y.
Lemma pair2_inj x y x' y' : 0 <= x -> 0 <= y -> 0 <= x' -> 0 <= y' -> pair2 x y = pair2 x' y' -> x = x' /\ y = y'.
Proof.
  unfold pair2. intros Hx Hy Hx' Hy' E. destruct (Z.lt_trichotomy (x + y) (x' + y')) as [H|[H|H]]; [exfalso; nia| |exfalso; nia].
  assert (y = y') by nia. split; lia.
Qed.
Definition ex_nc (id : M.ctxid) : Z := pair2 (zn (fst id)) (zn (snd id)).
Lemma ex_nc_nn id : 0 <= ex_nc id.
Proof. unfold ex_nc, pair2. pose proof (zn_nn (fst id)). pose proof (zn_nn (snd id)). nia. Qed.
Lemma ex_nc_inj a b : ex_nc a = ex_nc b -> a = b.
Proof.
  destruct a as [a1 a2], b as [b1 b2]. unfold ex_nc. cbn [fst snd]. intros E.
  destruct (pair2_inj _ _ _ _ (zn_nn a1) (zn_nn a2) (zn_nn b1) (zn_nn b2) E) as [E1 E2]. apply zn_inj in E1, E2. congruence.
Qed.

Definition ex_cfg := M.mkCfg 50000000000000000 300000000000000000 6 2 100 4 false 2 (-1) 4.
Definition ex_l0 : Irismod.Base.Bank.ledger := [((0, 0), 1000000); ((5, 0), 1000000)].
Definition ex_hist : list M.step :=
  [ M.Tx 11 (M.MDefine 0 0 true);
    M.Tx 12 (M.MBind 0 2 0 1000 (0, 100, [(0, 2000, 500000000000000000)], []) 1 true 0);
    M.Tx 13 (M.MBind 0 3 0 1000 (0, 60, [], []) 1 true 0);
    M.Tx 16 (M.MSetWithdraw 0 4);
    M.Tx 14 (M.MCall 0 [2; 3] 5 true 0 100000 2 false 0 0);
    M.EndBlock 5;
    M.Tx 15 (M.MRespond ((14, 0), 1, 1, 0) 2 1);
    M.EndBlock 5; M.EndBlock 5 ].
Definition ex_abs := abs zn ex_nc (fun b => M.b_pa b) 0 (fun n => n) (fun _ _ => 0) (fun _ _ => 0).

Example link_service_nonvacuous :
  let s := M.run ex_cfg (M.init 1 1000 ex_l0) ex_hist in
  let s5 := M.run ex_cfg (M.init 1 1000 ex_l0) (firstn 5 ex_hist) in
  map fst (G.binds (ex_abs s)) = [(0, 4); (0, 6)] /\ G.wdraw (ex_abs s) = [(0, 8)] /\ length (G.ctxs (ex_abs s5)) = 1%nat
  /\ G.quietb (ex_abs s5) = false /\ G.import (G.export (G.prep (ex_abs s5))) = Some (G.prep (ex_abs s5))
  /\ G.owners_view (ex_abs s) = [(4, 0); (6, 0)] /\ abs_owners zn s = [(4, 0); (6, 0)]
  /\ G.invb (ex_abs s) = true /\ G.import (G.export (G.prep (ex_abs s))) = Some (G.prep (ex_abs s)).
Proof. vm_compute. repeat split; reflexivity. Qed.
