(** * Token: the C12 invariant derived from the message-level model (Token/Model.v, Token/Proofs.v, Token/Passes.v).

    Histories: the messages of the token group's C09 theorems ([c09_msg]: issue, edit, mint, burn, ownership
    transfer, parameter update; no ERC20 deployment / conversion and no fee-token swap — the genesis-level
    model has no ERC20 contracts either, the harness reports a token that has one).  From their [IdInv]
    (registry consistent: symbol <-> min unit), [WF] (the stores have distinct keys) and the invariant [K]
    proved here over their handlers (every stored token passes Token.Validate; the owner index holds exactly
    the (owner, symbol) pairs of the tokens; burned totals are not negative; the parameters pass
    Params.Validate and the fee denom is a registered symbol — the repaired msgServer.UpdateParams, which their
    model follows, refuses any other) the genesis-level [invb] follows for the
    abstraction of the state.

    [abs] takes as parameters what the message model does not have: the numberings [rs] of symbols, [rm] of min
    units (injective on what the state holds; min-unit numbers non-negative), [ro] of owners (non-negative on
    addresses) and the length [nlen] of an interned token name (1..32 for a name the validators accept). *)
From Irismod Require Import Genesis.Sort.
From Irismod Require Token.Model Token.ProofsBank Token.Proofs Token.ProofsConv Token.Passes Genesis.Token Genesis.TokenProofs.
From Coq Require Import Sorting.Sorted Permutation ZifyBool.

Module M := Irismod.Token.Model.
Module MB := Irismod.Token.ProofsBank.
Module MP := Irismod.Token.Proofs.
Module MW := Irismod.Token.Passes.
Module MC := Irismod.Token.ProofsConv.
Module G := Irismod.Genesis.Token.
Module GP := Irismod.Genesis.TokenProofs.

(** ** Part 1: the extra invariant over the message-level handlers *)
Definition tok_good (t : M.token) : Prop :=
  M.valid_sym (M.t_symbol t) = true /\ M.valid_sym (M.t_minunit t) = true /\ 0 <= M.t_name t
  /\ M.t_initial t <= M.MAXINIT /\ M.t_initial t <= M.t_max t /\ M.t_scale t <= 18 /\ 0 <= M.t_owner t.

Definition pars_good (p : M.params) : Prop :=
  0 <= M.p_tax p <= Irismod.Base.Dec.P18 /\ 0 <= M.p_mint_ratio p <= Irismod.Base.Dec.P18 /\ 0 <= M.p_base_fee p.

Definition Kf (fee : M.name) (toks : amap M.name M.token) (own : list (M.acct * M.name)) (bur : amap M.name Z) (prs : M.params) : Prop :=
  (forall sym t, get sym toks = Some t -> tok_good t)
  /\ (forall o sym, In (o, sym) own <-> exists t, get sym toks = Some t /\ M.t_owner t = o)
  /\ (forall d v, In (d, v) bur -> 0 <= v)
  /\ (pars_good prs /\ M.p_fee_denom prs = fee)
  /\ (exists t, get fee toks = Some t).
(** [fee] is the fee denom of the state's parameters; a MsgUpdateParams may change it — to a REGISTERED symbol only,
    since "fix: token MsgUpdateParams rejects an issue fee denominated in an unregistered symbol" *)

Definition K (s : M.state) : Prop := Kf (M.p_fee_denom (M.pars s)) (M.tokens s) (M.owned s) (M.burned s) (M.pars s).

Lemma owned_upsert s t : M.owned (M.upsert_token s t) = M.add_owned (M.t_owner t) (M.t_symbol t) (M.owned s).
Proof. unfold M.upsert_token. destruct (M.t_contract t =? 0); reflexivity. Qed.

Lemma in_add_owned o sym l x : In x (M.add_owned o sym l) <-> x = (o, sym) \/ In x l.
Proof.
  unfold M.add_owned. destruct (existsb (eqb (o, sym)) l) eqn:E.
  - split; [auto|]. intros [->|H]; [|exact H]. apply existsb_exists in E. destruct E as (y & Hy & He).
    apply MB.eqb_eq in He. subst y. exact Hy.
  - rewrite in_app_iff. simpl. split; [intros [H|[H|[]]]; auto|intros [H|H]; auto].
Qed.

Lemma in_del_owned o sym l x : In x (M.del_owned o sym l) <-> x <> (o, sym) /\ In x l.
Proof.
  unfold M.del_owned. rewrite filter_In. split.
  - intros [H1 H2]. split; [|exact H1]. intros ->. rewrite Prelude.eqb_refl in H2. discriminate.
  - intros [H1 H2]. split; [exact H2|]. destruct (eqb (o, sym) x) eqn:E; [apply MB.eqb_eq in E; congruence|reflexivity].
Qed.

Lemma In_set_inv {A V} `{EqDec A} (k : A) (v : V) m x : In x (set k v m) -> x = (k, v) \/ In x m.
Proof.
  induction m as [|[k0 v0] m IH]; simpl; [intros [<-|[]]; auto|].
  destruct (eq_dec k k0); simpl; intros [<-|Hin]; auto. destruct (IH Hin); auto.
Qed.

Lemma Kf_new fee toks own bur prs sym t :
  Kf fee toks own bur prs -> get sym toks = None -> tok_good t ->
  Kf fee (set sym t toks) (M.add_owned (M.t_owner t) sym own) bur prs.
Proof.
  intros (K1 & K2 & K3 & K4 & (tf & K5)) Hn Hg. split; [|split; [|split; [exact K3|split; [exact K4|]]]].
  - intros sy t0. rewrite MB.get_set. destruct (eqb sy sym) eqn:E; [intros H; inversion H; subst; exact Hg|apply K1].
  - intros o sy. rewrite in_add_owned, MB.get_set. destruct (eqb sy sym) eqn:E.
    + apply MB.eqb_eq in E. subst sy. split.
      * intros [Heq|Hin]; [inversion Heq; subst; eauto|]. apply K2 in Hin. destruct Hin as (t0 & Ht0 & _). congruence.
      * intros (t0 & Ht0 & Ho). inversion Ht0; subst. left. reflexivity.
    + assert (sy <> sym) by (intros ->; rewrite Prelude.eqb_refl in E; discriminate).
      rewrite <- K2. split; [intros [Heq|Hin]; [inversion Heq; congruence|exact Hin]|auto].
  - rewrite MB.get_set. destruct (eqb fee sym) eqn:E; [apply MB.eqb_eq in E; subst; congruence|eauto].
Qed.

Lemma Kf_upd fee toks own bur prs sym t t' :
  Kf fee toks own bur prs -> get sym toks = Some t -> tok_good t' -> M.t_owner t' = M.t_owner t ->
  Kf fee (set sym t' toks) own bur prs.
Proof.
  intros (K1 & K2 & K3 & K4 & (tf & K5)) Hs Hg Ho. split; [|split; [|split; [exact K3|split; [exact K4|]]]].
  - intros sy t0. rewrite MB.get_set. destruct (eqb sy sym) eqn:E; [intros H; inversion H; subst; exact Hg|apply K1].
  - intros o sy. rewrite K2, MB.get_set. destruct (eqb sy sym) eqn:E; [|reflexivity].
    apply MB.eqb_eq in E. subst sy. split.
    + intros (t0 & Ht0 & Ho0). rewrite Hs in Ht0. inversion Ht0; subst. eauto.
    + intros (t0 & Ht0 & Ho0). inversion Ht0; subst. exists t. split; [exact Hs|congruence].
  - rewrite MB.get_set. destruct (eqb fee sym); eauto.
Qed.

Lemma Kf_transfer fee toks own bur prs sym t t' :
  Kf fee toks own bur prs -> get sym toks = Some t -> tok_good t' ->
  Kf fee (set sym t' toks) (M.add_owned (M.t_owner t') sym (M.del_owned (M.t_owner t) sym own)) bur prs.
Proof.
  intros (K1 & K2 & K3 & K4 & (tf & K5)) Hs Hg. split; [|split; [|split; [exact K3|split; [exact K4|]]]].
  - intros sy t0. rewrite MB.get_set. destruct (eqb sy sym) eqn:E; [intros H; inversion H; subst; exact Hg|apply K1].
  - intros o sy. rewrite in_add_owned, in_del_owned, K2, MB.get_set. destruct (eqb sy sym) eqn:E.
    + apply MB.eqb_eq in E. subst sy. split.
      * intros [Heq|[Hne (t0 & Ht0 & Ho0)]]; [inversion Heq; subst; eauto|].
        rewrite Hs in Ht0. inversion Ht0; subst. exfalso. apply Hne. reflexivity.
      * intros (t0 & Ht0 & Ho0). inversion Ht0; subst. left. reflexivity.
    + assert (sy <> sym) by (intros ->; rewrite Prelude.eqb_refl in E; discriminate).
      split; [intros [Heq|[_ Hx]]; [inversion Heq; congruence|exact Hx]|].
      intros Hx. right. split; [intros Heq; inversion Heq; congruence|exact Hx].
  - rewrite MB.get_set. destruct (eqb fee sym); eauto.
Qed.

Lemma Kf_burn fee toks own bur prs d x :
  Kf fee toks own bur prs -> 0 <= x -> Kf fee toks own (set d x bur) prs.
Proof.
  intros (K1 & K2 & K3 & K4 & K5) Hx. split; [exact K1|split; [exact K2|split; [|split; [exact K4|exact K5]]]].
  intros d0 v Hin. apply In_set_inv in Hin. destruct Hin as [Heq|Hin]; [inversion Heq; subst; exact Hx|exact (K3 _ _ Hin)].
Qed.

Lemma K_bank_only s s' : MB.bank_only s s' -> K s -> K s'.
Proof.
  intros Hb Hk. apply MB.bank_only_fields in Hb. destruct Hb as (Ht & _ & Ho & _ & Hbu & _ & Hp & _).
  unfold K. rewrite Ht, Ho, Hbu, Hp. exact Hk.
Qed.

Lemma do_edit_max s owner sym nm max mintable s' t :
  M.do_edit s owner sym nm max mintable = M.ROk s' -> get sym (M.tokens s) = Some t -> 0 < max -> M.t_initial t <= max.
Proof.
  unfold M.do_edit, M.token_by_symbol. intros H Ht Hm. rewrite Ht in H.
  MB.inv_if H. MB.inv_if H. MB.inv_if H. lia.
Qed.

Lemma burned_of_nonneg s d : K s -> 0 <= M.burned_of s d.
Proof.
  intros (_ & _ & K3 & _). unfold M.burned_of, M.getz. destruct (get d (M.burned s)) as [v|] eqn:E; [|lia].
  exact (K3 d v (get_In _ _ _ E)).
Qed.

Lemma handle_K s m s' : MP.IdInv s -> K s -> MW.c09_msg m -> M.validate_basic m = true ->
  M.handle s m = M.ROk s' -> K s'.
Proof.
  intros I Hk Hm Hvb H. destruct m; simpl in Hm; try contradiction; simpl in H.
  - (* Issue *)
    apply MP.do_issue_inv in H. destruct H as (fd & famt & s1 & s3 & _ & _ & Hf & Hs & _ & Hmint & Hpay).
    pose proof (MB.fee_handler_effect _ _ _ _ _ Hf) as (Hb1 & _).
    eapply K_bank_only; [eapply MB.bank_pay_only; eassumption|].
    eapply K_bank_only; [eapply MB.bank_mint_only; eassumption|].
    pose proof (K_bank_only _ _ Hb1 Hk) as Hk1.
    apply MB.bank_only_fields in Hb1. destruct Hb1 as (Ht1 & _).
    match goal with |- K (M.upsert_token ?a ?b) => destruct (MP.upsert_fields a b) as (Hut & _ & _ & _ & Hub & _ & Hup & _); pose proof (owned_upsert a b) as Huo end.
    unfold K. rewrite Hut, Hub, Hup, Huo. cbn [M.t_symbol M.t_owner].
    apply Kf_new; [exact Hk1|rewrite Ht1; exact Hs|].
    unfold tok_good. cbn [M.t_symbol M.t_minunit M.t_name M.t_initial M.t_max M.t_scale M.t_owner].
    unfold M.validate_basic, M.valid_addr, M.valid_tname in Hvb. repeat split; lia.
  - (* Edit *)
    pose proof H as H0. apply MP.do_edit_inv in H. destruct H as (t & Ht & Ho & _ & ->).
    pose proof (do_edit_max _ _ _ _ _ _ _ t H0 Ht) as Hmx.
    destruct Hk as (K1 & Krest). pose proof (K1 _ _ Ht) as (G1 & G2 & G3 & G4 & G5 & G6 & G7).
    unfold K. cbn [M.upd_tokens M.tokens M.owned M.burned M.pars].
    eapply Kf_upd; [exact (conj K1 Krest)|exact Ht| |reflexivity].
    unfold tok_good. cbn [M.t_symbol M.t_minunit M.t_name M.t_initial M.t_max M.t_scale M.t_owner].
    unfold M.validate_basic, M.valid_tname in Hvb. repeat split; try assumption.
    + destruct (nm =? 0); lia.
    + destruct (0 <? max) eqn:E; [apply Hmx; lia|exact G5].
  - (* Mint *)
    eapply K_bank_only; [eapply MW.mint_shape; eassumption|exact Hk].
  - (* Burn *)
    apply MP.do_burn_inv in H. destruct H as (t & s1 & _ & Hs & Hb).
    eapply K_bank_only; [eapply MB.bank_burn_only; eassumption|].
    pose proof (K_bank_only _ _ (MB.bank_send_only _ _ _ _ _ _ Hs) Hk) as Hk1.
    unfold K. cbn [M.upd_burned M.tokens M.owned M.burned M.pars]. apply Kf_burn; [exact Hk1|].
    pose proof (burned_of_nonneg s1 denom Hk1). unfold M.validate_basic in Hvb. lia.
  - (* Transfer *)
    apply MP.do_transfer_inv in H. destruct H as (t & _ & Ht & Ho & ->).
    destruct Hk as (K1 & Krest). pose proof (K1 _ _ Ht) as (G1 & G2 & G3 & G4 & G5 & G6 & G7).
    unfold K. cbn [M.upd_owned M.upd_tokens M.tokens M.owned M.burned M.pars]. rewrite Ho.
    match goal with |- Kf _ (set sym ?t' _) _ _ _ => change dst with (M.t_owner t') at 2 end.
    apply Kf_transfer; [exact (conj K1 Krest)|exact Ht|].
    unfold tok_good. cbn [M.t_symbol M.t_minunit M.t_name M.t_initial M.t_max M.t_scale M.t_owner].
    unfold M.validate_basic, M.valid_addr in Hvb. repeat split; try assumption. lia.
  - (* SetParams *)
    unfold M.do_set_params in H. MB.inv_if H. MB.inv_if H. inversion H. destruct Hk as (K1 & K2 & K3 & _ & _).
    unfold K. cbn [M.upd_pars M.tokens M.owned M.burned M.pars M.p_fee_denom].
    split; [exact K1|split; [exact K2|split; [exact K3|split]]].
    + split; [|reflexivity]. unfold pars_good. cbn [M.p_tax M.p_mint_ratio M.p_base_fee].
      unfold M.validate_basic in Hvb. lia.
    + apply Bool.negb_false_iff in E0. unfold has in E0. destruct (get denom (M.tokens s)) as [t0|]; [eauto|discriminate].
Qed.

Lemma step_K s m : MP.IdInv s -> MW.c09_msg m -> K s -> K (M.step s m).
Proof.
  intros I Hm Hk. destruct (MP.step_cases s m) as [(s' & E & ->)|[_ ->]]; [|exact Hk].
  apply MP.exec_inv in E. destruct E as [Hvb E]. exact (handle_K s m s' I Hk Hm Hvb E).
Qed.

Lemma run_K ms : forall s, MP.IdInv s -> Forall MW.c09_msg ms -> K s -> K (M.run s ms).
Proof.
  induction ms as [|m ms IH]; intros s I Hms Hk; [exact Hk|]. inversion Hms as [|? ? Hm Hms']; subst.
  apply IH; [apply MP.step_IdInv; exact I|exact Hms'|apply step_K; assumption].
Qed.

(** the harness genesis: the native token, valid parameters with the native symbol as fee denom *)
Lemma genesis_K p balances ss reg : pars_good p -> M.p_fee_denom p = M.STAKE -> K (M.genesis p balances ss reg).
Proof.
  intros Hp Hf. unfold K, M.genesis. cbn [M.tokens M.owned M.burned M.pars]. rewrite Hf.
  split; [|split; [|split; [intros d v []|split; [split; assumption|]]]].
  - intros sym t. simpl. destruct (eq_dec sym M.STAKE); [|discriminate]. intros H. inversion H; subst.
    unfold tok_good, M.native_token, M.STAKE, M.valid_sym, M.MAXINIT, M.MAXU64, M.MODULE. cbn. repeat split; lia.
  - intros o sym. simpl. split.
    + intros [H|[]]. inversion H; subst. exists M.native_token. split; [destruct (eq_dec M.STAKE M.STAKE); [reflexivity|congruence]|reflexivity].
    + intros (t & Ht & Ho). destruct (eq_dec sym M.STAKE) as [->|]; [|discriminate]. inversion Ht; subst. left. reflexivity.
  - exists M.native_token. simpl. destruct (eq_dec M.STAKE M.STAKE); [reflexivity|congruence].
Qed.

(** ** Part 2: the abstraction *)
Section Abs.
  Variables (rs rm : M.name -> Z) (ro : M.acct -> Z) (nlen : Z -> Z).

  Definition abs_tok (t : M.token) : G.token :=
    G.mkToken (rs (M.t_symbol t)) (M.valid_sym (M.t_symbol t)) (M.t_name t) (nlen (M.t_name t)) (M.t_scale t)
              (rm (M.t_minunit t)) (M.valid_sym (M.t_minunit t)) (M.t_initial t) (M.t_max t) (M.t_mintable t) (ro (M.t_owner t)).
  Definition abs_prm (p : M.params) : G.params :=
    G.mkParams (M.p_tax p) (rs (M.p_fee_denom p), M.p_base_fee p) (M.p_mint_ratio p) (M.p_erc20 p) (if M.p_beacon p then 1 else 0).
  Definition ft (e : M.name * M.token) : Z * G.token := (rs (fst e), abs_tok (snd e)).
  Definition fm (e : M.name * M.name) : Z * Z := (rm (fst e), rs (snd e)).
  Definition fo (e : M.acct * M.name) : (Z * Z) * Z := ((ro (fst e), rs (snd e)), rs (snd e)).
  Definition fb (e : M.name * Z) : Z * Z := (rm (fst e), snd e).
  Definition abs (s : M.state) : G.state :=
    G.mkState (abs_prm (M.pars s)) (osort lt1 (map ft (M.tokens s))) (osort lt1 (map fm (M.minunits s)))
              (osort lt2 (map fo (M.owned s))) (osort lt1 (map fb (M.burned s))).
End Abs.

(** ** generic helpers *)
Definition inj_on {A B} (f : A -> B) (l : list A) : Prop := forall a b, In a l -> In b l -> f a = f b -> a = b.

Lemma NoDup_map_inj_on {A B} (f : A -> B) (l : list A) : inj_on f l -> NoDup l -> NoDup (map f l).
Proof.
  unfold inj_on. induction l as [|a l IH]; simpl; intros Hinj Hnd; [constructor|]. inversion Hnd as [|? ? Hn Hnd']; subst. constructor.
  - intros Hin. apply in_map_iff in Hin. destruct Hin as (b & Hfb & Hb). assert (b = a) by (apply Hinj; auto). subst. contradiction.
  - apply IH; [|exact Hnd']. intros x y Hx Hy. apply Hinj; auto.
Qed.

Lemma sorted1 {V} (m : list (Z * V)) : sorted lt1 (osort lt1 m).
Proof. apply osort_sorted; [exact lt1_trans|apply lt1_total_on]. Qed.
Lemma sorted2 {V} (m : list ((Z * Z) * V)) : sorted lt2 (osort lt2 m).
Proof. apply osort_sorted; [exact lt2_trans|apply lt2_total_on]. Qed.

Lemma In_osort1 {V} (m : list (Z * V)) e : In e (osort lt1 m) -> In e m.
Proof. unfold osort, oof_list. intros H. apply In_fold_oins_inv in H. destruct H as [[]|H]. exact H. Qed.
Lemma In_osort2 {V} (m : list ((Z * Z) * V)) e : In e (osort lt2 m) -> In e m.
Proof. unfold osort, oof_list. intros H. apply In_fold_oins_inv in H. destruct H as [[]|H]. exact H. Qed.

(** a list whose values are a function of their keys keeps its members when sorted *)
Lemma In_osort2_fun {V} (phi : Z * Z -> V) (m : list ((Z * Z) * V)) e :
  (forall x, In x m -> snd x = phi (fst x)) -> (In e (osort lt2 m) <-> In e m).
Proof.
  intros Hphi. split; [apply In_osort2|]. intros He. destruct e as [k v].
  assert (Hk : In k (map fst (osort lt2 m))) by (apply keys_osort; apply (in_map fst) in He; exact He).
  apply in_map_iff in Hk. destruct Hk as ([k' v'] & Hk' & Hin). cbn [fst] in Hk'. subst k'.
  pose proof (Hphi _ (In_osort2 _ _ Hin)) as H1. pose proof (Hphi _ He) as H2. cbn [fst snd] in H1, H2. congruence.
Qed.

Lemma fold_oins_map {A K V} `{EqDec K} (ltb : K -> K -> bool) (f : A -> K) (g : A -> V) (l : list A) : forall acc,
  fold_left (fun m t => oins ltb (f t) (g t) m) l acc
  = fold_left (fun m (kv : K * V) => oins ltb (fst kv) (snd kv) m) (map (fun t => (f t, g t)) l) acc.
Proof. induction l as [|a l IH]; intros acc; [reflexivity|]. cbn [fold_left map]. exact (IH _). Qed.

(** ** Part 3: [invb] of the abstraction, from [IdInv], [WF] and [K] *)
Section Reach.
  Variables (rs rm : M.name -> Z) (ro : M.acct -> Z) (nlen : Z -> Z).
  Variable s : M.state.
  Hypothesis I : MP.IdInv s.
  Hypothesis W : MW.WF s.
  Hypothesis Hk : K s.
  Hypothesis rs_inj : inj_on rs (map fst (M.tokens s)).
  Hypothesis rm_inj : inj_on rm (map fst (M.minunits s)).
  Hypothesis rm_nn : forall n, 0 <= rm n.
  Hypothesis ro_nn : forall a, 0 <= a -> 0 <= ro a.
  Hypothesis nlen_ok : forall nm, 0 <= nm -> 0 < nlen nm <= 32.

  Notation FT := (ft rs rm ro nlen).
  Notation T := (osort lt1 (map FT (M.tokens s))).

  Lemma nd_tok : NoDup (map fst (M.tokens s)). Proof. exact (MW.wf_tok _ W). Qed.
  Lemma nd_mu : NoDup (map fst (M.minunits s)). Proof. exact (MW.wf_mu _ W). Qed.

  Lemma nd_T0 : NoDup (map fst (map FT (M.tokens s))).
  Proof.
    replace (map fst (map FT (M.tokens s))) with (map rs (map fst (M.tokens s))) by (rewrite !map_map; reflexivity).
    apply NoDup_map_inj_on; [exact rs_inj|exact nd_tok].
  Qed.

  Lemma nd_M0 : NoDup (map fst (map (fm rs rm) (M.minunits s))).
  Proof.
    replace (map fst (map (fm rs rm) (M.minunits s))) with (map rm (map fst (M.minunits s))) by (rewrite !map_map; reflexivity).
    apply NoDup_map_inj_on; [exact rm_inj|exact nd_mu].
  Qed.

  Lemma in_T e : In e T <-> exists sym t, e = FT (sym, t) /\ get sym (M.tokens s) = Some t.
  Proof.
    rewrite (In_osort lt1 _ e nd_T0), in_map_iff. split.
    - intros ([sym t] & <- & Hin). exists sym, t. split; [reflexivity|]. apply NoDup_get_some; [exact nd_tok|exact Hin].
    - intros (sym & t & -> & Hg). exists (sym, t). split; [reflexivity|exact (get_In _ _ _ Hg)].
  Qed.

  Lemma T_perm : Permutation T (map FT (M.tokens s)).
  Proof. apply (osort_perm lt1 lt1_irrefl lt1_trans); [apply lt1_total_on|exact nd_T0]. Qed.

  Lemma mu_nodup : NoDup (map G.t_mu (map snd T)).
  Proof.
    apply (Permutation_NoDup (l := map G.t_mu (map snd (map FT (M.tokens s))))).
    - apply Permutation_sym. apply Permutation_map. apply Permutation_map. exact T_perm.
    - rewrite !map_map. cbn [snd ft abs_tok G.t_mu].
      apply NoDup_map_inj_on; [|apply (NoDup_map_inv fst); exact nd_tok].
      intros [s1 t1] [s2 t2] H1 H2 Heq. cbn [snd] in Heq.
      pose proof (NoDup_get_some _ _ _ nd_tok H1) as G1. pose proof (NoDup_get_some _ _ _ nd_tok H2) as G2.
      destruct (MP.id_sym _ I _ _ G1) as [_ M1]. destruct (MP.id_sym _ I _ _ G2) as [_ M2].
      assert (Hmu : M.t_minunit t1 = M.t_minunit t2).
      { apply rm_inj; [exact (in_map fst _ _ (get_In _ _ _ M1))|exact (in_map fst _ _ (get_In _ _ _ M2))|exact Heq]. }
      assert (s1 = s2) by exact (MP.minunit_injective s s1 s2 t1 t2 I G1 G2 Hmu). subst s2. congruence.
  Qed.

  Lemma mu_index_abs : osort lt1 (map (fm rs rm) (M.minunits s)) = G.mu_index_of (map snd T).
  Proof.
    unfold G.mu_index_of. rewrite fold_oins_map.
    change (fold_left (fun m (kv : Z * Z) => oins lt1 (fst kv) (snd kv) m) (map (fun t : G.token => (G.t_mu t, G.t_sym t)) (map snd T)) [])
      with (osort lt1 (map (fun t : G.token => (G.t_mu t, G.t_sym t)) (map snd T))).
    apply (sorted_ext lt1 lt1_irrefl lt1_asym); [apply sorted1|apply sorted1|]. intros x.
    assert (Hnd2 : NoDup (map fst (map (fun t : G.token => (G.t_mu t, G.t_sym t)) (map snd T)))).
    { rewrite map_map. cbn [fst]. exact mu_nodup. }
    rewrite (In_osort lt1 _ x nd_M0), (In_osort lt1 _ x Hnd2), !in_map_iff. split.
    - intros ([mu sym] & <- & Hin). pose proof (NoDup_get_some _ _ _ nd_mu Hin) as Hg.
      destruct (MP.id_mu _ I _ _ Hg) as (t & Ht & Hmu). exists (abs_tok rs rm ro nlen t). split.
      + unfold fm, abs_tok. cbn [fst snd G.t_mu G.t_sym]. destruct (MP.id_sym _ I _ _ Ht) as [Hs _]. rewrite Hmu, Hs. reflexivity.
      + apply in_map_iff. exists (FT (sym, t)). split; [reflexivity|]. apply in_T. eauto.
    - intros (gt & <- & Hin). apply in_map_iff in Hin. destruct Hin as (e & <- & He). apply in_T in He.
      destruct He as (sym & t & -> & Hg). destruct (MP.id_sym _ I _ _ Hg) as [Hs Hm].
      exists (M.t_minunit t, sym). split; [unfold fm, ft, abs_tok; cbn [fst snd G.t_mu G.t_sym]; rewrite Hs; reflexivity|].
      exact (get_In _ _ _ Hm).
  Qed.

  Lemma own_index_nonneg ts : (forall t, In t ts -> 0 <= G.t_owner t) -> forall acc,
    fold_left (fun m (t : G.token) => if G.t_owner t =? -1 then m else oins lt2 (G.t_owner t, G.t_sym t) (G.t_sym t) m) ts acc
    = fold_left (fun m (t : G.token) => oins lt2 (G.t_owner t, G.t_sym t) (G.t_sym t) m) ts acc.
  Proof.
    induction ts as [|t ts IH]; intros Hnn acc; [reflexivity|]. cbn [fold_left].
    assert (E : (G.t_owner t =? -1) = false) by (pose proof (Hnn t (or_introl eq_refl)); lia). rewrite E.
    apply IH. intros t' Ht'. apply Hnn. right. exact Ht'.
  Qed.

  Lemma tok_of_T gt : In gt (map snd T) -> exists sym t, gt = abs_tok rs rm ro nlen t /\ get sym (M.tokens s) = Some t /\ M.t_symbol t = sym.
  Proof.
    intros Hin. apply in_map_iff in Hin. destruct Hin as (e & <- & He). apply in_T in He. destruct He as (sym & t & -> & Hg).
    exists sym, t. split; [reflexivity|]. split; [exact Hg|exact (proj1 (MP.id_sym _ I _ _ Hg))].
  Qed.

  Lemma own_index_abs : osort lt2 (map (fo rs ro) (M.owned s)) = G.own_index_of (map snd T).
  Proof.
    destruct Hk as (K1 & K2 & _).
    unfold G.own_index_of. rewrite own_index_nonneg.
    2:{ intros gt Hin. destruct (tok_of_T gt Hin) as (sym & t & -> & Hg & _). cbn [abs_tok G.t_owner]. apply ro_nn. exact (proj2 (proj2 (proj2 (proj2 (proj2 (proj2 (K1 _ _ Hg))))))). }
    rewrite (fold_oins_map lt2 (fun t : G.token => (G.t_owner t, G.t_sym t)) G.t_sym).
    change (fold_left (fun m (kv : (Z * Z) * Z) => oins lt2 (fst kv) (snd kv) m) (map (fun t : G.token => ((G.t_owner t, G.t_sym t), G.t_sym t)) (map snd T)) [])
      with (osort lt2 (map (fun t : G.token => ((G.t_owner t, G.t_sym t), G.t_sym t)) (map snd T))).
    apply (sorted_ext lt2 lt2_irrefl lt2_asym); [apply sorted2|apply sorted2|]. intros x.
    rewrite (In_osort2_fun (fun k : Z * Z => snd k)), (In_osort2_fun (fun k : Z * Z => snd k)).
    2:{ intros y Hy. apply in_map_iff in Hy. destruct Hy as (gt & <- & _). reflexivity. }
    2:{ intros y Hy. apply in_map_iff in Hy. destruct Hy as (e & <- & _). reflexivity. }
    rewrite !in_map_iff. split.
    - intros ([o sym] & <- & Hin). apply K2 in Hin. destruct Hin as (t & Hg & Ho).
      exists (abs_tok rs rm ro nlen t). split.
      + unfold fo, abs_tok. cbn [fst snd G.t_owner G.t_sym]. rewrite Ho, (proj1 (MP.id_sym _ I _ _ Hg)). reflexivity.
      + apply in_map_iff. exists (FT (sym, t)). split; [reflexivity|]. apply in_T. eauto.
    - intros (gt & <- & Hin). destruct (tok_of_T gt Hin) as (sym & t & -> & Hg & Hs).
      exists (M.t_owner t, sym). split; [unfold fo, abs_tok; cbn [fst snd G.t_owner G.t_sym]; rewrite Hs; reflexivity|].
      apply K2. eauto.
  Qed.

  Theorem reachable_token_state : G.invb (abs rs rm ro nlen s) = true.
  Proof.
    pose proof Hk as (K1 & K2 & K3 & ((P1 & P2 & P3) & P4) & (tf & K5)).
    assert (H1 : sortedb lt1 T = true) by (apply (sorted_sortedb lt1); apply sorted1).
    assert (H2 : forallb G.key_ok T = true).
    { apply forallb_forall. intros e He. apply in_T in He. destruct He as (sym & t & -> & Hg).
      unfold G.key_ok, ft, abs_tok. cbn [fst snd G.t_sym]. rewrite (proj1 (MP.id_sym _ I _ _ Hg)). apply Z.eqb_refl. }
    assert (H3 : nodupb (map G.t_mu (map snd T)) = true) by (apply NoDup_nodupb; exact mu_nodup).
    assert (H4 : forallb G.token_ok (map snd T) = true).
    { apply forallb_forall. intros gt Hin. destruct (tok_of_T gt Hin) as (sym & t & -> & Hg & _).
      destruct (K1 _ _ Hg) as (G1 & G2 & G3 & G4 & G5 & G6 & G7). pose proof (nlen_ok _ G3). pose proof (ro_nn _ G7).
      unfold G.token_ok, abs_tok. cbn [G.t_owner G.t_name_len G.t_sym_ok G.t_mu_ok G.t_init G.t_max G.t_scale].
      rewrite G1, G2. unfold G.max_init. unfold M.MAXINIT in G4. lia. }
    assert (H5 : eqb (osort lt1 (map (fm rs rm) (M.minunits s))) (G.mu_index_of (map snd T)) = true)
      by (apply Prelude.eqb_true_iff; exact mu_index_abs).
    assert (H6 : eqb (osort lt2 (map (fo rs ro) (M.owned s))) (G.own_index_of (map snd T)) = true)
      by (apply Prelude.eqb_true_iff; exact own_index_abs).
    assert (H7 : sortedb lt1 (osort lt1 (map (fb rm) (M.burned s))) = true) by (apply (sorted_sortedb lt1); apply sorted1).
    assert (H8 : forallb G.coin_ok (osort lt1 (map (fb rm) (M.burned s))) = true).
    { apply forallb_forall. intros e He. apply In_osort1 in He. apply in_map_iff in He. destruct He as ([d v] & <- & Hin).
      pose proof (K3 _ _ Hin). pose proof (rm_nn d). unfold G.coin_ok, fb. cbn [fst snd]. lia. }
    assert (H9 : G.params_ok (abs_prm rs (M.pars s)) = true).
    { unfold G.params_ok, abs_prm, G.one_dec. cbn [G.p_tax G.p_ratio G.p_fee G.p_beacon snd].
      unfold Irismod.Base.Dec.P18 in P1, P2. destruct (M.p_beacon (M.pars s)); lia. }
    assert (H10 : has (fst (G.p_fee (abs_prm rs (M.pars s)))) T = true).
    { unfold abs_prm. cbn [G.p_fee fst]. unfold has. rewrite (get_osort lt1 _ _ nd_T0).
      rewrite (NoDup_get_some _ (rs (M.p_fee_denom (M.pars s))) (abs_tok rs rm ro nlen tf) nd_T0); [reflexivity|].
      apply in_map_iff. exists (M.p_fee_denom (M.pars s), tf). split; [reflexivity|exact (get_In _ _ _ K5)]. }
    unfold G.invb. do 9 (apply andb_true_intro; split; [|first [exact H10|exact H9|exact H8|exact H7|exact H6|exact H5|exact H4|exact H3|exact H2]]). exact H1.
  Qed.
End Reach.

(** ** Part 4: C12 over histories of the token model (no free-standing invariant) *)
Lemma run_WF ms : forall s, MP.IdInv s -> MW.WF s -> MW.WF (M.run s ms).
Proof.
  induction ms as [|m ms IH]; intros s I W; [exact W|]. cbn [M.run fold_left].
  apply IH; [apply MP.step_IdInv; exact I|apply MW.step_WF; assumption].
Qed.

Section Hist.
  Variables (rs rm : M.name -> Z) (ro : M.acct -> Z) (nlen : Z -> Z).
  Hypothesis rm_nn : forall n, 0 <= rm n.
  Hypothesis ro_nn : forall a, 0 <= a -> 0 <= ro a.
  Hypothesis nlen_ok : forall nm, 0 <= nm -> 0 < nlen nm <= 32.
  (** the harness genesis (the native token; parameters that pass Params.Validate, the native symbol as fee
      denom), then any C09 messages *)
  Variable p : M.params.
  Variable balances : amap (M.acct * M.name) Z.
  Variable ss : Z.
  Variable reg : amap M.name (M.name * Z).
  Variable ms : list M.msg.
  Hypothesis Hp : pars_good p.
  Hypothesis Hf : M.p_fee_denom p = M.STAKE.
  Hypothesis Hb : NoDup (keys balances).
  Hypothesis Hms : Forall MW.c09_msg ms.
  Let s := M.run (M.genesis p balances ss reg) ms.
  Hypothesis rs_inj : inj_on rs (map fst (M.tokens s)).
  Hypothesis rm_inj : inj_on rm (map fst (M.minunits s)).

  Theorem reachable_token : G.invb (abs rs rm ro nlen s) = true.
  Proof.
    pose proof (MC.reg_id _ (MC.genesis_RegInv p balances ss reg)) as I0.
    apply (reachable_token_state rs rm ro nlen s);
      first [ exact (MP.run_IdInv ms _ I0)
            | exact (run_WF ms _ I0 (MW.genesis_WF p balances ss reg Hb))
            | exact (run_K ms _ I0 Hms (genesis_K p balances ss reg Hp Hf))
            | assumption ].
  Qed.

  Theorem token_history_export_validates : G.validate false (G.export (abs rs rm ro nlen s)) = true.
  Proof. apply GP.token_export_validates_lemma. exact reachable_token. Qed.

  (** import does not panic and gives back the state itself *)
  Theorem token_history_roundtrip : G.import false (G.export (abs rs rm ro nlen s)) = Some (abs rs rm ro nlen s).
  Proof. apply GP.token_roundtrip. exact reachable_token. Qed.

  Theorem token_history_fixpoint_and_queries :
    exists s', G.import false (G.export (abs rs rm ro nlen s)) = Some s'
      /\ G.export s' = G.export (abs rs rm ro nlen s) /\ G.queries s' = G.queries (abs rs rm ro nlen s).
  Proof. exists (abs rs rm ro nlen s). split; [exact token_history_roundtrip|split; reflexivity]. Qed.
End Hist.

(** ** non-vacuity: the history of [Props/C09.c09_nonvacuous] (an issue, a burn, edits, an ownership transfer,
    mints; five of the eleven messages rejected) satisfies every hypothesis; the abstraction holds two tokens,
    two owner-index entries (the second token under its NEW owner) and one burned total *)
Definition ex_p : M.params := M.mkParams 400000000000000000 100000000000000000 60000 M.STAKE true true.
Definition ex_bal : amap (M.acct * M.name) Z := [((0, M.STAKE), 1000000000); ((1, M.STAKE), 1000000000)].
Definition ex_ms : list M.msg :=
  [ M.Issue 0 (0, 3) (6, 4) 1 6 11 11 true; M.Burn 0 (6, 4) 500000; M.Edit 0 (0, 3) 0 10 0; M.Edit 1 (0, 3) 0 20 0;
    M.Transfer 0 1 (0, 3); M.Mint 0 (-2) (6, 4) 1; M.Mint 1 (-2) (6, 4) 500000; M.Mint 1 (-2) (6, 4) 1;
    M.Edit 1 (0, 3) 0 0 2; M.Edit 1 (0, 3) 0 12 0; M.Mint 1 (-2) (6, 4) 1 ].
Definition ex_num (n : M.name) : Z := Z.abs (fst n).
Definition ex_abs := abs ex_num ex_num (fun a => a) (fun _ => 5).

Example link_token_nonvacuous :
  let s := M.run (M.genesis ex_p ex_bal 2000000000 []) ex_ms in
  pars_good ex_p /\ M.p_fee_denom ex_p = M.STAKE /\ NoDup (keys ex_bal) /\ Forall MW.c09_msg ex_ms
  /\ inj_on ex_num (map fst (M.tokens s)) /\ inj_on ex_num (map fst (M.minunits s))
  /\ map fst (G.tokens (ex_abs s)) = [0; 100] /\ map fst (G.own_idx (ex_abs s)) = [(1, 0); (100, 100)]
  /\ G.burned (ex_abs s) = [(6, 500000)]
  /\ G.invb (ex_abs s) = true /\ G.import false (G.export (ex_abs s)) = Some (ex_abs s).
Proof.
  cbv zeta. split; [unfold pars_good, ex_p, Irismod.Base.Dec.P18; cbn; lia|]. split; [reflexivity|].
  split; [repeat constructor; simpl; intuition discriminate|].
  split; [repeat constructor; unfold M.MODULE, M.FEECOL; lia|].
  split.
  { intros a b Ha Hb. vm_compute in Ha, Hb.
    repeat (destruct Ha as [<-|Ha]; [repeat (destruct Hb as [<-|Hb]; [intros H; first [reflexivity | vm_compute in H; discriminate H]|]); destruct Hb|]).
    destruct Ha. }
  split.
  { intros a b Ha Hb. vm_compute in Ha, Hb.
    repeat (destruct Ha as [<-|Ha]; [repeat (destruct Hb as [<-|Hb]; [intros H; first [reflexivity | vm_compute in H; discriminate H]|]); destruct Hb|]).
    destruct Ha. }
  vm_compute. repeat split; reflexivity.
Qed.

(** ** Part 5 (round 5): histories that also contain the conversion messages.  Fee-token swaps, conversions to and
    from ERC20, the EVM hook, EVM-mode switches (harness double) and beacon upgrades touch only parts of the
    token group's state that are OUTSIDE the exported genesis — bank ledger and supply, the ERC20 ledger [erc20]
    (it lives in the EVM), [evm_mode], [registry] — so [K] (and with it the genesis-level invariant) survives them
    whatever they do.  NOT covered: [Deploy] (it writes a token's Contract field and may create a token under an
    ERC20-style name; the genesis-level model carries no contract field and the harness reports a token that has
    one).  Without a deployment no token has a contract, so the conversions are all refused; the statement does not
    need that. *)
Definition conv_msg (m : M.msg) : Prop :=
  match m with
  | M.SwapFee _ _ _ _ | M.ToErc20 _ _ _ _ | M.FromErc20 _ _ _ _ | M.EvmMode _ | M.HookToNative _ _ _ _ | M.UpgradeErc20 _ _ => True
  | _ => False
  end.
Definition link_msg (m : M.msg) : Prop := MW.c09_msg m \/ conv_msg m.

Lemma handle_K_conv s m s' : K s -> conv_msg m -> M.handle s m = M.ROk s' -> K s'.
Proof.
  intros Hk Hm H. destruct m; simpl in Hm; try contradiction; simpl in H.
  - (* SwapFee *) eapply K_bank_only; [eapply MP.do_swapfee_only; eassumption|exact Hk].
  - (* ToErc20 *)
    apply MC.do_to_erc20_inv in H. destruct H as (t & s1 & s2 & _ & _ & _ & Hs & Hb & ->).
    assert (K2 : K s2).
    { eapply K_bank_only; [eapply MB.bank_burn_only; eassumption|]. eapply K_bank_only; [eapply MB.bank_send_only; eassumption|exact Hk]. }
    exact K2.
  - (* FromErc20 *)
    apply MC.do_from_erc20_inv in H. destruct H as (t & s2 & _ & _ & _ & _ & Hmi & Hp).
    eapply K_bank_only; [eapply MB.bank_pay_only; eassumption|]. eapply K_bank_only; [eapply MB.bank_mint_only; eassumption|]. exact Hk.
  - (* EvmMode *) inversion H. exact Hk.
  - (* HookToNative *)
    apply MP.do_hook_inv in H. destruct H as (sym0 & t & s2 & _ & _ & _ & _ & _ & _ & Hmi & Hp).
    eapply K_bank_only; [eapply MB.bank_pay_only; eassumption|]. eapply K_bank_only; [eapply MB.bank_mint_only; eassumption|]. exact Hk.
  - (* UpgradeErc20 *) apply MP.do_upgrade_inv in H. subst s'. exact Hk.
Qed.

Lemma step_K2 s m : MP.IdInv s -> link_msg m -> K s -> K (M.step s m).
Proof.
  intros I [Hm|Hm] Hk; [exact (step_K s m I Hm Hk)|].
  destruct (MP.step_cases s m) as [(s' & E & ->)|[_ ->]]; [|exact Hk].
  apply MP.exec_inv in E. destruct E as [_ E]. exact (handle_K_conv s m s' Hk Hm E).
Qed.

Lemma run_K2 ms : forall s, MP.IdInv s -> Forall link_msg ms -> K s -> K (M.run s ms).
Proof.
  induction ms as [|m ms IH]; intros s I Hms Hk; [exact Hk|]. inversion Hms as [|? ? Hm Hms']; subst.
  apply IH; [apply MP.step_IdInv; exact I|exact Hms'|apply step_K2; assumption].
Qed.

Section Hist2.
  Variables (rs rm : M.name -> Z) (ro : M.acct -> Z) (nlen : Z -> Z).
  Hypothesis rm_nn : forall n, 0 <= rm n.
  Hypothesis ro_nn : forall a, 0 <= a -> 0 <= ro a.
  Hypothesis nlen_ok : forall nm, 0 <= nm -> 0 < nlen nm <= 32.
  Variable p : M.params.
  Variable balances : amap (M.acct * M.name) Z.
  Variable ss : Z.
  Variable reg : amap M.name (M.name * Z).
  Variable ms : list M.msg.
  Hypothesis Hp : pars_good p.
  Hypothesis Hf : M.p_fee_denom p = M.STAKE.
  Hypothesis Hb : NoDup (keys balances).
  Hypothesis Hms : Forall link_msg ms.
  Let s := M.run (M.genesis p balances ss reg) ms.
  Hypothesis rs_inj : inj_on rs (map fst (M.tokens s)).
  Hypothesis rm_inj : inj_on rm (map fst (M.minunits s)).

  Theorem reachable_token_conv : G.invb (abs rs rm ro nlen s) = true.
  Proof.
    pose proof (MC.reg_id _ (MC.genesis_RegInv p balances ss reg)) as I0.
    apply (reachable_token_state rs rm ro nlen s);
      first [ exact (MP.run_IdInv ms _ I0)
            | exact (run_WF ms _ I0 (MW.genesis_WF p balances ss reg Hb))
            | exact (run_K2 ms _ I0 Hms (genesis_K p balances ss reg Hp Hf))
            | assumption ].
  Qed.

  Theorem token_history_conv_export_validates : G.validate false (G.export (abs rs rm ro nlen s)) = true.
  Proof. apply GP.token_export_validates_lemma. exact reachable_token_conv. Qed.

  Theorem token_history_conv_roundtrip : G.import false (G.export (abs rs rm ro nlen s)) = Some (abs rs rm ro nlen s).
  Proof. apply GP.token_roundtrip. exact reachable_token_conv. Qed.
End Hist2.

(** non-vacuity: a swap of the fee token, an EVM-mode switch and (refused) conversions between the C09 messages *)
Example link_token_conv_nonvacuous :
  let ms := [ M.Issue 0 (0, 3) (6, 4) 1 6 11 11 true; M.EvmMode 2; M.ToErc20 0 1 (6, 4) 5; M.FromErc20 1 0 (6, 4) 5;
              M.SwapFee 0 (-2) (6, 4) 10; M.UpgradeErc20 M.GOV 7; M.HookToNative 1 0 1 3; M.Burn 0 (6, 4) 500000 ] in
  let s := M.run (M.genesis ex_p ex_bal 2000000000 []) ms in
  Forall link_msg ms
  /\ inj_on ex_num (map fst (M.tokens s)) /\ inj_on ex_num (map fst (M.minunits s))
  /\ G.burned (ex_abs s) = [(6, 500000)] /\ G.invb (ex_abs s) = true.
Proof.
  cbv zeta. split.
  { repeat (apply Forall_cons; [first [right; exact Logic.I | left; simpl; unfold MW.ordinary, M.MODULE, M.FEECOL; first [exact Logic.I | lia]]|]). apply Forall_nil. }
  split.
  { intros a b Ha Hb. vm_compute in Ha, Hb.
    repeat (destruct Ha as [<-|Ha]; [repeat (destruct Hb as [<-|Hb]; [intros H; first [reflexivity | vm_compute in H; discriminate H]|]); destruct Hb|]).
    destruct Ha. }
  split.
  { intros a b Ha Hb. vm_compute in Ha, Hb.
    repeat (destruct Ha as [<-|Ha]; [repeat (destruct Hb as [<-|Hb]; [intros H; first [reflexivity | vm_compute in H; discriminate H]|]); destruct Hb|]).
    destruct Ha. }
  vm_compute. split; reflexivity.
Qed.
