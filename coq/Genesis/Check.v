(** * C12: all per-module correspondence / property checks in one place. *)
From Irismod Require Genesis.Record Genesis.Htlc Genesis.Mt Genesis.Coinswap Genesis.Token Genesis.Nft Genesis.Random Genesis.Farm Genesis.Oracle Genesis.Service.

Definition check_record := Genesis.Record.check_record.
Definition check_htlc := Genesis.Htlc.check_htlc.
Definition check_mt := Genesis.Mt.check_mt.
Definition check_coinswap := Genesis.Coinswap.check_coinswap.
Definition check_token := Genesis.Token.check_token.
Definition check_nft := Genesis.Nft.check_nft.
Definition check_random := Genesis.Random.check_random.
Definition check_farm := Genesis.Farm.check_farm.
Definition check_oracle := Genesis.Oracle.check_oracle.
Definition check_service := Genesis.Service.check_service.
