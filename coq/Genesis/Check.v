(** * C12: all per-module correspondence / property checks in one place. *)
From Irismod Require Genesis.Record Genesis.Htlc Genesis.Mt Genesis.Coinswap Genesis.Token.

Definition check_record := Genesis.Record.check_record.
Definition check_htlc := Genesis.Htlc.check_htlc.
Definition check_mt := Genesis.Mt.check_mt.
Definition check_coinswap := Genesis.Coinswap.check_coinswap.
Definition check_token := Genesis.Token.check_token.
