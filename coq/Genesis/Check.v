(** * C12: all per-module correspondence / property checks in one place. *)
From Irismod Require Export Genesis.Record.

Definition check_all (c : Genesis.Record.case) : Z * Z * Z := check_record c.
