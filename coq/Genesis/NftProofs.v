(** * NFT: proofs about export / validate / import (C12) *)
From Irismod Require Import Genesis.Nft.

Ltac split_andb H :=
  repeat match type of H with
         | (_ && _) = true => let H1 := fresh "Hi" in apply andb_true_iff in H; destruct H as [H H1]
         end.

Lemma imp_nfts_ok l : forall ns,
  (forall n, In n l -> ~ In (fst n) (map fst ns)) -> NoDup (map fst l) ->
  imp_nfts l ns = Some (fold_left (fun m n => oins lt1 (fst n) (snd n) m) l ns).
Proof.
  induction l as [|n l IH]; intros ns Hd Hnd; simpl; [reflexivity|].
  rewrite (has_false_notin (fst n) ns) by (apply Hd; left; reflexivity).
  inversion Hnd as [|? ? H1 H2]; subst. apply IH; [|exact H2].
  intros n' Hin Hk. apply keys_oins_inv in Hk. destruct Hk as [Heq|Hk].
  - apply H1. rewrite <- Heq. apply in_map. exact Hin.
  - exact (Hd n' (or_intror Hin) Hk).
Qed.

Lemma imp_nfts_sorted l : sortedb lt1 l = true -> imp_nfts l [] = Some l.
Proof.
  intros Hs. rewrite imp_nfts_ok.
  - f_equal. apply (oof_list_sorted lt1 lt1_irrefl lt1_asym). apply (sortedb_sorted lt1 lt1_trans). exact Hs.
  - intros n _ [].
  - apply (sorted_keys_NoDup lt1 lt1_irrefl). apply (sortedb_sorted lt1 lt1_trans). exact Hs.
Qed.

Lemma imp_cols_ok g : forall cs,
  (forall c, In c g -> ~ In (fst c) (map fst cs)) -> NoDup (map fst g) ->
  (forall c, In c g -> col_ok c = true) ->
  imp_cols g cs = Some (fold_left (fun m c => oins lt1 (fst c) (snd c) m) g cs).
Proof.
  induction g as [|c g IH]; intros cs Hd Hnd Hok; simpl; [reflexivity|].
  pose proof (Hok c (or_introl eq_refl)) as Hc. unfold col_ok in Hc. split_andb Hc.
  assert (Hcr : (d_creator (c_info c) <? 0) = false) by lia. rewrite Hcr.
  rewrite (has_false_notin (fst c) cs) by (apply Hd; left; reflexivity).
  rewrite (imp_nfts_sorted (c_nfts c) Hc).
  inversion Hnd as [|? ? H1 H2]; subst.
  assert (Hsnd : (c_info c, c_nfts c) = snd c) by (destruct c as [k [d ns]]; reflexivity).
  rewrite Hsnd. apply IH; [|exact H2|intros c' Hin; apply Hok; right; exact Hin].
  intros c' Hin Hk. apply keys_oins_inv in Hk. destruct Hk as [Heq|Hk].
  - apply H1. rewrite <- Heq. apply in_map. exact Hin.
  - exact (Hd c' (or_intror Hin) Hk).
Qed.

Lemma validate_of_ok fx g : sortedb lt1 g = true -> forallb col_ok g = true -> validate fx g = true.
Proof.
  unfold validate. intros Hs Hall. apply andb_true_iff. split.
  - rewrite forallb_forall in *. intros c Hin. specialize (Hall c Hin).
    unfold col_ok in Hall. split_andb Hall. rewrite Hi0, Hi. reflexivity.
  - destruct fx; [|reflexivity]. unfold wf. rewrite (sortedb_keys_nodupb _ Hs). simpl.
    rewrite forallb_forall in *. intros c Hin. specialize (Hall c Hin). unfold col_ok in Hall. split_andb Hall.
    unfold c_info, c_nfts in *. rewrite Hi1. simpl. apply sortedb_keys_nodupb. exact Hall.
Qed.

Lemma nft_roundtrip fx s : invb s = true -> import fx (export s) = Some s.
Proof.
  unfold invb. intros Hinv. apply andb_true_iff in Hinv. destruct Hinv as [Hs Hok].
  unfold import, export. rewrite (validate_of_ok fx s Hs Hok). simpl.
  rewrite imp_cols_ok.
  - f_equal. apply (oof_list_sorted lt1 lt1_irrefl lt1_asym). apply (sortedb_sorted lt1 lt1_trans). exact Hs.
  - intros c _ [].
  - apply (sorted_keys_NoDup lt1 lt1_irrefl). apply (sortedb_sorted lt1 lt1_trans). exact Hs.
  - intros c Hin. rewrite forallb_forall in Hok. apply Hok. exact Hin.
Qed.

Lemma validate_split g : validate true g = validate false g && wf g.
Proof. unfold validate. destruct (forallb (fun c => d_id_ok (c_info c) && forallb (fun n => n_ok (snd n)) (c_nfts c)) g); simpl; reflexivity. Qed.

Lemma import_switch g : validate false g = true -> validate true g = true -> import false g = import true g.
Proof. intros H1 H2. unfold import. rewrite H1, H2. reflexivity. Qed.

Lemma nft_export_validates_lemma s : invb s = true -> validate false (export s) = true.
Proof.
  intros Hinv. pose proof (nft_roundtrip false s Hinv) as Hr. unfold import in Hr.
  destruct (validate false (export s)); [reflexivity|discriminate].
Qed.

Lemma nft_export_wellformed_lemma s : invb s = true -> wf (export s) = true.
Proof.
  intros Hinv. pose proof (nft_roundtrip true s Hinv) as Hr. unfold import in Hr.
  destruct (validate true (export s)) eqn:E; [|discriminate]. rewrite validate_split in E.
  apply andb_true_iff in E. tauto.
Qed.

Lemma nft_import_total_lemma s : invb s = true -> import false (export s) <> None.
Proof. intros Hinv. rewrite (nft_roundtrip false s Hinv). discriminate. Qed.

Lemma nft_export_fixpoint_lemma s :
  invb s = true -> exists s', import false (export s) = Some s' /\ export s' = export s.
Proof. intros Hinv. exists s. split; [apply nft_roundtrip; exact Hinv|reflexivity]. Qed.

Lemma nft_queries_preserved_lemma s :
  invb s = true -> exists s', import false (export s) = Some s' /\ queries s' = queries s.
Proof. intros Hinv. exists s. split; [apply nft_roundtrip; exact Hinv|reflexivity]. Qed.

(** Remark (outside C12): a hand-made genesis with a repeated NFT id passes ValidateGenesis and makes
    InitGenesis panic — the well-formedness is not validated by the code *)
Lemma nft_handmade_genesis_can_panic_lemma : exists g, validate false g = true /\ wf g = false /\ import false g = None.
Proof.
  exists [(1, ((0, true, 0, 0), [(1, (0, true, true, 0)); (1, (2, true, true, 0))]))].
  repeat split; vm_compute; reflexivity.
Qed.

Lemma imp_cols_total g : forall cs,
  (forall c, In c g -> ~ In (fst c) (map fst cs)) -> NoDup (map fst g) ->
  (forall c, In c g -> 0 <= d_creator (c_info c) /\ NoDup (map fst (c_nfts c))) ->
  imp_cols g cs <> None.
Proof.
  induction g as [|c g IH]; intros cs Hd Hnd Hok; simpl; [discriminate|].
  destruct (Hok c (or_introl eq_refl)) as [Hcr Hn].
  assert (Hcr' : (d_creator (c_info c) <? 0) = false) by lia. rewrite Hcr'.
  rewrite (has_false_notin (fst c) cs) by (apply Hd; left; reflexivity).
  rewrite imp_nfts_ok; [|intros n _ []|exact Hn].
  inversion Hnd as [|? ? H1 H2]; subst.
  apply IH; [|exact H2|intros c' Hin; apply Hok; right; exact Hin].
  intros c' Hin Hk. apply keys_oins_inv in Hk. destruct Hk as [Heq|Hk].
  - apply H1. rewrite <- Heq. apply in_map. exact Hin.
  - exact (Hd c' (or_intror Hin) Hk).
Qed.

(** ... and any validated AND well-formed genesis imports *)
Lemma nft_import_total_wf_lemma g : validate false g = true -> wf g = true -> import false g <> None.
Proof.
  intros Hv Hw. unfold import. rewrite Hv. simpl. unfold wf in Hw. apply andb_true_iff in Hw. destruct Hw as [Hi0 Hi].
  apply imp_cols_total; [intros c _ []|apply nodupb_NoDup; exact Hi0|].
  intros c Hin. rewrite forallb_forall in Hi. specialize (Hi c Hin). apply andb_true_iff in Hi. destruct Hi as [A B].
  split; [unfold c_info; lia|apply nodupb_NoDup; exact B].
Qed.

Definition wit_s : state :=
  [(1, ((0, true, 1, 7), [(1, (0, true, true, 3)); (2, (1, true, true, 4))])); (2, ((1, true, 0, 8), []))].
