(** * Farm: export / validate / import  (modules/farm/genesis.go, types/genesis.go,
      types/validation.go, types/params.go, keeper/{pool,queue,farmer}.go)

    A pool id "farm-N" is the number N that [ValidatepPoolId] yields (-1: invalid); histories keep
    N below 10, where the byte order of the ids is the numeric order.  Denominations are numbered
    in byte order (-1: not a valid denomination), farmers' addresses in the byte order of their
    bech32 strings (-1: not an address); decimals are scaled by 10^18; descriptions are interned,
    with their length.  The pool record is taken without its embedded copy of the rules (the rule
    store is authoritative: [ExportGenesis] overwrites the embedded copy).  Escrow infos of
    community-pool proposals are absent from every generated state (the harness reports one). *)
From Irismod Require Export Genesis.Store.

Definition coin := (Z * Z)%type.
Record rule := mkRule { u_denom : Z; u_total : Z; u_remaining : Z; u_per_block : Z; u_per_share : Z }.
Record pool := mkPool {
  p_id : Z; p_creator : Z; p_desc : Z; p_desc_len : Z; p_start : Z; p_end : Z; p_last : Z;
  p_editable : bool; p_lpt : coin
}.
Record farmer := mkFarmer { f_pool : Z; f_addr : Z; f_locked : Z; f_debt : list coin }.
Record params := mkParams { m_fee : coin; m_max_cat : Z; m_tax : Z }.

#[export] Instance EqDec_rule : EqDec rule.
Proof. intros x y. decide equality; apply eq_dec. Defined.
#[export] Instance EqDec_pool : EqDec pool.
Proof. intros x y. decide equality; apply eq_dec. Defined.
#[export] Instance EqDec_farmer : EqDec farmer.
Proof. intros x y. decide equality; apply eq_dec. Defined.
#[export] Instance EqDec_params : EqDec params.
Proof. intros x y. decide equality; apply eq_dec. Defined.

Record state := mkState {
  prm : params;
  seq : Z;
  pools : list (Z * (pool * list (Z * rule)));   (* 0x06 pool id -> pool, with its rules 0x02 pool id, reward denom -> rule
                                                    (the harness reports a rule whose pool does not exist) *)
  farmers : list ((Z * Z) * farmer);             (* 0x03 address, pool id -> farm info *)
  queue : list ((Z * Z) * unit)                  (* 0x04 end height, pool id *)
}.
Record genesis := mkGenesis {
  g_prm : params; g_pools : list (pool * list rule); g_farmers : list farmer; g_seq : Z
}.
#[export] Instance EqDec_state : EqDec state.
Proof. intros x y. decide equality; apply eq_dec. Defined.
#[export] Instance EqDec_genesis : EqDec genesis.
Proof. intros x y. decide equality; apply eq_dec. Defined.

(** ExportGenesis *)
Definition export (s : state) : genesis :=
  mkGenesis (prm s) (map (fun e => (fst (snd e), map snd (snd (snd e)))) (pools s)) (map snd (farmers s)) (seq s).

(** types.ValidateGenesis *)
(** sdk.NewCoins(c...).Validate(): zero coins are dropped first; a negative amount, an invalid
    denomination or a repeated denomination is an error (a panic inside NewCoins counts as one) *)
Definition coins_valid (l : list coin) : bool :=
  forallb (fun c => (0 <=? snd c) && (0 <=? fst c)) l
  && nodupb (map fst (filter (fun c => negb (snd c =? 0)) l)).

(** [fix_rps]: the repaired validation (commit "fix: farm genesis validation accepts a reward per
    share truncated to zero") only rejects a negative reward per share *)
Definition rule_ok (fix_rps : bool) (p : pool) (r : rule) : bool :=
  (0 <=? u_denom r) && (0 <? u_total r) && (0 <=? u_remaining r) && (0 <? u_per_block r)
  && (if fix_rps then 0 <=? u_per_share r
      else (0 <? u_per_share r) || (u_remaining r =? u_total r) || (p_end p =? p_last p)).
Definition pool_ok (fix_rps : bool) (pr : pool * list rule) : bool :=
  let p := fst pr in
  (0 <? p_id p) && (p_desc_len p <=? 280) && (0 <=? p_creator p) && coins_valid [p_lpt p]
  && forallb (rule_ok fix_rps p) (snd pr).
Definition farmer_ok (f : farmer) : bool :=
  (0 <? f_pool f) && (0 <=? f_addr f) && (0 <? f_locked f) && coins_valid (f_debt f).
Fixpoint zmax_list (l : list Z) : Z := match l with [] => 0 | x :: l' => Z.max x (zmax_list l') end.
Definition fee_valid (p : params) : bool := (0 <=? fst (m_fee p)) && (0 <=? snd (m_fee p)).
Definition one_dec : Z := 1000000000000000000.
(** Params.Validate (as SetParams calls it): the fee is a valid coin, 0 < tax rate < 1 *)
Definition params_valid (p : params) : bool := fee_valid p && (0 <? m_tax p) && (m_tax p <? one_dec).
(** [fix_v] = false is the code's ValidateGenesis.  [wf] is the well-formedness InitGenesis relies on and
    the code does NOT validate (every farmer's pool is in the genesis, SetParams accepts the parameters);
    every EXPORTED genesis has it (proved); [fix_v] = true adds [wf]. *)
Definition wf (g : genesis) : bool :=
  forallb (fun f => existsb (Z.eqb (f_pool f)) (map (fun pr => p_id (fst pr)) (g_pools g))) (g_farmers g)
  && params_valid (g_prm g).
Definition validate (fix_rps fix_v : bool) (g : genesis) : bool :=
  forallb (pool_ok fix_rps) (g_pools g)
  && (zmax_list (map (fun pr => p_id (fst pr)) (g_pools g)) <=? g_seq g)
  && forallb farmer_ok (g_farmers g)
  && coins_valid [m_fee (g_prm g)]
  && (if fix_v then wf g else true).

(** InitGenesis at block height [h].  Keeper.Expired: above the end height, or AT the end height when
    the pool is not in the queue.  [fix_q]: the repaired import (commit "fix: farm InitGenesis
    re-enqueues a pool that ends at the import height") enqueues every pool with end height >= h. *)
Definition expired (h : Z) (q : list ((Z * Z) * unit)) (p : pool) : bool :=
  (p_end p <? h) || ((h =? p_end p) && negb (has (p_end p, p_id p) q)).
Definition pstore := list (Z * (pool * list (Z * rule))).
Definition getd {K V} `{EqDec K} (k : K) (m : list (K * V)) (d : V) : V := match get k m with Some x => x | None => d end.
(** SetRewardRule for every rule (added to the rules already stored under the pool id), SetPool, enqueue *)
Definition imp_pool (fix_q : bool) (h : Z) (acc : pstore * list ((Z * Z) * unit)) (pr : pool * list rule) :=
  let '(ps, q) := acc in
  let p := fst pr in
  let old := snd (getd (p_id p) ps (p, [])) in
  let rs' := fold_left (fun m r => oins lt1 (u_denom r) r m) (snd pr) old in
  let live := if fix_q then h <=? p_end p else negb (expired h q p) in
  (oins lt1 (p_id p) (p, rs') ps, if live then oins lt2 (p_end p, p_id p) tt q else q).
Fixpoint imp_farmers (ps : pstore) (l : list farmer) (fs : list ((Z * Z) * farmer)) : option (list ((Z * Z) * farmer)) :=
  match l with
  | [] => Some fs
  | f :: l' => if has (f_pool f) ps then imp_farmers ps l' (oins lt2 (f_addr f, f_pool f) f fs) else None
  end.
Definition import (fix_rps fix_q fix_v : bool) (h : Z) (g : genesis) : option state :=
  if negb (validate fix_rps fix_v g) then None
  else
    let '(ps, q) := fold_left (imp_pool fix_q h) (g_pools g) ([], []) in
    match imp_farmers ps (g_farmers g) [] with
    | None => None
    | Some fs => if params_valid (g_prm g) then Some (mkState (g_prm g) (g_seq g) ps fs q) else None
    end.

(** Queries: pools with their rules, farmers, parameters (the queue is internal but decides whether a
    pool is ever closed and its remaining reward refunded) *)
Definition view := (params * pstore * list ((Z * Z) * farmer))%type.
Definition queries (s : state) : view := (prm s, pools s, farmers s).

(** the queue as it must be at height [h]: the pools whose end height has not been processed *)
Definition queue_at (h : Z) (ps : pstore) : list ((Z * Z) * unit) :=
  fold_left (fun q e => if h <=? p_end (fst (snd e)) then oins lt2 (p_end (fst (snd e)), fst e) tt q else q) ps [].

(** reachable states ([h] = the height of the next block): the stores are in key order under the keys
    derived from the objects, every farmer's pool exists, the queue holds the pools still to be closed,
    the fields are what the handlers guarantee.  After the stake fix a stored farmer has a positive
    locked amount; before it, not ([fix_stake]). *)
Definition pool_fields_ok (p : pool) : bool :=
  (0 <? p_id p) && (p_desc_len p <=? 280) && (0 <=? p_creator p) && coins_valid [p_lpt p].
Definition rule_fields_ok (r : rule) : bool :=
  (0 <=? u_denom r) && (0 <? u_total r) && (0 <=? u_remaining r) && (0 <? u_per_block r) && (0 <=? u_per_share r).
Definition pentry_ok (s : state) (e : Z * (pool * list (Z * rule))) : bool :=
  (fst e =? p_id (fst (snd e))) && (fst e <=? seq s) && pool_fields_ok (fst (snd e))
  && sortedb lt1 (snd (snd e)) && forallb (fun x => (fst x =? u_denom (snd x)) && rule_fields_ok (snd x)) (snd (snd e)).
Definition farmer_fields_ok (fix_stake : bool) (f : farmer) : bool :=
  (0 <? f_pool f) && (0 <=? f_addr f) && (if fix_stake then 0 <? f_locked f else 0 <=? f_locked f) && coins_valid (f_debt f).
Definition invb (fix_stake : bool) (h : Z) (s : state) : bool :=
  sortedb lt1 (pools s) && forallb (pentry_ok s) (pools s)
  && sortedb lt2 (farmers s)
  && forallb (fun e => eqb (fst e) (f_addr (snd e), f_pool (snd e)) && has (f_pool (snd e)) (pools s)
                       && farmer_fields_ok fix_stake (snd e)) (farmers s)
  && eqb (queue s) (queue_at h (pools s))
  && coins_valid [m_fee (prm s)] && params_valid (prm s) && (0 <=? seq s).

(** ** Correspondence and the C12 predicate *)
Record run := mkRun {
  r_sA : state; r_gA : genesis; r_val : bool; r_imp : Z; r_sB : option state; r_gB : option genesis;
  r_t : option (genesis * bool * Z)       (* a tampered copy of the export: the genesis, ValidateGenesis = nil, InitGenesis 0 ok / 2 panic *)
}.
Record case := mkCase { c_height : Z; c_runs : list run }.

(** the tree under check *)
Definition fixed_rps : bool := true.
Definition fixed_q : bool := true.
Definition fixed_stake : bool := true.
(** [fix_v] is NOT in the tree (not taken: C12 is about exported geneses of reachable states) *)
Definition fixed_v : bool := false.

Definition corr_run (h : Z) (r : run) : bool :=
  invb fixed_stake h (r_sA r)
  && eqb (export (r_sA r)) (r_gA r)
  && eqb (validate fixed_rps fixed_v (r_gA r)) (r_val r)
  && match import fixed_rps fixed_q fixed_v h (r_gA r) with
     | None => negb (r_imp r =? 0)
     | Some b => (r_imp r =? 0) && eqb (r_sB r) (Some b) && eqb (r_gB r) (Some (export b))
     end
  && match r_t r with
     | Some (tg, tv, ti) => eqb (validate fixed_rps fixed_v tg) tv
                            && eqb (match import fixed_rps fixed_q fixed_v h tg with Some _ => true | None => false end) (ti =? 0)
     | None => true
     end.

(** clause codes: 11 export does not validate because a farmer has nothing locked; 12 ... because a
    reward per share is zero after rewards were released; 1 ... for another reason; 2 import panics;
    3 second export differs; 4 a pool / rule / farmer / parameter reads differently on B;
    5 B's queue of active pools is not the set of pools still to be closed *)
Definition prop_run (h : Z) (r : run) : Z :=
  first_code
    [ (11, r_val r || forallb (fun f => 0 <? f_locked f) (g_farmers (r_gA r)));
      (12, r_val r || forallb (pool_ok false) (g_pools (r_gA r)));
      (1, r_val r);
      (2, r_imp r =? 0);
      (3, match r_gB r with Some g => eqb g (r_gA r) | None => true end);
      (4, match r_sB r with Some b => eqb (queries b) (queries (r_sA r)) | None => true end);
      (5, match r_sB r with Some b => eqb (queue b) (queue_at h (pools b)) | None => true end) ].

Fixpoint check_runs (h : Z) (rs : list run) (i : Z) (corr prop code : Z) : Z * Z * Z :=
  match rs with
  | [] => (corr, prop, code)
  | r :: rest =>
      let corr' := if (corr <? 0) && negb (corr_run h r) then i else corr in
      let c := prop_run h r in
      let '(prop', code') := if (prop <? 0) && negb (c =? 0) then (i, c) else (prop, code) in
      check_runs h rest (i + 1) corr' prop' code'
  end.

(** [c_height] = height of chain A at export; chain B is initialised at [c_height + 1] *)
Definition check_farm (c : case) : Z * Z * Z := check_runs (c_height c + 1) (c_runs c) 0 (-1) (-1) 0.
