(** * NFT: the C12 invariant derived from the message-level model (Nft/Model.v).

    The message-level model keeps the x/nft stores flat (classes; (class, id) -> NFT; (class, id) -> owner; owner
    index; supply).  [abs] renames class and token ids by injective numberings [rkc], [rkt] (the byte-order
    ranks of the genesis-level model), groups the NFTs of a class under it, attaches each NFT's owner and
    sorts.  What the message model lacks: the syntactic validity flags of ids / URIs (the model's ids are
    by construction ones that passed ValidateBasic; [abs] sets the flags to true) and a single text blob per
    object (any functions [blobc], [blobt] of the model's fields will do).  Supply and the owner index are
    views of the genesis-level state, not components. *)
From Irismod Require Import Genesis.Sort.
From Irismod Require Nft.Model Nft.Proofs Genesis.Nft Genesis.NftProofs.

Module M := Irismod.Nft.Model.
Module MP := Irismod.Nft.Proofs.
Module G := Irismod.Genesis.Nft.
Module GP := Irismod.Genesis.NftProofs.

(** ** one more invariant of the message-level model: class creators are addresses *)
Definition CInv (s : M.state) : Prop :=
  NoDup (keys (M.classes s)) /\ forall c cl, In (c, cl) (M.classes s) -> 0 <= M.c_creator cl.

Lemma In_set_inv {K V} `{EqDec K} (k : K) (v : V) m e : In e (set k v m) -> e = (k, v) \/ In e m.
Proof.
  induction m as [|[k0 v0] m IH]; simpl; intros Hin.
  - destruct Hin as [<-|[]]. left. reflexivity.
  - destruct (eq_dec k k0) as [->|Hne]; simpl in Hin.
    + destruct Hin as [<-|Hin]; [left; reflexivity|right; right; exact Hin].
    + destruct Hin as [<-|Hin]; [right; left; reflexivity|]. destruct (IH Hin); [left|right; right]; assumption.
Qed.

Lemma CInv_set s c cl : CInv s -> 0 <= M.c_creator cl -> CInv (M.with_classes s (set c cl (M.classes s))).
Proof.
  intros [Hnd Hall] Hc. split; simpl.
  - apply keys_set_NoDup. exact Hnd.
  - intros c' cl' Hin. apply In_set_inv in Hin. destruct Hin as [Heq|Hin]; [inversion Heq; subst; exact Hc|exact (Hall _ _ Hin)].
Qed.

Lemma classes_nk s s' :
  (exists c t m a, M.nk_mint c t m a s = Some s') \/ (exists c t, M.nk_burn c t s = Some s')
  \/ (exists c t m, M.nk_update c t m s = Some s') \/ (exists c t a, M.nk_transfer c t a s = Some s') ->
  M.classes s' = M.classes s.
Proof.
  intros [(c & t & m & a & H)|[(c & t & H)|[(c & t & m & H)|(c & t & a & H)]]].
  - unfold M.nk_mint in H. destruct (negb (M.has_class s c)); [discriminate|]. destruct (M.has_nft s c t); [discriminate|].
    inversion H; subst. reflexivity.
  - unfold M.nk_burn in H. destruct (negb (M.has_class s c)); [discriminate|]. destruct (negb (M.has_nft s c t)); [discriminate|].
    inversion H; subst. destruct (M.get_owner s c t); reflexivity.
  - unfold M.nk_update in H. destruct (negb (M.has_class s c)); [discriminate|]. destruct (negb (M.has_nft s c t)); [discriminate|].
    inversion H; subst. reflexivity.
  - unfold M.nk_transfer in H. destruct (negb (M.has_class s c)); [discriminate|]. destruct (negb (M.has_nft s c t)); [discriminate|].
    inversion H; subst. destruct (M.get_owner s c t); reflexivity.
Qed.

Lemma CInv_same s s' : CInv s -> M.classes s' = M.classes s -> CInv s'.
Proof. intros [A B] E. unfold CInv. rewrite E. auto. Qed.

Lemma CInv_msg s m s' : CInv s -> M.exec_msg s m = Some s' -> CInv s'.
Proof.
  intros Hc H. destruct m as [a c mr ur d o|a c t n u h d r|a c t n u h d|a c t n u h d r|a c t|a c r]; simpl in H.
  - unfold M.issue_denom in H. destruct ((0 <? c) && M.addr_ok a && M.json_or_empty d) eqn:E; [|discriminate].
    unfold M.nk_save_class in H. destruct (M.has_class s c); [discriminate|]. inversion H; subst.
    apply CInv_set; [exact Hc|]. simpl. unfold M.addr_ok in E. lia.
  - unfold M.mint in H. destruct (_ && _); [|discriminate]. destruct (get c (M.classes s)) as [cl|]; [|discriminate].
    destruct (_ && _); [discriminate|]. eapply CInv_same; [exact Hc|]. apply classes_nk. left. eauto 6.
  - unfold M.edit in H. destruct (_ && _); [|discriminate]. destruct (get c (M.classes s)) as [cl|]; [|discriminate].
    destruct (M.c_updr cl); [discriminate|]. destruct (negb (M.authorize s c t a)); [discriminate|].
    destruct (negb (M.changes n u h d)); [inversion H; subst; exact Hc|].
    destruct (get (c, t) (M.nfts s)) as [m0|]; [|discriminate].
    eapply CInv_same; [exact Hc|]. apply classes_nk. right. right. left. eauto.
  - unfold M.transfer in H. destruct (_ && _); [|discriminate]. destruct (get (c, t) (M.nfts s)) as [m0|]; [|discriminate].
    destruct (negb (M.authorize s c t a)); [discriminate|]. destruct (get c (M.classes s)) as [cl|]; [|discriminate].
    destruct (M.c_updr cl && M.changes n u h d); [discriminate|].
    destruct (negb (M.changes n u h d)).
    + eapply CInv_same; [exact Hc|]. apply classes_nk. right. right. right. eauto.
    + destruct (M.nk_update c t (M.apply_changes m0 n u h d) s) as [s1|] eqn:E1; [|discriminate].
      assert (H1 : M.classes s1 = M.classes s) by (apply classes_nk; right; right; left; eauto).
      assert (H2 : M.classes s' = M.classes s1) by (apply classes_nk; right; right; right; eauto).
      eapply CInv_same; [exact Hc|congruence].
  - unfold M.burn in H. destruct (_ && _); [|discriminate]. destruct (M.authorize s c t a); [|discriminate].
    eapply CInv_same; [exact Hc|]. apply classes_nk. right. left. eauto.
  - unfold M.transfer_denom in H. destruct (M.addr_ok a && M.addr_ok r && M.denom_ok c) eqn:E; [|discriminate].
    destruct (get c (M.classes s)) as [cl|]; [|discriminate]. destruct (M.c_creator cl =? a); [|discriminate].
    unfold M.nk_update_class in H. destruct (M.has_class s c); [|discriminate]. inversion H; subst.
    apply CInv_set; [exact Hc|]. destruct cl as [[[[a0 m0] u0] d0] o0]. simpl. unfold M.addr_ok in E. lia.
Qed.

Lemma CInv_run steps : forall s, CInv s -> CInv (M.run s steps).
Proof.
  induction steps as [|st steps IH]; intros s Hc; simpl; [exact Hc|]. apply IH. unfold M.next.
  destruct st as [m|]; simpl; [|exact Hc]. destruct (M.exec_msg s m) as [s'|] eqn:E; [exact (CInv_msg _ _ _ Hc E)|exact Hc].
Qed.

Lemma CInv_init : CInv M.init.
Proof. split; [constructor|intros ? ? []]. Qed.

Lemma NoDup_map_injective {A B} (f : A -> B) l : (forall a b, f a = f b -> a = b) -> NoDup l -> NoDup (map f l).
Proof.
  intros Hinj Hnd. induction l as [|a l IH]; simpl; [constructor|].
  inversion Hnd as [|? ? Hn Hnd']; subst. constructor; [|apply IH; exact Hnd'].
  intros Hin. apply in_map_iff in Hin. destruct Hin as (b & Hb & Hbin). apply Hinj in Hb. subst. contradiction.
Qed.

(** ** the abstraction *)
Section Rk.
  Variables rkc rkt : Z -> Z.
  Hypothesis rkc_inj : forall a b, rkc a = rkc b -> a = b.
  Variables (blobc : M.class -> Z) (blobt : M.tmeta -> Z).

  Definition owner_of (s : M.state) (k : Z * Z) : Z := match get k (M.owners s) with Some a => a | None => -1 end.
  Definition abs_nft (s : M.state) (e : (Z * Z) * M.tmeta) : Z * G.ninfo :=
    (rkt (snd (fst e)), (owner_of s (fst e), true, true, blobt (snd e))).
  Definition abs_nfts (s : M.state) (c : Z) : list (Z * G.ninfo) :=
    osort lt1 (map (abs_nft s) (filter (fun e => fst (fst e) =? c) (M.nfts s))).
  Definition flags (cl : M.class) : Z := (if M.c_mintr cl then 1 else 0) + (if M.c_updr cl then 2 else 0).
  Definition abs_class (s : M.state) (e : Z * M.class) : G.col :=
    (rkc (fst e), ((M.c_creator (snd e), true, flags (snd e), blobc (snd e)), abs_nfts s (fst e))).
  Definition abs (s : M.state) : G.state := osort lt1 (map (abs_class s) (M.classes s)).

  Lemma In_get_some {K V} `{EqDec K} (k : K) (v : V) m : In (k, v) m -> get k m <> None.
  Proof.
    induction m as [|[k0 v0] m IH]; simpl; intros Hin; [contradiction|].
    destruct (eq_dec k k0); [discriminate|]. destruct Hin as [Heq|Hin]; [congruence|apply IH; exact Hin].
  Qed.

  (** every state reached by a history of the model satisfies the genesis-level invariant *)
  Theorem reachable_nft (steps : list M.step) : G.invb (abs (M.run M.init steps)) = true.
  Proof.
    set (s := M.run M.init steps).
    assert (Hinv : MP.Inv s) by (apply MP.Reachable_Inv; exists steps; reflexivity).
    destruct (CInv_run steps M.init CInv_init) as [Hnd Hcr]. fold s in Hnd, Hcr.
    destruct Hinv as (_ & _ & Hiff & _ & _ & _ & Hown).
    unfold G.invb. apply andb_true_iff. split.
    - apply (sorted_sortedb lt1). apply osort_sorted; [exact lt1_trans|apply lt1_total_on].
    - rewrite forallb_forall. intros col Hcol.
      assert (Hndk : NoDup (map fst (map (abs_class s) (M.classes s)))).
      { rewrite map_map. simpl. rewrite <- (map_map fst rkc). apply NoDup_map_injective; [exact rkc_inj|exact Hnd]. }
      apply (In_osort lt1 _ col Hndk) in Hcol. apply in_map_iff in Hcol. destruct Hcol as ([c cl] & <- & Hc).
      unfold G.col_ok, abs_class, G.c_nfts, G.c_info, G.d_creator, G.d_id_ok. simpl.
      assert (Hs : sortedb lt1 (abs_nfts s c) = true).
      { apply (sorted_sortedb lt1). apply osort_sorted; [exact lt1_trans|apply lt1_total_on]. }
      rewrite Hs. pose proof (Hcr c cl Hc) as Hcre. simpl.
      assert (Hcb : (0 <=? M.c_creator cl) = true) by lia. rewrite Hcb. simpl.
      rewrite forallb_forall. intros n Hn. unfold abs_nfts, osort, oof_list in Hn.
      apply In_fold_oins_inv in Hn. destruct Hn as [[]|Hn]. apply in_map_iff in Hn. destruct Hn as ([k m] & <- & Hk).
      apply filter_In in Hk. destruct Hk as [Hk _]. unfold abs_nft, G.n_ok, owner_of. simpl.
      pose proof (In_get_some k m (M.nfts s) Hk) as Hsome. apply Hiff in Hsome.
      destruct (get k (M.owners s)) as [a|] eqn:Ea; [|contradiction]. pose proof (Hown k a Ea). lia.
  Qed.

  (** ** C12 over histories of the nft model (no free-standing invariant) *)
  Theorem nft_history_export_validates steps : G.validate false (G.export (abs (M.run M.init steps))) = true.
  Proof. apply GP.nft_export_validates_lemma. apply reachable_nft. Qed.

  Theorem nft_history_roundtrip steps :
    G.import false (G.export (abs (M.run M.init steps))) = Some (abs (M.run M.init steps)).
  Proof. apply GP.nft_roundtrip. apply reachable_nft. Qed.
End Rk.
