(** * Coinswap: the C12 invariant derived from the message-level model (Coinswap/Model.v).

    The message-level model keeps the pool registry as the list (counterparty denom, n of "lpt-n") in
    creation order, with the next sequence; reserves and liquidity live in its bank ledger (the genesis of
    the coinswap module does not contain them).  [abs] renames denominations by an injective, non-negative
    numbering [rk] (the byte-order ranks of the genesis-level model), builds the pool records the keeper
    stores (id "pool-<denom>", standard denom, escrow address derived from the lpt denom) and sorts them;
    the lpt index is the one [setPool] writes.  The model has no parameter-update message: the stored
    parameters pass [Params.Validate] initially and after every [MsgUpdateParams] ([ParOk], proved). *)
From Irismod Require Import Genesis.Sort.
From Irismod Require Coinswap.Model Coinswap.ProofsSpec Coinswap.Proofs Coinswap.ProofsValue Genesis.Coinswap Genesis.CoinswapProofs.

Module M := Irismod.Coinswap.Model.
Module MS := Irismod.Coinswap.ProofsSpec.
Module MP := Irismod.Coinswap.Proofs.
Module MV := Irismod.Coinswap.ProofsValue.
Module G := Irismod.Genesis.Coinswap.
Module GP := Irismod.Genesis.CoinswapProofs.

(** ** one more invariant of the registry: the lpt numbers are 1, 2, ... in creation order *)
Fixpoint ints (a : Z) (n : nat) : list Z := match n with O => [] | S n' => a :: ints (a + 1) n' end.

Definition Dense (s : M.state) : Prop :=
  map snd (M.pools s) = ints 1 (length (M.pools s)) /\ M.seq s = Z.of_nat (length (M.pools s)) + 1.

Lemma ints_app a n : ints a (n + 1) = ints a n ++ [a + Z.of_nat n].
Proof.
  revert a. induction n as [|n IH]; intros a; simpl; [f_equal; lia|].
  rewrite IH. simpl. f_equal. f_equal. f_equal. lia.
Qed.

Lemma Dense_same s s' : Dense s -> MS.same_reg s s' -> Dense s'.
Proof. intros [D1 D2] [R1 R2]. unfold Dense. rewrite R1, R2. auto. Qed.

Lemma Dense_step s m : Dense s -> Dense (M.step s m).
Proof.
  intros D. unfold M.step. destruct (M.exec s m) as [[s' r]|o] eqn:E; [|exact D].
  destruct m; simpl in E.
  - destruct (MS.exec_swap_spec _ _ _ _ _ _ _ _ _ _ _ E) as (_ & _ & _ & _ & _ & _ & sold & bought & SE & _).
    destruct SE as [n _ _ _ M0 R | n1 n2 s1 mid _ _ _ _ _ _ M1 R1 M2 R2].
    + eapply Dense_same; eassumption.
    + eapply Dense_same; [eapply Dense_same|]; eassumption.
  - destruct (MS.exec_add_spec _ _ _ _ _ _ _ _ _ E) as (_ & _ & _ & _ & _ & mint & _ & _ & AE).
    destruct AE as [tax _ _ _ _ _ _ Hps Hsq | n _ _ _ _ _ R | n dep _ _ _ _ _ _ _ _ _ _ R];
      [|eapply Dense_same; eassumption|eapply Dense_same; eassumption].
    destruct D as [D1 D2]. unfold Dense. rewrite Hps, Hsq, map_app, app_length, D1. simpl.
    split; [rewrite ints_app; f_equal; f_equal; lia|lia].
  - destruct (MS.exec_remove_spec _ _ _ _ _ _ _ _ _ E) as (cp & a1 & a2 & _ & _ & _ & _ & _ & _ & _ & _ & _ & _ & _ & R).
    eapply Dense_same; eassumption.
  - destruct (MS.exec_add_uni_spec _ _ _ _ _ _ _ _ _ E) as (n & mint & _ & _ & _ & _ & _ & _ & _ & _ & _ & _ & R).
    eapply Dense_same; eassumption.
  - destruct (MS.exec_remove_uni_spec _ _ _ _ _ _ _ _ _ E) as (n & target & _ & _ & _ & _ & _ & _ & _ & _ & _ & R).
    eapply Dense_same; eassumption.
  - destruct (MS.exec_send_spec _ _ _ _ _ _ _ E) as (_ & _ & _ & _ & R). eapply Dense_same; eassumption.
  - inversion E; subst. exact D.
  - destruct (MS.exec_update_params_spec _ _ _ _ _ E) as (_ & _ & _ & _ & _ & R & _). eapply Dense_same; eassumption.
Qed.

(** the stored parameters always pass Params.Validate: they do initially and [MsgUpdateParams] only stores valid ones *)
Definition ParOk (s : M.state) : Prop := M.params_valid (M.par s) = true.
Lemma ParOk_step s m : ParOk s -> ParOk (M.step s m).
Proof.
  unfold ParOk. intros Hp. destruct (MP.step_par s m) as [E|(p & _ & Hv & E)]; rewrite E; assumption.
Qed.
Lemma ParOk_run ms : forall s, ParOk s -> ParOk (M.run s ms).
Proof. unfold M.run. induction ms as [|m ms IH]; intros s Hp; simpl; [exact Hp|]. apply IH. apply ParOk_step. exact Hp. Qed.

Lemma Dense_run ms : forall s, Dense s -> Dense (M.run s ms).
Proof. unfold M.run. induction ms as [|m ms IH]; intros s D; simpl; [exact D|]. apply IH. apply Dense_step. exact D. Qed.

(** ** the abstraction *)
Section Rk.
  Variable rk : Z -> Z.
  Hypothesis rk_inj : forall a b, rk a = rk b -> a = b.
  Hypothesis rk_nonneg : forall a, 0 <= rk a.

  Definition abs_params (p : M.params) : G.params :=
    G.mkParams (M.p_fee p) (rk (M.p_cdenom p), M.p_camt p) (M.p_tax p) (M.p_ufee p).
  Definition abs_pool (e : Z * Z) : Z * G.pool := (rk (fst e), G.mkPool (rk (fst e)) (rk M.std) (rk (fst e)) 1 (snd e)).
  Definition abs_pools (s : M.state) : list (Z * G.pool) := osort lt1 (map abs_pool (M.pools s)).
  Definition abs (s : M.state) : G.state :=
    G.mkState (abs_params (M.par s)) (rk M.std) (M.seq s) (abs_pools s) (G.index_of (map snd (abs_pools s))).

  Lemma keys_abs_nodup s : NoDup (map fst (M.pools s)) -> NoDup (map fst (map abs_pool (M.pools s))).
  Proof.
    intros Hnd. rewrite map_map. simpl. rewrite <- (map_map fst rk).
    induction (map fst (M.pools s)) as [|a l IH]; simpl; [constructor|].
    inversion Hnd as [|? ? Hn Hnd']; subst. constructor; [|apply IH; exact Hnd'].
    intros Hin. apply in_map_iff in Hin. destruct Hin as (b & Hb & Hbin). apply rk_inj in Hb. subst. contradiction.
  Qed.

  Lemma zmax_char l M0 : (forall x, In x l -> x <= M0) -> (In M0 l \/ (l = [] /\ M0 = 0)) -> 0 <= M0 -> G.zmax_list l = M0.
  Proof.
    induction l as [|a l IH]; simpl; intros Hle Hin H0.
    - destruct Hin as [[]|[_ ->]]. reflexivity.
    - pose proof (GP.zmax_list_nonneg l) as Hnn.
      assert (Hl : G.zmax_list l <= M0).
      { clear IH Hin. induction l as [|b l IHl]; simpl; [lia|].
        apply Z.max_lub; [apply Hle; right; left; reflexivity|apply IHl; [intros x Hx; apply Hle; simpl in *; tauto|apply GP.zmax_list_nonneg]]. }
      destruct Hin as [[->|Hin]|[Hcontra _]]; [lia| |discriminate].
      pose proof (Hle a (or_introl eq_refl)).
      rewrite (IH (fun x Hx => Hle x (or_intror Hx)) (or_introl Hin) H0). lia.
  Qed.

  Lemma In_ints x a n : In x (ints a n) <-> a <= x < a + Z.of_nat n.
  Proof.
    revert a. induction n as [|n IH]; intros a; simpl; [lia|]. rewrite IH. lia.
  Qed.

  Lemma params_valid_ok p : M.params_valid p = true -> G.params_ok (abs_params p) = true.
  Proof.
    unfold M.params_valid, G.params_ok, abs_params. cbn [G.p_fee G.p_pcf G.p_tax G.p_uni snd].
    unfold G.one_dec, Base.Dec.P18. intros H. repeat (apply andb_true_iff in H; destruct H as [H ?]).
    repeat (apply andb_true_iff; split); assumption.
  Qed.

  Lemma NoDup_map_on {A B} (g : A -> B) (l : list A) :
    NoDup l -> (forall x y, In x l -> In y l -> g x = g y -> x = y) -> NoDup (map g l).
  Proof.
    induction l as [|a l IH]; simpl; intros Hnd Hinj; [constructor|].
    inversion Hnd as [|? ? Hn Hnd']; subst. constructor.
    - intros Hin. apply in_map_iff in Hin. destruct Hin as (b & Hb & Hbin).
      assert (b = a) by (apply Hinj; [right; exact Hbin|left; reflexivity|exact Hb]). subst. contradiction.
    - apply IH; [exact Hnd'|]. intros x y Hx Hy. apply Hinj; right; assumption.
  Qed.

  (** every state reached by a history of the model satisfies the genesis-level invariant *)
  Theorem reachable_coinswap (s0 : M.state) (ms : list M.msg) :
    MV.Inv s0 -> Dense s0 -> ParOk s0 -> M.seq (M.run s0 ms) < G.two64 ->
    G.invb (abs (M.run s0 ms)) = true.
  Proof.
    intros I0 D0 Hp0 Hlt. pose proof (MV.Inv_run ms s0 I0) as I. pose proof (Dense_run ms s0 D0) as [D1 D2].
    pose proof (ParOk_run ms s0 Hp0) as Hpv.
    set (s := M.run s0 ms) in *. destruct I as [_ _ _ Ifst Isnd Irng Iseq _].
    pose proof (keys_abs_nodup s Ifst) as Hnd.
    assert (Hin : forall e, In e (abs_pools s) <-> In e (map abs_pool (M.pools s))) by (intros e; apply In_osort; exact Hnd).
    assert (Hsorted : sortedb lt1 (abs_pools s) = true).
    { apply (sorted_sortedb lt1). apply osort_sorted; [exact lt1_trans|apply lt1_total_on]. }
    assert (Hndl : NoDup (abs_pools s)).
    { apply (NoDup_map_inv fst). apply (sorted_keys_NoDup lt1 lt1_irrefl). apply (sortedb_sorted lt1 lt1_trans). exact Hsorted. }
    assert (Hlpts : forall x, In x (map G.p_lpt (map snd (abs_pools s))) <-> In x (map snd (M.pools s))).
    { intros x. rewrite map_map. split; intros Hx; apply in_map_iff in Hx; destruct Hx as (e & <- & He).
      - apply Hin in He. apply in_map_iff in He. destruct He as (e0 & <- & He0). simpl. apply in_map. exact He0.
      - apply in_map_iff. exists (abs_pool e). split; [reflexivity|]. apply Hin. apply in_map. exact He. }
    assert (Hkey : forallb G.key_ok (abs_pools s) = true).
    { rewrite forallb_forall. intros e He. apply Hin in He. apply in_map_iff in He. destruct He as (e0 & <- & _).
      unfold G.key_ok. simpl. apply Z.eqb_refl. }
    assert (Hstd : (0 <=? rk M.std) = true) by (pose proof (rk_nonneg M.std); lia).
    assert (Hnodup : nodupb (map G.p_lpt (map snd (abs_pools s))) = true).
    { apply NoDup_nodupb. rewrite map_map. apply NoDup_map_on; [exact Hndl|].
      intros x y Hx Hy Hg. apply Hin in Hx. apply Hin in Hy.
      apply in_map_iff in Hx. destruct Hx as (a & <- & Ha). apply in_map_iff in Hy. destruct Hy as (b & <- & Hb).
      simpl in Hg. assert (a = b) by (apply (MV.NoDup_map_inj snd (M.pools s)); auto). subst. reflexivity. }
    assert (Hok : forallb G.pool_ok (map snd (abs_pools s)) = true).
    { rewrite forallb_forall. intros p Hpin. apply in_map_iff in Hpin. destruct Hpin as (e & <- & He).
      apply Hin in He. apply in_map_iff in He. destruct He as ([cp n] & <- & He0).
      destruct (Irng cp n He0) as [Hn _]. unfold G.pool_ok. simpl.
      pose proof (rk_nonneg cp). pose proof (rk_nonneg M.std). lia. }
    assert (Hmax : G.zmax_list (map G.p_lpt (map snd (abs_pools s))) = Z.of_nat (length (M.pools s))).
    { apply zmax_char; [| |lia].
      - intros x Hx. apply Hlpts in Hx. rewrite D1 in Hx. apply In_ints in Hx. lia.
      - destruct (M.pools s) as [|e l] eqn:El.
        + right. split; [|reflexivity]. unfold abs_pools. rewrite El. reflexivity.
        + left. apply Hlpts. rewrite D1. apply In_ints. simpl length. lia. }
    unfold G.invb. cbn [G.pools G.std G.seq G.lpt_index G.prm abs].
    rewrite Hsorted, Hkey, Hstd, Hnodup, Hok, Hmax, Prelude.eqb_refl. cbn [andb].
    rewrite (params_valid_ok _ Hpv). rewrite !andb_true_r. apply andb_true_iff. split; lia.
  Qed.
End Rk.

(** ** C12 over histories of the coinswap model (no free-standing invariant) *)
Section Histories.
  Variable rk : Z -> Z.
  Hypothesis rk_inj : forall a b, rk a = rk b -> a = b.
  Hypothesis rk_nonneg : forall a, 0 <= rk a.
  Variables (s0 : M.state) (ms : list M.msg).
  Hypothesis I0 : MV.Inv s0.
  Hypothesis D0 : Dense s0.
  Hypothesis Hp : ParOk s0.
  Hypothesis Hlt : M.seq (M.run s0 ms) < G.two64.

  Let inv : G.invb (abs rk (M.run s0 ms)) = true := reachable_coinswap rk rk_inj rk_nonneg s0 ms I0 D0 Hp Hlt.

  Theorem coinswap_history_export_validates : G.validate (G.export (abs rk (M.run s0 ms))) = true.
  Proof. apply GP.coinswap_export_validates_lemma. exact inv. Qed.

  Theorem coinswap_history_roundtrip :
    G.import (G.export (abs rk (M.run s0 ms))) = Some (abs rk (M.run s0 ms)).
  Proof. apply GP.coinswap_roundtrip. exact inv. Qed.
End Histories.

(** the hypotheses are satisfiable: the standard bijection Z -> N as numbering, default parameters, a
    state with two pools *)
Definition ex_rk (d : Z) : Z := if 0 <=? d then 2 * d else - 2 * d - 1.
Lemma ex_rk_inj a b : ex_rk a = ex_rk b -> a = b.
Proof. unfold ex_rk. destruct (0 <=? a) eqn:A, (0 <=? b) eqn:B; lia. Qed.
Lemma ex_rk_nonneg a : 0 <= ex_rk a.
Proof. unfold ex_rk. destruct (0 <=? a) eqn:A; lia. Qed.
Example dense_example : Dense (M.mkState [] [] [(3, 1); (2, 2)] 3 0 (M.mkParams 3000000000000000 0 400000000000000000 0 5000)).
Proof. split; reflexivity. Qed.
Example params_example :
  ParOk (M.mkState [] [] [] 1 0 (M.mkParams 3000000000000000 2000000000000000 400000000000000000 0 5000)).
Proof. vm_compute. reflexivity. Qed.
