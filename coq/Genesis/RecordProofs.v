(** * Record: proofs about export / validate / import (C12) *)
From Irismod Require Import Genesis.Record.

Lemma validate_all_valid g : forallb rec_valid g = true -> validate g = true.
Proof.
  induction g as [|a g IH]; simpl; intros Hall; [reflexivity|].
  apply andb_true_iff in Hall. destruct Hall as [Ha Hg].
  unfold rec_valid in Ha. destruct (rec_contents a) as [|c cs] eqn:E; [discriminate|].
  apply andb_true_iff in Ha. destruct Ha as [Hc Hf].
  assert (Hlt : (rec_creator a <? 0) = false) by lia.
  rewrite Hlt, Hf. simpl. apply IH. exact Hg.
Qed.

Lemma record_export_validates_lemma ord s : invb ord s = true -> validate (export s) = true.
Proof.
  unfold invb, export. intros Hinv. apply andb_true_iff in Hinv. destruct Hinv as [_ Hall].
  apply validate_all_valid. rewrite forallb_forall in *. intros r Hin.
  apply in_map_iff in Hin. destruct Hin as (e & <- & Hin).
  specialize (Hall e Hin). unfold entry_ok in Hall. apply andb_true_iff in Hall. tauto.
Qed.

Lemma record_import_total_lemma ord g : validate g = true -> import ord g <> None.
Proof. intros Hv. unfold import. rewrite Hv. discriminate. Qed.

Section Ord.
  Variable ord : rid -> Z.

  Lemma stays_readable g : forall s0 r,
    (exists c, query s0 (r, c) = Some r) ->
    exists c, query (fold_left (add_record ord) g s0) (r, c) = Some r.
  Proof.
    induction g as [|a g IH]; intros s0 r [c Hq]; simpl; [exists c; exact Hq|].
    apply IH. unfold add_record, query in *. simpl.
    destruct (eq_dec (r, c) (a, counter s0)) as [Heq|Hne].
    - inversion Heq; subst. exists (counter s0). apply get_oins_same.
    - exists c. rewrite get_oins_other by exact Hne. exact Hq.
  Qed.

  Lemma becomes_readable g : forall s0 r,
    In r g -> exists c, query (fold_left (add_record ord) g s0) (r, c) = Some r.
  Proof.
    induction g as [|a g IH]; intros s0 r Hin; simpl; [contradiction|].
    destruct Hin as [->|Hin]; [|apply IH; exact Hin].
    apply stays_readable. exists (counter s0). unfold add_record, query. simpl. apply get_oins_same.
  Qed.

  Lemma nothing_invented g : forall s0 e,
    In e (store (fold_left (add_record ord) g s0)) -> In e (store s0) \/ In (snd e) g.
  Proof.
    induction g as [|a g IH]; intros s0 e Hin; simpl in *; [left; exact Hin|].
    destruct (IH _ _ Hin) as [Hs|Hg]; [|right; right; exact Hg].
    unfold add_record in Hs. simpl in Hs. apply In_oins_inv in Hs.
    destruct Hs as [->|Hs]; [right; left; reflexivity|left; exact Hs].
  Qed.

  (** the records (as a set) survive export -> import -> export, whatever happens to the ids *)
  Lemma record_export_fixpoint_partial_lemma s s' :
    import ord (export s) = Some s' -> forall r, In r (export s') <-> In r (export s).
  Proof.
    unfold import. destruct (validate (export s)); [|discriminate].
    intros Hs' r. inversion Hs'; subst s'. clear Hs'. split.
    - intros Hin. unfold export at 1 in Hin. apply in_map_iff in Hin. destruct Hin as (e & <- & Hin).
      apply nothing_invented in Hin. destruct Hin as [[]|Hg]. exact Hg.
    - intros Hin. destruct (becomes_readable (export s) empty r Hin) as [c Hq].
      unfold query in Hq. apply get_In in Hq. unfold export at 1. apply in_map_iff.
      exists ((r, c), r). split; [reflexivity|exact Hq].
  Qed.

  (** every record readable on A is readable on B — under an id built from the same record and
      SOME counter (not necessarily the original one) *)
  Lemma record_queries_preserved_partial_lemma s s' :
    import ord (export s) = Some s' ->
    forall id r, query s id = Some r -> exists c, query s' (r, c) = Some r.
  Proof.
    unfold import. destruct (validate (export s)); [|discriminate].
    intros Hs' id r Hq. inversion Hs'; subst s'. apply becomes_readable.
    unfold query in Hq. apply get_In in Hq. unfold export. apply in_map_iff.
    exists (id, r). split; [reflexivity|exact Hq].
  Qed.
End Ord.

(** ** The refutation: ids are recomputed on import.
    [r2] was created first (counter 0), [r1] second (counter 1); the hash of (r1, 1) is below the
    hash of (r2, 0), so the export lists r1 first; the import gives r1 counter 0 and r2 counter 1,
    and those two hashes happen to be ordered the other way round. *)
Definition wit_r1 : rec := (1, [(1, 1, 0, 0)], 0).
Definition wit_r2 : rec := (2, [(1, 1, 0, 0)], 0).
Definition wit_tbl : list (rid * Z) := [((wit_r1, 1), 0); ((wit_r2, 0), 1); ((wit_r2, 1), 2); ((wit_r1, 0), 3)].
Definition wit_ord : rid -> Z := ord_of wit_tbl.
Definition wit_s : state := mkState [((wit_r1, 1), wit_r1); ((wit_r2, 0), wit_r2)] 2.
Definition wit_s' : state := mkState [((wit_r2, 1), wit_r2); ((wit_r1, 0), wit_r1)] 2.

Lemma record_export_fixpoint_refuted_lemma :
  exists ord s s', invb ord s = true /\ import ord (export s) = Some s' /\ export s' <> export s.
Proof.
  exists wit_ord, wit_s, wit_s'. split; [vm_compute; reflexivity|]. split; [vm_compute; reflexivity|].
  vm_compute. discriminate.
Qed.

Lemma record_queries_preserved_refuted_lemma :
  exists ord s s' id r, invb ord s = true /\ import ord (export s) = Some s'
                        /\ query s id = Some r /\ query s' id = None.
Proof.
  exists wit_ord, wit_s, wit_s', (wit_r1, 1), wit_r1.
  repeat split; vm_compute; reflexivity.
Qed.
