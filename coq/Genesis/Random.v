(** * Random: export / validate / import / prepare-for-zero-height
      (modules/random/genesis.go, types/genesis.go, types/request.go, keeper/keeper.go)

    Only the queue of pending requests is exported; generated random numbers and oracle requests
    in flight are documented as dropped.  The queue key is (height, request id) with
    request id = SHA-256(be64(request.Height) ++ consumer): the id is modelled by its pre-image
    (request height, consumer) and the byte order of the real ids is a table the harness computes
    with SHA-256 over exactly these pre-images (and checks against the ids found in the store).
    The store is viewed as height -> (id -> request), which is what prefix iteration by height
    shows.  Consumers are actor indices; tx hashes, fee caps and context ids are interned. *)
From Irismod Require Export Genesis.Store.

Record request := mkReq {
  q_height : Z; q_consumer : Z; q_tx : Z; q_oracle : bool; q_cap : Z; q_ctx : Z
}.
#[export] Instance EqDec_request : EqDec request.
Proof. intros x y. decide equality; apply eq_dec. Defined.

Definition state := list (Z * list (Z * request)).     (* height -> (rank of id -> request) *)
Definition genesis := list (Z * list request).          (* the JSON map, keys in ascending numeric order; -1: a key that is no number *)

Definition getd {K V} `{EqDec K} (k : K) (m : list (K * V)) (d : V) : V := match get k m with Some x => x | None => d end.

Section Ids.
  Variable tbl : list ((Z * Z) * Z).                    (* (request height, consumer) -> rank of the SHA-256 *)
  Definition idrank (r : request) : Z := getd (q_height r, q_consumer r) tbl (-1).

  (** ExportGenesis: the queue grouped by height *)
  Definition export (s : state) : genesis := map (fun e => (fst e, map snd (snd e))) s.

  (** types.ValidateGenesis: every key parses as an unsigned number *)
  Definition validate (g : genesis) : bool := forallb (fun e => 0 <=? fst e) g.

  (** InitGenesis: EnqueueRandomRequest(height, GenerateRequestID(request), request) for every request *)
  Definition enqueue (s : state) (h : Z) (r : request) : state :=
    oins lt1 h (oins lt1 (idrank r) r (getd h s [])) s.
  Definition import (g : genesis) : option state :=
    if negb (validate g) then None
    else Some (fold_left (fun s e => fold_left (fun s' r => enqueue s' (fst e) r) (snd e) s) g []).

  (** PrepForZeroHeightGenesis at block height [height]: every entry moves to height - [height] + 1 *)
  Definition two64 : Z := 18446744073709551616.
  Definition prep (height : Z) (s : state) : state := map (fun e => ((fst e - height + 1) mod two64, snd e)) s.

  (** Query RandomRequestQueue (all heights / one height) *)
  Definition queries (s : state) : state := s.

  Definition inner_ok (e : Z * list (Z * request)) : bool :=
    (0 <=? fst e) && sortedb lt1 (snd e) && forallb (fun x => fst x =? idrank (snd x)) (snd e)
    && match snd e with [] => false | _ => true end.
  Definition invb (s : state) : bool := sortedb lt1 s && forallb inner_ok s.
End Ids.

(** ** Correspondence and the C12 predicate *)
Record run := mkRun {
  r_sA : state; r_gA : genesis; r_val : bool; r_imp : Z; r_sB : option state; r_gB : option genesis
}.
Record case := mkCase { c_height : Z; c_ids : list ((Z * Z) * Z); c_runs : list run }.

Definition corr_run (tbl : list ((Z * Z) * Z)) (r : run) : bool :=
  invb tbl (r_sA r)
  && eqb (export (r_sA r)) (r_gA r)
  && eqb (validate (r_gA r)) (r_val r)
  && match import tbl (r_gA r) with
     | None => negb (r_imp r =? 0)
     | Some b => (r_imp r =? 0) && eqb (r_sB r) (Some b) && eqb (r_gB r) (Some (export b))
     end.

(** clause codes: 1 export does not validate; 2 import panics; 3 second export differs;
    4 the queue of pending requests reads differently on B *)
Definition prop_run (r : run) : Z :=
  first_code
    [ (1, r_val r);
      (2, r_imp r =? 0);
      (3, match r_gB r with Some g => eqb g (r_gA r) | None => true end);
      (4, match r_sB r with Some b => eqb b (r_sA r) | None => true end) ].

Fixpoint check_runs (tbl : list ((Z * Z) * Z)) (rs : list run) (i : Z) (corr prop code : Z) : Z * Z * Z :=
  match rs with
  | [] => (corr, prop, code)
  | r :: rest =>
      let corr' := if (corr <? 0) && negb (corr_run tbl r) then i else corr in
      let c := prop_run r in
      let '(prop', code') := if (prop <? 0) && negb (c =? 0) then (i, c) else (prop, code) in
      check_runs tbl rest (i + 1) corr' prop' code'
  end.

Definition check_random (c : case) : Z * Z * Z :=
  (* the state after the Go PrepForZeroHeightGenesis is the model's [prep] of the state before *)
  let pre_ok :=
    match c_runs c with
    | r0 :: r1 :: _ => eqb (r_sA r1) (prep (c_height c) (r_sA r0))
    | _ => true
    end in
  let '(corr, prop, code) := check_runs (c_ids c) (c_runs c) 0 (-1) (-1) 0 in
  (if pre_ok then corr else 1, prop, code).
