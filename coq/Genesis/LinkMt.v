(** * MT: the C12 invariant derived from the message-level model (Mt/Model.v, Mt/Export.v).

    The message-level model keeps the five stores as association lists in insertion order; its ids ARE the
    sequence numbers (the hash is modelled as injective).  [abs] takes these numbers as the genesis-level ids
    (any injective numbering would do: the genesis-level theorems hold for every state satisfying [invb]),
    groups the MTs of a class under it and sorts every store.  What the message model lacks: the Supply field
    stored inside an MT record (never read: the export overwrites it with the current supply) — [abs] puts the
    current supply there; the class counter store is taken as the view [dsupply_of] (the model's [dcount]
    agrees with it: [ExpInv.ei_dcount]). *)
From Irismod Require Import Genesis.Sort.
From Irismod Require Mt.Model Mt.Proofs Mt.Export Genesis.Mt Genesis.MtProofs.
From Coq Require Import Sorting.Sorted Permutation ZifyBool.

Module M := Irismod.Mt.Model.
Module MP := Irismod.Mt.Proofs.
Module ME := Irismod.Mt.Export.
Module G := Irismod.Genesis.Mt.
Module GP := Irismod.Genesis.MtProofs.

Definition mt_entry (s : M.state) (d : Z) (e : (Z * Z) * Z) : Z * G.minfo :=
  (snd (fst e), (snd e, M.supply s d (snd (fst e)))).
Definition of_class (d : Z) (e : (Z * Z) * Z) : bool := fst (fst e) =? d.
Definition abs_inner (s : M.state) (d : Z) : list (Z * G.minfo) :=
  osort lt1 (map (mt_entry s d) (filter (of_class d) (M.mts s))).
Definition col_entry (s : M.state) (c : Z * G.dinfo) : G.col := (fst c, (snd c, abs_inner s (fst c))).
Definition abs_cols (s : M.state) : list G.col := osort lt1 (map (col_entry s) (M.denoms s)).
Definition abs (s : M.state) : G.state :=
  G.mkState (abs_cols s) (osort lt2 (M.sup s)) (G.dsupply_of (abs_cols s)) (osort lt3 (M.bal s)) (M.dseq s) (M.mseq s).

(** ** generic helpers *)
Definition R2 (a b : Z * Z) : Prop := lt2 a b = true.

Lemma sorted_keys_R2 {V} (m : list ((Z * Z) * V)) : sorted lt2 m -> StronglySorted R2 (map fst m).
Proof.
  unfold sorted. induction m as [|a m IH]; simpl; intros Hs; [constructor|].
  inversion Hs as [|? ? Hs' Hall]; subst. constructor; [apply IH; exact Hs'|].
  rewrite Forall_forall in *. intros k Hk. apply in_map_iff in Hk. destruct Hk as (e & <- & He). exact (Hall e He).
Qed.

Lemma sorted1 {V} (m : list (Z * V)) : sorted lt1 (osort lt1 m).
Proof. apply osort_sorted; [exact lt1_trans|apply lt1_total_on]. Qed.
Lemma sorted2 {V} (m : list ((Z * Z) * V)) : sorted lt2 (osort lt2 m).
Proof. apply osort_sorted; [exact lt2_trans|apply lt2_total_on]. Qed.
Lemma sorted3 {V} (m : list ((Z * Z * Z) * V)) : sorted lt3 (osort lt3 m).
Proof. apply osort_sorted; [exact lt3_trans|apply lt3_total_on]. Qed.

Lemma flat_keys_sorted (cs : list G.col) :
  sorted lt1 cs -> (forall c, In c cs -> sorted lt1 (snd (snd c))) -> StronglySorted R2 (G.flat_keys cs).
Proof.
  unfold sorted, G.flat_keys. induction cs as [|c cs IH]; simpl; intros Hs Hin; [constructor|].
  inversion Hs as [|? ? Hs' Hall]; subst. apply ssorted_app.
  - specialize (Hin c (or_introl eq_refl)). unfold sorted in Hin.
    induction (snd (snd c)) as [|t l IHl]; simpl; [constructor|].
    inversion Hin as [|? ? Hl' Hallt]; subst. constructor; [apply IHl; exact Hl'|].
    rewrite Forall_forall in *. intros k Hk. apply in_map_iff in Hk. destruct Hk as (t' & <- & Ht').
    specialize (Hallt t' Ht'). unfold R2, klt, lt1, lt2 in *. lia.
  - apply IH; [exact Hs'|]. intros c' Hc'. apply Hin. right. exact Hc'.
  - intros x y Hx Hy. apply in_map_iff in Hx. destruct Hx as (t & <- & _).
    apply in_flat_map in Hy. destruct Hy as (c' & Hc' & Hy). apply in_map_iff in Hy. destruct Hy as (t' & <- & _).
    rewrite Forall_forall in Hall. specialize (Hall c' Hc'). unfold R2, klt, lt1, lt2 in *. lia.
Qed.

Lemma sup_of_sorted bs : forall acc, sorted lt2 acc -> sorted lt2 (fold_left G.insS bs acc).
Proof.
  induction bs as [|b bs IH]; intros acc Hs; simpl; [exact Hs|]. apply IH. unfold G.insS.
  apply (oins_sorted_on lt2 lt2_trans); [exact Hs|]. intros e _ Hne Hlt.
  destruct (fst e) as [a1 a2], (G.bkey b) as [b1 b2]. unfold lt2 in *.
  assert (a1 <> b1 \/ a2 <> b2) by (destruct (Z.eq_dec a1 b1); [right; congruence|left; assumption]). lia.
Qed.

Lemma bkey_key_dm k : G.bkey (k, 0) = M.key_dm k.
Proof. destruct k as [[a d] m]. reflexivity. Qed.

Lemma sumk_total dm (b : list ((Z * Z * Z) * Z)) : GP.sumk dm b = M.total dm b.
Proof.
  unfold GP.sumk, M.total. f_equal. f_equal. apply filter_ext. intros [[[a d] m] v]. reflexivity.
Qed.

Lemma sumk_perm dm b b' : Permutation b b' -> GP.sumk dm b = GP.sumk dm b'.
Proof. intros Hp. unfold GP.sumk. apply zsum_perm. apply Permutation_map. apply filter_perm. exact Hp. Qed.

Lemma get_some_iff {K V} `{EqDec K} (m : list (K * V)) k v : NoDup (map fst m) -> (In (k, v) m <-> get k m = Some v).
Proof. intros Hnd. split; [apply NoDup_get_some; exact Hnd|apply get_In]. Qed.

Lemma get_in_keys_some {K V} `{EqDec K} (m : list (K * V)) k : In k (map fst m) -> exists v, get k m = Some v.
Proof.
  induction m as [|[k0 v0] m IH]; simpl; intros Hin; [contradiction|].
  destruct (eq_dec k k0); [eexists; reflexivity|]. destruct Hin as [Heq|Hin]; [congruence|apply IH; exact Hin].
Qed.

Section Reach.
  Variable s : M.state.
  Hypothesis Hr : MP.Reachable64 s.

  Let HE : ME.ExpInv s := ME.Reachable64_ExpInv s Hr.
  Let HB : MP.BalInv s := proj1 (MP.Reachable64_inv s Hr).

  Lemma nd_denoms : NoDup (map fst (map (col_entry s) (M.denoms s))).
  Proof. rewrite map_map. simpl. exact (ME.ei_nd_denoms s HE). Qed.

  Lemma nd_inner d : NoDup (map fst (map (mt_entry s d) (filter (of_class d) (M.mts s)))).
  Proof.
    rewrite map_map. unfold mt_entry. simpl.
    apply (ME.NoDup_map_filter (fun e : (Z * Z) * Z => snd (fst e)) (of_class d)).
    pose proof (ME.ei_mid_unique s HE) as Hu. unfold keys in Hu. rewrite map_map in Hu. exact Hu.
  Qed.

  Lemma nd_sup : NoDup (map fst (M.sup s)). Proof. exact (ME.ei_nd_sup s HE). Qed.
  Lemma nd_bal : NoDup (map fst (M.bal s)). Proof. exact (proj1 HB). Qed.

  Lemma in_cols c : In c (abs_cols s) <-> In c (map (col_entry s) (M.denoms s)).
  Proof. apply In_osort. exact nd_denoms. Qed.
  Lemma in_inner d t : In t (abs_inner s d) <-> In t (map (mt_entry s d) (filter (of_class d) (M.mts s))).
  Proof. apply In_osort. apply nd_inner. Qed.

  (** the (class, MT) pairs of the nested store are the keys of the MT store *)
  Lemma flat_keys_members dm : In dm (G.flat_keys (abs_cols s)) <-> In dm (keys (M.mts s)).
  Proof.
    unfold G.flat_keys. rewrite in_flat_map. split.
    - intros (c & Hc & Hin). apply in_cols in Hc. apply in_map_iff in Hc. destruct Hc as ([d i] & <- & _).
      simpl in Hin. apply in_map_iff in Hin. destruct Hin as (t & <- & Ht). apply in_inner in Ht.
      apply in_map_iff in Ht. destruct Ht as ([[d' m] dt] & <- & He). apply filter_In in He. destruct He as [He Hd].
      unfold of_class in Hd. simpl in *. assert (d' = d) by lia. subst. apply (in_map fst _ ((d, m), dt)). exact He.
    - intros Hk. destruct dm as [d m]. pose proof (ME.ei_mt_class s HE d m Hk) as Hd.
      apply in_map_iff in Hd. destruct Hd as ([d0 i] & Hd0 & Hin). simpl in Hd0. subst d0.
      exists (col_entry s (d, i)). split; [apply in_cols; apply in_map; exact Hin|].
      simpl. apply in_map_iff in Hk. destruct Hk as ([[d' m'] dt] & Hk' & He). simpl in Hk'. inversion Hk'; subst.
      apply in_map_iff. exists (mt_entry s d ((d, m), dt)). split; [reflexivity|].
      apply in_inner. apply in_map. apply filter_In. split; [exact He|]. unfold of_class. simpl. apply Z.eqb_refl.
  Qed.

  Lemma msupply_keys : map fst (osort lt2 (M.sup s)) = G.flat_keys (abs_cols s).
  Proof.
    apply (ssorted_ext R2).
    - intros [a b] Hx. unfold R2, lt2 in Hx. lia.
    - intros [a b] [c d] H1 H2. unfold R2, lt2 in *. lia.
    - apply sorted_keys_R2. apply sorted2.
    - apply flat_keys_sorted; [apply sorted1|]. intros c Hc. apply in_cols in Hc. apply in_map_iff in Hc.
      destruct Hc as (c0 & <- & _). simpl. apply sorted1.
    - intros dm. rewrite (keys_osort lt2). rewrite flat_keys_members. exact (ME.ei_sup_mt s HE dm).
  Qed.

  (** the supply store is the sums of the balances *)
  Lemma supply_value k v : In (k, v) (M.sup s) -> v = GP.sumk k (osort lt3 (M.bal s)).
  Proof.
    intros Hin. destruct HB as (_ & _ & Hsum & _). destruct k as [d m].
    rewrite (sumk_perm _ _ _ (osort_perm lt3 lt3_irrefl lt3_trans (M.bal s) (lt3_total_on _) nd_bal)).
    rewrite sumk_total. specialize (Hsum d m). unfold M.holders_total in Hsum. rewrite Hsum.
    unfold M.supply, M.getz. rewrite (NoDup_get_some (M.sup s) (d, m) v nd_sup Hin). reflexivity.
  Qed.

  Lemma msupply_sums : osort lt2 (M.sup s) = G.sup_of (osort lt3 (M.bal s)).
  Proof.
    apply (sorted_ext lt2 lt2_irrefl lt2_asym); [apply sorted2|apply sup_of_sorted; constructor|].
    assert (Hnd1 : NoDup (map fst (osort lt2 (M.sup s))))
      by (apply (sorted_keys_NoDup lt2 lt2_irrefl); apply sorted2).
    assert (Hnd2 : NoDup (map fst (G.sup_of (osort lt3 (M.bal s)))))
      by (apply (sorted_keys_NoDup lt2 lt2_irrefl); apply sup_of_sorted; constructor).
    intros [k v]. rewrite (get_some_iff _ k v Hnd1), (get_some_iff _ k v Hnd2).
    rewrite (get_osort lt2 (M.sup s) k nd_sup).
    (* does [k] have a balance entry? *)
    assert (Hkeys : In k (map fst (G.sup_of (osort lt3 (M.bal s)))) <-> In k (map fst (M.sup s))).
    { unfold G.sup_of. rewrite GP.keys_fold_insS. simpl. split.
      - intros [[]|Hb]. apply in_map_iff in Hb. destruct Hb as ([k3 x] & Hk3 & Hb3).
        apply (In_osort lt3 _ _ nd_bal) in Hb3. apply (ME.ei_sup_mt s HE). 
        pose proof (ME.ei_bal_mt s HE k3 (in_map fst _ _ Hb3)) as Hm. rewrite <- Hk3.
        destruct k3 as [[a d] m]. exact Hm.
      - intros Hk. right. apply (ME.ei_sup_mt s HE) in Hk. destruct (ME.ei_mt_bal s HE k Hk) as (a & Ha).
        apply in_map_iff in Ha. destruct Ha as ([k3 x] & Hk3 & Hb3). simpl in Hk3. subst k3.
        apply in_map_iff. exists ((a, fst k, snd k), x). split; [destruct k; reflexivity|].
        apply (In_osort lt3 _ _ nd_bal). exact Hb3. }
    destruct (get k (M.sup s)) as [v0|] eqn:E0.
    - assert (Hin0 : In k (map fst (M.sup s))) by (apply get_In in E0; apply (in_map fst _ _ E0)).
      apply Hkeys in Hin0. destruct (get_in_keys_some _ k Hin0) as (v1 & E1). rewrite E1.
      assert (v1 = v0).
      { pose proof (GP.getz_fold_insS (osort lt3 (M.bal s)) [] k) as Hg. fold (G.sup_of (osort lt3 (M.bal s))) in Hg.
        unfold G.getz in Hg at 1 2. rewrite E1 in Hg. simpl in Hg.
        rewrite (supply_value k v0 (get_In _ _ _ E0)). lia. }
      subst. tauto.
    - destruct (get k (G.sup_of (osort lt3 (M.bal s)))) as [v1|] eqn:E1; [|tauto].
      exfalso. apply get_In in E1. apply (in_map fst) in E1. simpl in E1. apply Hkeys in E1.
      destruct (get_in_keys_some _ k E1) as (v2 & E2). congruence.
  Qed.
End Reach.

Section Reach2.
  Variable s : M.state.
  Hypothesis Hr : MP.Reachable64 s.

  Lemma cols_perm : Permutation (abs_cols s) (map (col_entry s) (M.denoms s)).
  Proof. apply (osort_perm lt1 lt1_irrefl lt1_trans); [apply lt1_total_on|apply nd_denoms; exact Hr]. Qed.

  Lemma inner_length d : length (abs_inner s d) = length (ME.tokens_of s d).
  Proof.
    unfold abs_inner, ME.tokens_of.
    rewrite (Permutation_length (osort_perm lt1 lt1_irrefl lt1_trans _ (lt1_total_on _) (nd_inner s Hr d))).
    rewrite !map_length. reflexivity.
  Qed.

  Lemma count_mts_abs : G.count_mts (abs_cols s) + 1 = M.mseq s.
  Proof.
    destruct (ME.export_wellformed s Hr) as (_ & _ & _ & _ & _ & _ & _ & _ & _ & Hm). rewrite Hm.
    unfold G.count_mts. rewrite (zsum_perm _ _ (Permutation_map _ cols_perm)).
    unfold ME.export_collections. rewrite !map_map. cbn [fst snd].
    rewrite (map_ext _ (fun c : Z * G.dinfo => Z.of_nat (length (ME.tokens_of s (fst c))))) by (intros c; unfold col_entry; cbn [fst snd]; rewrite inner_length; reflexivity).
    rewrite Z.add_comm. reflexivity.
  Qed.

  Theorem reachable_mt : G.invb (abs s) = true.
  Proof.
    pose proof (ME.Reachable64_ExpInv s Hr) as HE. destruct (MP.Reachable64_inv s Hr) as [HB _].
    unfold G.invb, abs. cbn [G.cols G.msupply G.dsupply G.bals G.dseq G.mseq].
    assert (H1 : sortedb lt1 (abs_cols s) = true) by (apply (sorted_sortedb lt1); apply sorted1).
    rewrite H1, (sorted_sortedb lt2 _ (sorted2 _)), (sorted_sortedb lt3 _ (sorted3 _)).
    rewrite (msupply_keys s Hr), <- (msupply_sums s Hr), !Prelude.eqb_refl. cbn [andb].
    assert (H2 : forallb (fun c : G.col => sortedb lt1 (snd (snd c))) (abs_cols s) = true).
    { rewrite forallb_forall. intros c Hc. apply (in_cols s Hr) in Hc. apply in_map_iff in Hc. destruct Hc as (c0 & <- & _).
      simpl. apply (sorted_sortedb lt1). apply sorted1. }
    assert (H6 : forallb (fun e : (Z * Z) * Z => snd e <? G.two64) (osort lt2 (M.sup s)) = true).
    { rewrite forallb_forall. intros [[d m] v] He. apply (In_osort lt2 _ _ (nd_sup s Hr)) in He.
      destruct HB as (_ & _ & _ & Hmax). specialize (Hmax d m). unfold M.supply, M.getz in Hmax.
      rewrite (NoDup_get_some (M.sup s) (d, m) v (nd_sup s Hr) He) in Hmax. simpl. unfold M.max64, M.two64, G.two64 in *. lia. }
    assert (H8 : forallb (fun b : (Z * Z * Z) * Z => (0 <=? snd b) && (snd b <? G.two64) && (0 <=? fst (fst (fst b)))) (osort lt3 (M.bal s)) = true).
    { rewrite forallb_forall. intros [[[a d] m] v] He. apply (In_osort lt3 _ _ (nd_bal s Hr)) in He.
      pose proof (MP.BalInv_balance_max s a d m HB) as Hb. unfold M.balance, M.getz in Hb.
      rewrite (NoDup_get_some (M.bal s) (a, d, m) v (nd_bal s Hr) He) in Hb.
      pose proof (ME.ei_holder_addr s HE a d m (in_map fst _ _ He)) as Ha.
      simpl. unfold M.max64, M.two64, G.two64 in *. lia. }
    assert (H10 : (M.dseq s =? Z.of_nat (length (abs_cols s)) + 1) = true).
    { rewrite (Permutation_length cols_perm), map_length. rewrite (ME.ei_dseq s HE). apply Z.eqb_eq. rewrite Z.add_comm. reflexivity. }
    assert (H11 : (M.mseq s =? G.count_mts (abs_cols s) + 1) = true) by (pose proof count_mts_abs; lia).
    repeat (apply andb_true_intro; split); try reflexivity; try assumption.
  Qed.
End Reach2.

(** ** C12 over histories of the MT model (no free-standing invariant): histories shorter than 2^64 - 1 steps,
    the bound under which the model's uint64 sequences do not wrap ([Reachable64]) *)
Theorem mt_history_export_validates s : MP.Reachable64 s -> G.validate false (G.export (abs s)) = true.
Proof. intros Hr. apply GP.mt_export_validates_lemma. apply reachable_mt. exact Hr. Qed.

Theorem mt_history_roundtrip s : MP.Reachable64 s -> G.import false (G.export (abs s)) = Some (GP.norm (abs s)).
Proof. intros Hr. apply GP.mt_roundtrip. apply reachable_mt. exact Hr. Qed.

Theorem mt_history_fixpoint_and_queries s :
  MP.Reachable64 s ->
  exists s', G.import false (G.export (abs s)) = Some s' /\ G.export s' = G.export (abs s) /\ G.queries s' = G.queries (abs s).
Proof.
  intros Hr. exists (GP.norm (abs s)). split; [apply mt_history_roundtrip; exact Hr|].
  split; [apply GP.export_norm|apply GP.queries_norm].
Qed.

(** non-vacuity: the history of [Mt.Export.export_nonvacuous] (two classes, three balance records, one of them
    zero) is [Reachable64], its abstraction is non-trivial and is moved unchanged through export and import *)
Example link_mt_nonvacuous :
  let s := M.run M.init
    [ M.Msg (M.IssueDenom 0 2 5); M.Msg (M.Mint 0 1 0 18446744073709551615 6 1); M.Msg (M.Transfer 1 1 1 18446744073709551614 2);
      M.Msg (M.Burn 2 1 1 18446744073709551614); M.Msg (M.IssueDenom 1 3 0); M.Msg (M.Mint 1 2 0 7 0 (-1)); M.Msg (M.TransferDenom 0 1 3) ] in
  MP.Reachable64 s
  /\ length (G.cols (abs s)) = 2%nat /\ length (G.bals (abs s)) = 3%nat /\ G.msupply (abs s) = [((1, 1), 1); ((2, 2), 7)]
  /\ G.invb (abs s) = true
  /\ G.import false (G.export (abs s)) = Some (GP.norm (abs s)).
Proof.
  cbv zeta. split; [eexists; split; [reflexivity|vm_compute; discriminate]|].
  vm_compute. repeat split; reflexivity.
Qed.
