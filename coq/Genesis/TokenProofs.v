(** * Token: proofs about export / validate / import (C12) *)
From Irismod Require Import Genesis.Token.

Ltac split_andb H :=
  repeat match type of H with
         | (_ && _) = true => let H1 := fresh "Hi" in apply andb_true_iff in H; destruct H as [H H1]
         end.

Definition ins_t (m : list (Z * token)) (t : token) := oins lt1 (t_sym t) t m.
Definition ins_m (m : list (Z * Z)) (t : token) := oins lt1 (t_mu t) (t_sym t) m.
Definition ins_o (m : list ((Z * Z) * Z)) (t : token) :=
  if t_owner t =? -1 then m else oins lt2 (t_owner t, t_sym t) (t_sym t) m.

(** when no symbol and no min unit repeats, the import loop is three independent insertion loops *)
Lemma add_tokens_ok l : forall ts mi oi,
  (forall t, In t l -> ~ In (t_sym t) (map fst ts)) -> NoDup (map t_sym l) ->
  (forall t, In t l -> ~ In (t_mu t) (map fst mi)) -> NoDup (map t_mu l) ->
  add_tokens l (ts, mi, oi) = Some (fold_left ins_t l ts, fold_left ins_m l mi, fold_left ins_o l oi).
Proof.
  induction l as [|t l IH]; intros ts mi oi Hs Hnds Hm Hndm; simpl; [reflexivity|].
  rewrite (has_false_notin (t_sym t) ts) by (apply Hs; left; reflexivity).
  rewrite (has_false_notin (t_mu t) mi) by (apply Hm; left; reflexivity).
  inversion Hnds as [|? ? Hs1 Hs2]; subst. inversion Hndm as [|? ? Hm1 Hm2]; subst.
  change (if t_owner t =? -1 then oi else oins lt2 (t_owner t, t_sym t) (t_sym t) oi) with (ins_o oi t).
  change (oins lt1 (t_sym t) t ts) with (ins_t ts t). change (oins lt1 (t_mu t) (t_sym t) mi) with (ins_m mi t).
  apply IH.
  - intros t' Hin Hk. apply keys_oins_inv in Hk. destruct Hk as [Heq|Hk].
    + apply Hs1. rewrite <- Heq. apply in_map. exact Hin.
    + exact (Hs t' (or_intror Hin) Hk).
  - exact Hs2.
  - intros t' Hin Hk. apply keys_oins_inv in Hk. destruct Hk as [Heq|Hk].
    + apply Hm1. rewrite <- Heq. apply in_map. exact Hin.
    + exact (Hm t' (or_intror Hin) Hk).
  - exact Hm2.
Qed.

(** re-adding the burned totals of a sorted list, one denomination each, gives the list back *)
Lemma fold_add_burn_sorted l : forall acc,
  sorted lt1 (acc ++ l) -> fold_left add_burn l acc = acc ++ l.
Proof.
  induction l as [|[k v] l IH]; intros acc Hs; simpl.
  - rewrite app_nil_r. reflexivity.
  - assert (Hall : Forall (fun a => lt1 (fst a) k = true) acc) by (apply sorted_app_inv in Hs; exact Hs).
    unfold add_burn at 2. simpl. unfold getz. rewrite (get_none_all_lt k acc Hall).
    rewrite Z.add_0_r. rewrite (oins_last lt1 lt1_irrefl lt1_asym k v acc Hall).
    rewrite IH; rewrite <- app_assoc; simpl; [reflexivity|exact Hs].
Qed.

Lemma existsb_Zeqb_In d l : In d l -> existsb (Z.eqb d) l = true.
Proof. intros Hin. apply existsb_exists. exists d. split; [exact Hin|apply Z.eqb_refl]. Qed.
Lemma existsb_Zeqb_inv d l : existsb (Z.eqb d) l = true -> In d l.
Proof. intros He. apply existsb_exists in He. destruct He as (x & Hx & Hd). apply Z.eqb_eq in Hd. subst. exact Hx. Qed.

Lemma has_In_keys {V} k (m : list (Z * V)) : has k m = true -> In k (map fst m).
Proof.
  unfold has. destruct (get k m) as [v|] eqn:E; [|discriminate]. intros _. apply get_In in E.
  apply (in_map fst _ (k, v)). exact E.
Qed.

Lemma token_roundtrip fx s : invb s = true -> import fx (export s) = Some s.
Proof.
  intros Hinv. unfold invb in Hinv. split_andb Hinv.
  rename Hinv into Hsorted, Hi7 into Hkey, Hi6 into Hmu, Hi5 into Hok, Hi4 into Hmi, Hi3 into Hoi,
         Hi2 into Hbs, Hi1 into Hbok, Hi0 into Hprm, Hi into Hfee.
  assert (Hsyms : map t_sym (map snd (tokens s)) = map fst (tokens s)) by (apply key_ok_map; exact Hkey).
  assert (Hval : validate fx (export s) = true).
  { unfold validate, export. simpl. rewrite Hprm, Hok, Hbok. simpl. destruct fx; [|reflexivity]. unfold wf. simpl.
    rewrite Hsyms, (sortedb_keys_nodupb _ Hsorted), Hmu. simpl.
    apply existsb_Zeqb_In. apply has_In_keys. exact Hfee. }
  unfold import. rewrite Hval. simpl.
  rewrite add_tokens_ok.
  - change (fold_left ins_t (map snd (tokens s)) []) with (okeyed lt1 t_sym (map snd (tokens s))).
    rewrite (okeyed_roundtrip1 t_sym (tokens s) Hsorted Hkey). rewrite Hfee.
    rewrite (fold_add_burn_sorted (burned s) []) by (simpl; apply (sortedb_sorted lt1 lt1_trans); exact Hbs).
    simpl.
    assert (Hmi' : mu_idx s = mu_index_of (map snd (tokens s))) by (apply Prelude.eqb_true_iff; exact Hmi).
    assert (Hoi' : own_idx s = own_index_of (map snd (tokens s))) by (apply Prelude.eqb_true_iff; exact Hoi).
    unfold mu_index_of in Hmi'. unfold own_index_of in Hoi'. unfold ins_m, ins_o.
    rewrite <- Hmi', <- Hoi'. destruct s; reflexivity.
  - intros t _ [].
  - rewrite Hsyms. apply (sorted_keys_NoDup lt1 lt1_irrefl).
    apply (sortedb_sorted lt1 lt1_trans). exact Hsorted.
  - intros t _ [].
  - apply nodupb_NoDup. exact Hmu.
Qed.

Lemma validate_split g : validate true g = validate false g && wf g.
Proof. unfold validate. destruct (params_ok (g_prm g) && forallb token_ok (g_tokens g) && forallb coin_ok (g_burned g)); simpl; reflexivity. Qed.

Lemma import_switch g : validate false g = true -> validate true g = true -> import false g = import true g.
Proof. intros H1 H2. unfold import. rewrite H1, H2. reflexivity. Qed.

(** the exported genesis of every reachable state validates ... *)
Lemma token_export_validates_lemma s : invb s = true -> validate false (export s) = true.
Proof.
  intros Hinv. pose proof (token_roundtrip false s Hinv) as Hr. unfold import in Hr.
  destruct (validate false (export s)); [reflexivity|discriminate].
Qed.

(** ... and has the well-formedness InitGenesis relies on (which ValidateGenesis does not check) *)
Lemma token_export_wellformed_lemma s : invb s = true -> wf (export s) = true.
Proof.
  intros Hinv. pose proof (token_roundtrip true s Hinv) as Hr. unfold import in Hr.
  destruct (validate true (export s)) eqn:E; [|discriminate]. rewrite validate_split in E.
  apply andb_true_iff in E. tauto.
Qed.

(** importing the exported genesis of a reachable state does not panic *)
Lemma token_import_total_lemma s : invb s = true -> import false (export s) <> None.
Proof. intros Hinv. rewrite (token_roundtrip false s Hinv). discriminate. Qed.

Lemma token_export_fixpoint_lemma s :
  invb s = true -> exists s', import false (export s) = Some s' /\ export s' = export s.
Proof. intros Hinv. exists s. split; [apply token_roundtrip; exact Hinv|reflexivity]. Qed.

Lemma token_queries_preserved_lemma s :
  invb s = true -> exists s', import false (export s) = Some s' /\ queries s' = queries s.
Proof. intros Hinv. exists s. split; [apply token_roundtrip; exact Hinv|reflexivity]. Qed.

(** Remark (outside C12, which is about exported geneses): a hand-made genesis with a repeated symbol passes
    ValidateGenesis and makes InitGenesis panic — the well-formedness is not validated by the code *)
Definition wit_tok (sym mu : Z) : token := mkToken sym true 0 5 6 mu true 100 1000 true 0.
Definition wit_prm : params := mkParams 400000000000000000 (1, 60000) 100000000000000000 true 0.
Lemma token_handmade_genesis_can_panic_lemma :
  exists g, validate false g = true /\ wf g = false /\ import false g = None.
Proof. exists (mkGenesis wit_prm [wit_tok 1 1; wit_tok 1 2] []). repeat split; vm_compute; reflexivity. Qed.

(** ... and any validated AND well-formed genesis imports *)
Lemma token_import_total_wf_lemma g : validate false g = true -> wf g = true -> import false g <> None.
Proof.
  intros Hv Hw. assert (Hvt : validate true g = true) by (rewrite validate_split, Hv, Hw; reflexivity).
  rewrite (import_switch g Hv Hvt). unfold import. rewrite Hvt. simpl.
  unfold wf in Hw. split_andb Hw. rename Hw into Hs, Hi0 into Hm, Hi into Hf.
  rewrite add_tokens_ok; [|intros t _ []|apply nodupb_NoDup; exact Hs|intros t _ []|apply nodupb_NoDup; exact Hm].
  assert (Hhas : has (fst (p_fee (g_prm g))) (fold_left ins_t (g_tokens g) []) = true).
  { assert (Hgen : forall l acc k, (In k (map t_sym l) \/ has k acc = true) -> has k (fold_left ins_t l acc) = true).
    { induction l as [|t l IH]; intros acc k Hk; simpl.
      - destruct Hk as [[]|Hk]. exact Hk.
      - apply IH. destruct Hk as [[Heq|Hin]|Hacc].
        + right. unfold has, ins_t. rewrite Heq. rewrite get_oins_same. reflexivity.
        + left. exact Hin.
        + right. unfold has, ins_t in *. destruct (eq_dec k (t_sym t)) as [->|Hne].
          * rewrite get_oins_same. reflexivity.
          * rewrite get_oins_other by exact Hne. exact Hacc. }
    apply Hgen. left. apply existsb_Zeqb_inv. exact Hf. }
  rewrite Hhas. discriminate.
Qed.

Definition wit_s : state :=
  mkState wit_prm [(1, wit_tok 1 2); (3, mkToken 3 true 1 1 0 1 true 0 50 false (-1))]
          [(1, 3); (2, 1)] [((0, 1), 1)] [(2, 17)].

(** ** after a parameter change (MsgUpdateParams) naming an unregistered symbol as issue-fee denom: a state the
    chain can be in — every parameter-independent clause of the invariant holds, the parameters pass
    Params.Validate — whose export validates and whose import PANICS ("Token ... does not exist"); reachable on the
    code as it was, before "fix: token MsgUpdateParams rejects an issue fee denominated in an unregistered symbol";
    clause 5 of the check, corpus/C12/token-params-fee-denom-unregistered.jsonl.  [pf_s k]: one token with symbol 1;
    the fee is denominated in symbol [k] *)
Definition pf_s (k : Z) : state :=
  mkState (mkParams 400000000000000000 (k, 60000) 100000000000000000 true 0)
          [(1, wit_tok 1 1)] [(1, 1)] [((0, 1), 1)] [].
Lemma token_import_total_refuted_after_param_change_lemma :
  invb (pf_s 1) = true
  /\ invb_core (pf_s 3) = true /\ fee_registered (pf_s 3) = false
  /\ validate false (export (pf_s 3)) = true /\ import false (export (pf_s 3)) = None.
Proof. repeat split; vm_compute; reflexivity. Qed.
