(** * Oracle: the C12 invariant derived from the message-level model (Oracle/Model.v, Oracle/Proofs.v).

    The oracle group's state has the shape of the module's store (feeds, reverse index, values per feed, the
    RUNNING / PAUSED index) plus the part of the service module's request contexts the oracle reads — the
    ENVIRONMENT of the genesis-level model.  From their [Inv] (reverse index <-> feeds; latest-history within
    1..100 and respected by the value store; every feed's context exists; the state index mirrors the
    context's state; no values / index entries without a feed) and one invariant proved here over their
    handlers ([VS]: every feed's value list is in ascending key order) the genesis-level [invb] follows for
    the abstraction of EVERY reachable state — no hypothesis on the history.

    The model's association lists are read the way the store reads them ([get]: first binding wins): [canon]
    re-inserts a list back to front, so no distinctness of keys has to be derived.  Feed names and context ids
    are the model's numbers.  [abs] takes as parameters what the model does not have: the numbering [rc] of
    creators (non-negative) and the interned description of a feed with its length (at most 280); the syntactic
    validity flags of name and aggregate function are true (the model's create handler validated them). *)
From Irismod Require Import Genesis.Sort.
From Irismod Require Oracle.Model Oracle.Proofs Genesis.Oracle Genesis.OracleProofs.
From Coq Require Import Sorting.Sorted Permutation ZifyBool.

Module M := Irismod.Oracle.Model.
Module MP := Irismod.Oracle.Proofs.
Module G := Irismod.Genesis.Oracle.
Module GP := Irismod.Genesis.OracleProofs.

(** ** generic: reading an association list the way the store does *)
Lemma sorted1 {V} (m : list (Z * V)) : sorted lt1 (osort lt1 m).
Proof. apply osort_sorted; [exact lt1_trans|apply lt1_total_on]. Qed.

Lemma osort_snoc {V} (l : list (Z * V)) a : osort lt1 (l ++ [a]) = oins lt1 (fst a) (snd a) (osort lt1 l).
Proof. unfold osort, oof_list. rewrite fold_left_app. reflexivity. Qed.

Lemma get_osort_rev {V} (m : list (Z * V)) k : get k (osort lt1 (rev m)) = get k m.
Proof.
  induction m as [|[k0 v0] m IH]; [reflexivity|]. cbn [rev]. rewrite osort_snoc. cbn [fst snd get].
  destruct (eq_dec k k0) as [->|Hne]; [apply get_oins_same|]. rewrite get_oins_other by exact Hne. exact IH.
Qed.

Definition canon {V W} (g : Z -> V -> W) (m : list (Z * V)) : list (Z * W) :=
  osort lt1 (rev (map (fun e => (fst e, g (fst e) (snd e))) m)).

Lemma get_canon {V W} (g : Z -> V -> W) m k : get k (canon g m) = option_map (g k) (get k m).
Proof.
  unfold canon. rewrite get_osort_rev. induction m as [|[k0 v0] m IH]; [reflexivity|]. cbn [map fst snd get].
  destruct (eq_dec k k0) as [->|Hne]; [reflexivity|exact IH].
Qed.

Lemma canon_sorted {V W} (g : Z -> V -> W) m : sorted lt1 (canon g m).
Proof. apply sorted1. Qed.

Lemma in_canon {V W} (g : Z -> V -> W) m k w : In (k, w) (canon g m) <-> exists v, get k m = Some v /\ w = g k v.
Proof.
  assert (Hnd : NoDup (map fst (canon g m))) by (apply (sorted_keys_NoDup lt1 lt1_irrefl); apply canon_sorted).
  split.
  - intros Hin. pose proof (NoDup_get_some _ _ _ Hnd Hin) as Hg. rewrite get_canon in Hg.
    destruct (get k m) as [v|]; [|discriminate]. inversion Hg. eauto.
  - intros (v & Hg & ->). apply get_In. rewrite get_canon, Hg. reflexivity.
Qed.

(** ** Part 1: every feed's value list is in ascending key order *)
Lemma vins_oins bc v l : M.vins bc v l = oins lt1 bc v l.
Proof.
  induction l as [|[k w] l IH]; [reflexivity|]. cbn [M.vins oins]. unfold lt1.
  destruct (eq_dec bc k) as [->|Hne].
  - rewrite Z.ltb_irrefl, Z.eqb_refl. reflexivity.
  - destruct (bc <? k) eqn:E1; [reflexivity|]. destruct (bc =? k) eqn:E2; [lia|]. rewrite IH. reflexivity.
Qed.

Lemma sortedb_skipn {V} n (l : list (Z * V)) : sortedb lt1 l = true -> sortedb lt1 (skipn n l) = true.
Proof.
  revert l. induction n as [|n IH]; intros l Hs; [exact Hs|]. destruct l as [|a l]; [reflexivity|]. cbn [skipn]. apply IH.
  destruct l as [|b l']; [reflexivity|]. cbn [sortedb] in Hs. apply andb_true_iff in Hs. tauto.
Qed.

Lemma sortedb_delete_oldest d l : sortedb lt1 l = true -> sortedb lt1 (M.delete_oldest d l) = true.
Proof. intros Hs. unfold M.delete_oldest. destruct (d <=? 0); [exact Hs|apply sortedb_skipn; exact Hs]. Qed.

Lemma sortedb_set_feed_value l bc lh v : sortedb lt1 l = true -> sortedb lt1 (M.set_feed_value l bc lh v) = true.
Proof. intros Hs. unfold M.set_feed_value. rewrite vins_oins. apply GP.oins_total_sorted1. apply sortedb_delete_oldest. exact Hs. Qed.

Definition VS (s : M.state) : Prop := forall name l, get name (M.vals s) = Some l -> sortedb lt1 l = true.

Lemma VS_ext s s' : M.vals s' = M.vals s -> VS s -> VS s'.
Proof. intros E H name l. rewrite E. apply H. Qed.

Lemma VS_feed_vals s name : VS s -> sortedb lt1 (M.feed_vals s name) = true.
Proof. intros H. unfold M.feed_vals. destruct (get name (M.vals s)) as [l|] eqn:E; [exact (H _ _ E)|reflexivity]. Qed.

Lemma VS_set_vals s name l : VS s -> sortedb lt1 l = true -> VS (M.set_vals s name l).
Proof.
  intros H Hl n l0. unfold M.set_vals. cbn [M.vals]. destruct (eq_dec n name) as [->|Hne].
  - rewrite get_set_same. intros E. inversion E; subst. exact Hl.
  - rewrite get_set_other by exact Hne. apply H.
Qed.

Lemma VS_set_ctx s c x : VS s -> VS (M.set_ctx s c x). Proof. apply VS_ext. reflexivity. Qed.
Lemma VS_set_feed s n f : VS s -> VS (M.set_feed s n f). Proof. apply VS_ext. reflexivity. Qed.
Lemma VS_enqueue s n st : VS s -> VS (M.enqueue s n st). Proof. apply VS_ext. unfold M.enqueue. destruct (st =? M.RUNNING); reflexivity. Qed.
Lemma VS_dequeue s n st : VS s -> VS (M.dequeue s n st). Proof. apply VS_ext. unfold M.dequeue. destruct (st =? M.RUNNING); reflexivity. Qed.
Lemma VS_deq_enq s n a b : VS s -> VS (M.dequeue_enqueue s n a b).
Proof. intros H. unfold M.dequeue_enqueue. apply VS_enqueue, VS_dequeue, H. Qed.

Lemma VS_create s a : VS s -> VS (snd (M.do_create s a)).
Proof.
  intros H. unfold M.do_create. destruct (negb (M.create_basic a)); [exact H|]. destruct (has _ _); [exact H|].
  destruct (negb (M.create_ctx_ok a)); [exact H|]. cbv zeta. cbn [snd]. apply VS_enqueue, VS_set_feed. revert H. apply VS_ext. reflexivity.
Qed.

Lemma VS_start s name sender : VS s -> VS (snd (M.do_start s name sender)).
Proof.
  intros H. unfold M.do_start. destruct (sender <? 0); [exact H|]. destruct (get name (M.feeds s)) as [f|]; [|exact H].
  destruct (negb (sender =? M.f_creator f)); [exact H|]. destruct (get (M.f_ctx f) (M.ctxs s)) as [x|]; [|exact H].
  destruct (M.x_state x =? M.RUNNING); [exact H|]. destruct (negb (sender =? M.x_consumer x)); [exact H|].
  destruct (negb (M.x_state x =? M.PAUSED)); [exact H|]. cbv zeta. cbn [snd]. apply VS_deq_enq, VS_set_ctx, H.
Qed.

Lemma VS_pause s name sender : VS s -> VS (snd (M.do_pause s name sender)).
Proof.
  intros H. unfold M.do_pause. destruct (sender <? 0); [exact H|]. destruct (get name (M.feeds s)) as [f|]; [|exact H].
  destruct (negb (sender =? M.f_creator f)); [exact H|]. destruct (get (M.f_ctx f) (M.ctxs s)) as [x|]; [|exact H].
  destruct (negb (M.x_state x =? M.RUNNING)); [exact H|]. destruct (negb (sender =? M.x_consumer x)); [exact H|].
  cbv zeta. cbn [snd]. apply VS_deq_enq, VS_set_ctx, H.
Qed.

Lemma VS_edit s a : VS s -> VS (snd (M.do_edit s a)).
Proof.
  intros H. unfold M.do_edit. destruct (negb (M.edit_basic a)); [exact H|]. destruct (get (M.e_name a) (M.feeds s)) as [f|]; [|exact H].
  destruct (negb (M.e_sender a =? M.f_creator f)); [exact H|]. destruct (get (M.f_ctx f) (M.ctxs s)) as [x|]; [|exact H].
  destruct (M.update_ctx x a) as [x'|]; [|exact H]. cbv zeta.
  pose proof (VS_set_ctx s (M.f_ctx f) x' H) as H1.
  destruct (0 <? M.e_lh a); cbn [snd]; [|apply VS_set_feed, H1].
  apply VS_set_feed. destruct (M.e_lh a <? _); [|exact H1].
  apply VS_set_vals; [exact H1|]. apply sortedb_delete_oldest. apply VS_feed_vals. exact H1.
Qed.

Lemma VS_response s now c outs : VS s -> VS (snd (M.handler_response s now c outs)).
Proof.
  intros H. unfold M.handler_response. destruct (get c (M.ctxs s)) as [x|]; [|exact H].
  destruct outs as [|o outs]; [destruct (_ <? _); exact H|].
  destruct (_ <? _); [exact H|]. destruct (M.feed_by_ctx s c) as [[name f]|]; [|exact H].
  cbn [snd]. apply VS_set_vals; [exact H|]. apply sortedb_set_feed_value. apply VS_feed_vals. exact H.
Qed.

Lemma VS_close s c : VS s -> VS (M.close_batch s c).
Proof. intros H. unfold M.close_batch. destruct (get c (M.ctxs s)); [apply VS_set_ctx, H|exact H]. Qed.

Lemma VS_state_changed s c : VS s -> VS (M.handler_state_changed s c).
Proof.
  intros H. unfold M.handler_state_changed. destruct (get c (M.ctxs s)) as [x|]; [|exact H].
  destruct (M.feed_by_ctx s c) as [[name f]|]; [|exact H].
  destruct (M.x_state x =? M.PAUSED); [apply VS_deq_enq, H|]. destruct (M.x_state x =? M.RUNNING); [apply VS_deq_enq, H|exact H].
Qed.

Lemma VS_sev s now e : VS s -> VS (snd (M.do_sev s now e)).
Proof.
  intros H. destruct e; cbn [M.do_sev].
  - destruct (get c (M.ctxs s)); cbn [snd]; [apply VS_set_ctx, H|exact H].
  - pose proof (VS_response s now c outs H) as Hr. destruct (M.handler_response s now c outs) as [[| |] s1]; cbn [snd] in *; [apply VS_close, Hr|exact Hr|exact Hr].
  - destruct (get c (M.ctxs s)); cbn [snd]; [apply VS_state_changed, VS_set_ctx, H|exact H].
Qed.

Lemma VS_sevs now evs : forall s, VS s -> VS (snd (M.do_sevs s now evs)).
Proof.
  induction evs as [|e evs IH]; intros s H; [exact H|]. cbn [M.do_sevs].
  pose proof (VS_sev s now e H) as H1. destruct (M.do_sev s now e) as [[| |] s1]; cbn [snd] in *; [apply IH, H1|exact H|exact H].
Qed.

Lemma VS_exec s st : VS s -> VS (M.exec_state s st).
Proof.
  intros H. unfold M.exec_state, M.exec. destruct st as [now o]. destruct o.
  - apply VS_create, H.
  - apply VS_start, H.
  - apply VS_pause, H.
  - apply VS_edit, H.
  - exact H.
  - pose proof (VS_sevs now evs s H) as H1. destruct (M.do_sevs s now evs) as [[| |] s1]; cbn [snd] in *; [exact H1|exact H|exact H].
  - exact H.
Qed.

Lemma VS_run h : forall s, VS s -> VS (M.run s h).
Proof. induction h as [|st h IH]; intros s H; [exact H|]. cbn [M.run]. apply IH, VS_exec, H. Qed.

Lemma VS_init : VS M.init.
Proof. intros name l H. discriminate. Qed.

(** ** Part 2: the abstraction *)
Definition nonempty {A} (x : Z * list A) : bool := match snd x with [] => false | _ => true end.
Definition unit_entry (n : Z) : Z * unit := (n, tt).

Section Abs.
  Variables (rc desc dlen : Z -> Z).
  Definition abs_feed (name : Z) (f : M.feed) : G.feed :=
    G.mkFeed name true (desc name) (dlen name) (M.f_agg f) true (M.f_path f) (M.f_lh f) (M.f_ctx f) (rc (M.f_creator f)).
  Definition abs (s : M.state) : G.state :=
    G.mkState (canon abs_feed (M.feeds s)) (canon (fun _ n => n) (M.byctx s))
              (filter nonempty (canon (fun _ (l : list (Z * M.fval)) => l) (M.vals s)))
              (osort lt1 (map unit_entry (M.idx_run s))) (osort lt1 (map unit_entry (M.idx_pau s))).
  (** the service contexts the oracle's export and import look at: context id -> (state, batch counter) *)
  Definition abs_env (s : M.state) : G.env := map (fun e => (fst e, (M.x_state (snd e), M.x_bc (snd e)))) (M.ctxs s).
End Abs.

(** ** generic helpers *)
Lemma In_osort1 {V} (m : list (Z * V)) e : In e (osort lt1 m) -> In e m.
Proof. unfold osort, oof_list. intros H. apply In_fold_oins_inv in H. destruct H as [[]|H]. exact H. Qed.

Lemma sorted_filter {V} (p : Z * V -> bool) (m : list (Z * V)) : sorted lt1 m -> sorted lt1 (filter p m).
Proof.
  unfold sorted. induction m as [|a m IH]; simpl; intros Hs; [constructor|].
  inversion Hs as [|? ? Hs' Hall]; subst. destruct (p a).
  - constructor; [apply IH; exact Hs'|]. apply Forall_forall. intros x Hx. apply filter_In in Hx.
    rewrite Forall_forall in Hall. apply Hall. tauto.
  - apply IH. exact Hs'.
Qed.

Lemma fold_oins_map {A K V} `{EqDec K} (ltb : K -> K -> bool) (f : A -> K) (g : A -> V) (l : list A) : forall acc,
  fold_left (fun m t => oins ltb (f t) (g t) m) l acc
  = fold_left (fun m (kv : K * V) => oins ltb (fst kv) (snd kv) m) (map (fun t => (f t, g t)) l) acc.
Proof. induction l as [|a l IH]; intros acc; [reflexivity|]. cbn [fold_left map]. exact (IH _). Qed.

Definition inj_on {A B} (f : A -> B) (l : list A) : Prop := forall a b, In a l -> In b l -> f a = f b -> a = b.
Lemma NoDup_map_inj_on {A B} (f : A -> B) (l : list A) : inj_on f l -> NoDup l -> NoDup (map f l).
Proof.
  unfold inj_on. induction l as [|a l IH]; simpl; intros Hinj Hnd; [constructor|]. inversion Hnd as [|? ? Hn Hnd']; subst. constructor.
  - intros Hin. apply in_map_iff in Hin. destruct Hin as (b & Hfb & Hb). assert (b = a) by (apply Hinj; auto). subst. contradiction.
  - apply IH; [|exact Hnd']. intros x y Hx Hy. apply Hinj; auto.
Qed.

Lemma has_unit_fold k l : forall acc,
  has k (fold_left (fun m (kv : Z * unit) => oins lt1 (fst kv) (snd kv) m) (map unit_entry l) acc) = has k acc || M.smem k l.
Proof.
  induction l as [|n l IH]; intros acc; [cbn; rewrite orb_false_r; reflexivity|]. cbn [map fold_left unit_entry fst snd].
  rewrite IH, MP.smem_cons. unfold has. destruct (eq_dec k n) as [->|Hne].
  - rewrite get_oins_same, Z.eqb_refl. rewrite orb_true_r. reflexivity.
  - rewrite get_oins_other by exact Hne. assert ((k =? n) = false) by lia. rewrite H. reflexivity.
Qed.

Lemma has_unit_osort k l : has k (osort lt1 (map unit_entry l)) = M.smem k l.
Proof. unfold osort, oof_list. rewrite has_unit_fold. reflexivity. Qed.

Lemma smem_In k l : In k l -> M.smem k l = true.
Proof. intros H. unfold M.smem. apply existsb_exists. exists k. split; [exact H|apply Z.eqb_refl]. Qed.

(** ** Part 3: [invb] of the abstraction, from [Inv] and [VS] *)
Section Reach.
  Variables (rc desc dlen : Z -> Z).
  Hypothesis rc_nn : forall a, 0 <= rc a.
  Hypothesis dlen_ok : forall n, dlen n <= 280.
  Variable s : M.state.
  Hypothesis I : MP.Inv s.
  Hypothesis HV : VS s.

  Notation AF := (abs_feed rc desc dlen).
  Notation FA := (canon AF (M.feeds s)).

  Lemma FA_ctx_nodup : NoDup (map (fun f : Z * G.feed => G.o_ctx (snd f)) FA).
  Proof.
    apply NoDup_map_inj_on.
    - intros [k1 w1] [k2 w2] H1 H2 Hc. cbn [snd] in Hc.
      apply in_canon in H1. destruct H1 as (f1 & G1 & ->). apply in_canon in H2. destruct H2 as (f2 & G2 & ->).
      cbn [abs_feed G.o_ctx] in Hc. assert (k1 = k2) by exact (MP.feed_ctx_inj s k1 f1 k2 f2 I G1 G2 Hc). subst k2. congruence.
    - apply (NoDup_map_inv fst). apply (sorted_keys_NoDup lt1 lt1_irrefl). apply canon_sorted.
  Qed.

  Lemma ctx_idx_abs : canon (fun _ n : Z => n) (M.byctx s) = G.ctx_index_of FA.
  Proof.
    unfold G.ctx_index_of. rewrite (fold_oins_map lt1 (fun f : Z * G.feed => G.o_ctx (snd f)) fst).
    change (fold_left (fun m (kv : Z * Z) => oins lt1 (fst kv) (snd kv) m) (map (fun t : Z * G.feed => (G.o_ctx (snd t), fst t)) FA) [])
      with (osort lt1 (map (fun t : Z * G.feed => (G.o_ctx (snd t), fst t)) FA)).
    apply (sorted_ext lt1 lt1_irrefl lt1_asym); [apply canon_sorted|apply sorted1|]. intros [c n].
    assert (Hnd : NoDup (map fst (map (fun t : Z * G.feed => (G.o_ctx (snd t), fst t)) FA))) by (rewrite map_map; exact FA_ctx_nodup).
    rewrite (In_osort lt1 _ _ Hnd), in_canon, in_map_iff. split.
    - intros (n' & Hg & ->). destruct (MP.inv_byctx _ I _ _ Hg) as (f & Hf & Hc).
      exists (n', AF n' f). split; [cbn; rewrite Hc; reflexivity|]. apply in_canon. eauto.
    - intros ([k w] & Hx & Hin). apply in_canon in Hin. destruct Hin as (f & Hf & ->). cbn in Hx. inversion Hx; subst.
      exists n. split; [|reflexivity]. exact (proj1 (MP.inv_feed _ I _ _ Hf)).
  Qed.

  Theorem reachable_oracle_state : G.invb (abs rc desc dlen s) = true.
  Proof.
    assert (H1 : sortedb lt1 FA = true) by (apply (sorted_sortedb lt1); apply canon_sorted).
    assert (H2 : forallb (fun f : Z * G.feed => (fst f =? G.o_name (snd f)) && G.feed_ok (snd f)) FA = true).
    { apply forallb_forall. intros [k w] Hin. apply in_canon in Hin. destruct Hin as (f & Hf & ->).
      destruct (MP.inv_feed _ I _ _ Hf) as (_ & Hlh & _). pose proof (rc_nn (M.f_creator f)). pose proof (dlen_ok k).
      unfold G.feed_ok, abs_feed. cbn [fst snd G.o_name G.o_name_ok G.o_desc_len G.o_agg_ok G.o_latest G.o_creator].
      unfold M.MaxLatestHistory in Hlh. lia. }
    assert (H3 : eqb (canon (fun _ n : Z => n) (M.byctx s)) (G.ctx_index_of FA) = true) by (apply Prelude.eqb_true_iff; exact ctx_idx_abs).
    set (VA := filter nonempty (canon (fun _ (l : list (Z * M.fval)) => l) (M.vals s))).
    assert (H4 : sortedb lt1 VA = true) by (apply (sorted_sortedb lt1); apply sorted_filter; apply canon_sorted).
    assert (H5 : forallb (fun x : Z * list (Z * G.value) => sortedb lt1 (snd x) && negb (eqb (snd x) [])
                      && match get (fst x) FA with Some f => Z.of_nat (length (snd x)) <=? G.o_latest f | None => false end) VA = true).
    { apply forallb_forall. intros [k l] Hin. apply filter_In in Hin. destruct Hin as [Hin Hne].
      apply in_canon in Hin. destruct Hin as (l0 & Hg & ->). cbn [fst snd].
      assert (Hfv : M.feed_vals s k = l0) by (unfold M.feed_vals; rewrite Hg; reflexivity).
      apply andb_true_iff. split; [apply andb_true_iff; split|].
      - exact (HV _ _ Hg).
      - destruct l0 as [|a l0]; [discriminate Hne|]. apply negb_true_iff.
        destruct (eqb (a :: l0) []) eqn:E; [|reflexivity]. apply Prelude.eqb_true_iff in E. discriminate E.
      - rewrite get_canon. destruct (get k (M.feeds s)) as [f|] eqn:Ef.
        + destruct (MP.inv_feed _ I _ _ Ef) as (_ & _ & Hlen & _). rewrite Hfv in Hlen. cbn [option_map abs_feed G.o_latest]. apply Z.leb_le. exact Hlen.
        + destruct (MP.inv_nofeed _ I _ Ef) as (Hnv & _). rewrite Hfv in Hnv. rewrite Hnv in Hne. cbn in Hne. discriminate Hne. }
    assert (H6 : sortedb lt1 (osort lt1 (map unit_entry (M.idx_run s))) = true) by (apply (sorted_sortedb lt1); apply sorted1).
    assert (H7 : sortedb lt1 (osort lt1 (map unit_entry (M.idx_pau s))) = true) by (apply (sorted_sortedb lt1); apply sorted1).
    assert (H8 : forallb (fun f : Z * G.feed => xorb (has (fst f) (osort lt1 (map unit_entry (M.idx_run s))))
                                                   (has (fst f) (osort lt1 (map unit_entry (M.idx_pau s))))) FA = true).
    { apply forallb_forall. intros [k w] Hin. apply in_canon in Hin. destruct Hin as (f & Hf & _). cbn [fst].
      rewrite !has_unit_osort. destruct (MP.inv_feed _ I _ _ Hf) as (_ & _ & _ & x & Hx & _ & Hr & Hp).
      destruct (MP.inv_ctx _ I _ _ Hx) as (_ & _ & _ & Hst & _). rewrite Hr, Hp. unfold M.RUNNING, M.PAUSED in *.
      destruct Hst as [-> | ->]; reflexivity. }
    assert (H9 : forallb (fun x : Z * unit => has (fst x) FA)
                   (osort lt1 (map unit_entry (M.idx_run s)) ++ osort lt1 (map unit_entry (M.idx_pau s))) = true).
    { apply forallb_forall. intros x Hin. unfold has. rewrite get_canon.
      destruct (get (fst x) (M.feeds s)) as [f|] eqn:Ef; [reflexivity|]. exfalso.
      destruct (MP.inv_nofeed _ I _ Ef) as (_ & Hr & Hp). apply in_app_or in Hin.
      destruct Hin as [Hin|Hin]; apply In_osort1 in Hin; apply in_map_iff in Hin; destruct Hin as (n & <- & Hn); cbn [unit_entry fst] in *;
        pose proof (smem_In _ _ Hn); congruence. }
    unfold G.invb. do 8 (apply andb_true_intro; split; [|first [exact H9|exact H8|exact H7|exact H6|exact H5|exact H4|exact H3|exact H2]]). exact H1.
  Qed.
End Reach.

(** ** Part 4: C12 over histories of the oracle model — EVERY history, no hypothesis *)
Lemma get_abs_env s c : get c (abs_env s) = option_map (fun x => (M.x_state x, M.x_bc x)) (get c (M.ctxs s)).
Proof.
  unfold abs_env. induction (M.ctxs s) as [|[c0 x0] m IH]; [reflexivity|]. cbn [map fst snd get].
  destruct (eq_dec c c0); [reflexivity|exact IH].
Qed.

Section Hist.
  Variables (rc desc dlen : Z -> Z).
  Hypothesis rc_nn : forall a, 0 <= rc a.
  Hypothesis dlen_ok : forall n, dlen n <= 280.
  Variable h : list M.step.
  Let s := M.run M.init h.

  Theorem reachable_oracle : G.invb (abs rc desc dlen s) = true.
  Proof. exact (reachable_oracle_state rc desc dlen rc_nn dlen_ok s (MP.Inv_run h _ MP.Inv_init) (VS_run h _ VS_init)). Qed.

  (** the chain's own service module knows the context of every feed *)
  Lemma contexts_known : forall f, In f (G.feeds (abs rc desc dlen s)) -> has (G.o_ctx (snd f)) (abs_env s) = true.
  Proof.
    intros [k w] Hin. unfold abs in Hin. cbn [G.feeds] in Hin. apply in_canon in Hin. destruct Hin as (f & Hf & ->).
    destruct (MP.inv_feed _ (MP.Inv_run h _ MP.Inv_init) _ _ Hf) as (_ & _ & _ & x & Hx & _).
    unfold has. rewrite get_abs_env. cbn [snd abs_feed G.o_ctx]. unfold s. rewrite Hx. reflexivity.
  Qed.

  Theorem oracle_history_export_validates : G.validate (G.export (abs_env s) (abs rc desc dlen s)) = true.
  Proof. apply GP.oracle_export_validates_lemma. exact reachable_oracle. Qed.

  (** import does not panic on any chain whose service module knows the feeds' contexts — in particular one whose
      service genesis was imported faithfully *)
  Theorem oracle_history_import_total eB :
    (forall f, In f (G.feeds (abs rc desc dlen s)) -> has (G.o_ctx (snd f)) eB = true) ->
    G.import true eB (G.export (abs_env s) (abs rc desc dlen s)) <> None.
  Proof. intros Hk. exact (GP.oracle_import_total_partial_reachable_lemma true (abs_env s) eB _ reachable_oracle Hk). Qed.

  (** with the same service contexts on the new chain: the second export is the first, the feeds are the same and
      every feed's value history reads the same *)
  Theorem oracle_history_fixpoint_and_queries :
    exists s', G.import true (abs_env s) (G.export (abs_env s) (abs rc desc dlen s)) = Some s'
      /\ G.export (abs_env s) s' = G.export (abs_env s) (abs rc desc dlen s)
      /\ G.feeds s' = G.feeds (abs rc desc dlen s)
      /\ forall f, In f (G.feeds (abs rc desc dlen s)) -> G.values_of s' (fst f) = G.values_of (abs rc desc dlen s) (fst f).
  Proof.
    destruct (GP.oracle_export_fixpoint_lemma (abs_env s) _ reachable_oracle contexts_known) as (s' & Hi & He).
    exists s'. split; [exact Hi|]. split; [exact He|].
    exact (GP.oracle_values_preserved_lemma (abs_env s) _ s' reachable_oracle contexts_known Hi).
  Qed.
End Hist.

(** ** non-vacuity: the history of [Props/C17.c17_nonvacuous] (a feed created, started, four batches — one below
    the threshold —, the window shrunk and grown, an auto-pause): one paused feed with one value *)
Definition ex_out (m : Z) : M.output := [(0, Some (m, 0))].
Definition ex_history : list M.step :=
  [ (100, M.OCreate (M.mkCreate 7 1 M.AGG_MAX 0 2 true 2 false 2 2 3));
    (100, M.OStart 7 1);
    (105, M.OSvc [M.SNewBatch 0]);
    (105, M.OSvc [M.SDone 0 1 2 [ex_out (-3); ex_out (-5)] 0]);
    (110, M.OSvc [M.SNewBatch 0]);
    (110, M.OSvc [M.SDone 0 2 2 [ex_out 4] 0]);
    (115, M.OSvc [M.SNewBatch 0]);
    (115, M.OSvc [M.SDone 0 3 2 [ex_out 1; ex_out 9] 0]);
    (120, M.OSvc [M.SNewBatch 0; M.SDone 0 4 2 [ex_out 6; ex_out 2] 0]);
    (121, M.OPause 7 5);
    (122, M.OEdit (M.mkEdit 7 1 1 0 false 0 0 0));
    (123, M.OEdit (M.mkEdit 7 1 3 0 false 0 0 0));
    (125, M.OSvc [M.SNewBatch 0; M.SAutoPause 0]) ].
Definition ex_abs := abs Z.abs (fun n => n) (fun _ => 12).

Example link_oracle_nonvacuous :
  let s9 := M.run M.init (firstn 9 ex_history) in
  let s := M.run M.init ex_history in
  map fst (G.feeds (ex_abs s9)) = [7] /\ map fst (G.running (ex_abs s9)) = [7] /\ G.paused (ex_abs s9) = []
  /\ G.vals (ex_abs s9) = [(7, [(3, (900000000, 115)); (4, (600000000, 120))])]
  /\ G.invb (ex_abs s9) = true
  /\ G.running (ex_abs s) = [] /\ map fst (G.paused (ex_abs s)) = [7] /\ G.vals (ex_abs s) = [(7, [(4, (600000000, 120))])]
  /\ G.invb (ex_abs s) = true
  /\ (exists s', G.import true (abs_env s) (G.export (abs_env s) (ex_abs s)) = Some s' /\ G.vals s' = [(7, [(5, (600000000, 120))])]).
Proof. cbv zeta. repeat split; try (vm_compute; reflexivity). eexists. split; vm_compute; reflexivity. Qed.
