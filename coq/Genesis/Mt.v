(** * MT: export / validate / import  (modules/mt/genesis.go, types/genesis.go,
      keeper/{keeper,balance,denom,mt}.go)

    Identifiers (class ids, MT ids — hex SHA-256 of "mt-denom-N" / "mt-N" — and bech32 owner
    addresses) are interned by the harness with numbers that respect the byte order of the real
    strings; names and data blobs are interned without order.

    ORDER.  [ExportGenesisState] builds the [Owners] list by ranging over three nested Go maps, so
    the order of owners, of classes per owner and of balances per class is arbitrary (and differs
    between two exports of one state — a determinism matter, property C11).  [InitGenesis] adds
    every balance to a per-(class, MT) supply and to a per-(owner, class, MT) balance, which is
    insensitive to the order.  The genesis is therefore modelled with the owners part FLATTENED to
    a list of ((owner, class, MT), amount) in ascending key order (the canonical order; the
    harness sorts the exported JSON this way), and C12's fixpoint clause for MT reads "equal up to
    the order of the owners part". *)
From Irismod Require Export Genesis.Store.

Definition dinfo := (Z * Z * Z)%type.            (* name, owner (actor rank, -1: not an address), data *)
Definition minfo := (Z * Z)%type.                (* data, the Supply field as stored / exported *)

Record state := mkState {
  denoms : list (Z * dinfo);                     (* class id -> class, ascending *)
  mts : list ((Z * Z) * minfo);                  (* (class, MT) -> MT record as stored, ascending *)
  msupply : list ((Z * Z) * Z);                  (* (class, MT) -> supply *)
  dsupply : list (Z * Z);                        (* class -> number of MTs *)
  bals : list ((Z * Z * Z) * Z);                 (* (owner, class, MT) -> amount *)
  dseq : Z; mseq : Z                             (* next class / MT sequence *)
}.

Record genesis := mkGenesis {
  g_cols : list ((Z * dinfo) * list (Z * minfo));   (* Collections: class, its MTs (id, (data, supply)) *)
  g_bals : list ((Z * Z * Z) * Z)                   (* Owners, flattened, canonical order *)
}.

#[export] Instance EqDec_state : EqDec state.
Proof. intros x y. decide equality; apply eq_dec. Defined.
#[export] Instance EqDec_genesis : EqDec genesis.
Proof. intros x y. decide equality; apply eq_dec. Defined.

Definition two64 : Z := 18446744073709551616.
Definition getz {K} `{EqDec K} (k : K) (m : list (K * Z)) : Z := match get k m with Some x => x | None => 0 end.

(** ** Keeper.ExportGenesisState: classes in store order, each with its MTs in store order and
    the CURRENT supply ([GetMTs] overrides the stored Supply field by [GetMTSupply]) *)
Definition mts_of (s : state) (d : Z) : list (Z * minfo) :=
  map (fun e => (snd (fst e), (fst (snd e), getz (fst e) (msupply s))))
      (filter (fun e => fst (fst e) =? d) (mts s)).
Definition export (s : state) : genesis :=
  mkGenesis (map (fun e => (e, mts_of s (fst e))) (denoms s)) (bals s).

(** ** types.ValidateGenesis *)
(** mtMap1: (class, MT) -> exported supply; a later duplicate overwrites *)
Definition mt_map1 (cols : list ((Z * dinfo) * list (Z * minfo))) : list ((Z * Z) * Z) :=
  fold_left (fun m c => fold_left (fun m' t => set (fst (fst c), fst t) (snd (snd t)) m') (snd c) m) cols [].
(** mtMap2: (class, MT) -> sum of the balances, in uint64 arithmetic *)
Definition mt_map2 (bs : list ((Z * Z * Z) * Z)) : list ((Z * Z) * Z) :=
  fold_left (fun m b => let k := (snd (fst (fst b)), snd (fst b)) in set k ((getz k m + snd b) mod two64) m) bs [].

Definition validate (g : genesis) : bool :=
  let known := map (fun c => fst (fst c)) (g_cols g) in
  let m1 := mt_map1 (g_cols g) in
  let m2 := mt_map2 (g_bals g) in
  forallb (fun b => existsb (Z.eqb (snd (fst (fst b)))) known) (g_bals g)     (* unknown mt denom *)
  && (Z.of_nat (length m1) =? Z.of_nat (length m2))                          (* mt count mismatch *)
  && forallb (fun e => snd e =? getz (fst e) m2) m1.                          (* mt supply mismatch *)

(** ** InitGenesis *)
Definition add_col (acc : list (Z * dinfo) * list ((Z * Z) * minfo) * list (Z * Z) * Z)
                   (c : (Z * dinfo) * list (Z * minfo)) :=
  let '(ds, ms, dsup, seq) := acc in
  let d := fst (fst c) in
  let ds' := oins lt1 d (snd (fst c)) ds in
  fold_left (fun '(ds0, ms0, dsup0, seq0) t =>
               (ds0, oins lt2 (d, fst t) (snd t) ms0, oins lt1 d (getz d dsup0 + 1) dsup0, seq0 + 1))
            (snd c) (ds', ms, dsup, seq).

(** IncreaseMTSupply / AddBalance: error (panic) on uint64 overflow *)
Definition add_u64 {K} `{EqDec K} (ltb : K -> K -> bool) (k : K) (x : Z) (m : list (K * Z)) : option (list (K * Z)) :=
  let cur := getz k m in
  if two64 - 1 - cur <? x then None else Some (oins ltb k (cur + x) m).

Fixpoint add_bals (bs : list ((Z * Z * Z) * Z)) (sup : list ((Z * Z) * Z)) (bal : list ((Z * Z * Z) * Z))
    : option (list ((Z * Z) * Z) * list ((Z * Z * Z) * Z)) :=
  match bs with
  | [] => Some (sup, bal)
  | ((o, d, m), x) :: bs' =>
      if o <? 0 then None                                       (* invalid owner address *)
      else match add_u64 lt2 (d, m) x sup with
           | None => None
           | Some sup' =>
               match add_u64 lt3 (o, d, m) x bal with
               | None => None
               | Some bal' => add_bals bs' sup' bal'
               end
           end
  end.

Definition import (g : genesis) : option state :=
  if negb (validate g) then None
  else
    let '(ds, ms, dsup, seq) := fold_left add_col (g_cols g) ([], [], [], 1) in
    match add_bals (g_bals g) [] [] with
    | None => None
    | Some (sup, bal) => Some (mkState ds ms sup dsup bal (Z.of_nat (length (g_cols g)) + 1) seq)
    end.

(** ** Queries: Denoms / Denom, MTs / MT (with current supply), MTSupply, Balances *)
Definition view := (list (Z * dinfo) * list ((Z * Z) * (Z * Z)) * list ((Z * Z * Z) * Z))%type.
Definition queries (s : state) : view :=
  (denoms s,
   map (fun e => (fst e, (fst (snd e), getz (fst e) (msupply s)))) (mts s),
   bals s).

(** ** What reachable states look like *)
Definition sum_bals (s : state) (k : Z * Z) : Z :=
  zsum (map snd (filter (fun b => eqb (snd (fst (fst b)), snd (fst b)) k) (bals s))).

Definition invb (s : state) : bool :=
  sortedb lt1 (denoms s) && sortedb lt2 (mts s) && sortedb lt2 (msupply s) && sortedb lt1 (dsupply s)
  && sortedb lt3 (bals s)
  (* every MT belongs to a class; supply and balance entries exist exactly for the MTs *)
  && forallb (fun e => has (fst (fst e)) (denoms s)) (mts s)
  && eqb (map fst (msupply s)) (map fst (mts s))
  && forallb (fun b => has (snd (fst (fst b)), snd (fst b)) (mts s)) (bals s)
  && forallb (fun e => existsb (fun b => eqb (snd (fst (fst b)), snd (fst b)) (fst e)) (bals s)) (mts s)
  (* amounts are uint64, owners are addresses, the supply of an MT is the sum of its balances *)
  && forallb (fun b => (0 <=? snd b) && (snd b <? two64) && (0 <=? fst (fst (fst b)))) (bals s)
  && forallb (fun e => (snd e =? sum_bals s (fst e)) && (snd e <? two64)) (msupply s)
  (* class supply = number of its MTs; sequences count the objects ever created *)
  && forallb (fun e => getz (fst e) (dsupply s) =? Z.of_nat (length (filter (fun t => fst (fst t) =? fst e) (mts s)))) (denoms s)
  && forallb (fun e => has (fst e) (denoms s) && (0 <? snd e)) (dsupply s)
  && (dseq s =? Z.of_nat (length (denoms s)) + 1)
  && (mseq s =? Z.of_nat (length (mts s)) + 1).

(** ** Correspondence and the C12 predicate on the implementation's observations *)
Record run := mkRun {
  r_sA : state; r_gA : genesis; r_val : bool; r_imp : Z; r_sB : option state; r_gB : option genesis
}.
Record case := mkCase { c_runs : list run }.

Definition corr_run (r : run) : bool :=
  invb (r_sA r)
  && eqb (export (r_sA r)) (r_gA r)
  && eqb (validate (r_gA r)) (r_val r)
  && match import (r_gA r) with
     | None => negb (r_imp r =? 0)
     | Some b => (r_imp r =? 0) && eqb (r_sB r) (Some b) && eqb (r_gB r) (Some (export b))
     end.

(** clause codes: 1 export does not validate; 2 import panics; 3 second export differs (up to the
    order of the owners part); 4 a class / MT / supply / balance reads differently on B;
    5 the sequences of B differ from A's (the next generated id would differ) *)
Definition prop_run (r : run) : Z :=
  first_code
    [ (1, r_val r);
      (2, r_imp r =? 0);
      (3, match r_gB r with Some g => eqb g (r_gA r) | None => true end);
      (4, match r_sB r with Some b => eqb (queries b) (queries (r_sA r)) | None => true end);
      (5, match r_sB r with Some b => (dseq b =? dseq (r_sA r)) && (mseq b =? mseq (r_sA r)) | None => true end) ].

Fixpoint check_runs (rs : list run) (i : Z) (corr prop code : Z) : Z * Z * Z :=
  match rs with
  | [] => (corr, prop, code)
  | r :: rest =>
      let corr' := if (corr <? 0) && negb (corr_run r) then i else corr in
      let c := prop_run r in
      let '(prop', code') := if (prop <? 0) && negb (c =? 0) then (i, c) else (prop, code) in
      check_runs rest (i + 1) corr' prop' code'
  end.

Definition check_mt (c : case) : Z * Z * Z := check_runs (c_runs c) 0 (-1) (-1) 0.
