(** * MT: export / validate / import  (modules/mt/genesis.go, types/genesis.go,
      keeper/{keeper,balance,denom,mt}.go)

    Identifiers (class ids, MT ids — hex SHA-256 of "mt-denom-N" / "mt-N" — and bech32 owner
    addresses) are numbered by the harness in the byte order of the real strings; names and data
    blobs are interned.  The class store and the MT store are viewed together as
    class -> (class record, MT id -> MT record as stored) (the harness reports an MT whose class does
    not exist).

    ORDER.  Since "fix: mt genesis export lists owners, denoms and balances in store key order" the
    [Owners] part of the export is in key order (owner, class, MT); it is modelled flattened to a
    list of ((owner, class, MT), amount) in that order and compared exactly. *)
From Irismod Require Export Genesis.Store.

Definition dinfo := (Z * Z * Z)%type.            (* name, owner (rank, -1: not an address), data *)
Definition minfo := (Z * Z)%type.                (* data, the Supply field as stored / exported *)
Definition col := (Z * (dinfo * list (Z * minfo)))%type.

Record state := mkState {
  cols : list col;                               (* class id -> (class, MT id -> MT record as stored) *)
  msupply : list ((Z * Z) * Z);                  (* (class, MT) -> supply *)
  dsupply : list (Z * Z);                        (* class -> number of MTs *)
  bals : list ((Z * Z * Z) * Z);                 (* (owner, class, MT) -> amount *)
  dseq : Z; mseq : Z                             (* next class / MT sequence *)
}.

Record genesis := mkGenesis {
  g_cols : list ((Z * dinfo) * list (Z * minfo));   (* Collections: class, its MTs (id, (data, supply)) *)
  g_bals : list ((Z * Z * Z) * Z)                   (* Owners, flattened *)
}.

#[export] Instance EqDec_state : EqDec state.
Proof. intros x y. decide equality; apply eq_dec. Defined.
#[export] Instance EqDec_genesis : EqDec genesis.
Proof. intros x y. decide equality; apply eq_dec. Defined.

Definition two64 : Z := 18446744073709551616.
Definition getz {K} `{EqDec K} (k : K) (m : list (K * Z)) : Z := match get k m with Some x => x | None => 0 end.
Definition bkey (b : (Z * Z * Z) * Z) : Z * Z := (snd (fst (fst b)), snd (fst b)).   (* (class, MT) of a balance *)

(** ** Keeper.ExportGenesisState: classes in store order, each with its MTs in store order and
    the CURRENT supply ([GetMTs] overrides the stored Supply field by [GetMTSupply]) *)
Definition exp_mts (sup : list ((Z * Z) * Z)) (d : Z) (ms : list (Z * minfo)) : list (Z * minfo) :=
  map (fun t => (fst t, (fst (snd t), getz (d, fst t) sup))) ms.
Definition export (s : state) : genesis :=
  mkGenesis (map (fun c => ((fst c, fst (snd c)), exp_mts (msupply s) (fst c) (snd (snd c)))) (cols s)) (bals s).

(** ** types.ValidateGenesis *)
(** mtMap1: (class, MT) -> exported supply; a later duplicate overwrites *)
Definition mt_map1 (cs : list ((Z * dinfo) * list (Z * minfo))) : list ((Z * Z) * Z) :=
  fold_left (fun m c => fold_left (fun m' t => set (fst (fst c), fst t) (snd (snd t)) m') (snd c) m) cs [].
(** mtMap2: (class, MT) -> sum of the balances, in uint64 arithmetic *)
Definition step2 (m : list ((Z * Z) * Z)) (b : (Z * Z * Z) * Z) := set (bkey b) ((getz (bkey b) m + snd b) mod two64) m.
Definition mt_map2 (bs : list ((Z * Z * Z) * Z)) : list ((Z * Z) * Z) := fold_left step2 bs [].

(** the repaired loop refuses an overflow instead of wrapping *)
Fixpoint mt_map2c (bs : list ((Z * Z * Z) * Z)) (m : list ((Z * Z) * Z)) : option (list ((Z * Z) * Z)) :=
  match bs with
  | [] => Some m
  | b :: bs' => if two64 - 1 - getz (bkey b) m <? snd b then None
                else mt_map2c bs' (set (bkey b) (getz (bkey b) m + snd b) m)
  end.

(** [validate false] is the code's ValidateGenesis (the balance sums wrap).  [validate true] is a stricter
    variant that is NOT in the tree (owners are addresses, no sum exceeds uint64 — what InitGenesis relies on);
    every EXPORTED genesis passes both (proved). *)
Definition validate (fx : bool) (g : genesis) : bool :=
  let known := map (fun c => fst (fst c)) (g_cols g) in
  let m1 := mt_map1 (g_cols g) in
  match (if fx then mt_map2c (g_bals g) [] else Some (mt_map2 (g_bals g))) with
  | None => false
  | Some m2 =>
      (if fx then forallb (fun b => 0 <=? fst (fst (fst b))) (g_bals g) else true)   (* invalid owner address *)
      && forallb (fun b => existsb (Z.eqb (snd (fst (fst b)))) known) (g_bals g)     (* unknown mt denom *)
      && (Z.of_nat (length m1) =? Z.of_nat (length m2))                          (* mt count mismatch *)
      && forallb (fun e => snd e =? getz (fst e) m2) m1                           (* mt supply mismatch *)
  end.

(** ** InitGenesis *)
Definition old_mts (d : Z) (cs : list col) : list (Z * minfo) :=
  match get d cs with Some x => snd x | None => [] end.
Definition add_col (acc : list col * list (Z * Z) * Z) (c : (Z * dinfo) * list (Z * minfo)) :=
  let '(cs, dsup, seq) := acc in
  let d := fst (fst c) in
  (oins lt1 d (snd (fst c), fold_left (fun m t => oins lt1 (fst t) (snd t) m) (snd c) (old_mts d cs)) cs,
   fold_left (fun ds (_ : Z * minfo) => oins lt1 d (getz d ds + 1) ds) (snd c) dsup,
   seq + Z.of_nat (length (snd c))).

(** IncreaseMTSupply / AddBalance: error (panic) on uint64 overflow *)
Definition add_u64 {K} `{EqDec K} (ltb : K -> K -> bool) (k : K) (x : Z) (m : list (K * Z)) : option (list (K * Z)) :=
  let cur := getz k m in
  if two64 - 1 - cur <? x then None else Some (oins ltb k (cur + x) m).

Fixpoint add_bals (bs : list ((Z * Z * Z) * Z)) (sup : list ((Z * Z) * Z)) (bal : list ((Z * Z * Z) * Z))
    : option (list ((Z * Z) * Z) * list ((Z * Z * Z) * Z)) :=
  match bs with
  | [] => Some (sup, bal)
  | b :: bs' =>
      if fst (fst (fst b)) <? 0 then None                                       (* invalid owner address *)
      else match add_u64 lt2 (bkey b) (snd b) sup with
           | None => None
           | Some sup' =>
               match add_u64 lt3 (fst b) (snd b) bal with
               | None => None
               | Some bal' => add_bals bs' sup' bal'
               end
           end
  end.

Definition import (fx : bool) (g : genesis) : option state :=
  if negb (validate fx g) then None
  else
    let '(cs, dsup, seq) := fold_left add_col (g_cols g) ([], [], 1) in
    match add_bals (g_bals g) [] [] with
    | None => None
    | Some (sup, bal) => Some (mkState cs sup dsup bal (Z.of_nat (length (g_cols g)) + 1) seq)
    end.

(** ** Queries: Denoms / Denom, MTs / MT (with current supply), MTSupply, Balances *)
Definition cur_cols (s : state) : list col :=
  map (fun c => (fst c, (fst (snd c), exp_mts (msupply s) (fst c) (snd (snd c))))) (cols s).
Definition view := (list col * list ((Z * Z) * Z) * list ((Z * Z * Z) * Z))%type.
Definition queries (s : state) : view := (cur_cols s, msupply s, bals s).

(** ** What reachable states look like *)
Definition flat_keys (cs : list col) : list (Z * Z) := flat_map (fun c => map (fun t => (fst c, fst t)) (snd (snd c))) cs.
(** the supply store as the balances determine it: one entry per (class, MT) that has a balance entry,
    holding the sum of these balances *)
Definition insS (m : list ((Z * Z) * Z)) (b : (Z * Z * Z) * Z) := oins lt2 (bkey b) (getz (bkey b) m + snd b) m.
Definition sup_of (bs : list ((Z * Z * Z) * Z)) : list ((Z * Z) * Z) := fold_left insS bs [].
Definition dsupply_of (cs : list col) : list (Z * Z) :=
  flat_map (fun c => match snd (snd c) with [] => [] | _ => [(fst c, Z.of_nat (length (snd (snd c))))] end) cs.
Definition count_mts (cs : list col) : Z := zsum (map (fun c => Z.of_nat (length (snd (snd c)))) cs).

Definition invb (s : state) : bool :=
  sortedb lt1 (cols s) && forallb (fun c => sortedb lt1 (snd (snd c))) (cols s)
  (* supply entries exist exactly for the MTs (every MT has a balance entry, possibly zero, and every
     balance belongs to an MT) and hold the sum of the balances, which fits uint64 *)
  && sortedb lt2 (msupply s) && eqb (map fst (msupply s)) (flat_keys (cols s))
  && eqb (msupply s) (sup_of (bals s)) && forallb (fun e => snd e <? two64) (msupply s)
  && sortedb lt3 (bals s)
  && forallb (fun b => (0 <=? snd b) && (snd b <? two64) && (0 <=? fst (fst (fst b)))) (bals s)
  (* class supply = number of its MTs; sequences count the objects ever created *)
  && eqb (dsupply s) (dsupply_of (cols s))
  && (dseq s =? Z.of_nat (length (cols s)) + 1)
  && (mseq s =? count_mts (cols s) + 1).

(** ** Correspondence and the C12 predicate on the implementation's observations *)
Record run := mkRun {
  r_sA : state; r_gA : genesis; r_val : bool; r_imp : Z; r_sB : option state; r_gB : option genesis;
  r_t : option (genesis * bool * Z)       (* a tampered copy of the export: the genesis, ValidateGenesis = nil, InitGenesis 0 ok / 2 panic *)
}.
Record case := mkCase { c_runs : list run }.

(** the tree under check does NOT contain that change (it was not taken: C12 quantifies over exported
    geneses of reachable states, not over hand-made ones); the switch documents what would close the gap *)
Definition fixed_v : bool := false.

Definition corr_run (r : run) : bool :=
  invb (r_sA r)
  && eqb (export (r_sA r)) (r_gA r)
  && eqb (validate fixed_v (r_gA r)) (r_val r)
  && match import fixed_v (r_gA r) with
     | None => negb (r_imp r =? 0)
     | Some b => (r_imp r =? 0) && eqb (r_sB r) (Some b) && eqb (r_gB r) (Some (export b))
     end
  && match r_t r with
     | Some (tg, tv, ti) => eqb (validate fixed_v tg) tv && eqb (match import fixed_v tg with Some _ => true | None => false end) (ti =? 0)
     | None => true
     end.

(** clause codes: 1 export does not validate; 2 import panics; 3 second export differs;
    4 a class / MT / supply / balance reads differently on B;
    5 the sequences of B differ from A's (the next generated id would differ) *)
Definition prop_run (r : run) : Z :=
  first_code
    [ (1, r_val r);
      (2, r_imp r =? 0);
      (3, match r_gB r with Some g => eqb g (r_gA r) | None => true end);
      (4, match r_sB r with Some b => eqb (queries b) (queries (r_sA r)) | None => true end);
      (5, match r_sB r with Some b => (dseq b =? dseq (r_sA r)) && (mseq b =? mseq (r_sA r)) | None => true end) ].

Fixpoint check_runs (rs : list run) (i : Z) (corr prop code : Z) : Z * Z * Z :=
  match rs with
  | [] => (corr, prop, code)
  | r :: rest =>
      let corr' := if (corr <? 0) && negb (corr_run r) then i else corr in
      let c := prop_run r in
      let '(prop', code') := if (prop <? 0) && negb (c =? 0) then (i, c) else (prop, code) in
      check_runs rest (i + 1) corr' prop' code'
  end.

Definition check_mt (c : case) : Z * Z * Z := check_runs (c_runs c) 0 (-1) (-1) 0.
