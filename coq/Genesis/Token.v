(** * Token: export / validate / import  (modules/token/genesis.go, types/v1/genesis.go,
      types/v1/params.go, types/v1/token.go, keeper/token.go)

    Symbols and min units are numbered in the byte order of the real strings (two separate
    numberings); whether a symbol / min unit passes the module's regular expressions and keyword
    list is decided by the module's own [ValidateSymbol] / [ValidateMinUnit] and carried as a flag
    (the syntax checks are not modelled).  Owners are numbered in the byte order of the raw
    addresses (-1: no owner, -2: not an address).  Names are interned; only their length matters
    to the code.  ERC20 contracts are absent from every generated state (the harness reports a
    token that has one). *)
From Irismod Require Export Genesis.Store.

Record params := mkParams {
  p_tax : Z; p_fee : Z * Z;                     (* IssueTokenBaseFee: (symbol, amount) *)
  p_ratio : Z; p_erc20 : bool;
  p_beacon : Z                                  (* 0 empty, 1 a hex address, -1 anything else *)
}.
Record token := mkToken {
  t_sym : Z; t_sym_ok : bool; t_name : Z; t_name_len : Z; t_scale : Z;
  t_mu : Z; t_mu_ok : bool; t_init : Z; t_max : Z; t_mintable : bool; t_owner : Z
}.
#[export] Instance EqDec_params : EqDec params.
Proof. intros x y. decide equality; apply eq_dec. Defined.
#[export] Instance EqDec_token : EqDec token.
Proof. intros x y. decide equality; apply eq_dec. Defined.

Record state := mkState {
  prm : params;
  tokens : list (Z * token);                    (* 0x01 symbol -> token *)
  mu_idx : list (Z * Z);                        (* 0x02 min unit -> symbol *)
  own_idx : list ((Z * Z) * Z);                 (* 0x03 owner, symbol -> symbol *)
  burned : list (Z * Z)                         (* 0x04 min unit -> total burned *)
}.
Record genesis := mkGenesis { g_prm : params; g_tokens : list token; g_burned : list (Z * Z) }.
#[export] Instance EqDec_state : EqDec state.
Proof. intros x y. decide equality; apply eq_dec. Defined.
#[export] Instance EqDec_genesis : EqDec genesis.
Proof. intros x y. decide equality; apply eq_dec. Defined.

Definition one_dec : Z := 1000000000000000000.
Definition max_init : Z := 100000000000.

(** ExportGenesis: parameters, tokens in symbol order, burned totals in min-unit order *)
Definition export (s : state) : genesis := mkGenesis (prm s) (map snd (tokens s)) (burned s).

(** Params.Validate, Token.Validate, Coin.Validate *)
Definition params_ok (p : params) : bool :=
  (0 <=? p_tax p) && (p_tax p <=? one_dec) && (0 <=? p_ratio p) && (p_ratio p <=? one_dec)
  && (0 <=? snd (p_fee p)) && (0 <=? p_beacon p).
Definition token_ok (t : token) : bool :=
  negb (t_owner t =? -2) && (0 <? t_name_len t) && (t_name_len t <=? 32)
  && t_sym_ok t && t_mu_ok t && (t_init t <=? max_init) && (t_init t <=? t_max t) && (t_scale t <=? 18).
Definition coin_ok (c : Z * Z) : bool := (0 <=? fst c) && (0 <=? snd c).

(** types/v1.ValidateGenesis = [validate false].  [wf] is the well-formedness InitGenesis relies on and the
    code does NOT validate (no repeated symbol / min unit, the issue-fee token exists); every EXPORTED genesis
    has it (proved); [validate true] = [validate false] plus [wf]. *)
Definition wf (g : genesis) : bool :=
  nodupb (map t_sym (g_tokens g)) && nodupb (map t_mu (g_tokens g))
  && existsb (Z.eqb (fst (p_fee (g_prm g)))) (map t_sym (g_tokens g)).
Definition validate (fx : bool) (g : genesis) : bool :=
  params_ok (g_prm g) && forallb token_ok (g_tokens g) && forallb coin_ok (g_burned g)
  && (if fx then wf g else true).

(** InitGenesis.  AddToken refuses (-> panic) a symbol or min unit that is already stored. *)
Definition istate := (list (Z * token) * list (Z * Z) * list ((Z * Z) * Z))%type.
Definition add_token (st : istate) (t : token) : option istate :=
  let '(ts, mi, oi) := st in
  if has (t_sym t) ts then None
  else if has (t_mu t) mi then None
  else Some (oins lt1 (t_sym t) t ts, oins lt1 (t_mu t) (t_sym t) mi,
             if t_owner t =? -1 then oi else oins lt2 (t_owner t, t_sym t) (t_sym t) oi).
Fixpoint add_tokens (l : list token) (st : istate) : option istate :=
  match l with
  | [] => Some st
  | t :: l' => match add_token st t with Some st' => add_tokens l' st' | None => None end
  end.
Definition getz {K} `{EqDec K} (k : K) (m : list (K * Z)) : Z := match get k m with Some x => x | None => 0 end.
(** AddBurnCoin: the amount is added to what is stored for the denomination *)
Definition add_burn (m : list (Z * Z)) (c : Z * Z) : list (Z * Z) := oins lt1 (fst c) (snd c + getz (fst c) m) m.

Definition import (fx : bool) (g : genesis) : option state :=
  if negb (validate fx g) then None
  else match add_tokens (g_tokens g) ([], [], []) with
       | None => None
       | Some (ts, mi, oi) =>
           if has (fst (p_fee (g_prm g))) ts
           then Some (mkState (g_prm g) ts mi oi (fold_left add_burn (g_burned g) []))
           else None                                        (* "Token ... does not exist" *)
       end.

(** Queries: Token by symbol and by min unit, Tokens of an owner, TotalBurn, Params *)
Definition query_token (s : state) (sym : Z) : option token := get sym (tokens s).
Definition query_by_mu (s : state) (mu : Z) : option token :=
  match get mu (mu_idx s) with Some sym => get sym (tokens s) | None => None end.
Definition view := (params * list (Z * token) * list (Z * option token) * list ((Z * Z) * Z) * list (Z * Z))%type.
Definition queries (s : state) : view :=
  (prm s, tokens s, map (fun e => (fst e, query_by_mu s (fst e))) (mu_idx s), own_idx s, burned s).

(** reachable states *)
Definition mu_index_of (ts : list token) : list (Z * Z) :=
  fold_left (fun m t => oins lt1 (t_mu t) (t_sym t) m) ts [].
Definition own_index_of (ts : list token) : list ((Z * Z) * Z) :=
  fold_left (fun m t => if t_owner t =? -1 then m else oins lt2 (t_owner t, t_sym t) (t_sym t) m) ts [].
Definition key_ok (e : Z * token) : bool := fst e =? t_sym (snd e).
Definition invb (s : state) : bool :=
  sortedb lt1 (tokens s) && forallb key_ok (tokens s)
  && nodupb (map t_mu (map snd (tokens s)))
  && forallb token_ok (map snd (tokens s))
  && eqb (mu_idx s) (mu_index_of (map snd (tokens s)))
  && eqb (own_idx s) (own_index_of (map snd (tokens s)))
  && sortedb lt1 (burned s) && forallb coin_ok (burned s)
  && params_ok (prm s)
  && has (fst (p_fee (prm s))) (tokens s).

(** the one parameter-dependent clause of [invb]: the issue-fee denom is a registered symbol.  It holds as long
    as the parameters are not changed by a MsgUpdateParams naming an unregistered symbol (the code as it was
    accepted that; the repaired msgServer.UpdateParams refuses it: clause 5 of the check watches it) *)
Definition fee_registered (s : state) : bool := has (fst (p_fee (prm s))) (tokens s).
Definition invb_core (s : state) : bool :=
  sortedb lt1 (tokens s) && forallb key_ok (tokens s)
  && nodupb (map t_mu (map snd (tokens s)))
  && forallb token_ok (map snd (tokens s))
  && eqb (mu_idx s) (mu_index_of (map snd (tokens s)))
  && eqb (own_idx s) (own_index_of (map snd (tokens s)))
  && sortedb lt1 (burned s) && forallb coin_ok (burned s)
  && params_ok (prm s).
Lemma invb_split s : invb s = invb_core s && fee_registered s.
Proof. reflexivity. Qed.

(** ** Correspondence and the C12 predicate *)
Record run := mkRun {
  r_sA : state; r_gA : genesis; r_val : bool; r_imp : Z; r_sB : option state; r_gB : option genesis;
  r_t : option (genesis * bool * Z)       (* a tampered copy of the export: the genesis, ValidateGenesis = nil, InitGenesis 0 ok / 2 panic *)
}.
Record case := mkCase { c_runs : list run }.

(** the tree under check does NOT contain that change (it was not taken: C12 quantifies over exported
    geneses of reachable states, not over hand-made ones); the switch documents what would close the gap *)
Definition fixed_v : bool := false.

Definition corr_run (r : run) : bool :=
  invb_core (r_sA r)
  && eqb (export (r_sA r)) (r_gA r)
  && eqb (validate fixed_v (r_gA r)) (r_val r)
  && match import fixed_v (r_gA r) with
     | None => negb (r_imp r =? 0)
     | Some b => (r_imp r =? 0) && eqb (r_sB r) (Some b) && eqb (r_gB r) (Some (export b))
     end
  && match r_t r with
     | Some (tg, tv, ti) => eqb (validate fixed_v tg) tv && eqb (match import fixed_v tg with Some _ => true | None => false end) (ti =? 0)
     | None => true
     end.

(** clause codes: 1 export does not validate; 2 import panics; 3 second export differs;
    4 a token (by symbol, by min unit, by owner), a burned total or the parameters read differently on B;
    5 import panics and the issue-fee denom of A's parameters is not a registered symbol (only possible after
    a MsgUpdateParams naming one) — reported before 2, so that 2 stands for every OTHER import panic *)
Definition prop_run (r : run) : Z :=
  first_code
    [ (1, r_val r);
      (5, (r_imp r =? 0) || fee_registered (r_sA r));
      (2, r_imp r =? 0);
      (3, match r_gB r with Some g => eqb g (r_gA r) | None => true end);
      (4, match r_sB r with Some b => eqb (queries b) (queries (r_sA r)) | None => true end) ].

Fixpoint check_runs (rs : list run) (i : Z) (corr prop code : Z) : Z * Z * Z :=
  match rs with
  | [] => (corr, prop, code)
  | r :: rest =>
      let corr' := if (corr <? 0) && negb (corr_run r) then i else corr in
      let c := prop_run r in
      let '(prop', code') := if (prop <? 0) && negb (c =? 0) then (i, c) else (prop, code) in
      check_runs rest (i + 1) corr' prop' code'
  end.

Definition check_token (c : case) : Z * Z * Z := check_runs (c_runs c) 0 (-1) (-1) 0.
