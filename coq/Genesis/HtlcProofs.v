(** * HTLC: proofs about export / validate / import (C12) *)
From Irismod Require Import Genesis.Htlc.
From Coq Require Import Sorting.Sorted ZifyBool.

Ltac split_andb H :=
  repeat match type of H with
         | (_ && _) = true => let H1 := fresh "Hi" in apply andb_true_iff in H; destruct H as [H H1]
         end.

(** ** generic facts about filtering a store *)
Lemma sorted_filter {V} (p : Z * V -> bool) (m : list (Z * V)) : sorted lt1 m -> sorted lt1 (filter p m).
Proof.
  unfold sorted. induction m as [|a m IH]; simpl; intros Hs; [constructor|].
  inversion Hs as [|? ? Hs' Hall]; subst. destruct (p a).
  - constructor; [apply IH; exact Hs'|]. apply Forall_forall. intros x Hx. apply filter_In in Hx.
    rewrite Forall_forall in Hall. apply Hall. tauto.
  - apply IH. exact Hs'.
Qed.

Lemma map_snd_filter {K V} (p : V -> bool) (m : list (K * V)) :
  map snd (filter (fun e => p (snd e)) m) = filter p (map snd m).
Proof. induction m as [|a m IH]; simpl; [reflexivity|]. destruct (p (snd a)); simpl; rewrite IH; reflexivity. Qed.

Lemma filter_idem {A} (p : A -> bool) l : filter p (filter p l) = filter p l.
Proof.
  induction l as [|a l IH]; simpl; [reflexivity|]. destruct (p a) eqn:E; simpl; [rewrite E, IH; reflexivity|exact IH].
Qed.

Lemma flat_map_filter_snd {K V C} (p : V -> bool) (g : V -> list C) (m : list (K * V)) :
  flat_map g (filter p (map snd m)) = flat_map (fun e => if p (snd e) then g (snd e) else []) m.
Proof. induction m as [|a m IH]; simpl; [reflexivity|]. destruct (p (snd a)); simpl; rewrite IH; reflexivity. Qed.

Lemma NoDup_map_filter {A B} (f : A -> B) (p : A -> bool) l : NoDup (map f l) -> NoDup (map f (filter p l)).
Proof.
  induction l as [|a l IH]; simpl; intros Hnd; [constructor|]. inversion Hnd as [|? ? Hn Hnd']; subst.
  destruct (p a); simpl; [|apply IH; exact Hnd'].
  constructor; [|apply IH; exact Hnd']. intros Hin. apply Hn. apply in_map_iff in Hin.
  destruct Hin as (x & Hx & Hxin). apply filter_In in Hxin. apply in_map_iff. exists x. tauto.
Qed.

Lemma existsb_eqb_false (k : Z) seen : ~ In k seen -> existsb (Z.eqb k) seen = false.
Proof.
  intros Hn. destruct (existsb (Z.eqb k) seen) eqn:E; [|reflexivity]. apply existsb_exists in E.
  destruct E as (x & Hx & Hk). apply Z.eqb_eq in Hk. subst. contradiction.
Qed.

(** ** validation of the exported lists *)
Lemma validate_htlcs_ok l : forall seen,
  NoDup (map h_id l) -> (forall h, In h l -> ~ In (h_id h) seen) ->
  (forall h, In h l -> is_open h = true /\ validate_htlc true h = true) ->
  validate_htlcs true seen l = true.
Proof.
  induction l as [|h l IH]; intros seen Hnd Hd Hok; simpl; [reflexivity|].
  inversion Hnd as [|? ? Hn Hnd']; subst. destruct (Hok h (or_introl eq_refl)) as [Ho Hv].
  rewrite (existsb_eqb_false (h_id h) seen) by (apply Hd; left; reflexivity). unfold is_open in Ho. rewrite Ho, Hv. simpl.
  apply IH; [exact Hnd'| |intros h' Hin; apply Hok; right; exact Hin].
  intros h' Hin [Heq|Hs]; [apply Hn; rewrite Heq; apply in_map; exact Hin|exact (Hd h' (or_intror Hin) Hs)].
Qed.

Lemma validate_supplies_ok l : forall seen,
  NoDup (map (fun s => fst (s_current s)) l) -> (forall s, In s l -> ~ In (fst (s_current s)) seen) ->
  (forall s, In s l -> validate_supply s = true) ->
  validate_supplies seen l = true.
Proof.
  induction l as [|s l IH]; intros seen Hnd Hd Hok; simpl; [reflexivity|].
  inversion Hnd as [|? ? Hn Hnd']; subst. rewrite (Hok s (or_introl eq_refl)).
  rewrite (existsb_eqb_false _ seen) by (apply Hd; left; reflexivity). simpl.
  apply IH; [exact Hnd'| |intros s' Hin; apply Hok; right; exact Hin].
  intros s' Hin [Heq|Hs]; [apply Hn; rewrite Heq; apply (in_map (fun s => fst (s_current s))); exact Hin|exact (Hd s' (or_intror Hin) Hs)].
Qed.

(** ** the import loop over open, valid contracts *)
Definition amounts (d : Z) (h : htlc) : list coin := if h_transfer h && (h_dir h =? d) then h_amount h else [].
Definition insH (m : list (Z * htlc)) (h : htlc) := oins lt1 (h_id h) h m.
Definition insQ (q : list ((Z * Z) * unit)) (h : htlc) := oins lt2 (h_expiry h, h_id h) tt q.

Lemma import_htlcs_ok p l : forall hs q inc out,
  (forall h, In h l -> is_open h = true /\ validate_htlc true h = true
                       /\ (h_transfer h = true -> live_asset p (first_denom h) = true)) ->
  import_htlcs p l hs q inc out
  = Some (fold_left insH l hs, fold_left insQ l q, inc ++ flat_map (amounts 1) l, out ++ flat_map (amounts 2) l).
Proof.
  induction l as [|h l IH]; intros hs q inc out Hok; simpl.
  - rewrite !app_nil_r. reflexivity.
  - destruct (Hok h (or_introl eq_refl)) as (Ho & Hv & Hlive). unfold is_open in Ho. rewrite Ho. simpl.
    assert (Hrest : forall h', In h' l -> is_open h' = true /\ validate_htlc true h' = true
                     /\ (h_transfer h' = true -> live_asset p (first_denom h') = true))
      by (intros h' Hin; apply Hok; right; exact Hin).
    unfold amounts at 1 3. destruct (h_transfer h) eqn:Et; simpl.
    + rewrite (Hlive eq_refl). simpl.
      (* a transfer has direction 1 or 2 (HTLC.Validate) *)
      unfold validate_htlc in Hv. rewrite Et in Hv. simpl in Hv.
      destruct (h_dir h =? 1) eqn:E1.
      * assert (E2 : (h_dir h =? 2) = false) by lia. rewrite E2. simpl.
        rewrite (IH _ _ _ _ Hrest). rewrite <- ?app_assoc. reflexivity.
      * destruct (h_dir h =? 2) eqn:E2.
        -- simpl. rewrite (IH _ _ _ _ Hrest). rewrite <- ?app_assoc. reflexivity.
        -- exfalso. clear - Hv E1 E2. lia.
    + rewrite (IH _ _ _ _ Hrest). reflexivity.
Qed.

Lemma fold_left_ext_in' {A B} (f g : A -> B -> A) l : forall a,
  (forall a x, In x l -> f a x = g a x) -> fold_left f l a = fold_left g l a.
Proof.
  induction l as [|x l IH]; intros a Hfg; simpl; [reflexivity|].
  rewrite (Hfg a x (or_introl eq_refl)). apply IH. intros a' x' Hin. apply Hfg. right. exact Hin.
Qed.
Lemma fold_left_map'' {A B C} (f : A -> B -> A) (g : C -> B) l : forall a,
  fold_left f (map g l) a = fold_left (fun a x => f a (g x)) l a.
Proof. induction l as [|x l IH]; intros a; simpl; [reflexivity|apply IH]. Qed.

(** what a reachable state becomes by export -> import: the closed contracts are gone (documented:
    ExportGenesis filters them), the expiration queue is rebuilt from the open ones, the rest is as it was *)
Definition open_entries (s : state) : list (Z * htlc) := filter (fun e => is_open (snd e)) (htlcs s).
Definition norm (s : state) : state :=
  mkState (params s) (open_entries s) (queue_of (open_entries s)) (supplies s) (prev_time s).

Lemma open_amounts_eq d s :
  flat_map (amounts d) (filter is_open (map snd (htlcs s))) = open_amounts d s.
Proof.
  rewrite flat_map_filter_snd. unfold open_amounts. apply flat_map_ext. intros e. unfold amounts.
  destruct (is_open (snd e)), (h_transfer (snd e)), (h_dir (snd e) =? d); reflexivity.
Qed.

Lemma htlc_roundtrip s : invb true s = true -> import true (export s) = Some (norm s).
Proof.
  intros Hinv. unfold invb in Hinv. split_andb Hinv.
  rename Hinv into Hhs, Hi6 into Hhk, Hi5 into Hss, Hi4 into Hsk, Hi3 into Hp, Hi2 into Hhv, Hi1 into Hsv,
         Hi0 into Hlive, Hi into Hsup.
  set (l := filter is_open (map snd (htlcs s))).
  assert (Hl : map snd (open_entries s) = l) by (unfold open_entries, l; apply map_snd_filter).
  assert (Hkeys : map h_id (map snd (htlcs s)) = map fst (htlcs s)) by (apply key_ok_map; exact Hhk).
  assert (Hndl : NoDup (map h_id l)).
  { unfold l. apply NoDup_map_filter. rewrite Hkeys. apply (sorted_keys_NoDup lt1 lt1_irrefl).
    apply (sortedb_sorted lt1 lt1_trans). exact Hhs. }
  assert (Hlok : forall h, In h l -> is_open h = true /\ validate_htlc true h = true
                          /\ (h_transfer h = true -> live_asset (params s) (first_denom h) = true)).
  { intros h Hin. unfold l in Hin. apply filter_In in Hin. destruct Hin as [Hin Ho].
    apply in_map_iff in Hin. destruct Hin as (e & <- & He).
    rewrite forallb_forall in Hhv, Hlive. specialize (Hhv e He). specialize (Hlive e He).
    split; [exact Ho|split; [exact Hhv|]]. intros Ht. rewrite Ho, Ht in Hlive. simpl in Hlive. exact Hlive. }
  assert (Hval : validate true (export s) = true).
  { unfold validate, export. simpl. fold l. rewrite Hp. simpl. apply andb_true_iff. split.
    - apply validate_htlcs_ok; [exact Hndl|intros h _ []|intros h Hin; destruct (Hlok h Hin) as (A & B & _); tauto].
    - apply validate_supplies_ok.
      + rewrite (key_ok_map (fun x => fst (s_current x)) (supplies s) Hsk). apply (sorted_keys_NoDup lt1 lt1_irrefl).
        apply (sortedb_sorted lt1 lt1_trans). exact Hss.
      + intros x _ [].
      + intros x Hin. apply in_map_iff in Hin. destruct Hin as (e & <- & He).
        rewrite forallb_forall in Hsv. exact (Hsv e He). }
  unfold import. rewrite Hval. simpl. fold l.
  change (fold_left (fun m x => oins lt1 (fst (s_current x)) x m) (map snd (supplies s)) [])
    with (okeyed lt1 (fun x => fst (s_current x)) (map snd (supplies s))).
  rewrite (okeyed_roundtrip1 (fun x => fst (s_current x)) (supplies s) Hss Hsk).
  rewrite (import_htlcs_ok (params s) l [] [] [] [] Hlok). simpl.
  assert (H1 : flat_map (amounts 1) l = open_amounts 1 s) by (unfold l; apply open_amounts_eq).
  assert (H2 : flat_map (amounts 2) l = open_amounts 2 s) by (unfold l; apply open_amounts_eq).
  rewrite H1, H2.
  assert (Hsupb : forallb (supply_ok (params s) (open_amounts 1 s) (open_amounts 2 s)) (map snd (supplies s)) = true).
  { rewrite forallb_forall in *. intros x Hin. apply in_map_iff in Hin. destruct Hin as (e & <- & He). exact (Hsup e He). }
  rewrite Hsupb. f_equal. unfold norm. f_equal.
  - (* the contract store *)
    change (fold_left insH l []) with (okeyed lt1 h_id l). rewrite <- Hl.
    apply (okeyed_sorted lt1 lt1_irrefl lt1_asym).
    + apply sorted_filter. apply (sortedb_sorted lt1 lt1_trans). exact Hhs.
    + apply Forall_forall. intros e He. apply filter_In in He. destruct He as [He _].
      rewrite forallb_forall in Hhk. specialize (Hhk e He). unfold key_ok_h in Hhk. lia.
  - (* the expiration queue *)
    rewrite <- Hl. rewrite fold_left_map''. unfold queue_of. apply fold_left_ext_in'.
    intros q e He. apply filter_In in He. destruct He as [He Ho]. rewrite Ho.
    rewrite forallb_forall in Hhk. specialize (Hhk e He). unfold key_ok_h in Hhk.
    unfold insQ. assert (Hid : h_id (snd e) = fst e) by lia. rewrite Hid. reflexivity.
Qed.

Lemma htlc_export_validates_lemma s : invb true s = true -> validate true (export s) = true.
Proof.
  intros Hinv. pose proof (htlc_roundtrip s Hinv) as Hr. unfold import in Hr.
  destruct (validate true (export s)); [reflexivity|discriminate].
Qed.

Lemma export_norm s : export (norm s) = export s.
Proof.
  unfold export, norm, open_entries. simpl. f_equal. rewrite map_snd_filter. apply filter_idem.
Qed.

Lemma queries_norm s : queries (norm s) = queries s.
Proof. unfold queries, norm, open_entries. simpl. rewrite filter_idem. reflexivity. Qed.

Lemma htlc_export_fixpoint_lemma s :
  invb true s = true -> exists s', import true (export s) = Some s' /\ export s' = export s.
Proof. intros Hinv. exists (norm s). split; [apply htlc_roundtrip; exact Hinv|apply export_norm]. Qed.

(** the open contracts, the supplies and the parameters read the same; and the new chain's expiration
    queue holds exactly its open contracts under their expiration heights *)
Lemma htlc_queries_preserved_lemma s :
  invb true s = true ->
  exists s', import true (export s) = Some s' /\ queries s' = queries s /\ queue s' = queue_of (htlcs s').
Proof.
  intros Hinv. exists (norm s). split; [apply htlc_roundtrip; exact Hinv|split; [apply queries_norm|reflexivity]].
Qed.

(** ** The code before the repair: a plain contract created with timestamp 0 *)
Definition wit_asset : asset := mkAsset 0 1000 false 0 100 true 3 1 1 100 50 34560.
Definition wit_htlc : htlc := mkHtlc 0 2 0 0 0 [(2, 86767)] 0 0 0 79 0 0 false 0.
Definition wit_s : state :=
  mkState [wit_asset] [(0, wit_htlc)] [((79, 0), tt)] [(0, mkSupply (0, 0) (0, 0) (0, 0) (0, 0) 0)] None.

Lemma htlc_export_validates_refuted_lemma :
  exists s, invb false s = true /\ validate false (export s) = false.
Proof. exists wit_s. split; vm_compute; reflexivity. Qed.

(** importing the exported genesis of a reachable state does not panic *)
Lemma htlc_import_total_lemma s : invb true s = true -> import true (export s) <> None.
Proof. intros Hinv. rewrite (htlc_roundtrip s Hinv). discriminate. Qed.

(** Remark (outside C12): ValidateGenesis does not compare the supplies with the open transfers (nor check that
    a transfer's asset is live); a hand-made genesis that gets this wrong validates and makes InitGenesis panic *)
Lemma htlc_handmade_genesis_can_panic_lemma : exists g, validate true g = true /\ import true g = None.
Proof.
  exists (mkGenesis [wit_asset] [] [mkSupply (0, 5) (0, 0) (0, 0) (0, 0) 0] None).
  split; vm_compute; reflexivity.
Qed.

(** ** after PrepForZeroHeightGenesis
    Every open contract's expiration height becomes the number of blocks left plus one; the Go function leaves
    the expiration queue as it is (stale heights), which does not matter: the queue is not exported and
    InitGenesis rebuilds it.  The prepared state is again a reachable-looking state, so the four theorems
    apply to it, provided no open contract has already expired at the export height. *)
Lemma validate_htlc_prep fx height h :
  validate_htlc fx h = true -> (is_open h = true -> height <= h_expiry h < two64) -> 0 < height ->
  validate_htlc fx (prep_htlc height h) = true.
Proof.
  intros Hv Hexp Hh. unfold prep_htlc. destruct (is_open h) eqn:Ho; [|exact Hv].
  specialize (Hexp eq_refl).
  assert (Hne : ((h_expiry h - height + 1) mod two64 =? 0) = false).
  { rewrite Z.mod_small by (unfold two64 in *; lia). lia. }
  unfold validate_htlc, timestamp_ok in *. cbn [h_id h_sender h_to h_recv_other h_send_other h_amount h_hashlock h_secret
    h_timestamp h_expiry h_state h_closed h_transfer h_dir].
  rewrite Hne. cbn [negb].
  repeat (apply andb_true_iff in Hv; destruct Hv as [Hv ?]).
  repeat (apply andb_true_iff; split); try assumption; try reflexivity;
    match goal with Hx : validate_amount _ _ = true |- _ =>
      unfold validate_amount in Hx; apply andb_true_iff in Hx; destruct Hx; assumption end.
Qed.

Lemma open_amounts_prep d height s : open_amounts d (prep height s) = open_amounts d s.
Proof.
  unfold open_amounts, prep. cbn [htlcs]. rewrite flat_map_concat_map, map_map, <- flat_map_concat_map.
  apply flat_map_ext. intros e. cbn [snd]. unfold prep_htlc. destruct (is_open (snd e)) eqn:Ho; [|rewrite Ho; reflexivity].
  unfold is_open in *. cbn [h_state h_transfer h_dir h_amount]. rewrite Ho. reflexivity.
Qed.

Lemma sortedb_map_vals {V W} (f : Z * V -> W) (m : list (Z * V)) :
  sortedb lt1 m = true -> sortedb lt1 (map (fun e => (fst e, f e)) m) = true.
Proof.
  induction m as [|a m IH]; simpl; intros Hs; [reflexivity|].
  destruct m as [|b m']; [reflexivity|]. simpl in *. apply andb_true_iff in Hs. destruct Hs as [Hab Ht].
  rewrite Hab. simpl. apply IH. exact Ht.
Qed.

Lemma htlc_prep_inv_lemma height s :
  invb true s = true -> 0 < height ->
  forallb (fun e => negb (is_open (snd e)) || ((height <=? h_expiry (snd e)) && (h_expiry (snd e) <? two64))) (htlcs s) = true ->
  invb true (prep height s) = true.
Proof.
  intros Hinv Hh Hexp. unfold invb in *. split_andb Hinv.
  rename Hinv into Hhs, Hi6 into Hhk, Hi5 into Hss, Hi4 into Hsk, Hi3 into Hp, Hi2 into Hhv, Hi1 into Hsv, Hi0 into Hlive, Hi into Hsup.
  rewrite !open_amounts_prep.
  assert (E1 : supplies (prep height s) = supplies s) by reflexivity.
  assert (E2 : params (prep height s) = params s) by reflexivity.
  assert (E3 : htlcs (prep height s) = map (fun e : Z * htlc => (fst e, prep_htlc height (snd e))) (htlcs s)) by reflexivity.
  rewrite E1, E2, E3.
  rewrite Hss, Hsk, Hp, Hsv, Hsup.
  assert (H0 : sortedb lt1 (map (fun e : Z * htlc => (fst e, prep_htlc height (snd e))) (htlcs s)) = true)
    by (exact (sortedb_map_vals (fun e0 : Z * htlc => prep_htlc height (snd e0)) (htlcs s) Hhs)).
  rewrite H0. cbn [andb].
  assert (H1 : forallb key_ok_h (map (fun e : Z * htlc => (fst e, prep_htlc height (snd e))) (htlcs s)) = true).
  { rewrite forallb_forall in *. intros e He. apply in_map_iff in He. destruct He as (e0 & <- & He0).
    specialize (Hhk e0 He0). unfold key_ok_h in *. cbn [fst snd]. unfold prep_htlc. destruct (is_open (snd e0)); exact Hhk. }
  assert (H2 : forallb (fun e => validate_htlc true (snd e)) (map (fun e : Z * htlc => (fst e, prep_htlc height (snd e))) (htlcs s)) = true).
  { rewrite forallb_forall in *. intros e He. apply in_map_iff in He. destruct He as (e0 & <- & He0). cbn [snd].
    apply validate_htlc_prep; [exact (Hhv e0 He0)| |exact Hh].
    intros Ho. specialize (Hexp e0 He0). rewrite Ho in Hexp. simpl in Hexp. lia. }
  assert (H3 : forallb (fun e => negb (is_open (snd e) && h_transfer (snd e)) || live_asset (params s) (first_denom (snd e)))
                 (map (fun e : Z * htlc => (fst e, prep_htlc height (snd e))) (htlcs s)) = true).
  { rewrite forallb_forall in *. intros e He. apply in_map_iff in He. destruct He as (e0 & <- & He0). cbn [snd].
    specialize (Hlive e0 He0). unfold prep_htlc. destruct (is_open (snd e0)) eqn:Ho; [|rewrite Ho; exact Hlive].
    unfold is_open, first_denom in *. cbn [h_state h_transfer h_amount]. rewrite Ho in *. exact Hlive. }
  rewrite H1, H2, H3. reflexivity.
Qed.

(** ** after a parameter change (MsgUpdateParams): states the chain can be in — every parameter-independent clause
    of the invariant holds, the new parameters pass validation — whose export validates and whose import PANICS
    (known finding, clause 7 of the check; harness: corpus/C12/htlc-params-*.jsonl):
    [pc_dropped]: the asset was dropped from the parameters, its supply record is still stored;
    [pc_inactive]: the asset was deactivated while an incoming transfer of 50 is open;
    [pc_cut]: the limit was cut to 1 with a current supply of 5000 *)
Definition pc_asset (active : bool) (limit : Z) : asset := mkAsset 0 limit false 0 0 active 3 1 1 100 50 34560.
Definition pc_sup (inc cur : Z) : supply := mkSupply (0, inc) (0, 0) (0, cur) (0, 0) 0.
Definition pc_htlt : htlc := mkHtlc 0 3 0 5 5 [(0, 50)] 0 0 1700000000 79 0 0 true 1.
Definition pc_dropped : state := mkState [] [] [] [(0, pc_sup 0 0)] None.
Definition pc_inactive : state := mkState [pc_asset false 1000] [(0, pc_htlt)] [((79, 0), tt)] [(0, pc_sup 50 0)] None.
Definition pc_cut : state := mkState [pc_asset true 1] [] [] [(0, pc_sup 0 5000)] None.

Lemma htlc_import_total_refuted_after_param_change_lemma :
  Forall (fun s => invb_core s = true /\ params_cover s = false /\ validate true (export s) = true /\ import true (export s) = None)
         [pc_dropped; pc_inactive; pc_cut].
Proof. repeat constructor; vm_compute; reflexivity. Qed.

(** the same three states before the change (asset present, active, limit 10000) satisfy the whole invariant *)
Lemma htlc_param_change_witnesses_reachable_before :
  invb true (mkState [pc_asset true 10000] [] [] [(0, pc_sup 0 0)] None) = true
  /\ invb true (mkState [pc_asset true 1000] [(0, pc_htlt)] [((79, 0), tt)] [(0, pc_sup 50 0)] None) = true
  /\ invb true (mkState [pc_asset true 10000] [] [] [(0, pc_sup 0 5000)] None) = true.
Proof. repeat split; vm_compute; reflexivity. Qed.
