(** * Oracle: export / validate / import / prepare-for-zero-height
      (modules/oracle/genesis.go, types/genesis.go, types/validation.go, keeper/feed.go)

    Feed names and request-context ids are numbered in byte order; whether a name / aggregate
    function passes the module's syntax checks is a flag computed by the module's own validators;
    descriptions, JSON paths, value data are interned.  The service module's request contexts are
    the ENVIRONMENT of this module: [env] maps a context id to (state, batch counter) (state 0 =
    RUNNING, 1 = PAUSED, 2 = COMPLETED); on chain B it is whatever the import of the service
    genesis left there.  Feed values are viewed as feed -> (batch counter -> value). *)
From Irismod Require Export Genesis.Store.

Record feed := mkFeed {
  o_name : Z; o_name_ok : bool; o_desc : Z; o_desc_len : Z; o_agg : Z; o_agg_ok : bool; o_path : Z;
  o_latest : Z; o_ctx : Z; o_creator : Z
}.
Definition value := (Z * Z)%type.                              (* data, timestamp *)
#[export] Instance EqDec_feed : EqDec feed.
Proof. intros x y. decide equality; apply eq_dec. Defined.

Record state := mkState {
  feeds : list (Z * feed);                                     (* 0x01 name -> feed *)
  ctx_idx : list (Z * Z);                                      (* 0x02 context id -> name *)
  vals : list (Z * list (Z * value));                          (* 0x03 name, batch counter -> value *)
  running : list (Z * unit);                                   (* 0x04 names of running feeds *)
  paused : list (Z * unit)                                     (* 0x05 names of the other feeds *)
}.
Definition env := list (Z * (Z * Z)).
Definition entry := (feed * Z * list value)%type.              (* feed, state, values newest first *)
Definition genesis := list entry.
#[export] Instance EqDec_state : EqDec state.
Proof. intros x y. decide equality; apply eq_dec. Defined.

Definition getd {K V} `{EqDec K} (k : K) (m : list (K * V)) (d : V) : V := match get k m with Some x => x | None => d end.

(** ExportGenesis: the feeds whose request context exists, with the context's state and the values
    in reverse key order (GetFeedValues uses a reverse iterator) *)
Definition values_of (s : state) (name : Z) : list value := rev (map snd (getd name (vals s) [])).
Definition export (e : env) (s : state) : genesis :=
  flat_map (fun f => match get (o_ctx (snd f)) e with
                     | Some (st, _) => [(snd f, st, values_of s (fst f))]
                     | None => [] end) (feeds s).

(** types.ValidateGenesis *)
Definition feed_ok (f : feed) : bool :=
  o_name_ok f && (o_desc_len f <=? 280) && o_agg_ok f && (1 <=? o_latest f) && (o_latest f <=? 100) && (0 <=? o_creator f).
Definition validate (g : genesis) : bool := forallb (fun en => feed_ok (fst (fst en))) g.

(** Keeper.SetFeedValue: drop the oldest values so that at most latest-1 remain, then store under the counter *)
Definition set_value (vs : list (Z * list (Z * value))) (name bc latest : Z) (v : value) :=
  let inner := getd name vs [] in
  let drop := Z.to_nat (Z.max 0 (Z.of_nat (length inner) - latest + 1)) in
  oins lt1 name (oins lt1 bc v (skipn drop inner)) vs.

(** InitGenesis, the values of one feed ([vl] newest first, [bc] the context's current batch counter).
    The code as it was ([fx] = false) stored every value under the SAME key [bc], so only the last one
    written — the oldest — survived.  The repaired code (commit "fix: oracle InitGenesis keeps the order of
    a feed's exported values") stores the oldest first under consecutive keys ending at [bc]
    ([max bc (n-1)] for a hand-made genesis with more values than batches). *)
Definition imp_feed_values (fx : bool) (vs : list (Z * list (Z * value))) (name bc latest : Z) (vl : list value) :=
  if fx then
    let n := Z.of_nat (length vl) in
    let base := if bc + 1 <? n then n - 1 else bc in
    fst (fold_left (fun mk v => (set_value (fst mk) name (snd mk) latest v, snd mk + 1)) (rev vl) (vs, base - (n - 1)))
  else fold_left (fun m v => set_value m name bc latest v) vl vs.

(** InitGenesis on chain B whose service contexts are [e] *)
Fixpoint imp_entries (fx : bool) (e : env) (g : genesis) (s : state) : option state :=
  match g with
  | [] => Some s
  | (f, st, vl) :: g' =>
      match get (o_ctx f) e with
      | None => None                                                  (* "unknown servcie request context" *)
      | Some (_, bc) =>
          let vs := imp_feed_values fx (vals s) (o_name f) bc (o_latest f) vl in
          imp_entries fx e g'
            (mkState (oins lt1 (o_name f) f (feeds s)) (oins lt1 (o_ctx f) (o_name f) (ctx_idx s)) vs
                     (if st =? 0 then oins lt1 (o_name f) tt (running s) else running s)
                     (if st =? 0 then paused s else oins lt1 (o_name f) tt (paused s)))
      end
  end.
Definition import (fx : bool) (e : env) (g : genesis) : option state :=
  if negb (validate g) then None else imp_entries fx e g (mkState [] [] [] [] []).

(** PrepForZeroHeightGenesis: every running feed moves to the other queue *)
Definition prep (s : state) : state :=
  mkState (feeds s) (ctx_idx s) (vals s) [] (fold_left (fun m x => oins lt1 (fst x) tt m) (running s) (paused s)).

(** Queries: Feed / Feeds (with state), FeedValue (values newest first) *)
Definition view := (list (Z * feed) * list (Z * list value) * list (Z * unit) * list (Z * unit))%type.
Definition queries (s : state) : view :=
  (feeds s, map (fun x => (fst x, rev (map snd (snd x)))) (vals s), running s, paused s).

(** reachable states *)
Definition ctx_index_of (fs : list (Z * feed)) : list (Z * Z) :=
  fold_left (fun m f => oins lt1 (o_ctx (snd f)) (fst f) m) fs [].
Definition invb (s : state) : bool :=
  sortedb lt1 (feeds s) && forallb (fun f => (fst f =? o_name (snd f)) && feed_ok (snd f)) (feeds s)
  && eqb (ctx_idx s) (ctx_index_of (feeds s))
  && sortedb lt1 (vals s)
  && forallb (fun x => sortedb lt1 (snd x) && negb (eqb (snd x) [])
                       && match get (fst x) (feeds s) with
                          | Some f => Z.of_nat (length (snd x)) <=? o_latest f
                          | None => false end) (vals s)
  && sortedb lt1 (running s) && sortedb lt1 (paused s)
  && forallb (fun f => xorb (has (fst f) (running s)) (has (fst f) (paused s))) (feeds s)
  && forallb (fun x => has (fst x) (feeds s)) (running s ++ paused s).

(** ** Correspondence and the C12 predicate *)
Record run := mkRun {
  r_eA : env; r_eB : env;
  r_sA : state; r_gA : genesis; r_val : bool; r_imp : Z; r_sB : option state; r_gB : option genesis
}.
Record case := mkCase { c_runs : list run }.

(** the tree under check contains the repair *)
Definition fixed_hist : bool := true.

Definition corr_run (r : run) : bool :=
  invb (r_sA r)
  && eqb (export (r_eA r) (r_sA r)) (r_gA r)
  && eqb (validate (r_gA r)) (r_val r)
  && match import fixed_hist (r_eB r) (r_gA r) with
     | None => negb (r_imp r =? 0)
     | Some b => (r_imp r =? 0) && eqb (r_sB r) (Some b) && eqb (r_gB r) (Some (export (r_eB r) b))
     end.

(** clause codes: 1 export does not validate; 21 import panics because the feed's request context is
    missing on B (the service genesis did not import); 2 import panics otherwise; 41 a feed's value
    history reads differently on B; 3 second export differs; 4 a feed or its state reads differently
    on B; 5 B's running queue disagrees with the exported states.
 *)
Definition values_view (s : state) := map (fun x => (fst x, rev (map snd (snd x)))) (vals s).
Definition strip (g : genesis) : list (feed * Z) := map fst g.
Definition prop_clauses (r : run) : list (Z * bool) :=
    [ (1, r_val r);
      (21, (r_imp r =? 0) || forallb (fun en => has (o_ctx (fst (fst en))) (r_eB r)) (r_gA r));
      (2, (r_imp r =? 0) || negb (forallb (fun en => has (o_ctx (fst (fst en))) (r_eB r)) (r_gA r)));
      (41, match r_sB r with Some b => eqb (values_view b) (values_view (r_sA r)) | None => true end);
      (3, match r_gB r with Some g => eqb g (r_gA r) | None => true end);
      (4, match r_sB r with Some b => eqb (feeds b) (feeds (r_sA r)) | None => true end);
      (5, match r_sB r with
          | Some b => forallb (fun en => eqb (has (o_name (fst (fst en))) (running b)) (snd (fst en) =? 0)) (r_gA r)
          | None => true end) ].

Fixpoint run_fails (rs : list run) (i : Z) : list (Z * Z) :=
  match rs with
  | [] => []
  | r :: rest => map (fun c => (i, c)) (all_codes (prop_clauses r)) ++ run_fails rest (i + 1)
  end.
Fixpoint first_div (rs : list run) (i : Z) : Z :=
  match rs with
  | [] => -1
  | r :: rest => if corr_run r then first_div rest (i + 1) else i
  end.

(** the clause codes recorded as known findings of this module (see known-findings.txt) *)
Definition known_codes : list Z := [21].

Definition check_oracle (c : case) : Z * Z * Z :=
  let pre_ok :=
    match c_runs c with
    | r0 :: r1 :: _ => eqb (r_sA r1) (prep (r_sA r0))
    | _ => true
    end in
  let '(prop, code) := pick_violation known_codes (run_fails (c_runs c) 0) in
  prefer_divergence known_codes (if pre_ok then first_div (c_runs c) 0 else 1, prop, code).
