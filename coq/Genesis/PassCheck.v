(** * The checker, fed the MODEL's own observations, never raises an alarm.

    For a state [s] satisfying the module's invariant, the run the model itself would produce (state, its export,
    "validates", "import ok", the imported state, its second export, the model's views) makes [check_<m>]
    return (-1, -1, 0): no divergence, no violated clause.  So an alarm on an implementation trace always
    means that the implementation disagrees with the model or that a clause fails on its observations. *)
From Irismod Require Import Genesis.Store.
From Irismod Require Genesis.Coinswap Genesis.CoinswapProofs Genesis.Nft Genesis.NftProofs
                     Genesis.Token Genesis.TokenProofs Genesis.Random Genesis.RandomProofs
                     Genesis.Htlc Genesis.HtlcProofs.

Module PCoinswap.
Import Genesis.Coinswap Genesis.CoinswapProofs.
Definition model_run (s : state) : run :=
  mkRun s (export s) true 0 (Some s) (Some (export s)) [].
Theorem coinswap_model_passes_check s : invb s = true -> check_coinswap (mkCase [model_run s]) = (-1, -1, 0).
Proof.
  intros Hinv. unfold check_coinswap, model_run. cbn [c_runs check_runs].
  assert (Hc : corr_run (mkRun s (export s) true 0 (Some s) (Some (export s)) []) = true).
  { unfold corr_run. cbn [r_sA r_gA r_val r_imp r_sB r_gB]. rewrite Hinv, (coinswap_roundtrip s Hinv), (coinswap_export_validates_lemma s Hinv).
    rewrite !Prelude.eqb_refl. reflexivity. }
  assert (Hp : prop_run (mkRun s (export s) true 0 (Some s) (Some (export s)) []) = 0).
  { unfold prop_run. cbn [r_sA r_gA r_val r_imp r_sB r_gB r_x first_code forallb]. rewrite !Prelude.eqb_refl. reflexivity. }
  rewrite Hc, Hp. reflexivity.
Qed.
End PCoinswap.

Module PNft.
Import Genesis.Nft Genesis.NftProofs.
Definition model_run (s : state) : run :=
  mkRun s (export s) true 0 (Some s) (Some (export s)) (views_of s) (Some (views_of s)) None.
Theorem nft_model_passes_check s : invb s = true -> check_nft (mkCase [model_run s]) = (-1, -1, 0).
Proof.
  intros Hinv. unfold check_nft, model_run. cbn [c_runs check_runs].
  set (r := mkRun s (export s) true 0 (Some s) (Some (export s)) (views_of s) (Some (views_of s)) None).
  assert (Hc : corr_run r = true).
  { unfold corr_run, r, fixed_v. cbn [r_sA r_gA r_val r_imp r_sB r_gB r_vA r_vB r_t].
    rewrite Hinv, (nft_roundtrip false s Hinv), (nft_export_validates_lemma s Hinv). rewrite !Prelude.eqb_refl. reflexivity. }
  assert (Hp : prop_run r = 0).
  { unfold prop_run, r. cbn [r_sA r_gA r_val r_imp r_sB r_gB r_vA r_vB first_code]. rewrite !Prelude.eqb_refl. reflexivity. }
  rewrite Hc, Hp. reflexivity.
Qed.
End PNft.

Module PToken.
Import Genesis.Token Genesis.TokenProofs.
Definition model_run (s : state) : run := mkRun s (export s) true 0 (Some s) (Some (export s)) None.
Theorem token_model_passes_check s : invb s = true -> check_token (mkCase [model_run s]) = (-1, -1, 0).
Proof.
  intros Hinv. unfold check_token, model_run. cbn [c_runs check_runs].
  set (r := mkRun s (export s) true 0 (Some s) (Some (export s)) None).
  assert (Hc : corr_run r = true).
  { unfold corr_run, r, fixed_v. cbn [r_sA r_gA r_val r_imp r_sB r_gB r_t].
    assert (Hcore : invb_core s = true) by (rewrite invb_split in Hinv; apply andb_true_iff in Hinv; tauto).
    rewrite Hcore, (token_roundtrip false s Hinv), (token_export_validates_lemma s Hinv). rewrite !Prelude.eqb_refl. reflexivity. }
  assert (Hp : prop_run r = 0).
  { unfold prop_run, r. cbn [r_sA r_gA r_val r_imp r_sB r_gB first_code]. rewrite !Prelude.eqb_refl. reflexivity. }
  rewrite Hc, Hp. reflexivity.
Qed.
End PToken.

Module PRandom.
Import Genesis.Random Genesis.RandomProofs.
Definition model_run (s : state) : run := mkRun s (export s) true 0 (Some s) (Some (export s)).
(** as-is path only (one run) *)
Theorem random_model_passes_check tbl h s :
  invb tbl s = true -> check_random (mkCase h tbl [model_run s]) = (-1, -1, 0).
Proof.
  intros Hinv. unfold check_random, model_run. cbn [c_runs c_ids check_runs].
  set (r := mkRun s (export s) true 0 (Some s) (Some (export s))).
  assert (Hc : corr_run tbl r = true).
  { unfold corr_run, r. cbn [r_sA r_gA r_val r_imp r_sB r_gB].
    rewrite Hinv, (random_roundtrip tbl s Hinv), (random_export_validates_lemma tbl s Hinv). rewrite !Prelude.eqb_refl. reflexivity. }
  assert (Hp : prop_run r = 0).
  { unfold prop_run, r. cbn [r_sA r_gA r_val r_imp r_sB r_gB first_code]. rewrite !Prelude.eqb_refl. reflexivity. }
  rewrite Hc, Hp. reflexivity.
Qed.
End PRandom.

Module PHtlc.
Import Genesis.Htlc Genesis.HtlcProofs.
(** the model's own run of the as-is path: the imported state is the exported one without its closed contracts *)
Definition model_run (s : state) : run := mkRun s (export s) true 0 (Some (norm s)) (Some (export (norm s))).
Lemma genesis_eq_mod_prev_refl g : genesis_eq_mod_prev g g = true.
Proof. unfold genesis_eq_mod_prev. rewrite !Prelude.eqb_refl. destruct (g_prev g); reflexivity. Qed.
Theorem htlc_model_passes_check h s :
  invb true s = true -> check_htlc (mkCase h [model_run s]) = (-1, -1, 0).
Proof.
  intros Hinv. unfold check_htlc, model_run, fixed. cbn [c_runs c_height check_runs].
  set (r := mkRun s (export s) true 0 (Some (norm s)) (Some (export (norm s)))).
  assert (Hcore : invb_core s = true) by (rewrite (invb_split true) in Hinv; apply andb_true_iff in Hinv; tauto).
  assert (Hc : corr_run true r = true).
  { unfold corr_run, r. cbn [r_sA r_gA r_val r_imp r_sB r_gB].
    rewrite (htlc_roundtrip s Hinv), (htlc_export_validates_lemma s Hinv). rewrite !Prelude.eqb_refl. reflexivity. }
  assert (Hp : prop_run r = 0).
  { unfold prop_run, r. cbn [r_sA r_gA r_val r_imp r_sB r_gB first_code].
    rewrite export_norm, genesis_eq_mod_prev_refl, queries_norm, !Prelude.eqb_refl. reflexivity. }
  change (r_sA r) with s. rewrite Hcore, Hc, Hp. reflexivity.
Qed.
End PHtlc.
