(** * The sorted view of an association-list store.

    The message-level models of the other groups keep a module's objects in association lists in
    insertion order ([Prelude.set]); the genesis code sees the KV store in key order.  [osort] is the
    abstraction: re-insert every binding with [oins].  For a duplicate-free map and a key order that is
    total on its keys the result is sorted and reads ([get]) exactly like the original. *)
From Irismod Require Export Genesis.Store.
From Coq Require Import Sorting.Sorted.

Section Sort.
  Context {K V : Type} `{EqDec K}.
  Variable ltb : K -> K -> bool.
  Hypothesis ltb_irrefl : forall k, ltb k k = false.
  Hypothesis ltb_asym : forall a b, ltb a b = true -> ltb b a = false.
  Hypothesis ltb_trans : forall a b c, ltb a b = true -> ltb b c = true -> ltb a c = true.

  Definition osort (m : list (K * V)) : list (K * V) := oof_list ltb m.

  (** [ltb] decides every pair of distinct keys of [ks] *)
  Definition total_on (ks : list K) : Prop :=
    forall a b, In a ks -> In b ks -> a <> b -> ltb a b = false -> ltb b a = true.

  Lemma oins_sorted_on k v (m : list (K * V)) :
    sorted ltb m ->
    (forall e, In e m -> fst e <> k -> ltb k (fst e) = false -> ltb (fst e) k = true) ->
    sorted ltb (oins ltb k v m).
  Proof.
    unfold sorted. induction m as [|[k' v'] m IH]; simpl; intros Hs Htot.
    - constructor; constructor.
    - inversion Hs as [|? ? Hs' Hall]; subst. destruct (eq_dec k k') as [->|Hne].
      + constructor; [exact Hs'|exact Hall].
      + destruct (ltb k k') eqn:E.
        * constructor; [exact Hs|]. constructor; [exact E|].
          rewrite Forall_forall in *. intros x Hx. unfold klt in *. simpl in *.
          eapply ltb_trans; [exact E|]. apply Hall. exact Hx.
        * assert (Hk : ltb k' k = true) by (apply (Htot (k', v')); [left; reflexivity|simpl; congruence|exact E]).
          constructor.
          -- apply IH; [exact Hs'|]. intros e He. apply Htot. right. exact He.
          -- rewrite Forall_forall in *. intros x Hx. apply In_oins_inv in Hx. destruct Hx as [->|Hx].
             ++ exact Hk.
             ++ apply Hall. exact Hx.
  Qed.

  Lemma keys_fold_oins (l : list (K * V)) : forall acc k,
    In k (map fst (fold_left (fun m kv => oins ltb (fst kv) (snd kv) m) l acc)) <-> In k (map fst acc) \/ In k (map fst l).
  Proof.
    induction l as [|[k0 v0] l IH]; intros acc k; simpl; [tauto|].
    rewrite IH. split.
    - intros [Hk|Hk]; [|tauto]. apply keys_oins_inv in Hk. destruct Hk as [->|Hk]; tauto.
    - intros [Hk|[Hk|Hk]]; [left|left|right; exact Hk].
      + destruct (eq_dec k k0) as [->|Hne]; [apply (in_map fst _ (k0, v0)); apply In_oins_same|].
        apply in_map_iff in Hk. destruct Hk as (e & <- & He). apply in_map. apply In_oins_other; assumption.
      + subst. apply (in_map fst _ (k, v0)). apply In_oins_same.
  Qed.

  Lemma keys_osort m k : In k (map fst (osort m)) <-> In k (map fst m).
  Proof. unfold osort, oof_list. rewrite keys_fold_oins. simpl. tauto. Qed.

  Lemma fold_oins_sorted_on (l : list (K * V)) : forall acc,
    sorted ltb acc -> total_on (map fst acc ++ map fst l) ->
    sorted ltb (fold_left (fun m kv => oins ltb (fst kv) (snd kv) m) l acc).
  Proof.
    induction l as [|[k0 v0] l IH]; intros acc Hs Htot; simpl; [exact Hs|].
    apply IH.
    - apply oins_sorted_on; [exact Hs|]. intros e He Hne Hlt. simpl. apply Htot; try assumption.
      + apply in_or_app. right. left. reflexivity.
      + apply in_or_app. left. apply in_map. exact He.
      + congruence.
    - intros a b Ha Hb. apply Htot.
      + apply in_app_or in Ha. destruct Ha as [Ha|Ha]; [|apply in_or_app; right; right; exact Ha].
        apply keys_oins_inv in Ha. destruct Ha as [->|Ha]; apply in_or_app; [right; left; reflexivity|left; exact Ha].
      + apply in_app_or in Hb. destruct Hb as [Hb|Hb]; [|apply in_or_app; right; right; exact Hb].
        apply keys_oins_inv in Hb. destruct Hb as [->|Hb]; apply in_or_app; [right; left; reflexivity|left; exact Hb].
  Qed.

  Theorem osort_sorted m : total_on (map fst m) -> sorted ltb (osort m).
  Proof. intros Htot. unfold osort, oof_list. apply fold_oins_sorted_on; [constructor|exact Htot]. Qed.

  Lemma get_notin k (m : list (K * V)) : ~ In k (map fst m) -> get k m = None.
  Proof.
    induction m as [|[k0 v0] m IH]; simpl; intros Hn; [reflexivity|].
    destruct (eq_dec k k0) as [->|Hne]; [exfalso; apply Hn; left; reflexivity|]. apply IH. tauto.
  Qed.

  Lemma get_fold_oins (l : list (K * V)) : forall acc k, NoDup (map fst l) ->
    get k (fold_left (fun m kv => oins ltb (fst kv) (snd kv) m) l acc)
    = match get k l with Some v => Some v | None => get k acc end.
  Proof.
    induction l as [|[k0 v0] l IH]; intros acc k Hnd; simpl; [reflexivity|].
    inversion Hnd as [|? ? Hn Hnd']; subst. rewrite (IH _ _ Hnd').
    destruct (eq_dec k k0) as [->|Hne].
    - rewrite (get_notin k0 l Hn). apply get_oins_same.
    - destruct (get k l); [reflexivity|]. apply get_oins_other. exact Hne.
  Qed.

  Theorem get_osort m k : NoDup (map fst m) -> get k (osort m) = get k m.
  Proof. intros Hnd. unfold osort, oof_list. rewrite get_fold_oins by exact Hnd. destruct (get k m); reflexivity. Qed.

  Lemma NoDup_get_some (m : list (K * V)) k v : NoDup (map fst m) -> In (k, v) m -> get k m = Some v.
  Proof.
    induction m as [|[k0 v0] m IH]; simpl; intros Hnd Hin; [contradiction|].
    inversion Hnd as [|? ? Hn Hnd']; subst. destruct (eq_dec k k0) as [->|Hne].
    - destruct Hin as [Heq|Hin]; [congruence|]. exfalso. apply Hn. apply (in_map fst _ (k0, v)). exact Hin.
    - destruct Hin as [Heq|Hin]; [congruence|]. apply IH; assumption.
  Qed.

  Lemma In_fold_oins_inv (l : list (K * V)) : forall acc e,
    In e (fold_left (fun m kv => oins ltb (fst kv) (snd kv) m) l acc) -> In e acc \/ In e l.
  Proof.
    induction l as [|[k0 v0] l IH]; intros acc e Hi; simpl in *; [tauto|].
    destruct (IH _ _ Hi) as [Ha|Hl]; [|tauto]. apply In_oins_inv in Ha. destruct Ha as [->|Ha]; tauto.
  Qed.

  Theorem In_osort m e : NoDup (map fst m) -> (In e (osort m) <-> In e m).
  Proof.
    intros Hnd. split; intros Hin.
    - unfold osort, oof_list in Hin. apply In_fold_oins_inv in Hin. destruct Hin as [[]|Hin]. exact Hin.
    - destruct e as [k v]. apply get_In. rewrite get_osort by exact Hnd. apply NoDup_get_some; assumption.
  Qed.

  (** [sorted] gives back the boolean check the invariants use *)
  Lemma sorted_sortedb (m : list (K * V)) : sorted ltb m -> sortedb ltb m = true.
  Proof.
    unfold sorted. induction m as [|a m IH]; intros Hs; [reflexivity|].
    inversion Hs as [|? ? Hs' Hall]; subst. destruct m as [|b m']; [reflexivity|].
    simpl. inversion Hall as [|? ? Hab _]; subst. unfold klt in Hab. rewrite Hab. simpl. apply IH. exact Hs'.
  Qed.
End Sort.

(** the three key orders of the models are total *)
Lemma lt1_total_on ks : total_on lt1 ks.
Proof. intros a b _ _ Hne Hlt. unfold lt1 in *. lia. Qed.
Lemma lt2_total_on ks : total_on lt2 ks.
Proof. intros [a1 a2] [b1 b2] _ _ Hne Hlt. unfold lt2 in *. assert (a1 <> b1 \/ a2 <> b2) by (destruct (Z.eq_dec a1 b1); [right; congruence|left; assumption]). lia. Qed.
Lemma lt3_total_on ks : total_on lt3 ks.
Proof.
  intros [[a1 a2] a3] [[b1 b2] b3] _ _ Hne Hlt. unfold lt3 in *.
  assert (a1 <> b1 \/ a2 <> b2 \/ a3 <> b3).
  { destruct (Z.eq_dec a1 b1); [|left; assumption]. destruct (Z.eq_dec a2 b2); [|right; left; assumption].
    right. right. congruence. }
  lia.
Qed.

(** ** Round 4: three more facts about sorted views *)
From Coq Require Import Permutation.

(** (i) two strictly sorted lists with the same members are equal *)
Lemma ssorted_ext {A} (R : A -> A -> Prop) (l1 l2 : list A) :
  (forall x, ~ R x x) -> (forall x y, R x y -> R y x -> False) ->
  StronglySorted R l1 -> StronglySorted R l2 -> (forall x, In x l1 <-> In x l2) -> l1 = l2.
Proof.
  intros Hirr Hasym. revert l2. induction l1 as [|a l1 IH]; intros l2 Hs1 Hs2 Hm.
  - destruct l2 as [|b l2]; [reflexivity|]. exfalso. apply (proj2 (Hm b)). left. reflexivity.
  - destruct l2 as [|b l2]; [exfalso; apply (proj1 (Hm a)); left; reflexivity|].
    inversion Hs1 as [|? ? Hs1' Hall1]; subst. inversion Hs2 as [|? ? Hs2' Hall2]; subst.
    rewrite Forall_forall in Hall1, Hall2.
    assert (Hab : a = b).
    { destruct (proj1 (Hm a) (or_introl eq_refl)) as [Hba|Hin2]; [symmetry; exact Hba|].
      destruct (proj2 (Hm b) (or_introl eq_refl)) as [Hab|Hin1]; [exact Hab|].
      exfalso. exact (Hasym _ _ (Hall1 b Hin1) (Hall2 a Hin2)). }
    subst b. f_equal. apply IH; [exact Hs1'|exact Hs2'|].
    intros x. split; intros Hx.
    + destruct (proj1 (Hm x) (or_intror Hx)) as [Heq|Hx2]; [|exact Hx2]. subst x. exfalso. exact (Hirr _ (Hall1 a Hx)).
    + destruct (proj2 (Hm x) (or_intror Hx)) as [Heq|Hx1]; [|exact Hx1]. subst x. exfalso. exact (Hirr _ (Hall2 a Hx)).
Qed.

Section SortMore.
  Context {K V : Type} `{EqDec K}.
  Variable ltb : K -> K -> bool.
  Hypothesis ltb_irrefl : forall k, ltb k k = false.
  Hypothesis ltb_asym : forall a b, ltb a b = true -> ltb b a = false.
  Hypothesis ltb_trans : forall a b c, ltb a b = true -> ltb b c = true -> ltb a c = true.

  Lemma sorted_ext (l1 l2 : list (K * V)) :
    sorted ltb l1 -> sorted ltb l2 -> (forall x, In x l1 <-> In x l2) -> l1 = l2.
  Proof.
    apply ssorted_ext.
    - intros x Hx. unfold klt in Hx. rewrite ltb_irrefl in Hx. discriminate.
    - intros x y Hxy Hyx. unfold klt in *. rewrite (ltb_asym _ _ Hxy) in Hyx. discriminate.
  Qed.

  (** (ii) the sorted view of a duplicate-free map is a permutation of it *)
  Lemma osort_perm (m : list (K * V)) : total_on ltb (map fst m) -> NoDup (map fst m) -> Permutation (osort ltb m) m.
  Proof.
    intros Htot Hnd. apply NoDup_Permutation.
    - apply (NoDup_map_inv fst). apply (sorted_keys_NoDup ltb ltb_irrefl). apply osort_sorted; assumption.
    - apply (NoDup_map_inv fst). exact Hnd.
    - intros x. apply In_osort. exact Hnd.
  Qed.
End SortMore.

Lemma zsum_perm l l' : Permutation l l' -> zsum l = zsum l'.
Proof. induction 1; simpl; lia. Qed.

Lemma filter_perm {A} (p : A -> bool) l l' : Permutation l l' -> Permutation (filter p l) (filter p l').
Proof.
  induction 1; simpl.
  - constructor.
  - destruct (p x); [constructor|]; assumption.
  - destruct (p x), (p y); try apply perm_swap; try apply Permutation_refl.
  - eapply Permutation_trans; eassumption.
Qed.

(** (iii) appending sorted pieces whose elements are in order gives a sorted list *)
Lemma ssorted_app {A} (R : A -> A -> Prop) (a b : list A) :
  StronglySorted R a -> StronglySorted R b -> (forall x y, In x a -> In y b -> R x y) -> StronglySorted R (a ++ b).
Proof.
  induction a as [|x a IH]; simpl; intros Ha Hb Hab; [exact Hb|].
  inversion Ha as [|? ? Ha' Hall]; subst. constructor.
  - apply IH; [exact Ha'|exact Hb|]. intros u v Hu Hv. apply Hab; [right; exact Hu|exact Hv].
  - apply Forall_forall. intros y Hy. apply in_app_or in Hy. destruct Hy as [Hy|Hy].
    + rewrite Forall_forall in Hall. apply Hall. exact Hy.
    + apply Hab; [left; reflexivity|exact Hy].
Qed.
